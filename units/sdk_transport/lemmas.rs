// ---- lemmas of unit sdk_transport: sequence algebra (technical) and the two parse lemmas that tie the frame layouts the two ends
// WRITE (req_frame / resp_frame, proved of the extracted writers) to what the other end READS (proved of the extracted readers).

// technical: reading `l` bytes at offset `a` of a wire
pub proof fn lemma_skip_take(s: Seq<u8>, a: int, l: int)
    ensures
        (0 <= a && 0 <= l && a + l <= s.len()) ==> (s.skip(a).take(l) == s.subrange(a, a + l) && s.skip(a).skip(l) == s.skip(a + l)
            && s.skip(a).len() == s.len() - a),
{
    if 0 <= a && 0 <= l && a + l <= s.len() {
        assert(s.skip(a).take(l) =~= s.subrange(a, a + l));
        assert(s.skip(a).skip(l) =~= s.skip(a + l));
    }
}

// technical: the four zero bytes of the server's STATUS_OK are the status word 0
pub proof fn lemma_le32_zero()
    ensures forall|s: Seq<u8>| #[trigger] all_zero4(s) ==> s == le32(0),
{
    axiom_le32_zero();
    let z = le32(0);
    assert forall|s: Seq<u8>| #[trigger] all_zero4(s) implies s == z by { assert(s =~= z); }
}

// label: C13.tcp.response.parse
// A response frame as the server writes it ([C13.tcp.response.frame]), followed by anything, is read by the client
// ([C13.tcp.response.ok-status], [.err-status], [.whole]) as exactly that status and exactly that payload, and leaves exactly `rest`.
pub proof fn lemma_response_parse(status: u32, payload: Seq<u8>, rest: Seq<u8>)
    requires
        payload.len() <= u32::MAX,
    ensures
        ({
            let inc = resp_frame(le32(status), payload) + rest;
            &&& 8 + payload.len() <= inc.len()
            &&& hdr_status(inc) == status
            &&& hdr_length(inc) == payload.len()
            &&& inc.subrange(8, 8 + payload.len() as int) == payload
            &&& inc.skip(8 + payload.len() as int) == rest
            &&& inc.skip(8) == payload + rest
        }),
{
    let inc = resp_frame(le32(status), payload) + rest;
    lemma_le32_at(status);
    lemma_le32_at(payload.len() as u32);
    assert(inc.subrange(0, 4) =~= le32(status));
    assert(inc.subrange(4, 8) =~= le32(payload.len() as u32));
    assert(inc.subrange(8, 8 + payload.len() as int) =~= payload);
    assert(inc.skip(8 + payload.len() as int) =~= rest);
    assert(inc.skip(8) =~= payload + rest);
}

// label: C13.tcp.request.parse
// A request frame as the client writes it ([C13.tcp.request.frame]) is read by the server's connection loop
// (server/src/tcp/connection_handler.rs: 4-byte length, then `length` bytes handed to ServerCommand::from_bytes; unit frame_gate:
// frame_code(b) = un_le32(b[0..4]), payload = b.skip(4)) as exactly one frame with this command code and this payload: the length
// counts the code and the payload, nothing of the frame is left on the wire and nothing of `rest` is taken.
pub proof fn lemma_request_parse(code: u32, payload: Seq<u8>, rest: Seq<u8>)
    requires
        payload.len() + 4 <= u32::MAX,
    ensures
        ({
            let out = req_frame(code, payload) + rest;
            let length = un_le32(out.subrange(0, 4));
            let frame = out.subrange(4, 4 + length as int);
            &&& length == payload.len() + 4
            &&& 4 + length <= out.len()
            &&& frame == le32(code) + payload
            &&& un_le32(frame.subrange(0, 4)) == code
            &&& frame.skip(4) == payload
            &&& out.skip(4 + length as int) == rest
        }),
{
    let out = req_frame(code, payload) + rest;
    lemma_le32_at(code);
    lemma_le32_at((payload.len() + 4) as u32);
    assert(out.subrange(0, 4) =~= le32((payload.len() + 4) as u32));
    let length = un_le32(out.subrange(0, 4));
    let frame = out.subrange(4, 4 + length as int);
    assert(frame =~= le32(code) + payload);
    assert(frame.subrange(0, 4) =~= le32(code));
    assert(frame.skip(4) =~= payload);
    assert(out.skip(4 + length as int) =~= rest);
}

// technical: the part of a history appended by one step
pub proof fn lemma_delta(out0: Seq<u8>, d: Seq<u8>)
    ensures (out0 + d).skip(out0.len() as int) == d,
{
    assert((out0 + d).skip(out0.len() as int) =~= d);
}

// ---- composition harnesses: client code over the EXTRACTED functions of both ends, so that "the SDK decodes what the server produced"
// is ONE obligation. The network is the antecedent `<reader>.incoming() == <what the writer really appended> + rest` (A-io: TCP / TLS
// deliver the written bytes in order); no layout is mentioned in it.

// label: C13.tcp.response.roundtrip.ok
// an ok response: what send_ok_response(payload) puts on the server's wire is returned by the client's send_raw as exactly `payload`,
// for every payload (below 4 GiB, not of length 1), and the client's wire then stands at `rest` (the next response)
pub fn harness_ok_response<T: AsyncRead + AsyncWrite + Unpin>(srv: &mut T, cli: &TcpClient, cs: &mut ConnectionStreamKind, code: u32, request: ByteSeq, payload: &[u8], Ghost(rest): Ghost<Seq<u8>>)
    -> (r: (Result<(), IggyError>, Result<ByteSeq, IggyError>))
    requires
        payload@.len() <= u32::MAX,
        payload@.len() != 1,      // no server response has a 1-byte body (observation O5: the client would drop it)
    ensures
        (r.0 is Ok && old(cs).incoming() == final(srv).outgoing().skip(old(srv).outgoing().len() as int) + rest) ==>
            (r.1 matches Ok(b) ==> b@ == payload@ && final(cs).incoming() == rest) && (r.1 matches Err(e) ==> transport_error(e)),
{
    let w = send_ok_response(srv, payload);
    proof {
        lemma_response_parse(0, payload@, rest);
        lemma_delta(old(srv).outgoing(), resp_frame(le32(0), payload@));
    }
    let got = cli.send_raw_io(cs, code, request);
    (w, got)
}

// label: C13.tcp.response.roundtrip.error
// an error response: the client's send_raw fails, and unless the transport itself failed, with exactly the error of the code the server sent
pub fn harness_error_response<T: AsyncRead + AsyncWrite + Unpin>(srv: &mut T, cli: &TcpClient, cs: &mut ConnectionStreamKind, code: u32, request: ByteSeq, error: IggyError, Ghost(rest): Ghost<Seq<u8>>)
    -> (r: (Result<(), IggyError>, Result<ByteSeq, IggyError>))
    requires
        error.code_spec() != 0,
    ensures
        (r.0 is Ok && old(cs).incoming() == final(srv).outgoing().skip(old(srv).outgoing().len() as int) + rest) ==>
            (r.1 matches Err(e) && (transport_error(e) || (e == IggyError::from_code_spec(error.code_spec()) && final(cs).incoming() == rest))),
{
    let ghost c = error.code_spec();
    let w = send_error_response(srv, error);
    proof {
        lemma_response_parse(c, Seq::<u8>::empty(), rest);
        lemma_delta(old(srv).outgoing(), resp_frame(le32(c), Seq::<u8>::empty()));
        assert(Seq::<u8>::empty() + rest =~= rest);
    }
    let got = cli.send_raw_io(cs, code, request);
    (w, got)
}

// label: C13.tcp.request.roundtrip
// a request: what the client's send_raw(code, payload) puts on its wire is read by the server's connection loop as ONE frame, and the
// request decoder is given exactly le32(code) ++ payload (unit frame_gate [C13.frame.dispatch.*]: code = first 4 bytes, payload = the rest);
// the server's wire then stands at `rest` (the next request)
pub fn harness_request(cli: &TcpClient, cs: &mut ConnectionStreamKind, sender: &mut SenderKind, code: u32, payload: ByteSeq, Ghost(rest): Ghost<Seq<u8>>)
    -> (r: (Result<ByteSeq, IggyError>, Result<LoopStep, ConnectionError>))
    requires
        payload@.len() + 4 <= u32::MAX,
    ensures
        (r.0 is Ok && old(sender).incoming() == final(cs).outgoing().skip(old(cs).outgoing().len() as int) + rest) ==>
            (r.1 matches Ok(LoopStep::Decoded(c)) ==> c == decode_spec(le32(code) + payload@) && final(sender).incoming() == rest),
{
    let ghost p = payload@;
    let got = cli.send_raw_io(cs, code, payload);
    proof {
        lemma_request_parse(code, p, rest);
        lemma_delta(old(cs).outgoing(), req_frame(code, p));
    }
    let step = tcp_read_frame(sender, [0u8; INITIAL_BYTES_LENGTH]);
    (got, step)
}
