// ---- unit prelude: sdk_transport (C13: "... over the binary framing"; response frame = status, length, payload) ---------------
// Stand-ins (R4) and spec vocabulary for the two ends of the binary TCP framing: sdk/src/tcp/client.rs and
// server/src/tcp/sender.rs. Nothing here re-states a function body of /repo.
//
// THE WIRE. One endpoint of a connection owns a stream object. Its ghost state (trait `Wire`) is
//   incoming()   the bytes of the peer that this endpoint has not taken yet, in order; a successful read takes from the FRONT
//   outgoing()   every byte this endpoint has handed to the stream so far, in order; a successful write APPENDS
//   flushed()    how many bytes of outgoing() have left the user-space buffers (BufWriter / TLS record buffer)
// Only the stubs of the tokio primitives below change them.

global size_of usize == 8;    // 64-bit target
use std::sync::Arc;

// --- opaque text (R10) ---
#[verifier::external_body]
#[derive(Debug)]
pub struct Name { s: String }
impl Name {
    #[verifier::external_body]
    pub fn opaque() -> (r: Name) { unimplemented!() }
}

// --- errors: the variants the transport code names; everything else is Other ---
#[derive(Debug)]
pub enum IggyError {
    TcpError,
    Disconnected,
    EmptyResponse,
    InvalidNumberEncoding,
    NotConnected,
    ConnectionClosed,
    InvalidCommand,
    CannotEstablishConnection,
    InvalidTlsDomain,
    CommandLengthError(Name),
    Other(u32),
}
impl IggyError {
    // the error-code table: sdk/src/error.rs (strum discriminants). Uninterpreted here (Kani tables of C13 are about it).
    pub uninterp spec fn from_code_spec(code: u32) -> IggyError;
    pub uninterp spec fn code_spec(&self) -> u32;
    #[verifier::external_body]
    pub fn from_code(code: u32) -> (r: IggyError) ensures r == IggyError::from_code_spec(code) { unimplemented!() }
    #[verifier::external_body]
    pub fn as_code(&self) -> (r: u32) ensures r == self.code_spec() { unimplemented!() }
}
// an error the transport itself raises (as opposed to a status word sent by the server)
pub open spec fn transport_error(e: IggyError) -> bool {
    e is TcpError || e is Disconnected || e is EmptyResponse || e is InvalidNumberEncoding
}
// strum `EnumDiscriminants` of IggyError: only the eight variants `handle_response` names, and only to choose a log level
pub enum IggyErrorDiscriminants {
    TopicIdAlreadyExists,
    TopicNameAlreadyExists,
    StreamIdAlreadyExists,
    StreamNameAlreadyExists,
    UserAlreadyExists,
    PersonalAccessTokenAlreadyExists,
    ConsumerGroupIdAlreadyExists,
    ConsumerGroupNameAlreadyExists,
}

// --- std::io::Error ---
#[derive(PartialEq, Eq)]
pub enum IoErrorKind { UnexpectedEof, Other }
impl vstd::std_specs::cmp::PartialEqSpecImpl for IoErrorKind {
    open spec fn obeys_eq_spec() -> bool { true }
    open spec fn eq_spec(&self, other: &IoErrorKind) -> bool { *self == *other }
}
pub struct IoError { pub k: IoErrorKind }
impl IoError {
    #[verifier::external_body]
    pub fn kind(&self) -> (r: IoErrorKind) ensures r == self.k { unimplemented!() }
}

// --- the wire and the tokio primitives (A-io, A-dep(tokio)) ---
pub trait Wire {
    spec fn incoming(&self) -> Seq<u8>;
    spec fn outgoing(&self) -> Seq<u8>;
    spec fn flushed(&self) -> nat;
}
// tokio::io::AsyncReadExt (blanket impl over AsyncRead): the two read primitives the code uses, with their TRUE contracts
pub trait AsyncRead: Wire + Sized {
    // read_exact: Ok(n) => n == buf.len() and the WHOLE buffer is the next n bytes of the wire. EOF before that is Err(UnexpectedEof).
    fn read_exact(&mut self, buf: &mut [u8]) -> (r: Result<usize, IoError>)
        ensures
            final(buf)@.len() == old(buf)@.len(),
            final(self).outgoing() == old(self).outgoing() && final(self).flushed() == old(self).flushed(),
            r matches Ok(n) ==> n == old(buf)@.len() && n <= old(self).incoming().len()
                && final(buf)@ == old(self).incoming().take(n as int)
                && final(self).incoming() == old(self).incoming().skip(n as int);
    // read: Ok(n) => 0 <= n <= buf.len(); ONLY the first n bytes of the buffer are written, the rest keeps its old content.
    // n < buf.len() is legal at any time (whatever has arrived; for a TLS stream at most the plaintext of one record, <= 16 KiB).
    fn read(&mut self, buf: &mut [u8]) -> (r: Result<usize, IoError>)
        ensures
            final(buf)@.len() == old(buf)@.len(),
            final(self).outgoing() == old(self).outgoing() && final(self).flushed() == old(self).flushed(),
            r matches Ok(n) ==> n <= old(buf)@.len() && n <= old(self).incoming().len()
                && final(buf)@ == old(self).incoming().take(n as int) + old(buf)@.skip(n as int)
                && final(self).incoming() == old(self).incoming().skip(n as int);
}
// tokio::io::AsyncWriteExt
pub trait AsyncWrite: Wire + Sized {
    // write_all: Ok => the whole buffer was accepted, in order. On Err some prefix may have been.
    fn write_all(&mut self, buf: &[u8]) -> (r: Result<(), IoError>)
        ensures
            final(self).incoming() == old(self).incoming(),
            old(self).flushed() <= final(self).flushed() <= final(self).outgoing().len(),
            r is Ok ==> final(self).outgoing() == old(self).outgoing() + buf@;
    // write: Ok(n) => the first n <= buf.len() bytes were accepted; n < buf.len() is legal at any time
    fn write(&mut self, buf: &[u8]) -> (r: Result<usize, IoError>)
        ensures
            final(self).incoming() == old(self).incoming(),
            old(self).flushed() <= final(self).flushed() <= final(self).outgoing().len(),
            r matches Ok(n) ==> n <= buf@.len() && final(self).outgoing() == old(self).outgoing() + buf@.take(n as int);
    // flush: Ok => everything accepted so far has left the buffers
    fn flush(&mut self) -> (r: Result<(), IoError>)
        ensures
            final(self).incoming() == old(self).incoming(),
            final(self).outgoing() == old(self).outgoing(),
            old(self).flushed() <= final(self).flushed() <= final(self).outgoing().len(),
            r is Ok ==> final(self).flushed() == final(self).outgoing().len();
}
// core::marker::Unpin (a marker: no operation)
pub trait Unpin {}

macro_rules! stream_standin {
    ($(($t:ident, $doc:literal)),*) => { $( verus! {
        #[verifier::external_body]
        pub struct $t { _p: u8 }
        impl Wire for $t {
            uninterp spec fn incoming(&self) -> Seq<u8>;
            uninterp spec fn outgoing(&self) -> Seq<u8>;
            uninterp spec fn flushed(&self) -> nat;
        }
        impl AsyncRead for $t {
            #[verifier::external_body]
            fn read_exact(&mut self, buf: &mut [u8]) -> (r: Result<usize, IoError>) { unimplemented!() }
            #[verifier::external_body]
            fn read(&mut self, buf: &mut [u8]) -> (r: Result<usize, IoError>) { unimplemented!() }
        }
        impl AsyncWrite for $t {
            #[verifier::external_body]
            fn write_all(&mut self, buf: &[u8]) -> (r: Result<(), IoError>) { unimplemented!() }
            #[verifier::external_body]
            fn write(&mut self, buf: &[u8]) -> (r: Result<usize, IoError>) { unimplemented!() }
            #[verifier::external_body]
            fn flush(&mut self) -> (r: Result<(), IoError>) { unimplemented!() }
        }
        impl Unpin for $t {}
    } )* }
}
stream_standin!(
    (TokioBufReader, "tokio::io::BufReader<tokio::net::tcp::OwnedReadHalf> (client, plain TCP: the read half)"),
    (TokioBufWriter, "tokio::io::BufWriter<tokio::net::tcp::OwnedWriteHalf> (client, plain TCP: the write half)"),
    (ClientTlsStream, "tokio_rustls::client::TlsStream<tokio::net::TcpStream> (client, TLS)"),
    (TcpStream, "tokio::net::TcpStream (server, plain TCP)"),
    (NativeTlsStream, "tokio_native_tls::TlsStream<tokio::net::TcpStream> (server, TLS)"));

#[verifier::external_body]
#[derive(Clone, Copy)]
pub struct SocketAddr { _p: u8 }

// tokio_rustls::TlsStream<TcpStream>: `Client(client::TlsStream)` | `Server(..)`; the SDK only ever builds the Client variant.
// Reads and writes go to the session inside (tokio_rustls `impl AsyncRead/AsyncWrite for TlsStream`: `match self { Client(x) => x.poll_*, .. }`)
pub enum TlsStream { Client(ClientTlsStream) }
impl Wire for TlsStream {
    open spec fn incoming(&self) -> Seq<u8> { self->Client_0.incoming() }
    open spec fn outgoing(&self) -> Seq<u8> { self->Client_0.outgoing() }
    open spec fn flushed(&self) -> nat { self->Client_0.flushed() }
}
impl AsyncRead for TlsStream {
    #[verifier::external_body]
    fn read_exact(&mut self, buf: &mut [u8]) -> (r: Result<usize, IoError>) { unimplemented!() }
    #[verifier::external_body]
    fn read(&mut self, buf: &mut [u8]) -> (r: Result<usize, IoError>) { unimplemented!() }
}
impl AsyncWrite for TlsStream {
    #[verifier::external_body]
    fn write_all(&mut self, buf: &[u8]) -> (r: Result<(), IoError>) { unimplemented!() }
    #[verifier::external_body]
    fn write(&mut self, buf: &[u8]) -> (r: Result<usize, IoError>) { unimplemented!() }
    #[verifier::external_body]
    fn flush(&mut self) -> (r: Result<(), IoError>) { unimplemented!() }
}

// --- the client's connection: plain TCP = reader half + writer half of ONE socket, TLS = one stream object ---
impl TcpConnectionStream {
    pub open spec fn incoming(&self) -> Seq<u8> { self.reader.incoming() }
    pub open spec fn outgoing(&self) -> Seq<u8> { self.writer.outgoing() }
    pub open spec fn flushed(&self) -> nat { self.writer.flushed() }
}
impl TcpTlsConnectionStream {
    pub open spec fn incoming(&self) -> Seq<u8> { self.stream.incoming() }
    pub open spec fn outgoing(&self) -> Seq<u8> { self.stream.outgoing() }
    pub open spec fn flushed(&self) -> nat { self.stream.flushed() }
}
impl ConnectionStreamKind {
    pub open spec fn incoming(&self) -> Seq<u8> {
        match self { ConnectionStreamKind::Tcp(c) => c.incoming(), ConnectionStreamKind::TcpTls(c) => c.incoming() }
    }
    pub open spec fn outgoing(&self) -> Seq<u8> {
        match self { ConnectionStreamKind::Tcp(c) => c.outgoing(), ConnectionStreamKind::TcpTls(c) => c.outgoing() }
    }
    pub open spec fn flushed(&self) -> nat {
        match self { ConnectionStreamKind::Tcp(c) => c.flushed(), ConnectionStreamKind::TcpTls(c) => c.flushed() }
    }
    // the kind of a connection never changes
    pub open spec fn same_kind(&self, o: &ConnectionStreamKind) -> bool {
        (self is Tcp) == (o is Tcp)
    }
}

// --- THE CONTRACT OF THE CLIENT'S STREAM LAYER (what `send_raw` / `handle_response` rely on: they ignore or equality-test the
// returned count). Stated once, used for TcpConnectionStream, TcpTlsConnectionStream and ConnectionStreamKind alike. ---
// read(buf) = Ok(n): the WHOLE buffer holds the next buf.len() bytes of the wire, which are taken from it; nothing is sent
pub open spec fn read_filled(inc0: Seq<u8>, inc1: Seq<u8>, len: nat, buf1: Seq<u8>, n: usize) -> bool {
    n == len && len <= inc0.len() && buf1 == inc0.take(len as int) && inc1 == inc0.skip(len as int)
}

// --- frame layouts (from the property's state: "request frame: length, command code, payload", "response frame: status,
// length, payload") ---
// request: length counts the command code and the payload (what the server's connection loop reads after the 4-byte length)
pub open spec fn req_frame(code: u32, payload: Seq<u8>) -> Seq<u8> {
    le32((payload.len() + 4) as u32) + le32(code) + payload
}
// response: status word, payload length, payload
pub open spec fn resp_frame(status: Seq<u8>, payload: Seq<u8>) -> Seq<u8> {
    status + le32(payload.len() as u32) + payload
}
// the client's reading of the front of its wire as a response frame
pub open spec fn hdr_status(inc: Seq<u8>) -> u32 { un_le32(inc.subrange(0, 4)) }
pub open spec fn hdr_length(inc: Seq<u8>) -> u32 { un_le32(inc.subrange(4, 8)) }

// --- Bytes / BytesMut deref to [u8] (`stream.write(&payload)`, `stream.read(&mut response_buffer)`) ---
impl core::ops::Deref for ByteSeq {
    type Target = [u8];
    #[verifier::external_body]
    fn deref(&self) -> (r: &[u8]) ensures r@ == self@ { unimplemented!() }
}
impl core::ops::DerefMut for ByteSeq {
    #[verifier::external_body]
    fn deref_mut(&mut self) -> (r: &mut [u8]) ensures r@ == old(self)@, final(self)@ == final(r)@ { unimplemented!() }
}

// --- <[&[u8]]>::concat (R4-concat): the slices one after the other ---
pub open spec fn concat_all(s: Seq<&[u8]>) -> Seq<u8>
    decreases s.len()
{
    if s.len() == 0 { Seq::<u8>::empty() } else { concat_all(s.drop_last()) + s.last()@ }
}
pub trait ConcatBytes { fn concat_bytes(&self) -> Vec<u8>; }
impl<'a> ConcatBytes for [&'a [u8]] {
    #[verifier::external_body]
    fn concat_bytes(&self) -> (r: Vec<u8>) ensures r@ == concat_all(self@) { unimplemented!() }
}

// the server's `sender::` module path (tcp_sender.rs / tcp_tls_sender.rs call `sender::read(..)` etc.): the extracted functions
pub mod sender { pub use super::{read, send_empty_ok_response, send_ok_response, send_error_response}; }

// the value of the server's STATUS_OK constant (proved of its extracted initializer, see unit.toml R12-const)
pub open spec fn all_zero4(s: Seq<u8>) -> bool { s.len() == 4 && forall|i: int| 0 <= i < 4 ==> s[i] == 0 }

// --- R8 schema for Result::map_err (std semantics): the closure body is lifted verbatim as the ghost function `f` ---
pub trait MapErrSpec<T, E> { fn map_err_spec<F>(self, f: Ghost<spec_fn(E) -> F>) -> Result<T, F>; }
impl<T, E> MapErrSpec<T, E> for Result<T, E> {
    #[verifier::external_body]
    fn map_err_spec<F>(self, Ghost(f): Ghost<spec_fn(E) -> F>) -> (r: Result<T, F>)
        ensures
            self matches Ok(v) ==> r == Ok::<T, F>(v),
            self matches Err(e) ==> r == Err::<T, F>(f(e)),
    { unimplemented!() }
}
// A-math: the little-endian bytes of 0u32 are four zero bytes. (vstd keeps `spec_u32_to_le_bytes` closed and exports only the
// bijection lemma, so this one value of the encoding has to be stated; it ties the server's STATUS_OK = [0; 4] to `status == 0`.)
#[verifier::external_body]
pub proof fn axiom_le32_zero()
    ensures le32(0) == Seq::new(4, |i: int| 0u8),
{}

// --- the server's connection loop (server/src/tcp/connection_handler.rs), byte level -----------------------------------------------
// SenderKind (binary/sender.rs) is generated by `forward_async_methods!`: `Tcp(d) => d.read(buffer)`, `TcpTls(s) => s.read(buffer)`.
// Its `read` carries the contract PROVED above of both TcpSender::read and TcpTlsSender::read ([C13.tcp.server.read.plain/.tls]).
#[verifier::external_body]
pub struct SenderKind { _p: u8 }
impl SenderKind {
    pub uninterp spec fn incoming(&self) -> Seq<u8>;
    pub uninterp spec fn outgoing(&self) -> Seq<u8>;
    #[verifier::external_body]
    pub fn read(&mut self, buffer: &mut [u8]) -> (r: Result<usize, IggyError>)
        ensures
            final(buffer)@.len() == old(buffer)@.len(),
            final(self).outgoing() == old(self).outgoing(),
            r matches Ok(n) ==> read_filled(old(self).incoming(), final(self).incoming(), old(buffer)@.len(), final(buffer)@, n),
    { unimplemented!() }
    #[verifier::external_body]
    pub fn send_error_response(&mut self, error: IggyError) -> (r: Result<(), IggyError>)
        ensures
            final(self).incoming() == old(self).incoming(),
    { unimplemented!() }
}
// server_error::ConnectionError (error_set!): only `From<IggyError>` is used by the loop (`ConnectionError::from(e)` and `?`)
#[derive(Debug)]
pub enum ConnectionError { SdkError(IggyError), Other }
impl From<IggyError> for ConnectionError {
    fn from(e: IggyError) -> (r: ConnectionError) ensures r == ConnectionError::SdkError(e) { ConnectionError::SdkError(e) }
}
impl vstd::std_specs::convert::FromSpecImpl<IggyError> for ConnectionError {
    open spec fn obeys_from_spec() -> bool { true }
    open spec fn from_spec(e: IggyError) -> ConnectionError { ConnectionError::SdkError(e) }
}
// the request decoder (server/src/command.rs; units frame_gate / codec_requests* are about it): opaque here, a function of the bytes
#[verifier::external_body]
pub struct ServerCommand { _p: u8 }
pub uninterp spec fn decode_spec(b: Seq<u8>) -> Result<ServerCommand, IggyError>;
impl ServerCommand {
    #[verifier::external_body]
    pub fn from_bytes(bytes: ByteSeq) -> (r: Result<ServerCommand, IggyError>) ensures r == decode_spec(bytes@) { unimplemented!() }
}
// control transfers out of one iteration of the loop (R11 slice, see unit.toml): `continue` / the decoder's verdict on the frame read
pub enum LoopStep { Continue, Decoded(Result<ServerCommand, IggyError>) }

// --- establishing the TLS connection (TcpClient::connect, TLS branch) --------------------------------------------------------------
// which remote endpoint a socket / a TLS session over a socket talks to
impl TcpStream {
    pub uninterp spec fn peer(&self) -> SocketAddr;
    // tokio::net::TcpStream::connect(addr): a NEW connection, to `addr`
    #[verifier::external_body]
    pub fn connect(addr: SocketAddr) -> (r: Result<TcpStream, IoError>)
        ensures r matches Ok(s) ==> s.peer() == addr,
    { unimplemented!() }
}
impl ClientTlsStream {
    pub uninterp spec fn peer(&self) -> SocketAddr;
}
#[verifier::external_body]
pub struct RustlsClientConfig { _p: u8 }
#[verifier::external_body]
pub struct ServerName { _p: u8 }
pub struct InvalidDnsNameError { pub p: u8 }
impl ServerName {
    #[verifier::external_body]
    pub fn try_from(name: Name) -> (r: Result<ServerName, InvalidDnsNameError>) { unimplemented!() }
}
#[verifier::external_body]
pub struct TlsConnector { _p: u8 }
impl TlsConnector {
    #[verifier::external_body]
    pub fn from(config: std::sync::Arc<RustlsClientConfig>) -> (r: TlsConnector) { unimplemented!() }
    // tokio_rustls::TlsConnector::connect(domain, stream): the TLS handshake runs over `stream`; the session talks to stream's peer
    #[verifier::external_body]
    pub fn connect(&self, domain: ServerName, stream: TcpStream) -> (r: Result<ClientTlsStream, IoError>)
        ensures r matches Ok(t) ==> t.peer() == stream.peer(),
    { unimplemented!() }
}
// sdk TcpClientConfig: only the field the slice reads (`tls_domain: String`, an opaque text here)
pub struct TcpClientConfig { pub tls_domain: Name }
impl Name {
    #[verifier::external_body]
    pub fn to_owned(&self) -> (r: Name) { unimplemented!() }
}
