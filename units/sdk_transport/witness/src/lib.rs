//! Witness for F140 / F141 (unit sdk_transport, property C13).
//! The module `tcp::client` below IS sdk/src/tcp/client.rs of the tree under test (copied verbatim by build.rs); every other
//! SDK module it names through `crate::` is the one of the `iggy` crate. Nothing of the client is re-typed here.
#![allow(dead_code, unused_imports, clippy::all)]

pub use iggy::{binary, command, diagnostic, utils};
// Two names that client.rs imports are crate-private in the SDK; they are shimmed here. Neither is on a path under test:
// `ConnectionString` is used by `TcpClient::from_connection_string` only, `IggyErrorDiscriminants` only to choose the log level of
// an error status in `handle_response` (values copied from sdk/src/error.rs).
pub mod client {
    pub use iggy::client::*;
    pub struct ConnectionString;
    impl std::str::FromStr for ConnectionString {
        type Err = iggy::error::IggyError;
        fn from_str(_: &str) -> Result<Self, Self::Err> {
            Err(iggy::error::IggyError::InvalidConnectionString)
        }
    }
    impl From<ConnectionString> for iggy::tcp::config::TcpClientConfig {
        fn from(_: ConnectionString) -> Self {
            Self::default()
        }
    }
}
pub mod error {
    pub use iggy::error::*;
    #[repr(u32)]
    pub enum IggyErrorDiscriminants {
        UserAlreadyExists = 46,
        PersonalAccessTokenAlreadyExists = 51,
        StreamIdAlreadyExists = 1011,
        StreamNameAlreadyExists = 1012,
        TopicIdAlreadyExists = 2012,
        TopicNameAlreadyExists = 2013,
        ConsumerGroupIdAlreadyExists = 5001,
        ConsumerGroupNameAlreadyExists = 5004,
    }
}
pub mod tcp {
    pub use iggy::tcp::config;
    pub mod client {
        include!(concat!(env!("OUT_DIR"), "/client.rs"));
    }
}

#[cfg(test)]
mod tests {
    use crate::binary::{BinaryTransport, ClientState};
    use crate::client::Client;
    use crate::tcp::client::{ConnectionStreamKind, TcpClient, TcpTlsConnectionStream};
    use crate::tcp::config::{TcpClientConfig, TcpClientReconnectionConfig};
    use bytes::Bytes;
    use rustls::pki_types::{CertificateDer, PrivateKeyDer, PrivatePkcs8KeyDer, ServerName};
    use std::net::SocketAddr;
    use std::sync::Arc;
    use std::time::Duration;
    use tokio::io::{AsyncRead, AsyncReadExt, AsyncWrite, AsyncWriteExt};
    use tokio::net::{TcpListener, TcpStream};
    use tokio_rustls::{TlsAcceptor, TlsConnector, TlsStream};

    const LARGE: usize = 100 * 1024; // one polled 100 KiB message is larger than this response

    fn pattern(n: usize) -> Vec<u8> {
        (0..n).map(|i| (i % 251) as u8 + 1).collect() // never 0: zero padding is visible
    }

    /// what server/src/tcp/sender.rs::send_response puts on the wire: status ++ le32(len) ++ payload
    fn response_frame(status: u32, payload: &[u8]) -> Vec<u8> {
        [&status.to_le_bytes()[..], &(payload.len() as u32).to_le_bytes()[..], payload].concat()
    }

    /// a peer that speaks the server's side of the framing (connection_handler.rs): per request frame
    /// (le32 length, then `length` bytes) it answers with the next scripted response frame
    async fn serve<S: AsyncRead + AsyncWrite + Unpin>(mut stream: S, responses: Vec<Vec<u8>>) {
        for response in responses {
            let mut length = [0u8; 4];
            if stream.read_exact(&mut length).await.is_err() {
                return;
            }
            let mut frame = vec![0u8; u32::from_le_bytes(length) as usize];
            if stream.read_exact(&mut frame).await.is_err() {
                return;
            }
            stream.write_all(&response).await.unwrap();
            stream.flush().await.unwrap();
        }
        // keep the connection open so that a mis-framed client blocks/times out instead of seeing EOF
        tokio::time::sleep(Duration::from_secs(5)).await;
    }

    struct TlsPeer {
        address: SocketAddr,
        certificate: CertificateDer<'static>,
        ca_file: String,
    }

    async fn start_tls_peer(responses: Vec<Vec<u8>>, tag: &str) -> TlsPeer {
        let _ = rustls::crypto::ring::default_provider().install_default();
        let rcgen::CertifiedKey { cert, key_pair } =
            rcgen::generate_simple_self_signed(vec!["localhost".to_string()]).unwrap();
        let certificate = cert.der().clone();
        let ca_file = format!("/var/tmp/sdk_transport/witness_ca_{tag}_{}.pem", std::process::id());
        std::fs::create_dir_all("/var/tmp/sdk_transport").unwrap();
        std::fs::write(&ca_file, cert.pem()).unwrap();
        let key = PrivateKeyDer::Pkcs8(PrivatePkcs8KeyDer::from(key_pair.serialize_der()));
        let config = rustls::ServerConfig::builder()
            .with_no_client_auth()
            .with_single_cert(vec![certificate.clone()], key)
            .unwrap();
        let acceptor = TlsAcceptor::from(Arc::new(config));
        let listener = TcpListener::bind("127.0.0.1:0").await.unwrap();
        let address = listener.local_addr().unwrap();
        tokio::spawn(async move {
            // the real client dials twice when TLS is enabled (client.rs `connect`): accept until a TLS handshake succeeds
            loop {
                let (tcp, _) = listener.accept().await.unwrap();
                let acceptor = acceptor.clone();
                let responses = responses.clone();
                tokio::spawn(async move {
                    if let Ok(tls) = acceptor.accept(tcp).await {
                        serve(tls, responses).await;
                    }
                });
            }
        });
        TlsPeer { address, certificate, ca_file }
    }

    /// a TcpClient whose stream is a REAL rustls TLS connection to `peer`, wrapped in the client's own TcpTlsConnectionStream
    async fn tls_client(peer: &TlsPeer) -> TcpClient {
        let mut roots = rustls::RootCertStore::empty();
        roots.add(peer.certificate.clone()).unwrap();
        let config = rustls::ClientConfig::builder().with_root_certificates(roots).with_no_client_auth();
        let connector = TlsConnector::from(Arc::new(config));
        let tcp = TcpStream::connect(peer.address).await.unwrap();
        let local = tcp.local_addr().unwrap();
        let tls = connector.connect(ServerName::try_from("localhost").unwrap(), tcp).await.unwrap();
        let client = TcpClient::create(Arc::new(TcpClientConfig {
            server_address: peer.address.to_string(),
            tls_enabled: true,
            reconnection: TcpClientReconnectionConfig { enabled: false, ..Default::default() },
            ..Default::default()
        }))
        .unwrap();
        client
            .stream
            .lock()
            .await
            .replace(ConnectionStreamKind::TcpTls(TcpTlsConnectionStream::new(local, TlsStream::Client(tls))));
        client.set_state(ClientState::Connected).await;
        client
    }

    async fn call(client: &TcpClient, code: u32) -> Result<Bytes, String> {
        match tokio::time::timeout(Duration::from_secs(3), client.send_raw_with_response(code, Bytes::new())).await {
            Ok(Ok(bytes)) => Ok(bytes),
            Ok(Err(error)) => Err(format!("Err({error:?})")),
            Err(_) => Err("timed out waiting for a response".to_string()),
        }
    }

    fn describe(got: &Result<Bytes, String>, want: &[u8]) -> String {
        match got {
            Err(e) => e.clone(),
            Ok(b) if b.as_ref() == want => format!("intact ({} bytes)", b.len()),
            Ok(b) => {
                let same = b.iter().zip(want.iter()).take_while(|(x, y)| x == y).count();
                let zeros = b.iter().skip(same).filter(|x| **x == 0).count();
                format!(
                    "CORRUPT: {} bytes returned, {} expected; first {} bytes agree, {} of the remaining {} are zero padding",
                    b.len(), want.len(), same, zeros, b.len() - same
                )
            }
        }
    }

    /// F140: [C13.tcp.stream.read.tls] / [C13.tcp.response.body] over a real TLS connection
    #[tokio::test(flavor = "multi_thread", worker_threads = 2)]
    async fn f140_tls_response_larger_than_one_record() {
        let large = pattern(LARGE);
        let second = b"second response".to_vec();
        let peer = start_tls_peer(vec![response_frame(0, &large), response_frame(0, &second)], "f140").await;
        let client = tls_client(&peer).await;
        let first = call(&client, 1).await;
        println!("F140 response 1 ({} bytes sent after the header): {}", LARGE, describe(&first, &large));
        let next = call(&client, 1).await;
        println!("F140 response 2 ({} bytes sent): {}", second.len(), describe(&next, &second));
        let _ = std::fs::remove_file(&peer.ca_file);
        assert_eq!(first.as_ref().map(|b| b.as_ref()), Ok(&large[..]), "the body is not the bytes the server sent");
        assert_eq!(next.as_ref().map(|b| b.as_ref()), Ok(&second[..]), "the next response is mis-framed");
    }

    /// control: the same exchange over plain TCP (read_exact) is intact on every tree
    #[tokio::test(flavor = "multi_thread", worker_threads = 2)]
    async fn control_plain_tcp_large_response() {
        let large = pattern(LARGE);
        let second = b"second response".to_vec();
        let responses = vec![response_frame(0, &large), response_frame(0, &second)];
        let listener = TcpListener::bind("127.0.0.1:0").await.unwrap();
        let address = listener.local_addr().unwrap();
        tokio::spawn(async move {
            let (tcp, _) = listener.accept().await.unwrap();
            serve(tcp, responses).await;
        });
        let client = plain_client(address).await;
        let first = call(&client, 1).await;
        println!("plain TCP response 1: {}", describe(&first, &large));
        let next = call(&client, 1).await;
        println!("plain TCP response 2: {}", describe(&next, &second));
        assert_eq!(first.as_ref().map(|b| b.as_ref()), Ok(&large[..]));
        assert_eq!(next.as_ref().map(|b| b.as_ref()), Ok(&second[..]));
    }

    async fn plain_client(address: SocketAddr) -> TcpClient {
        let client = TcpClient::create(Arc::new(TcpClientConfig {
            server_address: address.to_string(),
            reconnection: TcpClientReconnectionConfig { enabled: false, ..Default::default() },
            ..Default::default()
        }))
        .unwrap();
        Client::connect(&client).await.unwrap();
        client
    }

    /// F141: [C13.tcp.response.len1] - a one-byte body (scripted peer: no mapper of the current server produces one)
    #[tokio::test(flavor = "multi_thread", worker_threads = 2)]
    #[ignore = "observation O5 (DESIGN.md 11.7): latent, no server response has a 1-byte body; not repaired"]
    async fn f141_one_byte_body() {
        let one = vec![0x2au8];
        let second = b"second response".to_vec();
        let responses = vec![response_frame(0, &one), response_frame(0, &second)];
        let listener = TcpListener::bind("127.0.0.1:0").await.unwrap();
        let address = listener.local_addr().unwrap();
        tokio::spawn(async move {
            let (tcp, _) = listener.accept().await.unwrap();
            serve(tcp, responses).await;
        });
        let client = plain_client(address).await;
        let first = call(&client, 1).await;
        println!("F141 response 1 (1 byte sent): {}", describe(&first, &one));
        let next = call(&client, 1).await;
        println!("F141 response 2 ({} bytes sent): {}", second.len(), describe(&next, &second));
        assert_eq!(first.as_ref().map(|b| b.as_ref()), Ok(&one[..]), "the one-byte body was dropped");
        assert_eq!(next.as_ref().map(|b| b.as_ref()), Ok(&second[..]), "the next response is mis-framed");
    }

    /// F142 (found by this witness, no clause of the unit): TcpClient::connect with tls_enabled dials `client_address` - the
    /// client's OWN local address (client.rs:522) - for the TLS connection instead of using the connection to the server it has
    /// just opened, so a TLS client never connects. With F142 repaired the whole path is the public API: connect over TLS, then a
    /// response larger than one TLS record (F140 again, end to end).
    #[tokio::test(flavor = "multi_thread", worker_threads = 2)]
    async fn f142_tls_connect_then_large_response() {
        let large = pattern(LARGE);
        let peer = start_tls_peer(vec![response_frame(0, &large), response_frame(0, b"pong")], "connect").await;
        let client = TcpClient::create(Arc::new(TcpClientConfig {
            server_address: peer.address.to_string(),
            tls_enabled: true,
            tls_domain: "localhost".to_string(),
            tls_ca_file: Some(peer.ca_file.clone()),
            reconnection: TcpClientReconnectionConfig { enabled: false, ..Default::default() },
            ..Default::default()
        }))
        .unwrap();
        let connected = tokio::time::timeout(Duration::from_secs(5), Client::connect(&client)).await;
        println!("F142 TcpClient::connect with tls_enabled against a TLS listener: {connected:?}");
        let _ = std::fs::remove_file(&peer.ca_file);
        assert!(matches!(connected, Ok(Ok(()))), "a TLS client cannot connect");
        let first = call(&client, 1).await;
        println!("F142 response 1 after a real TLS connect: {}", describe(&first, &large));
        let next = call(&client, 1).await;
        println!("F142 response 2: {}", describe(&next, b"pong"));
        assert_eq!(first.as_ref().map(|b| b.as_ref()), Ok(&large[..]));
        assert_eq!(next.as_ref().map(|b| b.as_ref()), Ok(&b"pong"[..]));
    }
}
