#!/bin/sh
# usage: ./run.sh [tree]      tree = /repo (default) or a repaired worktree; only sdk/src/tcp/client.rs is taken from it
cd "$(dirname "$0")"
export VERIF_REPO="${1:-/repo}" CARGO_TARGET_DIR="${CARGO_TARGET_DIR:-/var/tmp/sdk_transport_target}" CARGO_NET_OFFLINE=true
RUST_BACKTRACE=0 exec cargo test --offline -- --test-threads=1 --nocapture
