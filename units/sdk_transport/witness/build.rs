use std::{env, fs, path::PathBuf};
fn main() {
    let repo = env::var("VERIF_REPO").unwrap_or_else(|_| "/repo".to_string());
    let src = PathBuf::from(&repo).join("sdk/src/tcp/client.rs");
    let out = PathBuf::from(env::var("OUT_DIR").unwrap()).join("client.rs");
    fs::copy(&src, &out).expect("copy client.rs");
    println!("cargo:rerun-if-env-changed=VERIF_REPO");
    println!("cargo:rerun-if-changed={}", src.display());
}
