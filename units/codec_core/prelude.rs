// codec_core has no unit-private prelude: stand-ins, the wire-format specification (`enc_*`, `*_code`, `*_valid`) and the
// layout lemmas live in vx/prelude/wire_core.rs (shared with codec_requests), the byte model in vx/prelude/bytes.rs.
