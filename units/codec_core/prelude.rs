// ---- unit prelude: codec_core (C13, binary codecs of the core wire types) ---------------------------------------------
// Stand-ins (R4), the wire-format specification (`enc_*`, `*_code`, `*_valid`) and nothing else. No body of /repo is
// re-typed here: the `enc_*` functions are the wire layout as the protocol documents it (kind code, length, payload;
// integers little-endian) and BOTH directions of every pair are checked against them.

global size_of usize == 8;   // 64-bit target (u8/u32 lengths widen losslessly to usize)

// the error variants the extracted text builds
pub enum IggyError { InvalidIdentifier, InvalidCommand, InvalidNumberEncoding, Other }

// IggyByteSize: a byte count (byte_unit::Byte inside). From<u64> / as_bytes_u64 / as_bytes_usize are mutually inverse
// conversions of the same number (sdk/src/utils/byte_size.rs).
#[derive(Clone, Copy)]
pub struct IggyByteSize(pub u64);
impl From<u64> for IggyByteSize {
    fn from(byte_size: u64) -> (r: Self) { IggyByteSize(byte_size) }
}
impl vstd::std_specs::convert::FromSpecImpl<u64> for IggyByteSize {
    open spec fn obeys_from_spec() -> bool { true }
    open spec fn from_spec(v: u64) -> Self { IggyByteSize(v) }
}
impl IggyByteSize {
    pub fn as_bytes_u64(&self) -> (r: u64) ensures r == self.0, { self.0 }
    pub fn as_bytes_usize(&self) -> (r: usize) ensures r == self.0, { self.0 as usize }
}

// derived PartialEq on field-less enums is structural equality (A-std)
impl vstd::std_specs::cmp::PartialEqSpecImpl for IdKind {
    open spec fn obeys_eq_spec() -> bool { true }
    open spec fn eq_spec(&self, other: &IdKind) -> bool { *self == *other }
}
impl vstd::std_specs::cmp::PartialEqSpecImpl for ConsumerKind {
    open spec fn obeys_eq_spec() -> bool { true }
    open spec fn eq_spec(&self, other: &ConsumerKind) -> bool { *self == *other }
}
impl vstd::std_specs::cmp::PartialEqSpecImpl for PartitioningKind {
    open spec fn obeys_eq_spec() -> bool { true }
    open spec fn eq_spec(&self, other: &PartitioningKind) -> bool { *self == *other }
}
impl vstd::std_specs::cmp::PartialEqSpecImpl for PollingKind {
    open spec fn obeys_eq_spec() -> bool { true }
    open spec fn eq_spec(&self, other: &PollingKind) -> bool { *self == *other }
}

// ---- the wire format (specification) ----------------------------------------------------------------------------------
// code tables of the binary protocol (one byte each)
pub open spec fn idkind_code(k: IdKind) -> u8 { match k { IdKind::Numeric => 1, IdKind::String => 2 } }
pub open spec fn consumerkind_code(k: ConsumerKind) -> u8 { match k { ConsumerKind::Consumer => 1, ConsumerKind::ConsumerGroup => 2 } }
pub open spec fn partitioningkind_code(k: PartitioningKind) -> u8 {
    match k { PartitioningKind::Balanced => 1, PartitioningKind::PartitionId => 2, PartitioningKind::MessagesKey => 3 }
}
pub open spec fn pollingkind_code(k: PollingKind) -> u8 {
    match k { PollingKind::Offset => 1, PollingKind::Timestamp => 2, PollingKind::First => 3, PollingKind::Last => 4, PollingKind::Next => 5 }
}

// Identifier:  kind:u8 | length:u8 | value[length]          (length 1..=255; numeric identifiers carry 4 bytes)
pub open spec fn enc_identifier(i: Identifier) -> Seq<u8> { seq![idkind_code(i.kind), i.length] + i.value@ }
pub open spec fn id_valid(i: Identifier) -> bool {
    i.length >= 1 && i.value@.len() == i.length && (i.kind == IdKind::Numeric ==> i.length == 4)
}
// equality of the Rust values (derived PartialEq compares the Vec contents)
pub open spec fn id_eq(a: Identifier, b: Identifier) -> bool { a.kind == b.kind && a.length == b.length && a.value@ == b.value@ }

// Consumer:  kind:u8 | Identifier
pub open spec fn enc_consumer(c: Consumer) -> Seq<u8> { seq![consumerkind_code(c.kind)] + enc_identifier(c.id) }
pub open spec fn consumer_valid(c: Consumer) -> bool { id_valid(c.id) }
pub open spec fn consumer_eq(a: Consumer, b: Consumer) -> bool { a.kind == b.kind && id_eq(a.id, b.id) }

// Partitioning:  kind:u8 | length:u8 | value[length]        (length 0 for Balanced, 4 for PartitionId, 1..=255 for MessagesKey)
pub open spec fn enc_partitioning(p: Partitioning) -> Seq<u8> { seq![partitioningkind_code(p.kind), p.length] + p.value@ }
pub open spec fn part_valid(p: Partitioning) -> bool { p.value@.len() == p.length }
pub open spec fn part_eq(a: Partitioning, b: Partitioning) -> bool { a.kind == b.kind && a.length == b.length && a.value@ == b.value@ }

// PollingStrategy:  kind:u8 | value:u64 LE
pub open spec fn enc_strategy(s: PollingStrategy) -> Seq<u8> { seq![pollingkind_code(s.kind)] + le64(s.value) }
