// ---- labelled lemmas of codec_core: properties of the wire-format SPECIFICATION (no executable code is mentioned) ------
// Together with [C13.enc.<T>] (encoder == enc_T) and [C13.rt/prefix.<T>] (decoder inverts enc_T) they give agreement:
// the encodings are injective / prefix-free, so no two different valid values share a frame.

// label: C13.code.IdKind.inj
pub proof fn c13_code_idkind_injective()
    ensures forall|a: IdKind, b: IdKind| idkind_code(a) == idkind_code(b) ==> a == b,
{ lemma_idkind_code_injective(); }
// label: C13.code.ConsumerKind.inj
pub proof fn c13_code_consumerkind_injective()
    ensures forall|a: ConsumerKind, b: ConsumerKind| consumerkind_code(a) == consumerkind_code(b) ==> a == b,
{ lemma_consumerkind_code_injective(); }
// label: C13.code.PartitioningKind.inj
pub proof fn c13_code_partitioningkind_injective()
    ensures forall|a: PartitioningKind, b: PartitioningKind| partitioningkind_code(a) == partitioningkind_code(b) ==> a == b,
{ lemma_partitioningkind_code_injective(); }
// label: C13.code.PollingKind.inj
pub proof fn c13_code_pollingkind_injective()
    ensures forall|a: PollingKind, b: PollingKind| pollingkind_code(a) == pollingkind_code(b) ==> a == b,
{ lemma_pollingkind_code_injective(); }

// label: C13.inj.Identifier
pub proof fn c13_inj_identifier(a: Identifier, ra: Seq<u8>, b: Identifier, rb: Seq<u8>)
    requires id_valid(a), id_valid(b), enc_identifier(a) + ra == enc_identifier(b) + rb,
    ensures id_eq(a, b), ra == rb,
{ lemma_identifier_prefix_free(a, ra, b, rb); }
// label: C13.inj.Consumer
pub proof fn c13_inj_consumer(a: Consumer, ra: Seq<u8>, b: Consumer, rb: Seq<u8>)
    requires consumer_valid(a), consumer_valid(b), enc_consumer(a) + ra == enc_consumer(b) + rb,
    ensures consumer_eq(a, b), ra == rb,
{ lemma_consumer_prefix_free(a, ra, b, rb); }
// label: C13.inj.Partitioning
pub proof fn c13_inj_partitioning(a: Partitioning, ra: Seq<u8>, b: Partitioning, rb: Seq<u8>)
    requires part_valid(a), part_valid(b), enc_partitioning(a) + ra == enc_partitioning(b) + rb,
    ensures part_eq(a, b), ra == rb,
{ lemma_partitioning_prefix_free(a, ra, b, rb); }
// label: C13.inj.PollingStrategy
pub proof fn c13_inj_strategy(a: PollingStrategy, b: PollingStrategy)
    requires enc_strategy(a) == enc_strategy(b),
    ensures a == b,
{ lemma_strategy_injective(a, b); }
