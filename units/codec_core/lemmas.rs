// ---- lemmas of codec_core: facts about the wire-format SPECIFICATION only (no executable code is mentioned) -----------

// label: C13.code.IdKind.inj
pub proof fn lemma_idkind_code_injective()
    ensures forall|a: IdKind, b: IdKind| idkind_code(a) == idkind_code(b) ==> a == b,
{}
// label: C13.code.ConsumerKind.inj
pub proof fn lemma_consumerkind_code_injective()
    ensures forall|a: ConsumerKind, b: ConsumerKind| consumerkind_code(a) == consumerkind_code(b) ==> a == b,
{}
// label: C13.code.PartitioningKind.inj
pub proof fn lemma_partitioningkind_code_injective()
    ensures forall|a: PartitioningKind, b: PartitioningKind| partitioningkind_code(a) == partitioningkind_code(b) ==> a == b,
{}
// label: C13.code.PollingKind.inj
pub proof fn lemma_pollingkind_code_injective()
    ensures forall|a: PollingKind, b: PollingKind| pollingkind_code(a) == pollingkind_code(b) ==> a == b,
{}

// where the fields of an identifier sit in any buffer that starts with its encoding
pub proof fn lemma_identifier_layout(v: Identifier, rest: Seq<u8>)
    ensures
        ({
            let b = enc_identifier(v) + rest;
            &&& enc_identifier(v).len() == 2 + v.value@.len()
            &&& b.len() == 2 + v.value@.len() + rest.len()
            &&& b[0] == idkind_code(v.kind)
            &&& b[1] == v.length
            &&& b.subrange(2, 2 + v.value@.len() as int) == v.value@
            &&& b.subrange(2 + v.value@.len() as int, b.len() as int) == rest
        }),
{
    let b = enc_identifier(v) + rest;
    assert(b.subrange(2, 2 + v.value@.len() as int) =~= v.value@);
    assert(b.subrange(2 + v.value@.len() as int, b.len() as int) =~= rest);
}

// label: C13.inj.Identifier
// the encoding is injective on valid identifiers, even when followed by arbitrary bytes (prefix-freeness): two valid
// identifiers whose encodings start the same buffer are equal
pub proof fn lemma_identifier_prefix_free(a: Identifier, ra: Seq<u8>, b: Identifier, rb: Seq<u8>)
    requires id_valid(a), id_valid(b), enc_identifier(a) + ra == enc_identifier(b) + rb,
    ensures id_eq(a, b), ra == rb,
{
    lemma_identifier_layout(a, ra);
    lemma_identifier_layout(b, rb);
    lemma_idkind_code_injective();
}

pub proof fn lemma_consumer_layout(v: Consumer, rest: Seq<u8>)
    ensures
        ({
            let b = enc_consumer(v) + rest;
            &&& enc_consumer(v).len() == 3 + v.id.value@.len()
            &&& b.len() == 3 + v.id.value@.len() + rest.len()
            &&& b[0] == consumerkind_code(v.kind)
            &&& b.subrange(1, b.len() as int) == enc_identifier(v.id) + rest
        }),
{
    let b = enc_consumer(v) + rest;
    assert(b.subrange(1, b.len() as int) =~= enc_identifier(v.id) + rest);
}

pub proof fn lemma_partitioning_layout(v: Partitioning, rest: Seq<u8>)
    ensures
        ({
            let b = enc_partitioning(v) + rest;
            &&& enc_partitioning(v).len() == 2 + v.value@.len()
            &&& b.len() == 2 + v.value@.len() + rest.len()
            &&& b[0] == partitioningkind_code(v.kind)
            &&& b[1] == v.length
            &&& b.subrange(2, 2 + v.value@.len() as int) == v.value@
            &&& b.subrange(2 + v.value@.len() as int, b.len() as int) == rest
        }),
{
    let b = enc_partitioning(v) + rest;
    assert(b.subrange(2, 2 + v.value@.len() as int) =~= v.value@);
    assert(b.subrange(2 + v.value@.len() as int, b.len() as int) =~= rest);
}

pub proof fn lemma_strategy_layout(v: PollingStrategy)
    ensures
        enc_strategy(v).len() == 9,
        enc_strategy(v)[0] == pollingkind_code(v.kind),
        enc_strategy(v).subrange(1, 9) == le64(v.value),
{
    lemma_le_facts();
    assert(enc_strategy(v).subrange(1, 9) =~= le64(v.value));
}

// label: C13.inj.Consumer
pub proof fn lemma_consumer_prefix_free(a: Consumer, ra: Seq<u8>, b: Consumer, rb: Seq<u8>)
    requires consumer_valid(a), consumer_valid(b), enc_consumer(a) + ra == enc_consumer(b) + rb,
    ensures consumer_eq(a, b), ra == rb,
{
    lemma_consumer_layout(a, ra);
    lemma_consumer_layout(b, rb);
    lemma_consumerkind_code_injective();
    lemma_identifier_prefix_free(a.id, ra, b.id, rb);
}

// label: C13.inj.Partitioning
pub proof fn lemma_partitioning_prefix_free(a: Partitioning, ra: Seq<u8>, b: Partitioning, rb: Seq<u8>)
    requires part_valid(a), part_valid(b), enc_partitioning(a) + ra == enc_partitioning(b) + rb,
    ensures part_eq(a, b), ra == rb,
{
    lemma_partitioning_layout(a, ra);
    lemma_partitioning_layout(b, rb);
    lemma_partitioningkind_code_injective();
}

// label: C13.inj.PollingStrategy
pub proof fn lemma_strategy_injective(a: PollingStrategy, b: PollingStrategy)
    requires enc_strategy(a) == enc_strategy(b),
    ensures a == b,
{
    lemma_strategy_layout(a);
    lemma_strategy_layout(b);
    lemma_pollingkind_code_injective();
    lemma_le_facts();
}
