// ---- unit prelude: partitioning (C17) — spec vocabulary only -------------------------------------

// what the statement demands of a send that names partition p (ok = the send returned Ok)
// (o, f: the partitions map before and after; a send carries at least one message — SendMessages::validate)
pub open spec fn c17_explicit(o: Map<u32, Partition>, f: Map<u32, Partition>, p: u32, msgs: Seq<Message>, ok: bool) -> bool {
    &&& nothing_stored(o, f) || stored_in(o, f, p, msgs, ok)
    &&& !o.contains_key(p) ==> nothing_stored(o, f) && (msgs.len() > 0 ==> !ok)
    &&& ok && msgs.len() > 0 ==> stored_in(o, f, p, msgs, true)
}

// helper shape: a balanced send that stored something stored it where the rotation points, and advanced the cursor
pub open spec fn c17_rr_send(o: &Topic, f: &Topic, msgs: Seq<Message>, ok: bool) -> bool {
    let step = rr_step(o.current_partition_id.v, o.partitions@.len() as u32);
    stored_in(o.partitions@, f.partitions@, step.0, msgs, ok) && f.current_partition_id.v == step.1
}

// the ids returned by k consecutive round-robin steps from cursor c over n partitions (no other sender)
pub open spec fn rr_ids(c: u32, n: u32, k: nat) -> Seq<u32>
    decreases k
{
    if k == 0 { Seq::<u32>::empty() } else { seq![rr_step(c, n).0] + rr_ids(rr_step(c, n).1, n, (k - 1) as nat) }
}

// where the rotation stands: the id the next balanced send will get. A cursor beyond the count (count + 1 after a
// full round, or anything larger after the count shrank) restarts at 1.
pub open spec fn rr_norm(c: u32, n: u32) -> int { if c > n { 1 } else { c as int } }
