// ---- lemmas: partitioning (C17) — proved on every run, spec level only ----
// They speak about the transcripts key_pid / rr_step, which the [C17.shape.*] clauses tie to the real functions.

// Keyed selection is total and in range for EVERY hash value and every count >= 1 (including count == 1 and
// hash values that are multiples of the count), and it is a function of (key, count).
// label: C17.key.total
pub proof fn lemma_key_total(h: u32, count: u32)
    requires count >= 1,
    ensures 1 <= key_pid(h, count) <= count,
        count == 1 ==> key_pid(h, count) == 1,
        h % count == 0 ==> key_pid(h, count) == count,
{
}

// label: C17.key.deterministic
pub proof fn lemma_key_deterministic(k1: Seq<u8>, k2: Seq<u8>, c1: u32, c2: u32)
    requires k1 == k2, c1 == c2,
    ensures key_pid(hash32(k1), c1) == key_pid(hash32(k2), c2),
{
}

// The wire form of "partition id p" decodes to p (what [C17.explicit] relies on).
// label: C17.explicit.roundtrip
pub proof fn lemma_le32_roundtrip(x: u32)
    ensures u32_le_bytes(x).len() == 4, le32(u32_le_bytes(x)) == x, le32(u32_le_bytes(x).subrange(0, 4)) == x,
{
    assert(u32_le_bytes(x).subrange(0, 4) =~= u32_le_bytes(x));
}

// --- rotation -------------------------------------------------------------------------------------
// j-th id of the rotation starting at normalised cursor c0 (for 0 <= j <= n)
pub open spec fn rr_at(c0: int, n: int, j: int) -> int { if c0 + j <= n { c0 + j } else { c0 + j - n } }

pub proof fn lemma_rr_ids(c: u32, n: u32, k: nat)
    requires c >= 1, 1 <= n < u32::MAX, k <= n,
    ensures rr_ids(c, n, k).len() == k,
        forall|j: int| 0 <= j < k ==> #[trigger] rr_ids(c, n, k)[j] == rr_at(rr_norm(c, n), n as int, j),
    decreases k
{
    if k > 0 {
        let c1 = rr_step(c, n).1;
        let tail = rr_ids(c1, n, (k - 1) as nat);
        lemma_rr_ids(c1, n, (k - 1) as nat);
        let all = rr_ids(c, n, k);
        assert(all =~= seq![rr_step(c, n).0] + tail);
        assert forall|j: int| 0 <= j < k implies #[trigger] all[j] == rr_at(rr_norm(c, n), n as int, j) by {
            if j > 0 {
                assert(all[j] == tail[j - 1]);
                assert(tail[j - 1] == rr_at(rr_norm(c1, n), n as int, j - 1));
            }
        }
    }
}

// `count` consecutive balanced selections with no other sender return every id of 1..=count exactly once
// (a permutation: count ids, all in range, pairwise distinct) — whatever cursor >= 1 the rotation starts from.
// label: C17.rr.rotation
pub proof fn lemma_rr_rotation(c: u32, n: u32)
    requires c >= 1, 1 <= n < u32::MAX,
    ensures rr_ids(c, n, n as nat).len() == n,
        forall|j: int| 0 <= j < n ==> 1 <= #[trigger] rr_ids(c, n, n as nat)[j] <= n,
        forall|i: int, j: int| 0 <= i < j < n ==> rr_ids(c, n, n as nat)[i] != rr_ids(c, n, n as nat)[j],
        forall|id: u32| 1 <= id <= n ==> #[trigger] rr_ids(c, n, n as nat).contains(id),
{
    lemma_rr_ids(c, n, n as nat);
    let ids = rr_ids(c, n, n as nat);
    let c0 = rr_norm(c, n);
    assert forall|id: u32| 1 <= id <= n implies #[trigger] ids.contains(id) by {
        let j = if id >= c0 { id - c0 } else { id - c0 + n };
        assert(0 <= j < n && ids[j] == rr_at(c0, n as int, j));
    }
}

// One round-robin step restores the cursor invariant from ANY cursor >= 1 (so also after the count shrank).
// label: C17.rr.invariant
pub proof fn lemma_rr_invariant(c: u32, n: u32)
    requires c >= 1, 1 <= n < u32::MAX,
    ensures 1 <= rr_step(c, n).0 <= n, 1 <= rr_step(c, n).1 <= n + 1,
{
}

// ---- LINK harnesses: the contracts ASSUMED elsewhere for the hash function proved here, proved from the real one -----------------
// Harness = the stub's signature, its `ensures` copied VERBATIM, body = ONE call of the real extracted function (emitted here as
// `calculate_32_checked`): Verus proves "real contract ==> assumed contract" on every run. Mirror any edit of a stub here.

// copied from vx/prelude/topic_send.rs, stub `hash::calculate_32` (used by units partitioning and topic_limit; hash32 / xxh32: same file)
// label: C17.link.topic_send.calculate_32
pub fn link_topic_send_calculate_32(data: &[u8]) -> (r: u32)
    ensures r == hash32(data@),
{
    calculate_32_checked(data)
}

// copied from units/consumer_offsets/prelude.rs, stub `hash::calculate_32` (there `hash32` is an UNINTERPRETED function of the bytes —
// "the id of a named consumer is a function of its name"; here it is the defined xxh32(0, ·), an instance of it)
// label: C17.link.consumer_offsets.calculate_32
pub fn link_consumer_offsets_calculate_32(data: &[u8]) -> (r: u32)
    ensures r == hash32(data@),
{
    calculate_32_checked(data)
}
