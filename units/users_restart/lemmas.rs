// ---- lemmas: users_restart ------------------------------------------------------------------------------------------------
// What [C10.restart.pat.load] + [C10.restart.pat.load.only] mean for the look-up a token login performs (by digest): the
// restored table answers for digest h exactly if a replayed token has that digest, with that token's owner and expiry; and the
// record sits under its own digest in its owner's table — the representation invariant `users_wf` that unit credentials
// ASSUMES to hold after a restart is established by load_users.

// label: C10.restart.pat.table
pub proof fn c10_restart_token_table(uid: u32, st: Map<Name, PersonalAccessTokenState>, rt: Map<Name, PersonalAccessToken>, h: Name)
    requires
        forall|n: Name| #[trigger] st.contains_key(n) ==> rt.contains_key(st[n].token_hash) && rt[st[n].token_hash] == pat_of(uid, st[n]),
        forall|x: Name| #[trigger] rt.contains_key(x) ==> exists|n: Name| #[trigger] st.contains_key(n) && st[n].token_hash == x,
    ensures
        rt.contains_key(h) <==> exists|n: Name| #[trigger] st.contains_key(n) && st[n].token_hash == h,
        rt.contains_key(h) ==> rt[h].token == h && rt[h].user_id == uid
            && exists|n: Name| #[trigger] st.contains_key(n) && st[n].token_hash == h && rt[h].expiry_at == st[n].expiry_at && rt[h].name == st[n].name,
{
    if rt.contains_key(h) {
        let n = choose|n: Name| #[trigger] st.contains_key(n) && st[n].token_hash == h;
        assert(rt[st[n].token_hash] == pat_of(uid, st[n]));
    }
    if exists|n: Name| #[trigger] st.contains_key(n) && st[n].token_hash == h {
        let n = choose|n: Name| #[trigger] st.contains_key(n) && st[n].token_hash == h;
        assert(rt.contains_key(st[n].token_hash));
    }
}
