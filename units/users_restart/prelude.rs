// ---- unit prelude: users_restart (C10 restart: UserState -> User, permission tables re-initialised; C05 update_permissions) --
// Stand-ins and assumed contracts. Nothing here re-states a function body of /repo.

#[verifier::external_body]
#[derive(Debug)]
pub struct Name { s: String }
impl Name {
    #[verifier::external_body]
    pub fn to_string(&self) -> (r: Name) ensures r == *self { unimplemented!() }
}
impl Clone for Name {
    #[verifier::external_body]
    fn clone(&self) -> (r: Name) ensures r == *self { unimplemented!() }
}
impl<'a> From<&'a Name> for Name {
    #[verifier::external_body]
    fn from(v: &'a Name) -> (r: Name) ensures r == *v { unimplemented!() }
}
impl<'a> vstd::std_specs::convert::FromSpecImpl<&'a Name> for Name {
    open spec fn obeys_from_spec() -> bool { true }
    open spec fn from_spec(v: &'a Name) -> Name { *v }
}
#[derive(Debug)]
pub enum IggyError { InvalidIdentifier, StaleClient, Unauthenticated, Unauthorized, ResourceNotFound(Name), CannotChangePermissions(u32) }
#[derive(Clone, Copy, Debug)]
pub struct IggyTimestamp(pub u64);
impl IggyTimestamp {
    #[verifier::external_body]
    pub fn now() -> (r: IggyTimestamp) { unimplemented!() }
}
#[verifier::external_body]
#[derive(Debug)]
pub struct Permissions { x: u8 }
impl Clone for Permissions { #[verifier::external_body] fn clone(&self) -> (r: Self) ensures r == *self { unimplemented!() } }

// --- Identifier (sdk): payload abstracted to two uninterpreted projections -------------------------------------------------
impl Identifier {
    pub uninterp spec fn num(&self) -> u32;
    pub uninterp spec fn text(&self) -> Name;
    #[verifier::external_body]
    pub fn get_u32_value(&self) -> (r: Result<u32, IggyError>)
        ensures r == (if self.kind == IdKind::Numeric && self.length == 4 { Ok::<u32, IggyError>(self.num()) } else { Err::<u32, IggyError>(IggyError::InvalidIdentifier) }),
    { unimplemented!() }
    #[verifier::external_body]
    pub fn get_cow_str_value(&self) -> (r: Result<Name, IggyError>)
        ensures r == (if self.kind == IdKind::Name { Ok::<Name, IggyError>(self.text()) } else { Err::<Name, IggyError>(IggyError::InvalidIdentifier) }),
    { unimplemented!() }
    #[verifier::external_body]
    pub fn to_string(&self) -> (r: Name) { unimplemented!() }
}

// --- the permission tables through their abstract view (see [unit].assumes) ---------------------------------------------------
#[verifier::external_body]
pub struct Permissioner { x: u8 }
impl Permissioner {
    pub uninterp spec fn rows(&self) -> Map<u32, Option<Permissions>>;
    // [C09.tables.init.rows] + [C09.tables.init.others] (unit permissioner)
    // LINKED (as a simulation: `rows()` is ghost bookkeeping coupled to the real tables, not a function of them): units/permissioner/lemmas.rs,
    // harness [C09.link.users_restart.init_permissions_for_user]. The `requires` was ADDED by the link: the real function only adds rows, on a
    // user that already has rows the old stream rows survive and the tables are no longer the denormalisation of `rows()`.
    #[verifier::external_body]
    pub fn init_permissions_for_user(&mut self, user_id: u32, permissions: Option<Permissions>)
        requires !old(self).rows().contains_key(user_id),
        ensures final(self).rows() == old(self).rows().insert(user_id, permissions),
    { unimplemented!() }
    // [C09.tables.update.rows] + [C09.tables.update.others] (unit permissioner)
    // LINKED (simulation, see above): units/permissioner/lemmas.rs, harness [C09.link.users_restart.update_permissions_for_user]
    #[verifier::external_body]
    pub fn update_permissions_for_user(&mut self, user_id: u32, permissions: Option<Permissions>)
        ensures final(self).rows() == old(self).rows().insert(user_id, permissions),
    { unimplemented!() }
    // authorisation (C09's subject): arbitrary answer
    #[verifier::external_body]
    pub fn update_permissions(&self, user_id: u32) -> (r: Result<(), IggyError>) { unimplemented!() }
}
#[verifier::external_body]
pub struct Metrics { x: u8 }
#[verifier::external_body]
pub struct Session { x: u8 }
impl Session {
    #[verifier::external_body]
    pub fn get_user_id(&self) -> (r: u32) { unimplemented!() }
}
impl System {
    // authentication gate (units authn_gate / credentials): arbitrary answer, no effect
    #[verifier::external_body]
    pub fn ensure_authenticated(&self, session: &Session) -> (r: Result<(), IggyError>) { unimplemented!() }
}

// --- R8 schemas ----------------------------------------------------------------------------------------------------------------
// m.into_values().map(F).collect::<HashMap<K2, V2>>()
#[verifier::external_body]
pub fn std_into_values_map_collect<K, V, K2, V2>(m: HashMap<K, V>, Ghost(f): Ghost<spec_fn(V) -> (K2, V2)>) -> (r: HashMap<K2, V2>)
    ensures
        forall|k2: K2| #[trigger] r@.contains_key(k2) ==> exists|k: K| #[trigger] m@.contains_key(k) && f(m@[k]) == (k2, r@[k2]),
        forall|k: K| #[trigger] m@.contains_key(k) ==> r@.contains_key(f(m@[k]).0),
{ unimplemented!() }
// m.iter().find(|(k, v)| P).map(|(_, v)| v)
#[verifier::external_body]
pub fn std_map_find_value<'a, K, V>(m: &'a HashMap<K, V>, Ghost(f): Ghost<spec_fn(K, V) -> bool>) -> (r: Option<&'a V>)
    ensures match r {
        Some(v) => exists|k: K| #[trigger] m@.contains_key(k) && m@[k] == *v && f(k, *v),
        None => forall|k: K| #[trigger] m@.contains_key(k) ==> !f(k, m@[k]),
    },
{ unimplemented!() }
#[verifier::external_body]
pub fn std_map_find_value_mut<'a, K, V>(m: &'a mut HashMap<K, V>, Ghost(f): Ghost<spec_fn(K, V) -> bool>) -> (r: Option<&'a mut V>)
    ensures match r {
        Some(v) => exists|k: K| #[trigger] old(m)@.contains_key(k) && old(m)@[k] == *v && f(k, *v)
                      && final(m)@ == old(m)@.insert(k, *final(v)) && (*final(v) == *v ==> *final(m) == *old(m)),
        None => (forall|k: K| #[trigger] old(m)@.contains_key(k) ==> !f(k, old(m)@[k])) && *final(m) == *old(m),
    },
{ unimplemented!() }

// m.values().collect::<Vec<&V>>(): one shared reference per entry, in the (unspecified) iteration order `key_order` of the map
// (same contract as HashMap::values_vec of vx/prelude/mapiter.rs, with the key order as a second trigger)
#[verifier::external_body]
pub fn std_values_collect_vec<'a, K, V>(m: &'a HashMap<K, V>) -> (r: Vec<&'a V>)
    ensures
        keys_exactly(m@, m.key_order()),
        r@.len() == m.key_order().len(),
        forall|i: int| #![trigger r@[i]] #![trigger m.key_order()[i]] 0 <= i < r@.len() ==> *r@[i] == m@[m.key_order()[i]],
{ unimplemented!() }

// ---- vocabulary ------------------------------------------------------------------------------------------------------------------
// (link pass 2) the users handed to Permissioner::init carry pairwise distinct ids. Opaque, revealed only where it is used: the two-variable
// quantifier inside the loop invariants of `init` sent the solver into a matching loop.
#[verifier::opaque]
pub open spec fn ids_distinct(us: Seq<&User>) -> bool {
    forall|i: int, j: int| 0 <= i < j < us.len() ==> (#[trigger] us[i]).id != (#[trigger] us[j]).id
}
// none of the users from position `from` on has rows yet (opaque for the same reason)
#[verifier::opaque]
pub open spec fn none_registered(rows: Map<u32, Option<Permissions>>, us: Seq<&User>, from: int) -> bool {
    forall|i: int| from <= i < us.len() ==> !rows.contains_key((#[trigger] us[i]).id)
}
// proved (nothing assumed): one step of Permissioner::init, and the call-site facts of System::load_users
pub proof fn lemma_none_registered_step(rows: Map<u32, Option<Permissions>>, us: Seq<&User>, k: int, p: Option<Permissions>)
    ensures (0 <= k < us.len() && none_registered(rows, us, k) && ids_distinct(us))
        ==> (!rows.contains_key(us[k].id) && none_registered(rows.insert(us[k].id, p), us, k + 1)),
{
    reveal(none_registered); reveal(ids_distinct);
}
pub proof fn lemma_values_of_fresh_map(users: Map<u32, User>, ks: Seq<u32>, rows: Map<u32, Option<Permissions>>)
    ensures (keys_exactly(users, ks) && (forall|k: u32| #[trigger] users.contains_key(k) ==> users[k].id == k) && (forall|k: u32| !rows.contains_key(k)))
        ==> forall|v: Seq<&User>| #![trigger ids_distinct(v)] #![trigger none_registered(rows, v, 0)]
                (v.len() == ks.len() && (forall|i: int| 0 <= i < v.len() ==> *#[trigger] v[i] == users[ks[i]]))
                ==> ids_distinct(v) && none_registered(rows, v, 0),
{
    reveal(none_registered); reveal(ids_distinct);
    if keys_exactly(users, ks) && (forall|k: u32| #[trigger] users.contains_key(k) ==> users[k].id == k) && (forall|k: u32| !rows.contains_key(k)) {
        assert forall|v: Seq<&User>| #![trigger ids_distinct(v)] #![trigger none_registered(rows, v, 0)]
            (v.len() == ks.len() && (forall|i: int| 0 <= i < v.len() ==> *#[trigger] v[i] == users[ks[i]]))
            implies ids_distinct(v) && none_registered(rows, v, 0) by {
            assert forall|i: int, j: int| 0 <= i < j < v.len() implies (#[trigger] v[i]).id != (#[trigger] v[j]).id by {
                assert(users.contains_key(ks[i]) && users.contains_key(ks[j]) && ks[i] != ks[j]);
            }
        }
    }
}
impl PersonalAccessToken {
    pub open spec fn raw_spec(user_id: u32, name: &Name, token_hash: &Name, expiry_at: Option<IggyTimestamp>) -> PersonalAccessToken {
        PersonalAccessToken { user_id: user_id, name: *name, token: *token_hash, expiry_at: expiry_at }
    }
}
// the runtime token record a journalled token state stands for
pub open spec fn pat_of(uid: u32, t: PersonalAccessTokenState) -> PersonalAccessToken {
    PersonalAccessToken { user_id: uid, name: t.name, token: t.token_hash, expiry_at: t.expiry_at }
}
// digests identify the tokens of a user (the runtime table is keyed by the digest, so the live journalled tokens have pairwise
// distinct digests)
pub open spec fn digests_distinct(t: Map<Name, PersonalAccessTokenState>) -> bool {
    forall|a: Name, b: Name| #[trigger] t.contains_key(a) && #[trigger] t.contains_key(b) && t[a].token_hash == t[b].token_hash ==> a == b
}
pub open spec fn users_wf(s: &System) -> bool { forall|k: u32| #[trigger] s.users@.contains_key(k) ==> s.users@[k].id == k }
pub open spec fn resolves(s: &System, ident: &Identifier, u: User) -> bool {
    if ident.kind == IdKind::Numeric {
        ident.length == 4 && s.users@.contains_key(ident.num()) && s.users@[ident.num()] == u
    } else {
        exists|k: u32| #[trigger] s.users@.contains_key(k) && s.users@[k] == u && u.username == ident.text()
    }
}
pub open spec fn only_users_perm(a: &System, b: &System) -> bool {
    *b == (System { users: b.users, permissioner: b.permissioner, ..*a })
}
