// ---- lemmas: topic_limit (C15) — proved on every run, spec level only ----

// The three situations the statement names in which sends are accepted all make the antecedent of [C15.accept] true:
// below the limit, unlimited / server-default topics, and deletion of oldest segments enabled.
// label: C15.accept.cases
pub proof fn lemma_accept_cases(t: &Topic)
    ensures
        t.max_topic_size is Unlimited ==> !topic_full(t),
        t.max_topic_size is ServerDefault ==> !topic_full(t),
        t.max_topic_size is Custom && t.size_bytes.v < t.max_topic_size->Custom_0.v ==> !topic_full(t),
        t.config.topic.delete_oldest_segments ==> !(topic_full(t) && !t.config.topic.delete_oldest_segments),
        // and the gate never refuses in any of them
        forall|msgs: Seq<Message>, refused: bool| #[trigger] c15_gate(t, msgs, refused)
            && (!topic_full(t) || t.config.topic.delete_oldest_segments) ==> !refused,
{
}

// "never the newest data": after a maintenance pass the newest segment of every partition is still there, unless it
// was at the same time the oldest one and closed (a sole closed segment).
// label: C15.oldest.newest
pub proof fn lemma_newest_survives(o: Map<u32, Partition>, f: Map<u32, Partition>, k: u32)
    requires
        only_oldest_closed_removed(o, f), o.contains_key(k), o[k].segments@.len() >= 1,
        o[k].segments@.len() >= 2 || !o[k].segments@[0].is_closed,
    ensures f[k].segments@.contains(o[k].segments@.last()),
{
    let j = o[k].segments@.len() - 1;
    assert(f[k].segments@.contains(o[k].segments@[j]));
}

// What get_oldest_segments names, fed to delete_segments, can only cost a partition its segments[0], and that only if
// closed — the step from [C15.oldest.pick] + [C15.oldest.listed] to [C15.oldest.only].
// label: C15.oldest.compose
pub proof fn lemma_oldest_compose(o: Map<u32, Partition>, f: Map<u32, Partition>, list: Seq<SegmentsToHandle>)
    requires
        ids_are_keys(o), segs_sorted(o),
        forall|i: int| 0 <= i < list.len() ==> oldest_entry_ok(o, #[trigger] list[i]),
        only_listed_removed(o, f, list),
    ensures only_oldest_closed_removed(o, f),
{
    assert forall|k: u32, j: int| o.contains_key(k) && 0 <= j < o[k].segments@.len() && (j >= 1 || !o[k].segments@[0].is_closed)
        implies f[k].segments@.contains(#[trigger] o[k].segments@[j]) by {
        let off = o[k].segments@[j].start_offset;
        if listed(list, o[k].partition_id, off) {
            let i = choose|i: int| 0 <= i < list.len() && (#[trigger] list[i]).partition_id == o[k].partition_id && list[i].start_offsets@.contains(off);
            assert(oldest_entry_ok(o, list[i]));
            let k2 = choose|k2: u32| #[trigger] o.contains_key(k2) && list[i].partition_id == o[k2].partition_id && o[k2].segments@.len() > 0
                && o[k2].segments@[0].is_closed && list[i].start_offsets@ =~= seq![o[k2].segments@[0].start_offset];
            assert(k2 == k);
            assert(seq![o[k].segments@[0].start_offset].contains(off));
            assert(off == o[k].segments@[0].start_offset);
            if j >= 1 {
                assert(o[k].segments@[0].start_offset < o[k].segments@[j].start_offset);
            }
            assert(false);
        }
    }
}

// ---- LINK harnesses: the contracts other units ASSUME for `Topic::get_partition` (extracted and proved here), proved from the real one ----
// Harness = the stub's signature, the comparable `ensures` clauses copied VERBATIM from the assuming unit's prelude.rs, body = ONE call of
// the real extracted function. Mirror any edit of a stub here. (The real function rests on the R4/R5/R6 stand-in `LockMap::get` of
// vx/prelude/topic_send.rs — the lock map — which stays an assumption; what is linked is that the extracted text adds nothing to it.)
impl Topic {
    // copied from units/retention/prelude.rs, stub `Topic::get_partition`: its second clause (the map). Its first clause is the frame of
    // stream_id / topic_id / message_expiry / config / compression_algorithm; this unit's Topic does not keep message_expiry and
    // compression_algorithm, so that clause cannot be written here — it is an instance of the real frame
    // `*final(self) == Topic { partitions: .., ..*old(self) }` proved here over every kept field.
    // label: C15.link.retention.get_partition
    pub fn link_retention_get_partition(&mut self, partition_id: u32) -> (r: Result<&mut Partition, IggyError>)
        ensures
            match r {
                Ok(p) => old(self).partitions@.contains_key(partition_id) && *p == old(self).partitions@[partition_id]
                    && final(self).partitions@ == old(self).partitions@.insert(partition_id, *final(p)),
                Err(_) => !old(self).partitions@.contains_key(partition_id) && final(self).partitions@ == old(self).partitions@,
            },
    {
        self.get_partition(partition_id)
    }

    // copied from units/consumer_offsets/prelude.rs, stub `Topic::get_partition`: its first clause (ids) and its last (the map). The two
    // clauses in between frame consumer_groups / consumer_groups_ids / storage / current_consumer_group_id, fields this unit's Topic
    // does not keep (instances of the real frame, as above).
    // label: C15.link.consumer_offsets.get_partition
    pub fn link_consumer_offsets_get_partition(&mut self, partition_id: u32) -> (r: Result<&mut Partition, IggyError>)
        ensures
            final(self).stream_id == old(self).stream_id && final(self).topic_id == old(self).topic_id,
            match r {
                Ok(p) => old(self).partitions@.contains_key(partition_id) && *p == old(self).partitions@[partition_id]
                    && final(self).partitions@ == old(self).partitions@.insert(partition_id, *final(p)),
                Err(_) => !old(self).partitions@.contains_key(partition_id) && final(self).partitions@ == old(self).partitions@,
            },
    {
        self.get_partition(partition_id)
    }
}
