// ---- unit prelude: topic_limit (C15) ---------------------------------------------------------------

// A-float: `Topic::is_almost_full` compares against `(limit as f64 * 0.9) as u64`; floats are outside Verus'
// subset. Since round 16 the REAL body of is_almost_full is under contract (seed C15_6 made it read the stream's counter):
// only the float expression itself is handed to a stub (rule R4-float-threshold) whose value is uninterpreted, with the
// one fact the property needs — the threshold does not exceed the limit, i.e. a full topic is almost full. (For every
// u64 l: `l as f64` rounds to at most l(1+2^-53), times 0.9 (0.90000000000000002) stays below l for l >= 1, the cast
// back truncates; l = 0 gives 0.)
pub uninterp spec fn almost_threshold(limit: u64) -> u64;
#[verifier::external_body]
pub fn almost_full_threshold(limit: u64) -> (r: u64)
    ensures r == almost_threshold(limit), r <= limit,
{ unimplemented!() }
pub open spec fn almost_full(t: &Topic) -> bool {
    t.max_topic_size is Custom && t.size_bytes.v >= almost_threshold(t.max_topic_size->Custom_0.v)
}

// the executor's view of the system: `system.read().await` is the identity (R5); only the configuration is read
#[verifier::external_body]
pub fn archiver_clone(a: &Option<ArchiverKind>) -> (r: Option<ArchiverKind>)
    ensures r is Some <==> a is Some,
{ unimplemented!() }

// the archiver (third-party back ends: disk / S3) — opaque; answers are arbitrary
#[verifier::external_body]
pub struct ArchiverKind { _p: () }
#[derive(Debug)]
pub enum ArchiverError { CannotArchive }
impl ArchiverKind {
    #[verifier::external_body]
    pub fn is_archived(&self, file: &String, base_directory: Option<String>) -> (r: Result<bool, ArchiverError>)
    { unimplemented!() }
    #[verifier::external_body]
    pub fn clone(&self) -> (r: ArchiverKind)
    { unimplemented!() }
}
// archiving copies files; it takes `&Topic` and deletes nothing (C14: "archiver branch not covered")
#[verifier::external_body]
pub fn archive_segments(topic: &Topic, segments_to_archive: &[SegmentsToHandle], archiver: ArchiverKind) -> (r: Result<u64, IggyError>)
{ unimplemented!() }

// (partition id, start offset) is named by the list handed to delete_segments
pub open spec fn listed(list: Seq<SegmentsToHandle>, pid: u32, off: u64) -> bool {
    exists|i: int| 0 <= i < list.len() && (#[trigger] list[i]).partition_id == pid && list[i].start_offsets@.contains(off)
}

// what delete_segments may do: partitions stay, ids stay, and every segment NOT named by the list is still there
pub open spec fn only_listed_removed(o: Map<u32, Partition>, f: Map<u32, Partition>, list: Seq<SegmentsToHandle>) -> bool {
    &&& f.dom() =~= o.dom()
    &&& forall|k: u32| #[trigger] o.contains_key(k) ==> f[k].partition_id == o[k].partition_id
    &&& forall|k: u32, j: int| o.contains_key(k) && 0 <= j < o[k].segments@.len()
            && !listed(list, o[k].partition_id, (#[trigger] o[k].segments@[j]).start_offset)
            ==> f[k].segments@.contains(o[k].segments@[j])
}

// the partition-layer invariant under which unit retention proves Partition::delete_segment (there: segs_sorted / segs_wf; the same
// text is repeated in units/retention/lemmas.rs for the link harnesses): segments strictly ordered by start offset; each segment's
// message range is [start_offset, current_offset], fits the u32 of the index format, and no segment ends at u64::MAX
pub open spec fn segs_strict(s: Seq<Segment>) -> bool {
    forall|i: int, j: int| 0 <= i < j < s.len() ==> (#[trigger] s[i]).start_offset < (#[trigger] s[j]).start_offset
}
pub open spec fn seg_range_ok(s: Segment) -> bool {
    s.start_offset <= s.current_offset && s.current_offset - s.start_offset < 0x1_0000_0000 && s.end_offset < u64::MAX
}
pub open spec fn segs_range_ok(s: Seq<Segment>) -> bool { forall|i: int| 0 <= i < s.len() ==> seg_range_ok(#[trigger] s[i]) }
pub open spec fn parts_ok(m: Map<u32, Partition>) -> bool {
    forall|k: u32| #[trigger] m.contains_key(k) ==> segs_strict(m[k].segments@) && segs_range_ok(m[k].segments@)
}

// STUBS for the partition layer (C14's subject). LINKED: unit retention proves exactly these two contracts of the real functions
// (units/retention/lemmas.rs, harnesses [C14.link.topic_limit.delete_segment] / [C14.link.topic_limit.add_persisted_segment]; an
// edit here has to be mirrored there).
impl Partition {
    // real: Segment::delete + `segments.retain(|s| s.start_offset != start_offset)`; Err(SegmentNotFound) if none.
    // The `requires` and the last `ensures` were added by the link: the real function is proved only for an ordered, range-consistent
    // segment list (`current_offset - start_offset + 1` of Segment::get_messages_count must not wrap) — the stub had no precondition.
    #[verifier::external_body]
    pub fn delete_segment(&mut self, start_offset: u64) -> (r: Result<DeletedSegment, IggyError>)
        requires
            segs_strict(old(self).segments@), segs_range_ok(old(self).segments@),
        ensures
            segs_strict(final(self).segments@) && segs_range_ok(final(self).segments@),
            final(self).partition_id == old(self).partition_id,
            forall|j: int| 0 <= j < old(self).segments@.len() && (#[trigger] old(self).segments@[j]).start_offset != start_offset
                ==> final(self).segments@.contains(old(self).segments@[j]),
            r is Ok ==> forall|j: int| 0 <= j < final(self).segments@.len() ==> old(self).segments@.contains(#[trigger] final(self).segments@[j]),
            r is Ok ==> r->Ok_0.messages_count <= 0x1_0000_0000
                && exists|i: int| 0 <= i < old(self).segments@.len() && (#[trigger] old(self).segments@[i]).start_offset == start_offset
                    && r->Ok_0.end_offset == old(self).segments@[i].end_offset,
    { unimplemented!() }

    // real: Segment::create + persist + push + sort — every existing segment stays
    #[verifier::external_body]
    pub fn add_persisted_segment(&mut self, start_offset: u64) -> (r: Result<(), IggyError>)
        ensures
            final(self).partition_id == old(self).partition_id,
            forall|j: int| 0 <= j < old(self).segments@.len() ==> final(self).segments@.contains(#[trigger] old(self).segments@[j]),
            forall|j: int| 0 <= j < final(self).segments@.len() ==> old(self).segments@.contains(#[trigger] final(self).segments@[j]) || final(self).segments@[j].end_offset == 0,
            // (added by the link, so that the invariant delete_segment requires survives the replacement of an emptied partition's segments)
            segs_range_ok(old(self).segments@) ==> segs_range_ok(final(self).segments@),
            (segs_strict(old(self).segments@) && forall|i: int| 0 <= i < old(self).segments@.len() ==> (#[trigger] old(self).segments@[i]).start_offset < start_offset)
                ==> segs_strict(final(self).segments@),
    { unimplemented!() }
}

// every segment of f is a segment of o, or a fresh (empty) one
pub open spec fn segs_from(o: Partition, f: Partition) -> bool {
    forall|j: int| 0 <= j < f.segments@.len() ==> o.segments@.contains(#[trigger] f.segments@[j]) || f.segments@[j].end_offset == 0
}

// every segment of `o` that the list does not name (for partition pid) is still in `f`
pub open spec fn kept_from(o: Partition, f: Partition, list: Seq<SegmentsToHandle>, pid: u32) -> bool {
    forall|j: int| 0 <= j < o.segments@.len() && !listed(list, pid, (#[trigger] o.segments@[j]).start_offset)
        ==> f.segments@.contains(o.segments@[j])
}

// offsets are message counts: no segment ends at u64::MAX (needed for `last_end_offset + 1`)
pub open spec fn ends_bounded(m: Map<u32, Partition>) -> bool {
    forall|k: u32, j: int| m.contains_key(k) && 0 <= j < m[k].segments@.len() ==> (#[trigger] m[k].segments@[j]).end_offset < u64::MAX
}
pub open spec fn ids_are_keys(m: Map<u32, Partition>) -> bool {
    forall|k: u32| #[trigger] m.contains_key(k) ==> m[k].partition_id == k
}

// an entry of get_oldest_segments' answer: names exactly segments[0] of an existing partition, and that one is closed
pub open spec fn oldest_entry_ok(m: Map<u32, Partition>, e: SegmentsToHandle) -> bool {
    exists|k: u32| #[trigger] m.contains_key(k) && e.partition_id == m[k].partition_id && m[k].segments@.len() > 0
        && m[k].segments@[0].is_closed && e.start_offsets@ =~= seq![m[k].segments@[0].start_offset]
}

// partition invariant used by the maintenance clauses: segments are ordered by strictly increasing start offset
// (Partition::add_persisted_segment / delete_segment keep them sorted; start offsets are unique)
pub open spec fn segs_sorted(m: Map<u32, Partition>) -> bool {
    forall|k: u32, i: int, j: int| m.contains_key(k) && 0 <= i < j < m[k].segments@.len()
        ==> (#[trigger] m[k].segments@[i]).start_offset < (#[trigger] m[k].segments@[j]).start_offset
}

// the maintenance pass may have removed, per partition, at most segments[0], and that only if it was closed:
// every newer segment — in particular the newest data — is still there
pub open spec fn only_oldest_closed_removed(o: Map<u32, Partition>, f: Map<u32, Partition>) -> bool {
    &&& f.dom() =~= o.dom()
    &&& forall|k: u32, j: int| o.contains_key(k) && 0 <= j < o[k].segments@.len() && (j >= 1 || !o[k].segments@[0].is_closed)
            ==> f[k].segments@.contains(#[trigger] o[k].segments@[j])
}

// "the call proceeds to partition selection": the batch was handed to exactly one partition (and the send's answer is
// that partition's answer), or selection itself failed (unknown partition id / malformed id) with nothing stored.
// It was NOT refused by the limit.
pub open spec fn c15_proceeds(o: Map<u32, Partition>, f: Map<u32, Partition>, msgs: Seq<Message>, r: Result<(), IggyError>) -> bool {
    ||| exists|pid: u32| #[trigger] stored_in(o, f, pid, msgs, r is Ok)
    ||| nothing_stored(o, f) && ((r matches Err(IggyError::PartitionNotFound(..))) || (r matches Err(IggyError::InvalidNumberEncoding)))
}

pub open spec fn all_oldest_ok(m: Map<u32, Partition>, v: &Vec<SegmentsToHandle>) -> bool {
    forall|i: int| 0 <= i < v@.len() ==> oldest_entry_ok(m, #[trigger] v@[i])
}

// the gate of the statement: a send (>= 1 message, topic has partitions) to a topic that is at or above its limit while
// deletion of oldest segments is DISABLED is refused with TopicFull — and TopicFull is given for no other reason
pub open spec fn c15_gate(t: &Topic, msgs: Seq<Message>, refused: bool) -> bool {
    &&& refused ==> topic_full(t) && !t.config.topic.delete_oldest_segments
    &&& t.partitions@.len() != 0 && msgs.len() > 0 && topic_full(t) && !t.config.topic.delete_oldest_segments ==> refused
}

// completeness of the pick (helper): a partition whose oldest segment is closed is named, with exactly that segment
pub open spec fn due(p: Partition) -> bool { p.segments@.len() > 0 && p.segments@[0].is_closed }
pub open spec fn has_entry_for(v: Seq<SegmentsToHandle>, p: Partition) -> bool {
    exists|i: int| 0 <= i < v.len() && (#[trigger] v[i]).partition_id == p.partition_id
        && v[i].start_offsets@ =~= seq![p.segments@[0].start_offset]
}
pub open spec fn all_due_listed(vals: Seq<&Partition>, upto: int, v: &Vec<SegmentsToHandle>) -> bool {
    forall|idx: int| 0 <= idx < upto && due(*#[trigger] vals[idx]) ==> has_entry_for(v@, *vals[idx])
}

// technical: entries found before a push are still found after it, and the pushed entry is found
pub proof fn lemma_entries_after_push(vals: Seq<&Partition>, upto: int, before: Seq<SegmentsToHandle>, after: Seq<SegmentsToHandle>)
    requires
        0 <= upto < vals.len(),
        after.len() == before.len() + 1,
        forall|i: int| 0 <= i < before.len() ==> after[i] == before[i],
        forall|idx: int| 0 <= idx < upto && due(*#[trigger] vals[idx]) ==> has_entry_for(before, *vals[idx]),
        due(*vals[upto]) ==> after[before.len() as int].partition_id == vals[upto].partition_id
            && after[before.len() as int].start_offsets@ =~= seq![vals[upto].segments@[0].start_offset],
    ensures
        forall|idx: int| 0 <= idx < upto + 1 && due(*#[trigger] vals[idx]) ==> has_entry_for(after, *vals[idx]),
{
    assert forall|idx: int| 0 <= idx < upto + 1 && due(*#[trigger] vals[idx]) implies has_entry_for(after, *vals[idx]) by {
        if idx < upto {
            let p = *vals[idx];
            let i = choose|i: int| 0 <= i < before.len() && (#[trigger] before[i]).partition_id == p.partition_id
                && before[i].start_offsets@ =~= seq![p.segments@[0].start_offset];
            assert(after[i] == before[i]);
        } else {
            assert(after[before.len() as int].partition_id == vals[upto].partition_id);
        }
    }
}

pub open spec fn vec_len_le(v: &Vec<SegmentsToHandle>, n: int) -> bool { v@.len() <= n }
