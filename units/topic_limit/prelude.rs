// ---- unit prelude: topic_limit (C15) ---------------------------------------------------------------

// A-float: `Topic::is_almost_full` compares against `(limit as f64 * 0.9) as u64`; floats are outside Verus'
// subset. Uninterpreted, with the one fact the property needs: a full topic is almost full.
pub uninterp spec fn almost_full(t: &Topic) -> bool;
impl Topic {
    #[verifier::external_body]
    pub fn is_almost_full(&self) -> (r: bool)
        ensures r == almost_full(self), topic_full(self) ==> r,
    { unimplemented!() }
}

// the archiver (third-party back ends: disk / S3) — opaque; answers are arbitrary
#[verifier::external_body]
pub struct ArchiverKind { _p: () }
#[derive(Debug)]
pub enum ArchiverError { CannotArchive }
impl ArchiverKind {
    #[verifier::external_body]
    pub fn is_archived(&self, file: &String, base_directory: Option<String>) -> (r: Result<bool, ArchiverError>)
    { unimplemented!() }
    #[verifier::external_body]
    pub fn clone(&self) -> (r: ArchiverKind)
    { unimplemented!() }
}
// archiving copies files; it takes `&Topic` and deletes nothing (C14: "archiver branch not covered")
#[verifier::external_body]
pub fn archive_segments(topic: &Topic, segments_to_archive: &[SegmentsToHandle], archiver: ArchiverKind) -> (r: Result<u64, IggyError>)
{ unimplemented!() }

// (partition id, start offset) is named by the list handed to delete_segments
pub open spec fn listed(list: Seq<SegmentsToHandle>, pid: u32, off: u64) -> bool {
    exists|i: int| 0 <= i < list.len() && (#[trigger] list[i]).partition_id == pid && list[i].start_offsets@.contains(off)
}

// what delete_segments may do: partitions stay, ids stay, and every segment NOT named by the list is still there
pub open spec fn only_listed_removed(o: Map<u32, Partition>, f: Map<u32, Partition>, list: Seq<SegmentsToHandle>) -> bool {
    &&& f.dom() =~= o.dom()
    &&& forall|k: u32| #[trigger] o.contains_key(k) ==> f[k].partition_id == o[k].partition_id
    &&& forall|k: u32, j: int| o.contains_key(k) && 0 <= j < o[k].segments@.len()
            && !listed(list, o[k].partition_id, (#[trigger] o[k].segments@[j]).start_offset)
            ==> f[k].segments@.contains(o[k].segments@[j])
}

// STUB: delete_segments (maintain_messages.rs) is C14's subject (unit retention); here its effect is bounded by
// only_listed_removed. It reaches the partitions through their locks, hence `&mut Topic` (R6).
#[verifier::external_body]
pub fn delete_segments(topic: &mut Topic, segments_to_delete: &[SegmentsToHandle]) -> (r: Result<HandledSegments, IggyError>)
    ensures only_listed_removed(old(topic).partitions@, final(topic).partitions@, segments_to_delete@),
        *final(topic) == (Topic { partitions: final(topic).partitions, ..*old(topic) }),
{ unimplemented!() }

// an entry of get_oldest_segments' answer: names exactly segments[0] of an existing partition, and that one is closed
pub open spec fn oldest_entry_ok(m: Map<u32, Partition>, e: SegmentsToHandle) -> bool {
    exists|k: u32| #[trigger] m.contains_key(k) && e.partition_id == m[k].partition_id && m[k].segments@.len() > 0
        && m[k].segments@[0].is_closed && e.start_offsets@ =~= seq![m[k].segments@[0].start_offset]
}

// partition invariant used by the maintenance clauses: segments are ordered by strictly increasing start offset
// (Partition::add_persisted_segment / delete_segment keep them sorted; start offsets are unique)
pub open spec fn segs_sorted(m: Map<u32, Partition>) -> bool {
    forall|k: u32, i: int, j: int| m.contains_key(k) && 0 <= i < j < m[k].segments@.len()
        ==> (#[trigger] m[k].segments@[i]).start_offset < (#[trigger] m[k].segments@[j]).start_offset
}

// the maintenance pass may have removed, per partition, at most segments[0], and that only if it was closed:
// every newer segment — in particular the newest data — is still there
pub open spec fn only_oldest_closed_removed(o: Map<u32, Partition>, f: Map<u32, Partition>) -> bool {
    &&& f.dom() =~= o.dom()
    &&& forall|k: u32, j: int| o.contains_key(k) && 0 <= j < o[k].segments@.len() && (j >= 1 || !o[k].segments@[0].is_closed)
            ==> f[k].segments@.contains(#[trigger] o[k].segments@[j])
}

// "the call proceeds to partition selection": the batch was handed to exactly one partition (and the send's answer is
// that partition's answer), or selection itself failed (unknown partition id / malformed id) with nothing stored.
// It was NOT refused by the limit.
pub open spec fn c15_proceeds(o: Map<u32, Partition>, f: Map<u32, Partition>, msgs: Seq<Message>, r: Result<(), IggyError>) -> bool {
    ||| exists|pid: u32| #[trigger] stored_in(o, f, pid, msgs, r is Ok)
    ||| nothing_stored(o, f) && ((r matches Err(IggyError::PartitionNotFound(..))) || (r matches Err(IggyError::InvalidNumberEncoding)))
}

pub open spec fn all_oldest_ok(m: Map<u32, Partition>, v: &Vec<SegmentsToHandle>) -> bool {
    forall|i: int| 0 <= i < v@.len() ==> oldest_entry_ok(m, #[trigger] v@[i])
}
