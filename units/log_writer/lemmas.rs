// ---- lemmas: log_writer (C04) — link between the byte-level contract proved here and the record-level stub the storage units assume ----
// vx/prelude/segview.rs assumes for `SegmentLogWriter::save_batches`: "Ok => file() == old file().push(this batch) and the returned size is
// length + RETAINED_BATCH_HEADER_LEN". Here the file is bytes; a log that is a sequence of records f is `log_bytes(f)`.

// label: C04.publish.seq
pub proof fn lemma_log_push(f: Seq<Seq<u8>>, rec: Seq<u8>)
    ensures log_bytes(f.push(rec)) == log_bytes(f) + rec,
{
    assert(f.push(rec).drop_last() =~= f);
}

// Composition harness (client code calling the extracted `save_batches` only): the assumed stub's Ok clause, in its own shape, is ONE
// obligation proved from the contract of the real function. Err: no complete record is added — the file is the old records plus a
// prefix of this one (a torn tail) and the published size has not moved.
// label: C04.publish.stub
pub fn harness_save_batches_wait(w: &mut SegmentLogWriter, batch: RetainedMessageBatch, Ghost(f): Ghost<Seq<Seq<u8>>>) -> (r: Result<u64, IggyError>)
    requires
        wr_inv(old(w)), old(w).file is Some, batch.length == batch.bytes@.len(),
        w_content(old(w)) == log_bytes(f),
    ensures
        r is Ok ==> w_content(final(w)) == log_bytes(f.push(enc_batch(&batch))) && r->Ok_0 == batch.length + RETAINED_BATCH_HEADER_LEN
            && final(w).log_size_bytes.v == old(w).log_size_bytes.v + r->Ok_0,
        r is Err ==> appended_prefix(w_content(final(w)), log_bytes(f), enc_batch(&batch)) && final(w).log_size_bytes.v == old(w).log_size_bytes.v,
        wr_inv(final(w)),
{
    proof { lemma_log_push(f, enc_batch(&batch)); lemma_header_len(&batch); }
    w.save_batches(batch, Confirmation::Wait)
}
