// ---- unit prelude: log_writer (C04 / C16) — the segment log file behind its two writers -------------------------------------------
// The writer's contract (vx/prelude/segview.rs: "Ok => exactly this batch appended") is PROVED here relative to the true contract of
// ONE file write: `write_vectored` may take any prefix of the data. Nothing in this file is a model of the code under contract.

global size_of usize == 8;

pub enum IggyError { CannotWriteToFile, CannotSaveIndexToSegment, CannotReadFile, Other }

// memory orderings have no meaning for a plain integer (R6)
pub enum Ordering { Relaxed, Release, Acquire, AcqRel, SeqCst }

// Arc<AtomicU64> (R4 + R6): a plain integer with the wrapping fetch_add of the atomic, plus the ghost identity of the shared cell
// (same stand-in as vx/prelude/storage.rs)
pub struct Counter { pub v: u64, pub cid: Ghost<int> }
impl Counter {
    #[verifier::external_body]
    pub fn fetch_add(&mut self, n: u64, ord: Ordering) -> (r: u64)
        ensures r == old(self).v, final(self).v as int == (old(self).v + n) % 0x1_0000_0000_0000_0000, final(self).cid == old(self).cid,
    { unimplemented!() }
    #[verifier::external_body]
    pub fn load(&self, ord: Ordering) -> (r: u64) ensures r == self.v, { unimplemented!() }
    #[verifier::external_body]
    pub fn store(&mut self, n: u64, ord: Ordering) ensures final(self).v == n, final(self).cid == old(self).cid, { unimplemented!() }
    #[verifier::external_body]
    pub fn clone(&self) -> (r: Counter) ensures r.v == self.v, r.cid == self.cid, { unimplemented!() }
}

// IggyByteSize is a u64 newtype whose `+` is the plain u64 one (sdk/src/utils/byte_size.rs); R4 maps the type to u64 and the
// conversions become these identities (as in units offsets / read_log)
pub trait ByteSizeExt { fn as_bytes_u64(&self) -> u64; fn bs_into(self) -> u64; }
impl ByteSizeExt for u64 {
    fn as_bytes_u64(&self) -> (r: u64) ensures r == *self, { *self }
    fn bs_into(self) -> (r: u64) ensures r == self, { self }
}

// `Bytes: Deref<Target = [u8]>`: a `&Bytes` is accepted where a `&[u8]` is expected (`IoSlice::new(&batch_bytes)`)
impl core::ops::Deref for ByteSeq {
    type Target = [u8];
    #[verifier::external_body]
    fn deref(&self) -> (r: &[u8])
        ensures r@ == self@,
    { unimplemented!() }
}

// ---- std::io errors: opaque but for the kind -------------------------------------------------------------------------------------------
#[derive(Clone, Copy)]
pub enum ErrorKind { WriteZero, Other }
pub struct IoError { pub k: ErrorKind }
impl From<ErrorKind> for IoError {
    fn from(k: ErrorKind) -> (r: IoError) { IoError { k } }
}
impl vstd::std_specs::convert::FromSpecImpl<ErrorKind> for IoError {
    open spec fn obeys_from_spec() -> bool { true }
    open spec fn from_spec(k: ErrorKind) -> IoError { IoError { k } }
}

// ---- std::io::IoSlice: a borrowed byte range. The LIST type `&mut [IoSlice<'_>]` is kept as it is in the source. ------------------------
pub struct IoSlice<'a> { pub b: &'a [u8] }
impl<'a> View for IoSlice<'a> {
    type V = Seq<u8>;
    open spec fn view(&self) -> Seq<u8> { self.b@ }
}
// the bytes a vectored write is asked to write: the slices one after the other
pub open spec fn concat(s: Seq<IoSlice>) -> Seq<u8>
    decreases s.len(),
{
    if s.len() == 0 { Seq::<u8>::empty() } else { s[0]@ + concat(s.subrange(1, s.len() as int)) }
}
pub proof fn lemma_concat2(s: Seq<IoSlice>)
    ensures s.len() == 2 ==> concat(s) == s[0]@ + s[1]@,
{
    if s.len() == 2 {
        let t = s.subrange(1, 2);
        assert(t.len() == 1 && t[0] == s[1]);
        assert(concat(t.subrange(1, 1)) =~= Seq::<u8>::empty());
        assert(concat(t) =~= s[1]@);
        assert(concat(s) =~= s[0]@ + s[1]@);
    }
}
impl<'a> IoSlice<'a> {
    #[verifier::external_body]
    pub fn new(buf: &'a [u8]) -> (r: IoSlice<'a>)
        ensures r@ == buf@,
    { unimplemented!() }

    // A-std. std: "Panics when trying to advance beyond the end of the slices"; fully consumed leading slices (also empty ones,
    // also for n == 0) are dropped from the list, the next one is advanced by the rest.
    #[verifier::external_body]
    pub fn advance_slices(bufs: &mut &mut [IoSlice<'a>], n: usize)
        requires n <= concat((**old(bufs))@).len(),
        ensures
            concat((**final(bufs))@) == concat((**old(bufs))@).subrange(n as int, concat((**old(bufs))@).len() as int),
            (**final(bufs))@.len() == 0 || (**final(bufs))@[0]@.len() > 0,
    { unimplemented!() }
}

// ---- tokio::fs::File opened with O_APPEND (A-io): TWO ghost byte sequences -----------------------------------------------------------
//   content(): what is in the OS file, i.e. what a reader holding ANOTHER handle can see (guaranteed part);
//   pending(): bytes a write has accepted (Ok(n) was returned) that are possibly not yet in the file: tokio copies them to the OS
//              on a blocking thread; only flush / sync_all / the start of the next write wait for that copy, and only they report
//              its failure.
#[verifier::external_body]
pub struct File { _p: () }
impl File {
    pub uninterp spec fn content(&self) -> Seq<u8>;
    pub uninterp spec fn pending(&self) -> Seq<u8>;

    // the TRUE contract of one write: first the previous pending bytes are completed; then some prefix of the data is accepted
    // (possibly not all of it — tokio takes at most 2 MiB per call —, possibly nothing) and becomes the new pending.
    // Err (the failure of the PREVIOUS copy is reported here): a prefix of the old pending reached the file, nothing new was accepted.
    #[verifier::external_body]
    pub fn write_vectored(&mut self, bufs: &[IoSlice<'_>]) -> (r: Result<usize, IoError>)
        ensures
            r matches Ok(n) ==> n <= concat(bufs@).len()
                && final(self).content() == old(self).content() + old(self).pending()
                && final(self).pending() == concat(bufs@).subrange(0, n as int),
            r is Err ==> appended_prefix(final(self).content(), old(self).content(), old(self).pending())
                && final(self).pending() == Seq::<u8>::empty(),
    { unimplemented!() }

    // AsyncWriteExt::write_all(buf): `write` repeated until everything is accepted. Ok: the previous pending is completed and
    // everything but the last accepted chunk of buf as well (a buffer of up to 2 MiB is ONE chunk: all of it stays pending).
    // Err: a prefix of (old pending ++ buf) reached the file, nothing stays pending.
    #[verifier::external_body]
    pub fn write_all(&mut self, buf: &[u8]) -> (r: Result<(), IoError>)
        ensures
            r is Ok ==> final(self).content() + final(self).pending() == old(self).content() + old(self).pending() + buf@
                && appended_prefix(final(self).content() + final(self).pending(), old(self).content(), old(self).pending() + buf@)   // (the same fact in the shape lemma_prefix_chain triggers on)
                && final(self).content().len() >= old(self).content().len() + old(self).pending().len()
                && (buf@.len() > 0 ==> final(self).pending().len() > 0)
                && (0 < buf@.len() <= 0x20_0000 ==> final(self).pending() == buf@),
            r is Err ==> appended_prefix(final(self).content(), old(self).content(), old(self).pending() + buf@)
                && final(self).pending() == Seq::<u8>::empty(),
    { unimplemented!() }

    // flush: waits for the pending copy. Ok: it is in the file. Err: a prefix of it is.
    #[verifier::external_body]
    pub fn flush(&mut self) -> (r: Result<(), IoError>)
        ensures
            r is Ok ==> final(self).content() == old(self).content() + old(self).pending(),
            r is Err ==> appended_prefix(final(self).content(), old(self).content(), old(self).pending()),
            final(self).pending() == Seq::<u8>::empty(),
    { unimplemented!() }

    // sync_all: completes the pending copy like flush, then fsync (durability is not part of this model). tokio takes `&self`
    // (interior mutability): the receiver is `&mut` here so that the ghost state can change (R6).
    #[verifier::external_body]
    pub fn sync_all(&mut self) -> (r: Result<(), IoError>)
        ensures
            r is Ok ==> final(self).content() == old(self).content() + old(self).pending(),
            r is Err ==> appended_prefix(final(self).content(), old(self).content(), old(self).pending()),
            final(self).pending() == Seq::<u8>::empty(),
    { unimplemented!() }
}
// a file never holds more than i64::MAX bytes (off_t)
#[verifier::external_body]
pub broadcast proof fn axiom_file_len(f: &File)
    ensures #[trigger] f.content().len() <= i64::MAX,
{ }

// `new` is `old` with a prefix of `data` appended (never bytes from elsewhere); existential-free: the prefix length is the growth
pub open spec fn appended_prefix(new: Seq<u8>, old: Seq<u8>, data: Seq<u8>) -> bool {
    &&& old.len() <= new.len() <= old.len() + data.len()
    &&& new =~= old + data.subrange(0, new.len() - old.len())
}
// a prefix of a prefix: c2 = c ++ prefix(p) and c ++ p = f0 ++ prefix(d), with c not shorter than f0, give c2 = f0 ++ prefix(d)
pub broadcast proof fn lemma_prefix_chain(c2: Seq<u8>, c: Seq<u8>, p: Seq<u8>, f0: Seq<u8>, d: Seq<u8>)
    requires #[trigger] appended_prefix(c2, c, p), #[trigger] appended_prefix(c + p, f0, d), f0.len() <= c.len(),
    ensures appended_prefix(c2, f0, d),
{
    let m = (c + p).len() - f0.len();
    assert(c2 =~= (c + p).subrange(0, c2.len() as int));
    assert((f0 + d.subrange(0, m)).subrange(0, c2.len() as int) =~= f0 + d.subrange(0, c2.len() - f0.len()));
}

// one accepted chunk: (c ++ p) is f0 ++ d[0..m], `rest` is d[m..]; accepting rest[0..n] keeps that shape with m + n
pub proof fn lemma_write_step(c: Seq<u8>, p: Seq<u8>, f0: Seq<u8>, d: Seq<u8>, rest: Seq<u8>, n: int)
    ensures
        (appended_prefix(c + p, f0, d) && rest == d.subrange((c + p).len() - f0.len(), d.len() as int) && 0 <= n <= rest.len()) ==> {
            &&& appended_prefix((c + p) + rest.subrange(0, n), f0, d)
            &&& rest.subrange(n, rest.len() as int) == d.subrange(((c + p) + rest.subrange(0, n)).len() - f0.len(), d.len() as int)
        },
{
    if appended_prefix(c + p, f0, d) && rest == d.subrange((c + p).len() - f0.len(), d.len() as int) && 0 <= n <= rest.len() {
        let m = (c + p).len() - f0.len();
        assert((c + p) + rest.subrange(0, n) =~= f0 + d.subrange(0, m + n));
        assert(rest.subrange(n, rest.len() as int) =~= d.subrange(m + n, d.len() as int));
    }
}

// ---- the record of one batch in the log file: 24-byte header, then the payload -----------------------------------------------------------
// header layout: same spec function (name and shape) as unit codec_storage, where BOTH `header_as_bytes` ([C02.codec.header.enc]) and
// the reader's header parser ([C02.codec.header.rt/.sound]) are proved against it
pub open spec fn enc_batch_header(base_offset: u64, length: u32, last_offset_delta: u32, max_timestamp: u64) -> Seq<u8> {
    le64(base_offset) + le32(length) + le32(last_offset_delta) + le64(max_timestamp)
}
pub open spec fn header_bytes(b: &RetainedMessageBatch) -> Seq<u8> {
    enc_batch_header(b.base_offset, b.length as u32, b.last_offset_delta, b.max_timestamp)
}
pub open spec fn enc_batch(b: &RetainedMessageBatch) -> Seq<u8> { header_bytes(b) + b.bytes@ }
pub proof fn lemma_header_len(b: &RetainedMessageBatch)
    ensures header_bytes(b).len() == 24, enc_batch(b).len() == 24 + b.bytes@.len(),
{
    lemma_le_facts();
}
impl RetainedMessageBatch {
    // PROVED in unit codec_storage: `[C02.codec.header.enc]` (the real body is extracted and verified there)
    #[verifier::external_body]
    pub fn header_as_bytes(&self) -> (r: [u8; 24])
        ensures r@ =~= header_bytes(self),
    { unimplemented!() }
}

// ---- the background persister (NoWait): owns the file; the writer only queues ----------------------------------------------------------
#[verifier::external_body]
pub struct PersisterTask { _p: () }
impl PersisterTask {
    // the records handed to the task and not yet written, oldest first (flume unbounded channel)
    pub uninterp spec fn queue(&self) -> Seq<Seq<u8>>;
    // PersisterTask::new: spawns the task loop (`run`) with the file and a clone of the published-size cell; nothing queued yet
    #[verifier::external_body]
    pub fn new(file: File, file_path: String, fsync: bool, log_file_size: Counter, max_retries: u32, retry_delay: IggyDuration) -> (r: PersisterTask)
        ensures r.queue() == Seq::<Seq<u8>>::empty(),
    { unimplemented!() }
    #[verifier::external_body]
    pub fn persist(&mut self, batch_to_write: RetainedMessageBatch)
        ensures final(self).queue() == old(self).queue().push(enc_batch(&batch_to_write)),
    { unimplemented!() }
}
#[derive(Clone, Copy)]
pub struct IggyDuration { pub micros: u64 }
pub struct Duration { pub micros: u64 }
impl IggyDuration {
    #[verifier::external_body]
    pub fn get_duration(&self) -> (r: Duration) { unimplemented!() }
}
#[verifier::external_body]
pub fn sleep(d: Duration) { unimplemented!() }

// R9: a `panic!` site. Its precondition is `false`: the site has to be unreachable under the contract of the function holding it.
pub fn panic_site()
    requires false, //@requires [C04.mode.nopanic]
{ }

// ---- what a retried write can leave in front of the final copy: pieces, each a non-empty prefix of the record ---------------------------
pub open spec fn is_pieces(j: Seq<u8>, e: Seq<u8>) -> bool
    decreases j.len(),
{
    j.len() == 0 || exists|k: int| 1 <= k <= e.len() && k <= j.len()
        && #[trigger] j.subrange(j.len() - k, j.len() as int) == e.subrange(0, k) && is_pieces(j.subrange(0, j.len() - k), e)
}
// appending one more (possibly empty) prefix of e keeps it a sequence of pieces
pub proof fn lemma_pieces_push(j: Seq<u8>, e: Seq<u8>, k: int)
    ensures (is_pieces(j, e) && 0 <= k <= e.len()) ==> is_pieces(j + e.subrange(0, k), e),
{
    if is_pieces(j, e) && 0 <= k <= e.len() {
        let n = j + e.subrange(0, k);
        if k == 0 {
            assert(n =~= j);
        } else {
            assert(n.subrange(n.len() - k, n.len() as int) =~= e.subrange(0, k));
            assert(n.subrange(0, n.len() - k) =~= j);
        }
    }
}

// ---- the log file as a sequence of records (link to vx/prelude/segview.rs `file(): Seq<BatchV>`) ---------------------------------------
pub open spec fn log_bytes(f: Seq<Seq<u8>>) -> Seq<u8>
    decreases f.len(),
{
    if f.len() == 0 { Seq::<u8>::empty() } else { log_bytes(f.drop_last()) + f.last() }
}

// ---- the writer's view -----------------------------------------------------------------------------------------------------------------
pub open spec fn w_content(w: &SegmentLogWriter) -> Seq<u8> { w.file->0.content() }
pub open spec fn w_pending(w: &SegmentLogWriter) -> Seq<u8> { w.file->0.pending() }
// everything but the file's bytes is the same
pub open spec fn w_frame(a: &SegmentLogWriter, b: &SegmentLogWriter) -> bool {
    &&& a.file_path == b.file_path
    &&& a.file is Some == b.file is Some
    &&& a.persister_task == b.persister_task
    &&& a.log_size_bytes == b.log_size_bytes
    &&& a.fsync == b.fsync
}
// the writer at rest (Wait mode = it holds the file): the published size is never ahead of what a reader can see in the file, and
// nothing accepted is still on its way. NOT required: `v == content().len()`.
// Established by `SegmentLogWriter::new` (fresh handle; `log_size_bytes.store(metadata.len())`).
pub open spec fn wr_inv(w: &SegmentLogWriter) -> bool {
    w.file is Some ==> w.log_size_bytes.v <= w_content(w).len() && w_pending(w).len() == 0
}

// ---- the index writer's view ------------------------------------------------------------------------------------------------------------
// index record on disk (16 bytes): same spec function as unit codec_storage ([C13.storage.index.enc] / .rt / .sound)
pub open spec fn enc_index(i: Index) -> Seq<u8> { le32(i.offset) + le32(i.position) + le64(i.timestamp) }
pub proof fn lemma_index_len(i: Index)
    ensures enc_index(i).len() == 16,
{
    lemma_le_facts();
}
pub open spec fn ix_frame(a: &SegmentIndexWriter, b: &SegmentIndexWriter) -> bool {
    a.file_path == b.file_path && a.index_size_bytes == b.index_size_bytes && a.fsync == b.fsync
}
// the index writer at rest: the published index size is never ahead of what a reader can see, nothing is on its way
pub open spec fn ix_inv(w: &SegmentIndexWriter) -> bool {
    w.index_size_bytes.v <= w.file.content().len() && w.file.pending().len() == 0
}
