// ---- unit prelude: catalogue_more (C06 users / partitions / cascades, C08 user deletion) ---------------------------
// Stand-ins (R4), assumed contracts of callees that are not extracted, and the spec vocabulary of the views.
// Nothing here re-states a function body of /repo.

// --- names: opaque strings; only equality is observable (A-std: clone/to_owned/to_string/into copy the value) ----
#[verifier::external_body]
#[derive(Debug)]
pub struct Name { s: String }
// `1 <= len <= 255` (what Identifier::named accepts)
pub uninterp spec fn ident_len_ok(n: Name) -> bool;
impl Name {
    #[verifier::external_body]
    pub fn to_owned(&self) -> (r: Name) ensures r == *self { unimplemented!() }
    #[verifier::external_body]
    pub fn to_string(&self) -> (r: Name) ensures r == *self { unimplemented!() }
}
impl Clone for Name {
    #[verifier::external_body]
    fn clone(&self) -> (r: Name) ensures r == *self { unimplemented!() }
}
impl<'a> From<&'a Name> for Name {
    #[verifier::external_body]
    fn from(v: &'a Name) -> (r: Name) ensures r == *v { unimplemented!() }
}
impl<'a> vstd::std_specs::convert::FromSpecImpl<&'a Name> for Name {
    open spec fn obeys_from_spec() -> bool { true }
    open spec fn from_spec(v: &'a Name) -> Name { *v }
}
// A-std: `ToOwned::to_owned` of a `Clone` type is `clone` (std's blanket impl)
pub assume_specification<T: Clone> [ <T as std::borrow::ToOwned>::to_owned ](x: &T) -> (r: T)
    ensures vstd::pervasive::cloned::<T>(*x, r);

#[derive(Debug)]
pub enum IggyError {
    InvalidIdentifier,
    StaleClient,
    Unauthenticated,
    Unauthorized,
    ResourceNotFound(Name),
    UserAlreadyExists,
    UsersLimitReached,
    CannotDeleteUser(u32),
    ClientNotFound(u32),
    TooManyPartitions,
    StreamIdNotFound(u32),
    TopicIdNotFound(u32, u32),
    CannotDeleteTopic(u32, u32),
    CannotDeleteStream(u32),
    Io,
}

// --- atomics (R6): plain integers with wrapping fetch_add / fetch_sub (documented std semantics) --------------------
pub open spec fn wrap32(x: int) -> u32 { (x % 0x1_0000_0000) as u32 }
pub open spec fn wrap64(x: int) -> u64 { (x % 0x1_0000_0000_0000_0000) as u64 }
pub struct Counter32 { pub v: u32 }
impl Counter32 {
    #[verifier::external_body]
    pub fn fetch_add(&mut self, n: u32) -> (r: u32) ensures r == old(self).v, final(self).v == wrap32(old(self).v + n), { unimplemented!() }
    #[verifier::external_body]
    pub fn fetch_sub(&mut self, n: u32) -> (r: u32) ensures r == old(self).v, final(self).v == wrap32(old(self).v - n), { unimplemented!() }
    pub fn load(&self) -> (r: u32) ensures r == self.v { self.v }
    pub fn store(&mut self, n: u32) ensures final(self).v == n { self.v = n; }
}
// the partition a cursor value stands for when the topic has n partitions (Topic::get_next_partition_id wraps a cursor past n to 1)
pub open spec fn cursor_norm(c: u32, n: nat) -> int { if c > n { 1 } else { c as int } }
impl Clone for Counter32 { #[verifier::external_body] fn clone(&self) -> (r: Self) ensures r == *self { unimplemented!() } }
pub struct Counter64 { pub v: u64 }
impl Counter64 {
    pub fn load(&self) -> (r: u64) ensures r == self.v { self.v }
}
impl Clone for Counter64 { #[verifier::external_body] fn clone(&self) -> (r: Self) ensures r == *self { unimplemented!() } }

// --- clock (A-clock) ------------------------------------------------------------------------------------------------
#[derive(Clone, Copy, Debug)]
pub struct IggyTimestamp(pub u64);
impl IggyTimestamp {
    #[verifier::external_body]
    pub fn now() -> (r: IggyTimestamp) { unimplemented!() }
}

// --- bcrypt wrapper (C10's subject): some string -------------------------------------------------------------------
pub mod crypto {
    use super::*;
    #[verifier::external_body]
    pub fn hash_password(password: &Name) -> (r: Name) { unimplemented!() }
}

// --- Identifier (sdk): the payload is abstracted to two uninterpreted projections; `kind`/`length` are real fields --
impl Identifier {
    pub uninterp spec fn num(&self) -> u32;
    pub uninterp spec fn text(&self) -> Name;
    #[verifier::external_body]
    pub fn get_u32_value(&self) -> (r: Result<u32, IggyError>)
        ensures r == (if self.kind == IdKind::Numeric && self.length == 4 { Ok::<u32, IggyError>(self.num()) } else { Err::<u32, IggyError>(IggyError::InvalidIdentifier) }),
    { unimplemented!() }
    #[verifier::external_body]
    pub fn get_cow_str_value(&self) -> (r: Result<Name, IggyError>)
        ensures r == (if self.kind == IdKind::Name { Ok::<Name, IggyError>(self.text()) } else { Err::<Name, IggyError>(IggyError::InvalidIdentifier) }),
    { unimplemented!() }
    // Identifier::numeric: 0 is rejected, otherwise a 4-byte numeric identifier carrying the value
    #[verifier::external_body]
    pub fn numeric(value: u32) -> (r: Result<Identifier, IggyError>)
        ensures match r { Ok(i) => value != 0 && is_numeric_ident(i, value), Err(_) => value == 0 },
    { unimplemented!() }
    // Identifier::named: a name identifier carrying the text (never looked at as a number), or Err on a bad length
    #[verifier::external_body]
    pub fn named(value: &Name) -> (r: Result<Identifier, IggyError>)
        ensures match r { Ok(i) => ident_len_ok(*value) && is_name_ident(i, *value), Err(_) => !ident_len_ok(*value) },
    { unimplemented!() }
    #[verifier::external_body]
    pub fn to_string(&self) -> (r: Name) { unimplemented!() }
}
pub open spec fn is_numeric_ident(i: Identifier, v: u32) -> bool { i.kind == IdKind::Numeric && i.length == 4 && i.num() == v }
pub open spec fn is_name_ident(i: Identifier, n: Name) -> bool { i.kind == IdKind::Name && i.length > 0 && i.text() == n }
// sdk: `impl TryFrom<u32> for Identifier { fn try_from(value) { Identifier::numeric(value) } }`
impl TryFrom<u32> for Identifier {
    type Error = IggyError;
    #[verifier::external_body]
    fn try_from(value: u32) -> (r: Result<Self, IggyError>)
        ensures match r { Ok(i) => value != 0 && is_numeric_ident(i, value), Err(_) => value == 0 },
    { unimplemented!() }
}

// --- collaborators that are not part of the catalogue view ---------------------------------------------------------
#[verifier::external_body]
#[derive(Debug)]
pub struct Permissions { x: u8 }
impl Clone for Permissions { #[verifier::external_body] fn clone(&self) -> (r: Self) ensures r == *self { unimplemented!() } }
// session: authentication state is C09/C10's subject; here an opaque source of a user id
impl Session {
    #[verifier::external_body]
    pub fn get_user_id(&self) -> (r: u32) { unimplemented!() }
}
// authorisation (C09's subject): arbitrary answers through `&self`. The permission tables are written through `&mut`;
// their abstract view is `rows`: user id -> the permissions registered for it (unit permissioner proves what
// init_permissions_for_user / delete_permissions_for_user do to the concrete tables, [C09.tables.*]).
#[verifier::external_body]
pub struct Permissioner { x: u8 }
impl Permissioner {
    pub uninterp spec fn rows(&self) -> Map<u32, Option<Permissions>>;
    #[verifier::external_body] pub fn create_user(&self, user_id: u32) -> (r: Result<(), IggyError>) { unimplemented!() }
    #[verifier::external_body] pub fn delete_user(&self, user_id: u32) -> (r: Result<(), IggyError>) { unimplemented!() }
    #[verifier::external_body] pub fn update_user(&self, user_id: u32) -> (r: Result<(), IggyError>) { unimplemented!() }
    #[verifier::external_body] pub fn get_user(&self, user_id: u32) -> (r: Result<(), IggyError>) { unimplemented!() }
    #[verifier::external_body] pub fn get_users(&self, user_id: u32) -> (r: Result<(), IggyError>) { unimplemented!() }
    // LINKED (as a simulation: `rows()` is ghost bookkeeping coupled to the real tables, not a function of them): units/permissioner/lemmas.rs,
    // harness [C09.link.users_restart.init_permissions_for_user] (the same stub as in unit users_restart). The `requires` was ADDED by the link:
    // the real function only adds rows; on a user that already has rows the old stream rows survive and the tables are no longer the
    // denormalisation of `rows()`.
    #[verifier::external_body]
    pub fn init_permissions_for_user(&mut self, user_id: u32, permissions: Option<Permissions>)
        requires !old(self).rows().contains_key(user_id),
        ensures final(self).rows() == old(self).rows().insert(user_id, permissions),
    { unimplemented!() }
    // LINKED (simulation, see above): units/permissioner/lemmas.rs, harness [C09.link.catalogue_more.delete_permissions_for_user]
    #[verifier::external_body]
    pub fn delete_permissions_for_user(&mut self, user_id: u32)
        ensures final(self).rows() == old(self).rows().remove(user_id),
    { unimplemented!() }
}
#[verifier::external_body]
pub struct Metrics { x: u8 }
impl Metrics {
    #[verifier::external_body] pub fn increment_users(&self, n: u32) { unimplemented!() }
    #[verifier::external_body] pub fn decrement_users(&self, n: u32) { unimplemented!() }
}
impl System {
    // authentication gate (C09 [C09.authn.*], unit authn_gate): reads the session only
    #[verifier::external_body]
    pub fn ensure_authenticated(&self, session: &Session) -> (r: Result<(), IggyError>) { unimplemented!() }
}

// --- the client table (unit client_memberships): real structs (R12), methods cited with the contracts proved there ----
// a client is filed under its own session's client id (established by add_client)
pub open spec fn cm_keys_wf(cm: &ClientManager) -> bool {
    forall|k: u32| #[trigger] cm.clients@.contains_key(k) ==> cm.clients@[k].session.client_id == k
}
// a client holds each membership at most once (client_memberships [C06.member.join.unique])
pub open spec fn no_dup_memberships(gs: Seq<ConsumerGroup>) -> bool {
    forall|i: int, j: int| 0 <= i < j < gs.len() ==> gs[i] != gs[j]
}
pub open spec fn members_wf(cm: &ClientManager) -> bool {
    forall|k: u32| #[trigger] cm.clients@.contains_key(k) ==> no_dup_memberships(cm.clients@[k].consumer_groups@)
}
// recorded memberships carry the RESOLVED ids of existing entities, and catalogue ids are never 0
pub open spec fn cm_ids_nonzero(cm: &ClientManager) -> bool {
    forall|k: u32, i: int| #![trigger cm.clients@[k].consumer_groups@[i]] cm.clients@.contains_key(k) && 0 <= i < cm.clients@[k].consumer_groups@.len()
        ==> cm.clients@[k].consumer_groups@[i].stream_id != 0 && cm.clients@[k].consumer_groups@[i].topic_id != 0 && cm.clients@[k].consumer_groups@[i].group_id != 0
}
impl ClientManager {
    // client_memberships [C06.cascade.user.ok], [C06.cascade.user], [C06.cascade.user.rest]
    // LINKED: units/client_memberships/lemmas.rs, harness [C06.link.catalogue_more.delete_clients_for_user] (mirror edits there)
    #[verifier::external_body]
    pub fn delete_clients_for_user(&mut self, user_id: u32) -> (r: Result<(), IggyError>)
        requires cm_keys_wf(old(self)),
        ensures
            r is Ok,
            forall|k: u32| #[trigger] final(self).clients@.contains_key(k)
                <==> (old(self).clients@.contains_key(k) && old(self).clients@[k].user_id != Some(user_id)),
            forall|k: u32| #[trigger] final(self).clients@.contains_key(k) ==> final(self).clients@[k] == old(self).clients@[k],
    { unimplemented!() }
}

// --- R8 closure schemas over maps (documented std semantics; iteration order abstracted) ------------------------------
// m.iter().find(|(k, v)| P).map(|(_, v)| v)
#[verifier::external_body]
pub fn std_map_find_value<'a, K, V>(m: &'a HashMap<K, V>, Ghost(f): Ghost<spec_fn(K, V) -> bool>) -> (r: Option<&'a V>)
    ensures match r {
        Some(v) => exists|k: K| #[trigger] m@.contains_key(k) && m@[k] == *v && f(k, *v),
        None => forall|k: K| #[trigger] m@.contains_key(k) ==> !f(k, m@[k]),
    },
{ unimplemented!() }
// m.iter_mut().find(|(k, v)| P).map(|(_, v)| v): the map after the borrow ends is the old map with the final value
// of the borrow written at the found key
#[verifier::external_body]
pub fn std_map_find_value_mut<'a, K, V>(m: &'a mut HashMap<K, V>, Ghost(f): Ghost<spec_fn(K, V) -> bool>) -> (r: Option<&'a mut V>)
    ensures match r {
        Some(v) => exists|k: K| #[trigger] old(m)@.contains_key(k) && old(m)@[k] == *v && f(k, *v)
                      && final(m)@ == old(m)@.insert(k, *final(v)) && (*final(v) == *v ==> *final(m) == *old(m)),
        None => (forall|k: K| #[trigger] old(m)@.contains_key(k) ==> !f(k, old(m)@[k])) && *final(m) == *old(m),
    },
{ unimplemented!() }
// m.iter().any(|(k, v)| P)
#[verifier::external_body]
pub fn std_map_any<K, V>(m: &HashMap<K, V>, Ghost(f): Ghost<spec_fn(K, V) -> bool>) -> (r: bool)
    ensures r == (exists|k: K| #[trigger] m@.contains_key(k) && f(k, m@[k])),
{ unimplemented!() }

// ---- the user view: users: Map<UserId, User>, NO name index (uniqueness of usernames is checked by a scan) ----------
// [C06.users.unique] a record sits under its own id ...
pub open spec fn users_wf(s: &System) -> bool {
    forall|k: u32| #[trigger] s.users@.contains_key(k) ==> s.users@[k].id == k
}
// ... and usernames are pairwise distinct
pub open spec fn names_unique(s: &System) -> bool {
    forall|a: u32, b: u32| #[trigger] s.users@.contains_key(a) && #[trigger] s.users@.contains_key(b)
        && s.users@[a].username == s.users@[b].username ==> a == b
}
// (quantifiers trigger on the raw `contains_key` term so that the facts survive updates of other fields)
pub open spec fn name_taken(s: &System, n: Name) -> bool {
    exists|k: u32| #[trigger] s.users@.contains_key(k) && s.users@[k].username == n
}
// the user an Identifier denotes (None: malformed identifier, unknown id or unknown name)
pub open spec fn user_of(s: &System, ident: &Identifier) -> Option<u32> {
    if ident.kind == IdKind::Numeric {
        if ident.length == 4 && s.users@.contains_key(ident.num()) { Some(ident.num()) } else { None }
    } else if name_taken(s, ident.text()) {
        Some(choose|k: u32| #[trigger] s.users@.contains_key(k) && s.users@[k].username == ident.text())
    } else {
        None
    }
}
// the id allocator lies above every stored id (System::load_users: USER_ID = max id + 1) and never hands out 0
// (exposed by link pass 2) only existing users have rows in the permission tables: with alloc_inv it makes the id handed out by
// create_user a user WITHOUT rows, the precondition of Permissioner::init_permissions_for_user. Kept by create_user / delete_user.
pub open spec fn perm_rows_within(s: &System) -> bool {
    forall|k: u32| #[trigger] s.permissioner.rows().contains_key(k) ==> s.users@.contains_key(k)
}
pub open spec fn alloc_inv(s: &System, c: &Counter32) -> bool {
    c.v >= 1 && forall|k: u32| #[trigger] s.users@.contains_key(k) ==> k < c.v
}
// frames
pub open spec fn only_users(a: &System, b: &System) -> bool {
    *b == (System { users: b.users, ..*a })
}
pub open spec fn only_users_perm(a: &System, b: &System) -> bool {
    *b == (System { users: b.users, permissioner: b.permissioner, ..*a })
}
pub open spec fn only_users_perm_clients(a: &System, b: &System) -> bool {
    *b == (System { users: b.users, permissioner: b.permissioner, client_manager: b.client_manager, ..*a })
}
// what update_user makes of a record: only the listed fields change
pub open spec fn updated_user(u: User, username: Option<Name>, status: Option<UserStatus>) -> User {
    User {
        username: match username { Some(n) => n, None => u.username },
        status: match status { Some(st) => st, None => u.status },
        ..u
    }
}

// ---- partitions of a topic ---------------------------------------------------------------------------------------------
#[verifier::external_body]
pub struct SystemConfig { x: u8 }
impl Clone for SystemConfig { #[verifier::external_body] fn clone(&self) -> (r: Self) { unimplemented!() } }
#[derive(Clone, Copy)]
pub struct IggyExpiry(pub u64);
// ghost events of the storage layer (A-io): the directory tree of partition (stream, topic, id) was removed / written.
// An event predicate is established ONLY by the stub below, so a postcondition stating it proves that the call was made
// with exactly these ids.
pub uninterp spec fn part_dir_deleted(stream_id: u32, topic_id: u32, partition_id: u32) -> bool;
pub uninterp spec fn part_dir_saved(stream_id: u32, topic_id: u32, partition_id: u32) -> bool;
#[verifier::external_body]
pub struct PartitionStorage { x: u8 }
impl PartitionStorage {
    // FilePartitionStorage::delete: removes the offset directories and the partition directory (fault scope: Ok)
    #[verifier::external_body]
    pub fn delete(&self, partition: &Partition) -> (r: Result<(), IggyError>)
        ensures r is Ok, part_dir_deleted(partition.stream_id, partition.topic_id, partition.partition_id),
    { unimplemented!() }
}
pub uninterp spec fn topic_dir_deleted(stream_id: u32, topic_id: u32) -> bool;
pub uninterp spec fn stream_dir_deleted(stream_id: u32) -> bool;
#[verifier::external_body]
pub struct TopicStorage { x: u8 }
impl TopicStorage {
    // FileTopicStorage::delete: removes the topic directory (fault scope: Ok)
    #[verifier::external_body]
    pub fn delete(&self, topic: &Topic) -> (r: Result<(), IggyError>)
        ensures r is Ok, topic_dir_deleted(topic.stream_id, topic.topic_id),
    { unimplemented!() }
}
#[verifier::external_body]
pub struct StreamStorage { x: u8 }
impl StreamStorage {
    // FileStreamStorage::delete: removes the stream directory (fault scope: Ok)
    #[verifier::external_body]
    pub fn delete(&self, stream: &Stream) -> (r: Result<(), IggyError>)
        ensures r is Ok, stream_dir_deleted(stream.stream_id),
    { unimplemented!() }
}
pub struct SystemStorage { pub partition: PartitionStorage, pub topic: TopicStorage, pub stream: StreamStorage }
impl Clone for SystemStorage { #[verifier::external_body] fn clone(&self) -> (r: Self) { unimplemented!() } }
// a segment: opaque here. Segment::delete (unit counters, [C16.delete.*]) closes and removes the two files and subtracts
// the segment's size / message count from the six shared gauges; fault scope: Ok
#[verifier::external_body]
pub struct Segment { x: u8 }
impl Segment {
    #[verifier::external_body]
    pub fn delete(&mut self) -> (r: Result<(), IggyError>) ensures r is Ok { unimplemented!() }
}
impl Partition {
    // construction is another subsystem; the record carries the ids it was created for
    // LINKED: units/wiring/lemmas.rs, harness [C16.link.catalogue_more.partition_create] (mirror edits there)
    #[verifier::external_body]
    pub fn create(stream_id: u32, topic_id: u32, partition_id: u32, with_segment: bool, config: SystemConfig, storage: SystemStorage,
        message_expiry: IggyExpiry, messages_count_of_parent_stream: Counter64, messages_count_of_parent_topic: Counter64,
        size_of_parent_stream: Counter64, size_of_parent_topic: Counter64, segments_count_of_parent_stream: Counter32,
        created_at: IggyTimestamp) -> (r: Partition)
        ensures r.stream_id == stream_id && r.topic_id == topic_id && r.partition_id == partition_id,
    { unimplemented!() }
    // Partition::persist -> storage.partition.save: creates the directories and the first segment's files (fault scope: Ok);
    // the identity of the record is untouched
    #[verifier::external_body]
    pub fn persist(&mut self) -> (r: Result<(), IggyError>)
        ensures r is Ok, part_dir_saved(old(self).stream_id, old(self).topic_id, old(self).partition_id),
            final(self).stream_id == old(self).stream_id && final(self).topic_id == old(self).topic_id && final(self).partition_id == old(self).partition_id,
    { unimplemented!() }
}
// partitions are numbered 1..=n without holes (added and removed at the high end), each filed under its own id and
// carrying the ids of its topic
pub open spec fn parts_wf(t: &Topic) -> bool {
    &&& t.partitions@.dom().finite()
    &&& t.partitions@.len() <= MAX_PARTITIONS_COUNT
    &&& forall|k: u32| #[trigger] t.partitions@.contains_key(k) <==> 1 <= k <= t.partitions@.len()
    &&& forall|k: u32| #[trigger] t.partitions@.contains_key(k) ==> t.partitions@[k].partition_id == k
            && t.partitions@[k].stream_id == t.stream_id && t.partitions@[k].topic_id == t.topic_id
}
// gauge sums over the partitions lo+1 ..= hi
pub open spec fn sum_segs(m: Map<u32, Partition>, lo: int, hi: int) -> int
    decreases hi - lo,
{
    if hi <= lo { 0 } else { sum_segs(m, lo, hi - 1) + m[hi as u32].segments@.len() }
}
pub open spec fn sum_msgs(m: Map<u32, Partition>, lo: int, hi: int) -> int
    decreases hi - lo,
{
    if hi <= lo { 0 } else { sum_msgs(m, lo, hi - 1) + m[hi as u32].messages_count.v }
}
// the number of partitions a delete command removes: the request, clamped to what exists
pub open spec fn clamp(count: u32, n: nat) -> int { if count > n { n as int } else { count as int } }

// ---- delete / purge cascades ---------------------------------------------------------------------------------------------
// R8 map-iteration schema for `m.values().cloned().collect()` on a map of lock-wrapped values: one HANDLE per entry, in
// key_order. With the lock wrapper dropped (R4) a handle is the value it denotes at the time of the call; what is done
// THROUGH a handle is observed by ghost events only (part_purged / part_dir_deleted), never by reading the map again.
impl<K, V> HashMap<K, V> {
    #[verifier::external_body]
    pub fn values_cloned_vec(&self) -> (r: Vec<V>)
        ensures
            keys_exactly(self@, self.key_order()),
            r@.len() == self.key_order().len(),
            forall|i: int| 0 <= i < r@.len() ==> #[trigger] r@[i] == self@[self.key_order()[i]],
    { unimplemented!() }
}
// Partition::purge (unit consumer_offsets: [C07.purge.*], [C01.purge]; fault scope: Ok): offsets, consumer offsets, cache
// and segments of THIS partition are reset. Observed here as the event `part_purged(stream, topic, partition)`.
pub uninterp spec fn part_purged(stream_id: u32, topic_id: u32, partition_id: u32) -> bool;
impl Partition {
    #[verifier::external_body]
    pub fn purge(&mut self) -> (r: Result<(), IggyError>)
        ensures r is Ok, part_purged(old(self).stream_id, old(self).topic_id, old(self).partition_id),
            final(self).stream_id == old(self).stream_id && final(self).topic_id == old(self).topic_id && final(self).partition_id == old(self).partition_id,
    { unimplemented!() }
}
// every partition record of every topic of the stream is filed under its own ids
pub open spec fn parts_ids_wf(t: &Topic) -> bool {
    forall|k: u32| #[trigger] t.partitions@.contains_key(k) ==> t.partitions@[k].partition_id == k
        && t.partitions@[k].stream_id == t.stream_id && t.partitions@[k].topic_id == t.topic_id
}
pub open spec fn stream_parts_wf(s: &Stream) -> bool {
    forall|t: u32| #[trigger] s.topics@.contains_key(t) ==> s.topics@[t].topic_id == t && s.topics@[t].stream_id == s.stream_id
        && parts_ids_wf(&s.topics@[t])
}
// every partition of the topic / of every topic of the stream was purged / removed from disk
pub open spec fn topic_purged(t: &Topic) -> bool {
    forall|k: u32| #[trigger] t.partitions@.contains_key(k) ==> part_purged(t.stream_id, t.topic_id, k)
}
pub open spec fn topic_deleted(t: &Topic) -> bool {
    &&& forall|k: u32| #[trigger] t.partitions@.contains_key(k) ==> part_dir_deleted(t.stream_id, t.topic_id, k)
    &&& topic_dir_deleted(t.stream_id, t.topic_id)
}
pub open spec fn stream_purged(s: &Stream) -> bool {
    forall|t: u32| #[trigger] s.topics@.contains_key(t) ==> topic_purged(&s.topics@[t])
}
pub open spec fn stream_deleted(s: &Stream) -> bool {
    &&& forall|t: u32| #[trigger] s.topics@.contains_key(t) ==> topic_deleted(&s.topics@[t])
    &&& stream_dir_deleted(s.stream_id)
}

// ---- catalogue look-ups, cited from unit catalogue_maps (assumed here, proved there) ---------------------------------------
// what an Identifier denotes in a catalogue (None: malformed identifier or unknown name)
pub open spec fn denotes(ident: &Identifier, idx: Map<Name, u32>) -> Option<u32> {
    if ident.kind == IdKind::Numeric {
        if ident.length == 4 { Some(ident.num()) } else { None }
    } else {
        if idx.contains_key(ident.text()) { Some(idx[ident.text()]) } else { None }
    }
}
pub open spec fn topic_of(s: &Stream, ident: &Identifier) -> Option<u32> {
    match denotes(ident, s.topics_ids@) {
        Some(id) => if s.topics@.contains_key(id) { Some(id) } else { None },
        None => None,
    }
}
pub open spec fn stream_of(s: &System, ident: &Identifier) -> Option<u32> {
    match denotes(ident, s.streams_ids@) {
        Some(id) => if s.streams@.contains_key(id) { Some(id) } else { None },
        None => None,
    }
}
pub open spec fn stream_wf(s: &Stream) -> bool {
    &&& forall|id: u32| #[trigger] s.topics@.contains_key(id) ==> s.topics@[id].topic_id == id
            && s.topics_ids@.contains_key(s.topics@[id].name) && s.topics_ids@[s.topics@[id].name] == id
    &&& forall|n: Name| #[trigger] s.topics_ids@.contains_key(n) ==> s.topics@.contains_key(s.topics_ids@[n]) && s.topics@[s.topics_ids@[n]].name == n
}
pub open spec fn stream_only_catalogue(a: &Stream, b: &Stream) -> bool {
    *b == (Stream { topics: b.topics, topics_ids: b.topics_ids, ..*a })
}
pub open spec fn stream_unchanged(a: &Stream, b: &Stream) -> bool {
    b.topics@ =~= a.topics@ && b.topics_ids@ =~= a.topics_ids@ && stream_only_catalogue(a, b)
}
pub open spec fn system_only_streams(a: &System, b: &System) -> bool {
    *b == (System { streams: b.streams, ..*a })
}
pub open spec fn system_only_catalogue(a: &System, b: &System) -> bool {
    *b == (System { streams: b.streams, streams_ids: b.streams_ids, ..*a })
}
pub open spec fn system_unchanged(a: &System, b: &System) -> bool {
    b.streams@ =~= a.streams@ && b.streams_ids@ =~= a.streams_ids@ && system_only_catalogue(a, b)
}
impl System {
    // catalogue_maps [C06.byname.stream.get]
    // LINKED: units/catalogue_maps/lemmas.rs, harness [C06.link.catalogue_more.get_stream] (mirror edits there)
    #[verifier::external_body]
    pub fn get_stream(&self, identifier: &Identifier) -> (r: Result<&Stream, IggyError>)
        ensures match r {
            Ok(s) => stream_of(self, identifier) is Some && *s == self.streams@[stream_of(self, identifier)->0],
            Err(_) => stream_of(self, identifier) is None },
    { unimplemented!() }
    // catalogue_maps [C06.byname.stream.get_mut]
    // LINKED: units/catalogue_maps/lemmas.rs, harness [C06.link.catalogue_more.get_stream_mut] (mirror edits there)
    #[verifier::external_body]
    pub fn get_stream_mut(&mut self, identifier: &Identifier) -> (r: Result<&mut Stream, IggyError>)
        ensures match r {
            Ok(s) => stream_of(old(self), identifier) is Some && *s == old(self).streams@[stream_of(old(self), identifier)->0]
                && final(self).streams@ == old(self).streams@.insert(stream_of(old(self), identifier)->0, *final(s)) && system_only_streams(old(self), final(self)),
            Err(_) => stream_of(old(self), identifier) is None && system_unchanged(old(self), final(self)) },
    { unimplemented!() }
}
impl Stream {
    // catalogue_maps [C06.byname.topic.get]
    // LINKED: units/catalogue_maps/lemmas.rs, harness [C06.link.catalogue_more.get_topic] (mirror edits there)
    #[verifier::external_body]
    pub fn get_topic(&self, identifier: &Identifier) -> (r: Result<&Topic, IggyError>)
        ensures match r {
            Ok(t) => topic_of(self, identifier) is Some && *t == self.topics@[topic_of(self, identifier)->0],
            Err(_) => topic_of(self, identifier) is None },
    { unimplemented!() }
}
// R6: bare AtomicU32 id allocators (Stream.current_topic_id, static CURRENT_STREAM_ID). Their value is C05's subject and
// not part of the catalogue view: opaque cells read and written through `&self`.
#[verifier::external_body]
pub struct AtomicCell32 { v: std::sync::atomic::AtomicU32 }
impl AtomicCell32 {
    #[verifier::external_body]
    pub const fn new(v: u32) -> (r: AtomicCell32) { AtomicCell32 { v: std::sync::atomic::AtomicU32::new(v) } }
    #[verifier::external_body]
    pub fn load(&self) -> (r: u32) { unimplemented!() }
    #[verifier::external_body]
    pub fn store(&self, n: u32) { unimplemented!() }
}
exec static CURRENT_STREAM_ID: AtomicCell32 ensures true { AtomicCell32::new(1) }
impl Stream {
    // catalogue_maps [C06.sibling.remove_topic], [C06.fail.remove_topic] (+ stream_wf preserved, [C06.bij.delete_topic])
    // LINKED: units/catalogue_maps/lemmas.rs, harness [C06.link.catalogue_more.remove_topic] (mirror edits there)
    #[verifier::external_body]
    pub fn remove_topic(&mut self, identifier: &Identifier) -> (r: Result<Topic, IggyError>)
        requires stream_wf(old(self)),
        ensures
            r matches Ok(t) ==> topic_of(old(self), identifier) == Some(t.topic_id) && t == old(self).topics@[t.topic_id]
                && final(self).topics@ == old(self).topics@.remove(t.topic_id) && final(self).topics_ids@ == old(self).topics_ids@.remove(t.name)
                && stream_only_catalogue(old(self), final(self)),
            r is Err ==> topic_of(old(self), identifier) is None && stream_unchanged(old(self), final(self)),
    { unimplemented!() }
    // gauges read for the metrics only (not part of the catalogue view)
    #[verifier::external_body] pub fn get_topics_count(&self) -> (r: u32) { unimplemented!() }
    #[verifier::external_body] pub fn get_partitions_count(&self) -> (r: u32) { unimplemented!() }
    #[verifier::external_body] pub fn get_messages_count(&self) -> (r: u64) { unimplemented!() }
    #[verifier::external_body] pub fn get_segments_count(&self) -> (r: u32) { unimplemented!() }
}
impl Topic {
    // the segment gauge of a topic, read for the metrics only (a sum over the partitions; not part of the catalogue view)
    #[verifier::external_body]
    pub fn get_segments_count(&self) -> (r: u32) { unimplemented!() }
}
impl Permissioner {
    #[verifier::external_body] pub fn get_stream(&self, user_id: u32, stream_id: u32) -> (r: Result<(), IggyError>) { unimplemented!() }
    #[verifier::external_body] pub fn get_topic(&self, user_id: u32, stream_id: u32, topic_id: u32) -> (r: Result<(), IggyError>) { unimplemented!() }
    #[verifier::external_body] pub fn delete_topic(&self, user_id: u32, stream_id: u32, topic_id: u32) -> (r: Result<(), IggyError>) { unimplemented!() }
    #[verifier::external_body] pub fn purge_topic(&self, user_id: u32, stream_id: u32, topic_id: u32) -> (r: Result<(), IggyError>) { unimplemented!() }
    #[verifier::external_body] pub fn purge_stream(&self, user_id: u32, stream_id: u32) -> (r: Result<(), IggyError>) { unimplemented!() }
}
impl Permissioner {
    #[verifier::external_body] pub fn delete_stream(&self, user_id: u32, stream_id: u32) -> (r: Result<(), IggyError>) { unimplemented!() }
}
impl Metrics {
    #[verifier::external_body] pub fn decrement_streams(&self, n: u32) { unimplemented!() }
    #[verifier::external_body] pub fn decrement_topics(&self, n: u32) { unimplemented!() }
    #[verifier::external_body] pub fn decrement_partitions(&self, n: u32) { unimplemented!() }
    #[verifier::external_body] pub fn decrement_messages(&self, n: u64) { unimplemented!() }
    #[verifier::external_body] pub fn decrement_segments(&self, n: u32) { unimplemented!() }
}
// the memberships of one client after the topic (sid, tid) is gone
pub open spec fn without_topic(gs: Seq<ConsumerGroup>, sid: u32, tid: u32) -> Seq<ConsumerGroup> {
    gs.filter(|g: ConsumerGroup| !(g.stream_id == sid && g.topic_id == tid))
}
impl ClientManager {
    // client_memberships [C06.cascade.topic.clients], [C06.cascade.topic]
    // LINKED: units/client_memberships/lemmas.rs, harness [C06.link.catalogue_more.delete_consumer_groups_for_topic] (mirror edits there)
    #[verifier::external_body]
    pub fn delete_consumer_groups_for_topic(&mut self, stream_id: u32, topic_id: u32)
        ensures
            final(self).clients@.dom() == old(self).clients@.dom(),
            forall|k: u32| #[trigger] final(self).clients@.contains_key(k) ==>
                final(self).clients@[k].user_id == old(self).clients@[k].user_id && final(self).clients@[k].session == old(self).clients@[k].session
                && final(self).clients@[k].consumer_groups@ == without_topic(old(self).clients@[k].consumer_groups@, stream_id, topic_id),
    { unimplemented!() }
}
pub open spec fn without_stream(gs: Seq<ConsumerGroup>, sid: u32) -> Seq<ConsumerGroup> {
    gs.filter(|g: ConsumerGroup| g.stream_id != sid)
}
impl ClientManager {
    // client_memberships [C06.cascade.stream.clients], [C06.cascade.stream]
    // LINKED: units/client_memberships/lemmas.rs, harness [C06.link.catalogue_more.delete_consumer_groups_for_stream] (mirror edits there)
    #[verifier::external_body]
    pub fn delete_consumer_groups_for_stream(&mut self, stream_id: u32)
        ensures
            final(self).clients@.dom() == old(self).clients@.dom(),
            forall|k: u32| #[trigger] final(self).clients@.contains_key(k) ==>
                final(self).clients@[k].user_id == old(self).clients@[k].user_id && final(self).clients@[k].session == old(self).clients@[k].session
                && final(self).clients@[k].consumer_groups@ == without_stream(old(self).clients@[k].consumer_groups@, stream_id),
    { unimplemented!() }
}
// the client table after the memberships nested in a deleted topic / stream were purged: same clients, same identity,
// exactly the nested memberships gone (order of the others kept)
pub open spec fn clients_without_topic(a: &ClientManager, b: &ClientManager, sid: u32, tid: u32) -> bool {
    &&& b.clients@.dom() == a.clients@.dom()
    &&& forall|k: u32| #[trigger] b.clients@.contains_key(k) ==> b.clients@[k].user_id == a.clients@[k].user_id && b.clients@[k].session == a.clients@[k].session
            && b.clients@[k].consumer_groups@ == without_topic(a.clients@[k].consumer_groups@, sid, tid)
}
pub open spec fn clients_without_stream(a: &ClientManager, b: &ClientManager, sid: u32) -> bool {
    &&& b.clients@.dom() == a.clients@.dom()
    &&& forall|k: u32| #[trigger] b.clients@.contains_key(k) ==> b.clients@[k].user_id == a.clients@[k].user_id && b.clients@[k].session == a.clients@[k].session
            && b.clients@[k].consumer_groups@ == without_stream(a.clients@[k].consumer_groups@, sid)
}
// a failed command leaves every stream as it was (views; the catalogue maps may be re-built objects)
pub open spec fn streams_unchanged(a: &System, b: &System) -> bool {
    &&& b.streams@.dom() =~= a.streams@.dom()
    &&& forall|k: u32| #[trigger] a.streams@.contains_key(k) ==> stream_unchanged(&a.streams@[k], &b.streams@[k])
    &&& b.streams_ids@ =~= a.streams_ids@
    &&& system_only_catalogue(a, b)
}
// system-level representation invariants used by the cascades (established by create_stream / create_topic, unit
// catalogue_maps: a stream is filed under its own id, a topic under its own id and carries its stream's id)
pub open spec fn sys_ids_wf(s: &System) -> bool {
    forall|k: u32| #[trigger] s.streams@.contains_key(k) ==> s.streams@[k].stream_id == k && stream_wf(&s.streams@[k]) && stream_parts_wf(&s.streams@[k])
}

// ---- C08: clients dropped by a user deletion leave their consumer groups -----------------------------------------------------
// Vocabulary of units client_disconnect / user_disconnect (vx/prelude/disconnect.rs), where both predicates are DEFINED
// over the real catalogue; this unit only passes them through, so they stay uninterpreted here:
//   left_evt(streams, m, c)    : the group that the recorded membership m denotes dropped member c and was re-dealt (ghost
//                                event established only by the stub of ConsumerGroup::delete_member, unit client_disconnect)
//   membership_live(streams, m): m still denotes an existing group of an existing topic of an existing stream
pub uninterp spec fn left_evt(streams: Map<u32, Stream>, m: ConsumerGroup, client_id: u32) -> bool;
pub uninterp spec fn membership_live(streams: Map<u32, Stream>, m: ConsumerGroup) -> bool;
// the client `k` has left every live group recorded in `gs`
pub open spec fn client_left_all(streams: Map<u32, Stream>, gs: Seq<ConsumerGroup>, k: u32) -> bool {
    forall|i: int| 0 <= i < gs.len() && membership_live(streams, #[trigger] gs[i]) ==> left_evt(streams, gs[i], k)
}
// every client of table `cm` that is logged in as `uid` has left every (live) group it had joined
pub open spec fn user_clients_left(streams: Map<u32, Stream>, cm: &ClientManager, uid: u32) -> bool {
    forall|k: u32| #[trigger] cm.clients@.contains_key(k) && cm.clients@[k].user_id == Some(uid)
        ==> client_left_all(streams, cm.clients@[k].consumer_groups@, k)
}
impl System {
    // THE REPAIR F70 (server/src/streaming/systems/clients.rs, System::delete_clients_for_user; it does not exist on the
    // unrepaired tree, where delete_user calls ClientManager::delete_clients_for_user instead): every client logged in as
    // the user is disconnected through System::delete_client. Assumed here, PROVED in unit user_disconnect
    // ([C06.cascade.user.table], [C06.cascade.user.table.rest], [C08.leave.user-delete.each], [C06.shape.user-disconnect.catalogue]). R6: `&self` promoted (the client table is written).
    // LINKED: units/user_disconnect/lemmas.rs, harness [C08.link.catalogue_more.system_delete_clients_for_user] (mirror edits there; left_evt /
    // membership_live, uninterpreted here, are the definitions of vx/prelude/disconnect.rs there)
    #[verifier::external_body]
    pub fn delete_clients_for_user(&mut self, user_id: u32)
        requires cm_keys_wf(&old(self).client_manager), members_wf(&old(self).client_manager), cm_ids_nonzero(&old(self).client_manager),
        ensures
            *final(self) == (System { client_manager: final(self).client_manager, ..*old(self) }),
            forall|k: u32| #[trigger] final(self).client_manager.clients@.contains_key(k)
                <==> (old(self).client_manager.clients@.contains_key(k) && old(self).client_manager.clients@[k].user_id != Some(user_id)),
            forall|k: u32| #[trigger] final(self).client_manager.clients@.contains_key(k) ==> final(self).client_manager.clients@[k] == old(self).client_manager.clients@[k],
            user_clients_left(old(self).streams@, &old(self).client_manager, user_id),
    { unimplemented!() }
}
