// ---- lemmas: catalogue_more — spec level, re-proved on every run ----

// gauge sums: all terms are non-negative, a range splits into adjacent ranges, a sub-range never exceeds the whole
pub proof fn lemma_sum_nonneg(m: Map<u32, Partition>, lo: int, hi: int)
    ensures sum_segs(m, lo, hi) >= 0, sum_msgs(m, lo, hi) >= 0,
    decreases hi - lo,
{
    if hi > lo { lemma_sum_nonneg(m, lo, hi - 1); }
}
pub proof fn lemma_sum_split(m: Map<u32, Partition>, a: int, b: int, c: int)
    requires a <= b <= c,
    ensures sum_segs(m, a, c) == sum_segs(m, a, b) + sum_segs(m, b, c), sum_msgs(m, a, c) == sum_msgs(m, a, b) + sum_msgs(m, b, c),
    decreases c - b,
{
    if c > b { lemma_sum_split(m, a, b, c - 1); }
}
// the partial sum up to partition i+1 and the term of partition i+1 are bounded by the topic's total
pub proof fn lemma_sum_step_bound(m: Map<u32, Partition>, lo: int, i: int, n: int)
    requires 0 <= lo <= i < n,
    ensures
        sum_segs(m, lo, i + 1) == sum_segs(m, lo, i) + m[(i + 1) as u32].segments@.len(),
        sum_msgs(m, lo, i + 1) == sum_msgs(m, lo, i) + m[(i + 1) as u32].messages_count.v,
        sum_segs(m, lo, i + 1) <= sum_segs(m, 0, n), m[(i + 1) as u32].segments@.len() <= sum_segs(m, 0, n),
        sum_msgs(m, lo, i + 1) <= sum_msgs(m, 0, n),
{
    lemma_sum_split(m, 0, lo, i + 1);
    lemma_sum_split(m, 0, i + 1, n);
    lemma_sum_nonneg(m, 0, lo);
    lemma_sum_nonneg(m, i + 1, n);
    lemma_sum_nonneg(m, lo, i);
}

// ---- users: property-level consequences of the view (users_wf + names_unique) ----
// label: C06.users.byname.lemma.agree
// lookup by name and by numeric id agree: the name of user k denotes k
pub proof fn lemma_user_lookup_agrees(s: &System, by_id: &Identifier, by_name: &Identifier)
    requires users_wf(s), names_unique(s),
        by_id.kind == IdKind::Numeric, by_id.length == 4, s.users@.contains_key(by_id.num()),
        by_name.kind == IdKind::Name, by_name.text() == s.users@[by_id.num()].username,
    ensures user_of(s, by_id) == Some(by_id.num()), user_of(s, by_name) == user_of(s, by_id),
{
    assert(name_taken(s, by_name.text()));
}

// label: C06.users.lemma.rename-frees-name
// a rename (the whole-map shape of [C06.users.update]) keeps ids and uniqueness and frees the old name for reuse
pub proof fn lemma_rename_frees_name(a: &System, b: &System, k: u32, n: Name, st: Option<UserStatus>)
    requires users_wf(a), names_unique(a), a.users@.contains_key(k),
        !(exists|j: u32| j != k && #[trigger] a.users@.contains_key(j) && a.users@[j].username == n),
        b.users@ == a.users@.insert(k, updated_user(a.users@[k], Some(n), st)),
    ensures users_wf(b), names_unique(b),
        a.users@[k].username != n ==> !name_taken(b, a.users@[k].username),
        forall|j: u32| j != k && #[trigger] a.users@.contains_key(j) ==> b.users@[j] == a.users@[j],
{
    assert forall|x: u32, y: u32| #[trigger] b.users@.contains_key(x) && #[trigger] b.users@.contains_key(y)
        && b.users@[x].username == b.users@[y].username implies x == y by {
        assert(a.users@.contains_key(x) && a.users@.contains_key(y));
    }
    if a.users@[k].username != n && name_taken(b, a.users@[k].username) {
        let j = choose|j: u32| #[trigger] b.users@.contains_key(j) && b.users@[j].username == a.users@[k].username;
        assert(a.users@.contains_key(j));
    }
}

// label: C06.users.lemma.delete-then-create
// delete / re-create: once user k is removed its name is free and its id is unused, so a later create of the same name
// under a fresh id is accepted by the uniqueness check and yields a well-formed table again
pub proof fn lemma_delete_then_create(a: &System, b: &System, c: &System, k: u32, id: u32, u: User)
    requires users_wf(a), names_unique(a), a.users@.contains_key(k),
        b.users@ == a.users@.remove(k),
        !b.users@.contains_key(id), u.id == id, u.username == a.users@[k].username,
        c.users@ == b.users@.insert(id, u),
    ensures !name_taken(b, a.users@[k].username), users_wf(c), names_unique(c),
{
    if name_taken(b, a.users@[k].username) {
        let j = choose|j: u32| #[trigger] b.users@.contains_key(j) && b.users@[j].username == a.users@[k].username;
        assert(a.users@.contains_key(j) && j != k);
    }
    assert forall|x: u32, y: u32| #[trigger] c.users@.contains_key(x) && #[trigger] c.users@.contains_key(y)
        && c.users@[x].username == c.users@[y].username implies x == y by {
        if x != id { assert(b.users@.contains_key(x) && a.users@.contains_key(x)); }
        if y != id { assert(b.users@.contains_key(y) && a.users@.contains_key(y)); }
    }
}

// ---- partitions: ids stay 1..=n under growth and shrinkage at the high end ----
// label: C06.partitions.lemma.shrink-then-grow
// the whole-map shapes of [C06.partitions.delete] and [C06.partitions.add] compose: after removing k and adding k' partitions
// the ids are exactly 1..=n-k+k' and the survivors 1..=n-k are the original records
pub proof fn lemma_shrink_then_grow(a: &Topic, b: &Topic, c: &Topic, k: int, k2: int)
    requires parts_wf(a), parts_wf(b), parts_wf(c), 0 <= k <= a.partitions@.len(), 0 <= k2,
        b.partitions@.len() == a.partitions@.len() - k,
        forall|p: u32| #[trigger] b.partitions@.contains_key(p) ==> b.partitions@[p] == a.partitions@[p],
        c.partitions@.len() == b.partitions@.len() + k2,
        forall|p: u32| #[trigger] b.partitions@.contains_key(p) ==> c.partitions@[p] == b.partitions@[p],
    ensures
        forall|p: u32| #[trigger] c.partitions@.contains_key(p) <==> 1 <= p <= a.partitions@.len() - k + k2,
        forall|p: u32| 1 <= p <= a.partitions@.len() - k ==> #[trigger] c.partitions@[p] == a.partitions@[p],
{
    assert forall|p: u32| 1 <= p <= a.partitions@.len() - k implies #[trigger] c.partitions@[p] == a.partitions@[p] by {
        assert(b.partitions@.contains_key(p));
    }
}

// ---- LINK harnesses (link pass 2): the contracts other units ASSUME for functions proved here, proved from the real ones -------
// Each harness has the assuming unit's stub signature, its `requires` / `ensures` copied VERBATIM from that unit's prelude.rs, and a
// body that is ONE call of the real extracted function: Verus proves "real contract ==> assumed contract" on every run of this
// unit. A later edit of a stub has to be mirrored here (and vice versa).
impl Topic {
    // copied from units/alloc_runtime/prelude.rs, stub `Topic::delete`
    // label: C06.link.alloc_runtime.topic_delete
    pub fn link_alloc_runtime_topic_delete(&self) -> (r: Result<(), IggyError>) ensures r is Ok { self.delete() }
    // copied from units/catalogue_maps/prelude.rs, stub `Topic::delete`
    // label: C06.link.catalogue_maps.topic_delete
    pub fn link_catalogue_maps_topic_delete(&self) -> (r: Result<(), IggyError>) ensures r is Ok { self.delete() }
    // copied from units/runtime_more/prelude.rs, stub `Topic::delete`
    // label: C06.link.runtime_more.topic_delete
    pub fn link_runtime_more_topic_delete(&self) -> (r: Result<(), IggyError>) ensures r is Ok { self.delete() }
}
impl Stream {
    // copied from units/alloc_runtime/prelude.rs, stub `Stream::delete`
    // label: C06.link.alloc_runtime.stream_delete
    pub fn link_alloc_runtime_stream_delete(&self) -> (r: Result<(), IggyError>) ensures r is Ok { self.delete() }
    // copied from units/catalogue_maps/prelude.rs, stub `Stream::delete`
    // label: C06.link.catalogue_maps.stream_delete
    pub fn link_catalogue_maps_stream_delete(&self) -> (r: Result<(), IggyError>) ensures r is Ok { self.delete() }
    // copied from units/runtime_more/prelude.rs, stub `Stream::delete`
    // label: C06.link.runtime_more.stream_delete
    pub fn link_runtime_more_stream_delete(&self) -> (r: Result<(), IggyError>) ensures r is Ok { self.delete() }
}
// (these six rest on the fault scope of C06 stated in unit.toml: PartitionStorage / TopicStorage / StreamStorage::delete and
//  Segment::delete return Ok — what is proved is that the real Topic::delete / Stream::delete add no failure of their own)

// (alloc_runtime's stub of `User::new` is linked from unit credentials, harness [C05.link.alloc_runtime.User_new])
// (alloc_runtime's stub of `System::get_user` is linked from unit credentials too, harness [C05.link.alloc_runtime.get_user])

// ---- units/consumer_group/prelude.rs: there the partition objects are OPAQUE cells (`PartitionCell`) and Topic keeps stream_id / topic_id /
// partitions / consumer_groups; `parts_ok(t)` is UNINTERPRETED there. The link gives it its INTERPRETATION over the real records: the
// preconditions under which the two functions are proved in this unit (ids exactly 1..=n <= MAX_PARTITIONS_COUNT, each partition filed
// under its own ids; A-size: the topic's segment / message totals fit u32 / u64).
pub open spec fn parts_ok(t: Topic) -> bool {
    &&& parts_wf(&t)
    &&& sum_segs(t.partitions@, 0, t.partitions@.len() as int) <= u32::MAX
    &&& sum_msgs(t.partitions@, 0, t.partitions@.len() as int) <= u64::MAX
}
impl Topic {
    // copied from units/consumer_group/prelude.rs, stub `Topic::add_persisted_partitions`. The `requires` was ADDED by the link (the stub had
    // none: the real function adds `current_partitions_count + count` in u32 and is proved under parts_wf). Its first `ensures`,
    // `final(self).consumer_groups == old(self).consumer_groups`, cannot be written here: this unit's Topic (R12 keep-list) has no
    // `consumer_groups` field — the real function type-checks without it, so it cannot touch it, and every KEPT field but `partitions` is
    // framed by [C06.partitions.add_persisted] / [C06.fail.add_persisted_partitions]; that clause stays a projection argument.
    // label: C08.link.consumer_group.add_persisted_partitions
    pub fn link_consumer_group_add_persisted_partitions(&mut self, count: u32) -> (r: Result<Vec<u32>, IggyError>)
        requires parts_ok(*old(self)), count <= 100_000,
        ensures final(self).partitions@.len() <= u32::MAX,
    { self.add_persisted_partitions(count) }
    // copied from units/consumer_group/prelude.rs, stub `Topic::delete_persisted_partitions` (as above: `requires` ADDED by the link — the
    // real function `unwrap()`s `partitions.remove(&id)` for the n highest ids and sums the gauges in u32 / u64; consumer_groups clause: projection)
    // label: C08.link.consumer_group.delete_persisted_partitions
    pub fn link_consumer_group_delete_persisted_partitions(&mut self, count: u32) -> (r: Result<Option<DeletedPartitions>, IggyError>)
        requires parts_ok(*old(self)),
        ensures final(self).partitions@.len() <= u32::MAX,
    { self.delete_persisted_partitions(count) }
}

// ---- COMPOSITION harness (link pass 2): the runtime half of [C05.sim.update_user] of units/replay_more/lemmas.rs --------------------
// That lemma takes the runtime effect of an acknowledged UpdateUser as the spec function `rt_update_user` over the statement's user
// catalogue (id -> CUser), "what [C06.users.update] says (`updated_user`)", cited by label. The harness calls the real
// System::update_user and proves exactly that for the catalogue read off the RUNNING system: username / password / status / permissions
// are the record's fields, the token component is ANY function of its token map (uninterpreted: update_user keeps that map object).
// (vocabulary of units/replay_more/lemmas.rs, repeated word for word: CTok, CUser, rt_update_user)
pub struct CTok { pub digest: Name, pub expiry_at: Option<IggyTimestamp> }
pub struct CUser { pub username: Name, pub password: Name, pub status: UserStatus, pub permissions: Option<Permissions>, pub tokens: Map<Name, CTok> }
pub open spec fn rt_update_user(a: Map<u32, CUser>, uid: u32, username: Option<Name>, status: Option<UserStatus>) -> Map<u32, CUser> {
    a.insert(uid, CUser { username: (if username is Some { username->0 } else { a[uid].username }), status: (if status is Some { status->0 } else { a[uid].status }), ..a[uid] })
}
pub uninterp spec fn rt_tokens_view(toks: Map<Name, PersonalAccessToken>) -> Map<Name, CTok>;
pub open spec fn rt_abs_user(u: User) -> CUser {
    CUser { username: u.username, password: u.password, status: u.status, permissions: u.permissions, tokens: rt_tokens_view(u.personal_access_tokens@) }
}
pub open spec fn rt_abs_users(m: Map<u32, User>) -> Map<u32, CUser> { Map::new(m.dom(), |k: u32| rt_abs_user(m[k])) }
impl System {
    // label: C06.link.replay_more.rt_update_user
    pub fn sim_update_user(&mut self, session: &Session, user_id: &Identifier, username: Option<Name>, status: Option<UserStatus>) -> (r: Result<&User, IggyError>)
        requires users_wf(old(self)), names_unique(old(self)),
        ensures
            r is Ok ==> (user_of(old(self), user_id) matches Some(uid)
                && rt_abs_users(final(self).users@) =~= rt_update_user(rt_abs_users(old(self).users@), uid, username, status)),
            // a refused command is not journalled and leaves the catalogue alone
            r is Err ==> rt_abs_users(final(self).users@) =~= rt_abs_users(old(self).users@),
    { self.update_user(session, user_id, username, status) }
}
