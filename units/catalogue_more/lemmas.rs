// ---- lemmas: catalogue_more — spec level, re-proved on every run ----

// gauge sums: all terms are non-negative, a range splits into adjacent ranges, a sub-range never exceeds the whole
pub proof fn lemma_sum_nonneg(m: Map<u32, Partition>, lo: int, hi: int)
    ensures sum_segs(m, lo, hi) >= 0, sum_msgs(m, lo, hi) >= 0,
    decreases hi - lo,
{
    if hi > lo { lemma_sum_nonneg(m, lo, hi - 1); }
}
pub proof fn lemma_sum_split(m: Map<u32, Partition>, a: int, b: int, c: int)
    requires a <= b <= c,
    ensures sum_segs(m, a, c) == sum_segs(m, a, b) + sum_segs(m, b, c), sum_msgs(m, a, c) == sum_msgs(m, a, b) + sum_msgs(m, b, c),
    decreases c - b,
{
    if c > b { lemma_sum_split(m, a, b, c - 1); }
}
// the partial sum up to partition i+1 and the term of partition i+1 are bounded by the topic's total
pub proof fn lemma_sum_step_bound(m: Map<u32, Partition>, lo: int, i: int, n: int)
    requires 0 <= lo <= i < n,
    ensures
        sum_segs(m, lo, i + 1) == sum_segs(m, lo, i) + m[(i + 1) as u32].segments@.len(),
        sum_msgs(m, lo, i + 1) == sum_msgs(m, lo, i) + m[(i + 1) as u32].messages_count.v,
        sum_segs(m, lo, i + 1) <= sum_segs(m, 0, n), m[(i + 1) as u32].segments@.len() <= sum_segs(m, 0, n),
        sum_msgs(m, lo, i + 1) <= sum_msgs(m, 0, n),
{
    lemma_sum_split(m, 0, lo, i + 1);
    lemma_sum_split(m, 0, i + 1, n);
    lemma_sum_nonneg(m, 0, lo);
    lemma_sum_nonneg(m, i + 1, n);
    lemma_sum_nonneg(m, lo, i);
}

// ---- users: property-level consequences of the view (users_wf + names_unique) ----
// label: C06.users.byname.lemma.agree
// lookup by name and by numeric id agree: the name of user k denotes k
pub proof fn lemma_user_lookup_agrees(s: &System, by_id: &Identifier, by_name: &Identifier)
    requires users_wf(s), names_unique(s),
        by_id.kind == IdKind::Numeric, by_id.length == 4, s.users@.contains_key(by_id.num()),
        by_name.kind == IdKind::Name, by_name.text() == s.users@[by_id.num()].username,
    ensures user_of(s, by_id) == Some(by_id.num()), user_of(s, by_name) == user_of(s, by_id),
{
    assert(name_taken(s, by_name.text()));
}

// label: C06.users.lemma.rename-frees-name
// a rename (the whole-map shape of [C06.users.update]) keeps ids and uniqueness and frees the old name for reuse
pub proof fn lemma_rename_frees_name(a: &System, b: &System, k: u32, n: Name, st: Option<UserStatus>)
    requires users_wf(a), names_unique(a), a.users@.contains_key(k),
        !(exists|j: u32| j != k && #[trigger] a.users@.contains_key(j) && a.users@[j].username == n),
        b.users@ == a.users@.insert(k, updated_user(a.users@[k], Some(n), st)),
    ensures users_wf(b), names_unique(b),
        a.users@[k].username != n ==> !name_taken(b, a.users@[k].username),
        forall|j: u32| j != k && #[trigger] a.users@.contains_key(j) ==> b.users@[j] == a.users@[j],
{
    assert forall|x: u32, y: u32| #[trigger] b.users@.contains_key(x) && #[trigger] b.users@.contains_key(y)
        && b.users@[x].username == b.users@[y].username implies x == y by {
        assert(a.users@.contains_key(x) && a.users@.contains_key(y));
    }
    if a.users@[k].username != n && name_taken(b, a.users@[k].username) {
        let j = choose|j: u32| #[trigger] b.users@.contains_key(j) && b.users@[j].username == a.users@[k].username;
        assert(a.users@.contains_key(j));
    }
}

// label: C06.users.lemma.delete-then-create
// delete / re-create: once user k is removed its name is free and its id is unused, so a later create of the same name
// under a fresh id is accepted by the uniqueness check and yields a well-formed table again
pub proof fn lemma_delete_then_create(a: &System, b: &System, c: &System, k: u32, id: u32, u: User)
    requires users_wf(a), names_unique(a), a.users@.contains_key(k),
        b.users@ == a.users@.remove(k),
        !b.users@.contains_key(id), u.id == id, u.username == a.users@[k].username,
        c.users@ == b.users@.insert(id, u),
    ensures !name_taken(b, a.users@[k].username), users_wf(c), names_unique(c),
{
    if name_taken(b, a.users@[k].username) {
        let j = choose|j: u32| #[trigger] b.users@.contains_key(j) && b.users@[j].username == a.users@[k].username;
        assert(a.users@.contains_key(j) && j != k);
    }
    assert forall|x: u32, y: u32| #[trigger] c.users@.contains_key(x) && #[trigger] c.users@.contains_key(y)
        && c.users@[x].username == c.users@[y].username implies x == y by {
        if x != id { assert(b.users@.contains_key(x) && a.users@.contains_key(x)); }
        if y != id { assert(b.users@.contains_key(y) && a.users@.contains_key(y)); }
    }
}

// ---- partitions: ids stay 1..=n under growth and shrinkage at the high end ----
// label: C06.partitions.lemma.shrink-then-grow
// the whole-map shapes of [C06.partitions.delete] and [C06.partitions.add] compose: after removing k and adding k' partitions
// the ids are exactly 1..=n-k+k' and the survivors 1..=n-k are the original records
pub proof fn lemma_shrink_then_grow(a: &Topic, b: &Topic, c: &Topic, k: int, k2: int)
    requires parts_wf(a), parts_wf(b), parts_wf(c), 0 <= k <= a.partitions@.len(), 0 <= k2,
        b.partitions@.len() == a.partitions@.len() - k,
        forall|p: u32| #[trigger] b.partitions@.contains_key(p) ==> b.partitions@[p] == a.partitions@[p],
        c.partitions@.len() == b.partitions@.len() + k2,
        forall|p: u32| #[trigger] b.partitions@.contains_key(p) ==> c.partitions@[p] == b.partitions@[p],
    ensures
        forall|p: u32| #[trigger] c.partitions@.contains_key(p) <==> 1 <= p <= a.partitions@.len() - k + k2,
        forall|p: u32| 1 <= p <= a.partitions@.len() - k ==> #[trigger] c.partitions@[p] == a.partitions@[p],
{
    assert forall|p: u32| 1 <= p <= a.partitions@.len() - k implies #[trigger] c.partitions@[p] == a.partitions@[p] by {
        assert(b.partitions@.contains_key(p));
    }
}
