// ---- lemmas: startup_match ----------------------------------------------------------------------------------------------
// [C05.sim.*] (units alloc_replay, replay_more): the ids of the replayed state are the ids of the acknowledged catalogue.
// [C05.noorphan.remove]: remove_dir_all is called only on a path p with !live_dir(p). Together: the directory of an entity
// that was live when the server stopped is never handed to remove_dir_all by the start-up walk.

// label: C05.noorphan.live
pub proof fn c05_noorphan_live(streams: Seq<StreamState>, acknowledged: Set<u32>, n: Name, k: u32)
    requires
        live_is_streams(streams),
        // replay equals runtime on ids ([C05.sim.carried], [C05.sim.update_stream], ...)
        forall|id: u32| acknowledged.contains(id) <==> stream_in_state(streams, id),
        acknowledged.contains(k), parsed::<u32>(n) == Some(k),          // the directory `n` is the directory of live stream k
    ensures
        live_dir(entry_path(n)),          // so the precondition of fs::remove_dir_all is false for it
{
}
// label: C05.noorphan.renumbered
// the other direction, as a warning of what [C05.sim.*] protects from: if replay gives a live stream ANOTHER id (F6/F7 class),
// its directory is not live for the walk and the start-up code is entitled to remove it
pub proof fn c05_noorphan_needs_sim(streams: Seq<StreamState>, n: Name, k: u32)
    requires live_is_streams(streams), parsed::<u32>(n) == Some(k), !stream_in_state(streams, k),
    ensures !live_dir(entry_path(n)),
{
}
