// ---- unit prelude: startup_match (C05: no data directory of a live entity is discarded during start-up) ---------------
// Stand-ins and assumed contracts for the file-system side of System::load_streams / FileStreamStorage::load /
// FileTopicStorage::load. Nothing here re-states a function body of /repo.

#[verifier::external_body]
#[derive(Debug)]
pub struct Name { s: String }
impl Clone for Name {
    #[verifier::external_body]
    fn clone(&self) -> (r: Name) ensures r == *self { unimplemented!() }
}
// what `str::parse::<T>()` makes of the text (A-std): uninterpreted
pub uninterp spec fn parsed<T>(n: Name) -> Option<T>;
#[derive(Debug)]
pub struct ParseError { pub k: u8 }
impl Name {
    #[verifier::external_body]
    pub fn parse<T>(&self) -> (r: Result<T, ParseError>)
        ensures match r { Ok(v) => parsed::<T>(*self) == Some(v), Err(_) => parsed::<T>(*self) is None },
    { unimplemented!() }
}
#[derive(Debug)]
pub enum IggyError { InvalidNumberValue, MissingStreams, MissingTopics(u32), MissingPartitions(u32, u32), Io }
#[derive(Clone, Copy)]
pub struct IggyTimestamp(pub u64);
#[verifier::external_body]
pub struct SystemStorage { x: u8 }
impl Clone for SystemStorage { #[verifier::external_body] fn clone(&self) -> (r: Self) { unimplemented!() } }
#[verifier::external_body]
pub struct SharedCounter { x: u8 }
impl Clone for SharedCounter { #[verifier::external_body] fn clone(&self) -> (r: Self) { unimplemented!() } }

// R9 panic-as-divergence
pub trait UnwrapOrDiverge<T> { fn unwrap_or_diverge(self) -> T; }
impl<T, E> UnwrapOrDiverge<T> for Result<T, E> {
    #[verifier::external_body]
    fn unwrap_or_diverge(self) -> (r: T) ensures self matches Ok(v) && v == r { unimplemented!() }
}

// --- the file system (A-fs) ------------------------------------------------------------------------------------------
#[verifier::external_body]
pub struct PathBuf { x: u8 }
// the path of the directory entry with file name `n` in the directory being walked
pub uninterp spec fn entry_path(n: Name) -> PathBuf;
// p is the data directory of an entity of the replayed state (defined, per walk, by the precondition of the slice)
pub uninterp spec fn live_dir(p: PathBuf) -> bool;
#[verifier::external_body]
pub struct OsName { x: u8 }
impl OsName {
    pub uninterp spec fn text(&self) -> Name;
    #[verifier::external_body]
    pub fn into_string(self) -> (r: Result<Name, OsName>) ensures r matches Ok(n) ==> n == self.text() { unimplemented!() }
}
#[verifier::external_body]
pub struct DirEntry { x: u8 }
impl DirEntry {
    pub uninterp spec fn name(&self) -> Name;
    #[verifier::external_body]
    pub fn file_name(&self) -> (r: OsName) ensures r.text() == self.name() { unimplemented!() }
    #[verifier::external_body]
    pub fn path(&self) -> (r: PathBuf) ensures r == entry_path(self.name()) { unimplemented!() }
    #[verifier::external_body]
    pub fn metadata(&self) -> (r: Result<Metadata, IoError>) { unimplemented!() }
}
#[verifier::external_body]
pub struct Metadata { x: u8 }
impl Metadata {
    #[verifier::external_body]
    pub fn is_file(&self) -> (r: bool) { unimplemented!() }
}
#[derive(Debug)]
pub struct IoError { pub k: u8 }
pub mod fs {
    use super::*;
    // THE call that discards data. Its precondition is the property clause: checked, under its label, at every call site.
    #[verifier::external_body]
    pub fn remove_dir_all(path: &PathBuf) -> (r: Result<(), IoError>)
        requires
            !live_dir(*path), //@requires [C05.noorphan.remove]
    { unimplemented!() }
}

// --- entity construction (other subsystems): the id and the name are the ones handed in -----------------------------------
impl Stream {
    #[verifier::external_body]
    pub fn empty(id: u32, name: &Name, config: SystemConfig, storage: SystemStorage) -> (r: Stream)
        ensures r.stream_id == id && r.name == *name,
    { unimplemented!() }
    #[verifier::external_body]
    pub fn create(id: u32, name: &Name, config: SystemConfig, storage: SystemStorage) -> (r: Stream)
        ensures r.stream_id == id && r.name == *name,
    { unimplemented!() }
    // persistence returns Ok or the I/O error (fault scope: an error aborts start-up)
    #[verifier::external_body]
    pub fn persist(&self) -> (r: Result<(), IggyError>) ensures r matches Err(e) ==> e is Io { unimplemented!() }
}
impl Topic {
    #[verifier::external_body]
    pub fn empty(stream_id: u32, topic_id: u32, name: &Name, size_of_parent_stream: SharedCounter, messages_count_of_parent_stream: SharedCounter,
        segments_count_of_parent_stream: SharedCounter, config: SystemConfig, storage: SystemStorage) -> (r: Topic)
        ensures r.stream_id == stream_id && r.topic_id == topic_id && r.name == *name,
    { unimplemented!() }
}
impl Partition {
    #[verifier::external_body]
    pub fn create(stream_id: u32, topic_id: u32, partition_id: u32, with_segment: bool, config: SystemConfig, storage: SystemStorage,
        message_expiry: IggyExpiry, messages_count_of_parent_stream: SharedCounter, messages_count_of_parent_topic: SharedCounter,
        size_of_parent_stream: SharedCounter, size_of_parent_topic: SharedCounter, segments_count_of_parent_stream: SharedCounter,
        created_at: IggyTimestamp) -> (r: Partition)
        ensures r.partition_id == partition_id,
    { unimplemented!() }
}
#[derive(Clone, Copy)]
pub struct IggyExpiry(pub u64);

// --- R8 schemas (documented std semantics) -----------------------------------------------------------------------------------
// v.iter().find(|x| P): the FIRST element satisfying P
#[verifier::external_body]
pub fn std_iter_find<'a, T>(v: &'a Vec<T>, Ghost(f): Ghost<spec_fn(T) -> bool>) -> (r: Option<&'a T>)
    ensures match r {
        Some(x) => exists|i: int| 0 <= i < v@.len() && v@[i] == *x && f(*x),
        None => forall|i: int| 0 <= i < v@.len() ==> !f(#[trigger] v@[i]),
    },
{ unimplemented!() }
// v.iter().map(|x| E).collect::<HashSet<u32>>()
#[verifier::external_body]
pub fn std_iter_map_collect_set<T>(v: &Vec<T>, Ghost(f): Ghost<spec_fn(T) -> u32>) -> (r: HashSet<u32>)
    ensures forall|k: u32| r@.contains(k) <==> exists|i: int| 0 <= i < v@.len() && f(#[trigger] v@[i]) == k,
{ unimplemented!() }
// a.difference(&b).copied().collect::<HashSet<u32>>()
#[verifier::external_body]
pub fn std_set_difference(a: &HashSet<u32>, b: &HashSet<u32>) -> (r: HashSet<u32>)
    ensures forall|k: u32| r@.contains(k) <==> (a@.contains(k) && !b@.contains(k)),
{ unimplemented!() }
impl HashSet<u32> {
    #[verifier::external_body]
    pub fn is_empty(&self) -> (r: bool) ensures r == (forall|k: u32| !self@.contains(k)) { unimplemented!() }
    // consuming iteration: every element exactly once, order unspecified
    #[verifier::external_body]
    pub fn into_vec(self) -> (r: Vec<u32>)
        ensures forall|k: u32| self@.contains(k) <==> exists|i: int| 0 <= i < r@.len() && #[trigger] r@[i] == k,
    { unimplemented!() }
}

// ---- the property vocabulary ---------------------------------------------------------------------------------------------------
// the replayed state handed to load_streams is a list of stream states; `live` for this walk: the entry's name parses to one of
// their ids
pub open spec fn stream_in_state(streams: Seq<StreamState>, id: u32) -> bool { exists|i: int| 0 <= i < streams.len() && (#[trigger] streams[i]).id == id }
pub open spec fn live_is_streams(streams: Seq<StreamState>) -> bool {
    forall|n: Name| #[trigger] live_dir(entry_path(n)) <==> (parsed::<u32>(n) matches Some(k) && stream_in_state(streams, k))
}
pub open spec fn live_is_topics(topics: Map<u32, TopicState>) -> bool {
    forall|n: Name| #[trigger] live_dir(entry_path(n)) <==> (parsed::<u32>(n) matches Some(k) && topics.contains_key(k))
}
pub open spec fn live_is_partitions(partitions: Map<u32, PartitionState>) -> bool {
    forall|n: Name| #[trigger] live_dir(entry_path(n)) <==> (parsed::<u32>(n) matches Some(k) && partitions.contains_key(k))
}
// the id a directory entry stands for (its file name read as a number)
pub open spec fn entry_id(d: &DirEntry) -> Option<u32> { parsed::<u32>(d.name()) }
// stream `id` is in the list of streams to be loaded
pub open spec fn queued(v: Seq<Stream>, id: u32) -> bool { exists|j: int| 0 <= j < v.len() && (#[trigger] v[j]).stream_id == id }
