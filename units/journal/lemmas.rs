// ---- lemmas of the journal unit (C11): spec level only ----------------------------------------------------------------
// What the code-level clauses mean for the property's "tamper-evident": the accepted history is a FUNCTION of the bytes
// (unique decoding), so the loader's verdict on a corrupted file is the verdict of `journal_of` on that file.

// two entries with the same content (StateEntry holds Vecs: compare through the views)
pub open spec fn same_entry(a: StateEntry, b: StateEntry) -> bool {
    a.index == b.index && a.term == b.term && a.leader_id == b.leader_id && a.version == b.version && a.flags == b.flags
    && a.timestamp.0 == b.timestamp.0 && a.user_id == b.user_id && a.checksum == b.checksum
    && a.context@ == b.context@ && a.command@ == b.command@
}
pub open spec fn same_history(a: Seq<StateEntry>, b: Seq<StateEntry>) -> bool {
    a.len() == b.len() && forall|i: int| 0 <= i < a.len() ==> same_entry(#[trigger] a[i], b[i])
}

// converse of lemma_entry_at: the bytes `to_bytes` writes carry every field at the offset where the loader reads it
pub proof fn lemma_enc_fields(e: StateEntry, rest: Seq<u8>)
    requires e.context@.len() <= u32::MAX,
    ensures entry_at(enc(e) + rest, 0, e),
{
    lemma_le_facts();
    let s = enc(e) + rest;
    let cl = e.context@.len() as int;
    let ml = e.command@.len() as int;
    assert(s.subrange(0, 8) =~= le64(e.index));
    assert(s.subrange(8, 16) =~= le64(e.term));
    assert(s.subrange(16, 20) =~= le32(e.leader_id));
    assert(s.subrange(20, 24) =~= le32(e.version));
    assert(s.subrange(24, 32) =~= le64(e.flags));
    assert(s.subrange(32, 40) =~= le64(e.timestamp.0));
    assert(s.subrange(40, 44) =~= le32(e.user_id));
    assert(s.subrange(44, 48) =~= le32(e.checksum));
    assert(s.subrange(48, 52) =~= le32(cl as u32));
    assert(s.subrange(52, 52 + cl) =~= e.context@);
    assert(s.subrange(52 + cl, 52 + cl + ml) =~= e.command@);
}

// enc_all is defined from the back (append order); this is its unfolding from the front (read order)
pub proof fn lemma_enc_all_front(es: Seq<StateEntry>)
    requires es.len() > 0,
    ensures enc_all(es) == enc(es[0]) + enc_all(es.skip(1)),
    decreases es.len(),
{
    if es.len() == 1 {
        assert(es.drop_last() =~= Seq::<StateEntry>::empty());
        assert(es.skip(1) =~= Seq::<StateEntry>::empty());
        assert(enc_all(es) =~= enc(es[0]) + enc_all(es.skip(1)));
    } else {
        let dl = es.drop_last();
        lemma_enc_all_front(dl);
        assert(es.skip(1).drop_last() =~= dl.skip(1));
        assert(es.skip(1).last() == es.last());
        assert(dl[0] == es[0]);
        assert(enc_all(es) =~= enc(es[0]) + enc_all(es.skip(1)));
    }
}

// the entry encoding is a prefix code: the first entry of a byte string is determined by the bytes
pub proof fn lemma_prefix_code(a: StateEntry, x: Seq<u8>, b: StateEntry, y: Seq<u8>)
    requires entry_wf(a), entry_wf(b), enc(a) + x == enc(b) + y,
    ensures same_entry(a, b), enc(a) == enc(b), x == y,
{
    lemma_le_facts();
    let s = enc(a) + x;
    lemma_enc_fields(a, x);
    lemma_enc_fields(b, y);
    let cl = a.context@.len() as int;
    assert(le32(a.context@.len() as u32) == le32(b.context@.len() as u32));
    assert(a.context@.len() == b.context@.len());
    let ma = a.command@.len() as int;
    let mb = b.command@.len() as int;
    // the length field inside the command sits at the same place of s for both
    assert(a.command@.subrange(4, 8) =~= s.subrange(52 + cl + 4, 52 + cl + 8));
    assert(b.command@.subrange(4, 8) =~= s.subrange(52 + cl + 4, 52 + cl + 8));
    assert(le32((ma - 8) as u32) == le32((mb - 8) as u32));
    assert(ma == mb);
    lemma_entry_at(s, 0, a);
    lemma_entry_at(s, 0, b);
    assert(x =~= s.subrange(enc(a).len() as int, s.len() as int));
    assert(y =~= s.subrange(enc(b).len() as int, s.len() as int));
}

pub proof fn lemma_skip_wf(es: Seq<StateEntry>)
    requires all_wf(es), es.len() > 0,
    ensures all_wf(es.skip(1)), entry_wf(es[0]),
{
    assert(forall|i: int| 0 <= i < es.skip(1).len() ==> es.skip(1)[i] == es[i + 1]);
}

// unique decoding: two well-formed histories with the same bytes are the same history
pub proof fn lemma_decode_unique(a: Seq<StateEntry>, b: Seq<StateEntry>)
    requires all_wf(a), all_wf(b), enc_all(a) == enc_all(b),
    ensures same_history(a, b),
    decreases a.len(),
{
    lemma_journal_size(a);
    lemma_journal_size(b);
    if a.len() == 0 {
        assert(enc_all(a).len() == 0);
    } else {
        assert(enc_all(a).len() >= 60);
        assert(b.len() > 0);
        lemma_enc_all_front(a);
        lemma_enc_all_front(b);
        lemma_skip_wf(a);
        lemma_skip_wf(b);
        lemma_prefix_code(a[0], enc_all(a.skip(1)), b[0], enc_all(b.skip(1)));
        lemma_decode_unique(a.skip(1), b.skip(1));
        assert forall|i: int| 0 <= i < a.len() implies same_entry(#[trigger] a[i], b[i]) by {
            if i > 0 {
                assert(a[i] == a.skip(1)[i - 1]);
                assert(b[i] == b.skip(1)[i - 1]);
            }
        }
    }
}

// label: C11.unique
// The history a file is accepted as is determined by its bytes: one file never stands for two histories.
pub proof fn c11_unique(file: Seq<u8>, a: Seq<StateEntry>, b: Seq<StateEntry>)
    requires journal_of(file, a), journal_of(file, b),
    ensures same_history(a, b),
{
    lemma_decode_unique(a, b);
}

// a non-empty strict prefix of one entry's encoding is not a sequence of whole entries
proof fn lemma_torn_first(e: StateEntry, k: int, es: Seq<StateEntry>)
    requires entry_wf(e), 0 < k < enc(e).len(), all_wf(es), enc_all(es) == enc(e).subrange(0, k),
    ensures false,
{
    lemma_le_facts();
    lemma_journal_size(es);
    let t = enc(e).subrange(0, k);
    if es.len() == 0 {
        assert(enc_all(es).len() == 0);
    } else {
        lemma_enc_all_front(es);
        lemma_skip_wf(es);
        let f = es[0];
        let r = enc_all(es.skip(1));
        lemma_enc_fields(f, r);                       // entry_at(t, 0, f)
        lemma_enc_fields(e, Seq::<u8>::empty());      // entry_at(enc(e), 0, e)
        assert(enc(e) + Seq::<u8>::empty() =~= enc(e));
        lemma_enc_len(f);
        lemma_enc_len(e);
        let m = enc(f).len() as int;
        assert(m <= k);
        // t and enc(e) agree below k: the context length field (48..52) is common
        assert(t.subrange(48, 52) =~= enc(e).subrange(48, 52));
        assert(le32(f.context@.len() as u32) == le32(e.context@.len() as u32));
        let cl = e.context@.len() as int;
        assert(f.context@.len() == cl);
        // and so is the length field inside the command (m >= 52 + cl + 8)
        assert(t.subrange(52 + cl + 4, 52 + cl + 8) =~= enc(e).subrange(52 + cl + 4, 52 + cl + 8));
        assert(f.command@.subrange(4, 8) =~= t.subrange(52 + cl + 4, 52 + cl + 8));
        assert(e.command@.subrange(4, 8) =~= enc(e).subrange(52 + cl + 4, 52 + cl + 8));
        assert(le32((f.command@.len() - 8) as u32) == le32((e.command@.len() - 8) as u32));
        assert(f.command@.len() == e.command@.len());
        assert(m == enc(e).len());
    }
}

proof fn lemma_torn_aux(es: Seq<StateEntry>, e: StateEntry, k: int, es2: Seq<StateEntry>)
    requires all_wf(es), entry_wf(e), 0 < k < enc(e).len(), all_wf(es2), enc_all(es2) == enc_all(es) + enc(e).subrange(0, k),
    ensures false,
    decreases es.len(),
{
    let t = enc(e).subrange(0, k);
    if es.len() == 0 {
        assert(enc_all(es) + t =~= t);
        lemma_torn_first(e, k, es2);
    } else {
        lemma_journal_size(es2);
        lemma_journal_size(es);
        if es2.len() == 0 {
            assert(enc_all(es2).len() == 0);
        } else {
            lemma_enc_all_front(es);
            lemma_enc_all_front(es2);
            lemma_skip_wf(es);
            lemma_skip_wf(es2);
            assert(enc(es[0]) + enc_all(es.skip(1)) + t =~= enc(es[0]) + (enc_all(es.skip(1)) + t));
            lemma_prefix_code(es2[0], enc_all(es2.skip(1)), es[0], enc_all(es.skip(1)) + t);
            lemma_torn_aux(es.skip(1), e, k, es2.skip(1));
        }
    }
}

// label: C11.tail.torn
// A journal whose last append was torn (a non-empty strict prefix of the new entry reached the file) is not a valid
// journal of ANY history: by [C11.tail]/[C11.shape.load_post] the loader returns Err on it.
pub proof fn c11_torn(file: Seq<u8>, es: Seq<StateEntry>, e: StateEntry, k: int, es2: Seq<StateEntry>)
    requires journal_of(file, es), entry_wf(e), 0 < k < enc(e).len(),
    ensures !journal_of(file + enc(e).subrange(0, k), es2),
{
    if journal_of(file + enc(e).subrange(0, k), es2) {
        lemma_torn_aux(es, e, k, es2);
    }
}

// label: C11.tamper
// J is the journal of the true history h; a (possibly corrupted) file J2 is accepted as h2. Then h2 is h, or a proper
// prefix of h (suffix loss — the one change the statement allows to go unnoticed), or h2 contains at some position an
// entry that is not the true one and nevertheless satisfies the CRC equation (a CRC-32 collision/forgery — excluded by
// A-dep(crc32) for the corruptions the property lists). Nothing else is possible.
pub proof fn c11_tamper(j: Seq<u8>, h: Seq<StateEntry>, j2: Seq<u8>, h2: Seq<StateEntry>)
    requires journal_of(j, h), journal_of(j2, h2),
    ensures
        same_history(h, h2)
        || (h2.len() < h.len() && forall|i: int| 0 <= i < h2.len() ==> same_entry(#[trigger] h2[i], h[i]))
        || exists|i: int| 0 <= i < h2.len() && (i >= h.len() || !same_entry(h2[i], h[i]))
               && (#[trigger] h2[i]).checksum == crc_of(h2[i]) && h2[i].index == i,
{
    if !same_history(h, h2) && !(h2.len() < h.len() && forall|i: int| 0 <= i < h2.len() ==> same_entry(#[trigger] h2[i], h[i])) {
        if h2.len() < h.len() {
            let i = choose|i: int| 0 <= i < h2.len() && !same_entry(#[trigger] h2[i], h[i]);
            assert(h2[i].checksum == crc_of(h2[i]));
        } else if h2.len() > h.len() {
            let i = h.len() as int;
            assert(h2[i].checksum == crc_of(h2[i]));
        } else {
            let i = choose|i: int| 0 <= i < h.len() && !same_entry(#[trigger] h[i], h2[i]);
            assert(h2[i].checksum == crc_of(h2[i]));
        }
    }
}

// label: C11.tamper.structure
// Structural corruptions of a valid journal: an entry removed anywhere but at the end, an entry duplicated, two entries
// exchanged. The resulting byte string is not the journal of any history, so the loader returns Err
// ([C11.shape.load_post]); removing a whole SUFFIX leaves a valid journal of a prefix (the allowed case).
pub proof fn c11_structure(h: Seq<StateEntry>, i: int, j: int, es2: Seq<StateEntry>)
    requires chain0(h), all_wf(h), crc_ok(h), 0 <= i < h.len(), 0 <= j < h.len(),
    ensures
        i + 1 < h.len() ==> !journal_of(enc_all(h.remove(i)), es2),
        !journal_of(enc_all(h.insert(i, h[i])), es2),
        i != j ==> !journal_of(enc_all(h.update(i, h[j]).update(j, h[i])), es2),
        journal_of(enc_all(h.take(i)), h.take(i)),
{
    let r = h.remove(i);
    if i + 1 < h.len() && journal_of(enc_all(r), es2) {
        assert(forall|k: int| 0 <= k < r.len() ==> #[trigger] r[k] == (if k < i { h[k] } else { h[k + 1] }));
        lemma_decode_unique(r, es2);
        assert(same_entry(r[i], es2[i]));
        assert(r[i] == h[i + 1]);
    }
    let d = h.insert(i, h[i]);
    if journal_of(enc_all(d), es2) {
        assert(forall|k: int| 0 <= k < d.len() ==> #[trigger] d[k] == (if k < i { h[k] } else if k == i { h[i] } else { h[k - 1] }));
        lemma_decode_unique(d, es2);
        assert(same_entry(d[i + 1], es2[i + 1]));
        assert(d[i + 1] == h[i]);
    }
    let s = h.update(i, h[j]).update(j, h[i]);
    if i != j && journal_of(enc_all(s), es2) {
        assert(forall|k: int| 0 <= k < s.len() ==> #[trigger] s[k] == (if k == j { h[i] } else if k == i { h[j] } else { h[k] }));
        lemma_decode_unique(s, es2);
        assert(same_entry(s[i], es2[i]));
        assert(s[i] == h[j]);
    }
    let t = h.take(i);
    assert(forall|k: int| 0 <= k < t.len() ==> #[trigger] t[k] == h[k]);
}

// ---- LINK harnesses: the contracts other units ASSUME for functions proved here, proved from the real ones ---------------------------
// Each harness has the assuming unit's stub signature, its `requires` / `ensures` copied VERBATIM from that unit's prelude.rs, and a
// body that is ONE call of the real extracted function: Verus proves "real contract ==> assumed contract" on every run.
// A later edit of a stub has to be mirrored here (and vice versa).
//
// (vocabulary of units/encryption/prelude.rs used by the copied clauses: there `entry_bytes` and `crc_fields` are names without a
// definition ("C11 owns the journal layout"); INTERPRETATION here: the layout `enc` and the checksum over `crc_input` of this unit.
// `cmd_wf` is the same text in both preludes; StateEntry is the same extracted struct in both units)
pub open spec fn entry_bytes(e: StateEntry) -> Seq<u8> { enc(e) }
pub open spec fn crc_fields(index: u64, term: u64, leader_id: u32, version: u32, flags: u64, ts: u64, user_id: u32, context: Seq<u8>, command: Seq<u8>) -> u32 {
    crc32(crc_input(index, term, leader_id, version, flags, ts, user_id, context, command))
}
impl StateEntry {
    // copied from units/encryption/prelude.rs, stub `StateEntry::to_bytes`
    // label: C11.link.encryption.StateEntry.to_bytes
    pub fn link_encryption_to_bytes(&self) -> (r: ByteSeq)
        requires self.context@.len() <= u32::MAX && cmd_wf(self.command@),
        ensures r@ == entry_bytes(*self)
    {
        self.to_bytes()
    }

    // copied from units/encryption/prelude.rs, stub `StateEntry::calculate_checksum`
    // label: C11.link.encryption.StateEntry.calculate_checksum
    pub fn link_encryption_calculate_checksum(index: u64, term: u64, leader_id: u32, version: u32, flags: u64, timestamp: IggyTimestamp, user_id: u32,
                              context: &ByteSeq, command: &ByteSeq) -> (r: u32)
        requires context@.len() <= u32::MAX && command@.len() <= 8 + u32::MAX,
        ensures r == crc_fields(index, term, leader_id, version, flags, timestamp.0, user_id, context@, command@),
    {
        StateEntry::calculate_checksum(index, term, leader_id, version, flags, timestamp, user_id, context, command)
    }
}

// ---- the request handlers' view of the journal: `StateKind::apply` / `StateLog::apply` over a ghost `log()` ----------------------------
// Units journal_sinks (log(): Seq<(u32, EntryCommand)>), alloc_runtime, runtime_more, credentials (log(): Seq<EntryCommand>) assume of
// the journal's `apply`: Ok ==> log' == log.push(entry); Err ==> log' == log || log' == log.push(entry), with `log()` a name without a
// definition over an opaque stand-in. The real `FileState::apply` is proved here over the BYTES of the file ([C11.apply-ok],
// [C11.apply-ok.content], [C11.apply-err.file]). INTERPRETATION offered for `log()`: a ghost sequence l of the (user id, command) pairs
// handed to `apply` that the file DENOTES - the file is a valid journal whose entries carry, in order, exactly the user ids and the journal
// forms (`cmd_bytes`) of l. That is a RELATION between l and the file, not a function of the file: reading the command VALUES back
// from the bytes needs `cmd_bytes` to be injective, which is the decode-after-encode round trip of unit journal_cmd ([C13.journal.cmd.rt]:
// up to string views, under the per-type hypothesis payload_rt) - not restated here. The harnesses below therefore carry the stubs'
// equations in relational form: "if the old file denotes l, the new file denotes l.push(entry)". EntryCommand is opaque in this unit
// (the handler units have the real enum): the pairs are compared through `cmd_bytes`, a projection.
pub open spec fn hist(es: Seq<StateEntry>) -> Seq<(u32, Seq<u8>)> { Seq::new(es.len(), |i: int| (es[i].user_id, es[i].command@)) }
pub open spec fn cmd_hist(l: Seq<(u32, EntryCommand)>) -> Seq<(u32, Seq<u8>)> { Seq::new(l.len(), |i: int| (l[i].0, l[i].1.cmd_bytes())) }
pub open spec fn denotes(file: Seq<u8>, l: Seq<(u32, EntryCommand)>) -> bool {
    exists|es: Seq<StateEntry>| #[trigger] journal_of(file, es) && hist(es) =~= cmd_hist(l)
}
// the same without the user ids (the `Seq<EntryCommand>` logs of units alloc_runtime, runtime_more, credentials)
pub open spec fn hist1(es: Seq<StateEntry>) -> Seq<Seq<u8>> { Seq::new(es.len(), |i: int| es[i].command@) }
pub open spec fn cmd_hist1(l: Seq<EntryCommand>) -> Seq<Seq<u8>> { Seq::new(l.len(), |i: int| l[i].cmd_bytes()) }
pub open spec fn denotes1(file: Seq<u8>, l: Seq<EntryCommand>) -> bool {
    exists|es: Seq<StateEntry>| #[trigger] journal_of(file, es) && hist1(es) =~= cmd_hist1(l)
}
// not the journal of any history: the loader returns Err on it ([C11.shape.load_post])
pub open spec fn no_journal(file: Seq<u8>) -> bool { forall|es: Seq<StateEntry>| !#[trigger] journal_of(file, es) }

// a journal of n entries extended by the entry `apply` builds: every history the old file denotes, extended by that entry, is
// denoted by the new file
pub proof fn lemma_denotes_push(f0: Seq<u8>, f1: Seq<u8>, n: u64, user_id: u32, command: EntryCommand)
    requires jcount(f0, n as nat), appended_cmd(f0, f1, n, user_id, command.cmd_bytes()),
    ensures
        forall|l: Seq<(u32, EntryCommand)>| #[trigger] denotes(f0, l) ==> denotes(f1, l.push((user_id, command))),
        forall|l: Seq<EntryCommand>| #[trigger] denotes1(f0, l) ==> denotes1(f1, l.push(command)),
{
    let es_n = choose|es: Seq<StateEntry>| #[trigger] journal_of(f0, es) && es.len() == n as nat;
    let e = choose|e: StateEntry| f1 == f0 + #[trigger] enc(e) && entry_for(e, n, user_id, command.cmd_bytes());
    assert forall|l: Seq<(u32, EntryCommand)>| #[trigger] denotes(f0, l) implies denotes(f1, l.push((user_id, command))) by {
        let es = choose|es: Seq<StateEntry>| #[trigger] journal_of(f0, es) && hist(es) =~= cmd_hist(l);
        c11_unique(f0, es, es_n);
        lemma_enc_all_push(es, e);
        let es2 = es.push(e);
        assert(journal_of(f1, es2));
        let l2 = l.push((user_id, command));
        assert(hist(es).len() == cmd_hist(l).len());
        assert forall|i: int| 0 <= i < es2.len() implies hist(es2)[i] == cmd_hist(l2)[i] by {
            if i < es.len() { assert(hist(es)[i] == cmd_hist(l)[i]); assert(es2[i] == es[i]); assert(l2[i] == l[i]); }
        }
        assert(hist(es2) =~= cmd_hist(l2));
    }
    assert forall|l: Seq<EntryCommand>| #[trigger] denotes1(f0, l) implies denotes1(f1, l.push(command)) by {
        let es = choose|es: Seq<StateEntry>| #[trigger] journal_of(f0, es) && hist1(es) =~= cmd_hist1(l);
        c11_unique(f0, es, es_n);
        lemma_enc_all_push(es, e);
        let es2 = es.push(e);
        assert(journal_of(f1, es2));
        let l2 = l.push(command);
        assert(hist1(es).len() == cmd_hist1(l).len());
        assert forall|i: int| 0 <= i < es2.len() implies hist1(es2)[i] == cmd_hist1(l2)[i] by {
            if i < es.len() { assert(hist1(es)[i] == cmd_hist1(l)[i]); assert(es2[i] == es[i]); assert(l2[i] == l[i]); }
        }
        assert(hist1(es2) =~= cmd_hist1(l2));
    }
}
// what a FAILED apply leaves: nothing (k == 0), the whole entry (k == |enc(e)|: the failure was reported after the write), or a torn
// prefix - and then the file is not a journal of anything any more ([C11.tail.torn])
pub proof fn lemma_part_cases(f0: Seq<u8>, f1: Seq<u8>, n: u64, user_id: u32, c: Seq<u8>)
    requires jcount(f0, n as nat), appended_part(f0, f1, n, user_id, c),
    ensures f1 == f0 || appended_cmd(f0, f1, n, user_id, c) || no_journal(f1),
{
    let (e, k) = choose|e: StateEntry, k: int| 0 <= k <= enc(e).len() && f1 == f0 + #[trigger] enc(e).subrange(0, k) && entry_for(e, n, user_id, c);
    if k == 0 {
        assert(f0 + enc(e).subrange(0, 0) =~= f0);
    } else if k == enc(e).len() {
        assert(enc(e).subrange(0, k) =~= enc(e));
    } else {
        let es_n = choose|es: Seq<StateEntry>| #[trigger] journal_of(f0, es) && es.len() == n as nat;
        assert forall|es2: Seq<StateEntry>| !#[trigger] journal_of(f1, es2) by { c11_torn(f0, es_n, e, k, es2); }
    }
}

impl FileState {
    // the stub `StateKind::apply` of units/journal_sinks/prelude.rs (log(): Seq<(u32, EntryCommand)>), its two clauses in the relational
    // reading above; `requires` = the real function's (the stub has none: see the comment at the stub). The Err arm has a THIRD case the
    // stub does not list: a torn write, after which the file is no journal at all.
    // label: C05.link.journal_sinks.apply
    pub fn link_journal_sinks_apply(&mut self, user_id: u32, command: EntryCommand) -> (r: Result<(), IggyError>)
        requires old(self).encryptor is None, jwf(old(self)), command.payload_fits(),
        ensures
            r is Ok ==> forall|l: Seq<(u32, EntryCommand)>| #[trigger] denotes(old(self).persister.file(), l)
                ==> denotes(final(self).persister.file(), l.push((user_id, command))),
            r is Err ==> (forall|l: Seq<(u32, EntryCommand)>| #[trigger] denotes(old(self).persister.file(), l)
                ==> (denotes(final(self).persister.file(), l) || denotes(final(self).persister.file(), l.push((user_id, command)))))
                || no_journal(final(self).persister.file()),
    {
        let ghost f0 = self.persister.file();
        let ghost n = self.entries_count.v;
        let r = self.apply(user_id, command);
        proof {
            if r is Ok {
                lemma_denotes_push(f0, self.persister.file(), n, user_id, command);
            } else {
                lemma_part_cases(f0, self.persister.file(), n, user_id, command.cmd_bytes());
                if appended_cmd(f0, self.persister.file(), n, user_id, command.cmd_bytes()) {
                    lemma_denotes_push(f0, self.persister.file(), n, user_id, command);
                }
            }
        }
        r
    }

    // the stubs `StateKind::apply` of units/alloc_runtime/prelude.rs and units/runtime_more/prelude.rs and `StateLog::apply` of
    // units/credentials/prelude.rs (log(): Seq<EntryCommand>, the user id not recorded), same reading
    // label: C05.link.alloc_runtime.apply
    pub fn link_alloc_runtime_apply(&mut self, user_id: u32, command: EntryCommand) -> (r: Result<(), IggyError>)
        requires old(self).encryptor is None, jwf(old(self)), command.payload_fits(),
        ensures
            r is Ok ==> forall|l: Seq<EntryCommand>| #[trigger] denotes1(old(self).persister.file(), l)
                ==> denotes1(final(self).persister.file(), l.push(command)),
            r is Err ==> (forall|l: Seq<EntryCommand>| #[trigger] denotes1(old(self).persister.file(), l)
                ==> (denotes1(final(self).persister.file(), l) || denotes1(final(self).persister.file(), l.push(command))))
                || no_journal(final(self).persister.file()),
    {
        let ghost f0 = self.persister.file();
        let ghost n = self.entries_count.v;
        let r = self.apply(user_id, command);
        proof {
            if r is Ok {
                lemma_denotes_push(f0, self.persister.file(), n, user_id, command);
            } else {
                lemma_part_cases(f0, self.persister.file(), n, user_id, command.cmd_bytes());
                if appended_cmd(f0, self.persister.file(), n, user_id, command.cmd_bytes()) {
                    lemma_denotes_push(f0, self.persister.file(), n, user_id, command);
                }
            }
        }
        r
    }
}

// the base of that reading: the empty file (what `init` creates when there is no journal) denotes the empty log, so along
// acknowledged applies "the file denotes the handlers' log" is an invariant ([C05.link.journal_sinks.apply], [C05.link.alloc_runtime.apply])
// label: C05.link.log.base
pub proof fn c05_log_base()
    ensures
        denotes(Seq::<u8>::empty(), Seq::<(u32, EntryCommand)>::empty()),
        denotes1(Seq::<u8>::empty(), Seq::<EntryCommand>::empty()),
{
    let es = Seq::<StateEntry>::empty();
    assert(journal_of(Seq::<u8>::empty(), es));
    assert(hist(es) =~= cmd_hist(Seq::<(u32, EntryCommand)>::empty()));
    assert(hist1(es) =~= cmd_hist1(Seq::<EntryCommand>::empty()));
}

impl FileState {
    // the R11 bridge stub `FileState::load_entries` of THIS unit's prelude (used by `init`): its `requires` / `ensures` copied verbatim,
    // proved from the extracted remainder `load_entries_from` under exactly the A-io hypotheses the bridge stands for - the dropped
    // prologue opened the file the persister appends to (`file.data() == self.persister.file()`) and `file_size` is its metadata().len().
    // What stays assumed by the bridge is only that prologue (path exists / open / metadata), not the loader.
    // label: C11.link.journal.load_entries
    pub fn link_journal_load_entries(&self, file: File, file_size: u64) -> (r: Result<Vec<StateEntry>, IggyError>)
        requires self.encryptor is None,
            file.data() == self.persister.file(), file_size == file.data().len(),
        ensures r matches Ok(es) ==> load_post(self.persister.file(), es@) && self.persister.file().len() <= u64::MAX,
    {
        self.load_entries_from(file, file_size)
    }
}
