// ---- lemmas of the journal unit (C11): spec level only ----------------------------------------------------------------
