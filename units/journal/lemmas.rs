// ---- lemmas of the journal unit (C11): spec level only ----------------------------------------------------------------
// What the code-level clauses mean for the property's "tamper-evident": the accepted history is a FUNCTION of the bytes
// (unique decoding), so the loader's verdict on a corrupted file is the verdict of `journal_of` on that file.

// two entries with the same content (StateEntry holds Vecs: compare through the views)
pub open spec fn same_entry(a: StateEntry, b: StateEntry) -> bool {
    a.index == b.index && a.term == b.term && a.leader_id == b.leader_id && a.version == b.version && a.flags == b.flags
    && a.timestamp.0 == b.timestamp.0 && a.user_id == b.user_id && a.checksum == b.checksum
    && a.context@ == b.context@ && a.command@ == b.command@
}
pub open spec fn same_history(a: Seq<StateEntry>, b: Seq<StateEntry>) -> bool {
    a.len() == b.len() && forall|i: int| 0 <= i < a.len() ==> same_entry(#[trigger] a[i], b[i])
}

// converse of lemma_entry_at: the bytes `to_bytes` writes carry every field at the offset where the loader reads it
pub proof fn lemma_enc_fields(e: StateEntry, rest: Seq<u8>)
    requires e.context@.len() <= u32::MAX,
    ensures entry_at(enc(e) + rest, 0, e),
{
    lemma_le_facts();
    let s = enc(e) + rest;
    let cl = e.context@.len() as int;
    let ml = e.command@.len() as int;
    assert(s.subrange(0, 8) =~= le64(e.index));
    assert(s.subrange(8, 16) =~= le64(e.term));
    assert(s.subrange(16, 20) =~= le32(e.leader_id));
    assert(s.subrange(20, 24) =~= le32(e.version));
    assert(s.subrange(24, 32) =~= le64(e.flags));
    assert(s.subrange(32, 40) =~= le64(e.timestamp.0));
    assert(s.subrange(40, 44) =~= le32(e.user_id));
    assert(s.subrange(44, 48) =~= le32(e.checksum));
    assert(s.subrange(48, 52) =~= le32(cl as u32));
    assert(s.subrange(52, 52 + cl) =~= e.context@);
    assert(s.subrange(52 + cl, 52 + cl + ml) =~= e.command@);
}

// enc_all is defined from the back (append order); this is its unfolding from the front (read order)
pub proof fn lemma_enc_all_front(es: Seq<StateEntry>)
    requires es.len() > 0,
    ensures enc_all(es) == enc(es[0]) + enc_all(es.skip(1)),
    decreases es.len(),
{
    if es.len() == 1 {
        assert(es.drop_last() =~= Seq::<StateEntry>::empty());
        assert(es.skip(1) =~= Seq::<StateEntry>::empty());
        assert(enc_all(es) =~= enc(es[0]) + enc_all(es.skip(1)));
    } else {
        let dl = es.drop_last();
        lemma_enc_all_front(dl);
        assert(es.skip(1).drop_last() =~= dl.skip(1));
        assert(es.skip(1).last() == es.last());
        assert(dl[0] == es[0]);
        assert(enc_all(es) =~= enc(es[0]) + enc_all(es.skip(1)));
    }
}

// the entry encoding is a prefix code: the first entry of a byte string is determined by the bytes
pub proof fn lemma_prefix_code(a: StateEntry, x: Seq<u8>, b: StateEntry, y: Seq<u8>)
    requires entry_wf(a), entry_wf(b), enc(a) + x == enc(b) + y,
    ensures same_entry(a, b), enc(a) == enc(b), x == y,
{
    lemma_le_facts();
    let s = enc(a) + x;
    lemma_enc_fields(a, x);
    lemma_enc_fields(b, y);
    let cl = a.context@.len() as int;
    assert(le32(a.context@.len() as u32) == le32(b.context@.len() as u32));
    assert(a.context@.len() == b.context@.len());
    let ma = a.command@.len() as int;
    let mb = b.command@.len() as int;
    // the length field inside the command sits at the same place of s for both
    assert(a.command@.subrange(4, 8) =~= s.subrange(52 + cl + 4, 52 + cl + 8));
    assert(b.command@.subrange(4, 8) =~= s.subrange(52 + cl + 4, 52 + cl + 8));
    assert(le32((ma - 8) as u32) == le32((mb - 8) as u32));
    assert(ma == mb);
    lemma_entry_at(s, 0, a);
    lemma_entry_at(s, 0, b);
    assert(x =~= s.subrange(enc(a).len() as int, s.len() as int));
    assert(y =~= s.subrange(enc(b).len() as int, s.len() as int));
}
