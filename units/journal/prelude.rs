// ---- unit prelude: journal (C11) --------------------------------------------------------------------------------
// Stand-ins (R4) and assumed contracts for everything `FileState::{init, load_entries, apply}` and
// `StateEntry::{new, to_bytes, from_bytes, calculate_checksum}` call but which is not extracted, plus the spec
// vocabulary of the journal format. Nothing here re-types a body of /repo.
//
// SCOPE RESTRICTION (stated in every contract as `requires .. encryptor is None`): the unit speaks about the
// unencrypted journal. The encrypted layout (ciphertext payload, checksum over the clear form) is C19's subject.

global size_of usize == 8;   // 64-bit target (u32 lengths widen losslessly to usize)

// --- errors: the variants the extracted text builds -------------------------------------------------------------
pub enum IggyError {
    StateFileNotFound, CannotReadFile, CannotReadFileMetadata, InvalidNumberEncoding, StateFileCorrupted,
    InvalidStateEntryChecksum(u32, u32, u64), InvalidCommand,
    CannotAppendToFile, CannotWriteToFile, CannotOverwriteFile, CannotSyncFile, CannotEncryptData, CannotDecryptData,
    Other,
}
pub struct IoError { pub kind: u8 }      // std::io::Error: content irrelevant (always mapped away) except for its kind, see below
// std::io::ErrorKind as far as a reader can tell: the accessor of the real error type is offered so that an edit branching on it is
// decided by the clauses (seed C11_6 ends the load loop on UnexpectedEof)
#[derive(PartialEq, Eq, Clone, Copy)]
pub enum ErrorKind { UnexpectedEof, Other }
impl IoError {
    pub fn kind(&self) -> (r: ErrorKind) ensures (r == ErrorKind::UnexpectedEof) == (self.kind == 1u8) {
        if self.kind == 1u8 { ErrorKind::UnexpectedEof } else { ErrorKind::Other }
    }
}

// --- atomics (R6): plain integers; the memory ordering argument is kept and ignored -------------------------------
pub enum Ordering { Relaxed, Release, Acquire, AcqRel, SeqCst }

pub struct AtomicU64 { pub v: u64 }
impl AtomicU64 {
    pub fn load(&self, ord: Ordering) -> (r: u64) ensures r == self.v, { self.v }
    pub fn store(&mut self, n: u64, ord: Ordering) ensures final(self).v == n, { self.v = n; }
    // fetch_add wraps around on overflow (std documentation), returns the previous value
    #[verifier::external_body]
    pub fn fetch_add(&mut self, n: u64, ord: Ordering) -> (r: u64)
        ensures r == old(self).v, final(self).v as int == (old(self).v + n) % 0x1_0000_0000_0000_0000,
    { unimplemented!() }
}
pub struct AtomicU32 { pub v: u32 }
impl AtomicU32 {
    pub fn load(&self, ord: Ordering) -> (r: u32) ensures r == self.v, { self.v }
    pub fn store(&mut self, n: u32, ord: Ordering) ensures final(self).v == n, { self.v = n; }
}

// --- IggyTimestamp: SystemTime newtype in the SDK; From<u64>/Into<u64> are mutually inverse on micros (A-clock) ----
#[derive(Clone, Copy)]
pub struct IggyTimestamp(pub u64);
impl From<u64> for IggyTimestamp {
    fn from(timestamp: u64) -> (r: Self) { IggyTimestamp(timestamp) }
}
impl vstd::std_specs::convert::FromSpecImpl<u64> for IggyTimestamp {
    open spec fn obeys_from_spec() -> bool { true }
    open spec fn from_spec(v: u64) -> Self { IggyTimestamp(v) }
}
impl From<IggyTimestamp> for u64 {
    fn from(timestamp: IggyTimestamp) -> (r: u64) { timestamp.0 }
}
impl vstd::std_specs::convert::FromSpecImpl<IggyTimestamp> for u64 {
    open spec fn obeys_from_spec() -> bool { true }
    open spec fn from_spec(v: IggyTimestamp) -> u64 { v.0 }
}
impl IggyTimestamp {
    #[verifier::external_body]
    pub fn now() -> (r: IggyTimestamp) { unimplemented!() }        // arbitrary (A-clock)
    // the other accessors of the real type (sdk/src/utils/timestamp.rs), so that code using them stays within the stand-in:
    // the value is microseconds since the epoch
    pub fn as_micros(&self) -> (r: u64) ensures r == self.0, { self.0 }
    pub fn to_secs(&self) -> (r: u64) ensures r == self.0 / 1_000_000, { self.0 / 1_000_000 }
}

// --- checksum: crc32fast::hash, an uninterpreted function of the bytes (A-dep(crc32)) ------------------------------
pub uninterp spec fn crc32(s: Seq<u8>) -> u32;
pub mod checksum {
    use super::*;
    #[verifier::external_body]
    pub fn calculate(data: &ByteSeq) -> (r: u32)
        ensures r == crc32(data@),
    { unimplemented!() }
}

// --- the persister and the file behind it (A-io) -----------------------------------------------------------------
// `Arc<PersisterKind>` -> `Persister`. The journal file is the ghost byte sequence `file()`.
//   append Ok  : the file is extended by exactly the bytes given (and its length still fits metadata().len(): u64)
//   append Err : fault outcome — nothing written, or a torn write (some prefix of the bytes, possibly all of them when
//                the failure is reported by the final sync)
#[verifier::external_body]
pub struct Persister { _p: () }
impl Persister {
    pub uninterp spec fn file(&self) -> Seq<u8>;

    #[verifier::external_body]
    pub fn append(&mut self, path: &String, bytes: &ByteSeq) -> (r: Result<(), IggyError>)
        ensures
            r is Ok ==> final(self).file() == old(self).file() + bytes@ && final(self).file().len() <= u64::MAX,
            r is Err ==> exists|k: int| 0 <= k <= bytes@.len() && final(self).file() == old(self).file() + #[trigger] bytes@.subrange(0, k),
    { unimplemented!() }

    #[verifier::external_body]
    pub fn overwrite(&mut self, path: &String, bytes: &[u8]) -> (r: Result<(), IggyError>)
        ensures r is Ok ==> final(self).file() == bytes@,
    { unimplemented!() }
}

// std::path::Path::new(p).exists(): arbitrary answer
pub struct Path { pub p: u8 }
impl Path {
    #[verifier::external_body]
    pub fn new(s: &String) -> (r: Path) { unimplemented!() }
    #[verifier::external_body]
    pub fn exists(&self) -> (r: bool) { unimplemented!() }
}

// tokio::fs::File / tokio::io::BufReader over it: a ghost cursor `pos()` into the ghost content `data()`.
// A read returns the next bytes and advances, or fails: at EOF (fewer bytes left than asked for) it MUST fail;
// it MAY also fail for any other I/O reason (then nothing is known about the cursor).
#[verifier::external_body]
pub struct File { _p: () }
impl File {
    pub uninterp spec fn data(&self) -> Seq<u8>;
}
#[verifier::external_body]
pub struct BufReader { _p: () }
impl BufReader {
    pub uninterp spec fn data(&self) -> Seq<u8>;
    pub uninterp spec fn pos(&self) -> nat;

    #[verifier::external_body]
    pub fn with_capacity(capacity: usize, file: File) -> (r: BufReader)
        ensures r.data() == file.data(), r.pos() == 0,
    { unimplemented!() }

    #[verifier::external_body]
    pub fn read_u64_le(&mut self) -> (r: Result<u64, IoError>)
        ensures
            final(self).data() == old(self).data(),
            r matches Ok(v) ==> old(self).pos() + 8 <= old(self).data().len() && final(self).pos() == old(self).pos() + 8
                && le64(v) == old(self).data().subrange(old(self).pos() as int, old(self).pos() as int + 8),
            // tokio AsyncReadExt::read_u64_le = read_exact of 8 bytes: the error is UnexpectedEof exactly when fewer than 8 bytes
            // remain — ALSO when 1..7 stray bytes remain, not only at a clean end (other I/O errors can occur at any time)
            r matches Err(e) ==> (e.kind == 1u8) == (old(self).pos() + 8 > old(self).data().len()),
    { unimplemented!() }

    #[verifier::external_body]
    pub fn read_u32_le(&mut self) -> (r: Result<u32, IoError>)
        ensures
            final(self).data() == old(self).data(),
            r matches Ok(v) ==> old(self).pos() + 4 <= old(self).data().len() && final(self).pos() == old(self).pos() + 4
                && le32(v) == old(self).data().subrange(old(self).pos() as int, old(self).pos() as int + 4),
    { unimplemented!() }

    // read_exact(&mut buf): fills the whole buffer or fails
    #[verifier::external_body]
    pub fn read_exact(&mut self, buf: &mut ByteSeq) -> (r: Result<usize, IoError>)
        ensures
            final(self).data() == old(self).data(),
            final(buf)@.len() == old(buf)@.len(),
            r is Ok ==> old(self).pos() + old(buf)@.len() <= old(self).data().len()
                && final(self).pos() == old(self).pos() + old(buf)@.len()
                && final(buf)@ == old(self).data().subrange(old(self).pos() as int, old(self).pos() as int + old(buf)@.len()),
    { unimplemented!() }
}

// --- encryptor: `Arc<EncryptorKind>` -> `Encryptor`. Only reachable under `encryptor is Some`, which every contract
// of this unit excludes; the stubs exist so that the extracted text type-checks. ------------------------------------
// NOT linked (link pass 2): contract-less and unreachable here. The real `EncryptorKind::decrypt` (unit encryption,
// [C19.undecryptable.err.kind]) is under contract only for `data.len() >= 12` and PANICS on a shorter record (`&data[0..12]`,
// sdk/src/utils/crypto.rs): that precondition matters for [C11.total] in the ENCRYPTED configuration, which this unit does not claim.
#[verifier::external_body]
pub struct Encryptor { _p: () }
impl Encryptor {
    #[verifier::external_body]
    pub fn encrypt(&self, data: &ByteSeq) -> (r: Result<Vec<u8>, IggyError>) { unimplemented!() }
    #[verifier::external_body]
    pub fn decrypt(&self, data: &ByteSeq) -> (r: Result<Vec<u8>, IggyError>) { unimplemented!() }
}

// --- EntryCommand (server/src/state/command.rs): opaque; its own codec is the codecs' subject (C13) ----------------
// framing produced by EntryCommand::to_bytes: code(4) ++ len(4) ++ payload(len)
pub open spec fn cmd_wf(c: Seq<u8>) -> bool {
    c.len() >= 8 && c.len() - 8 <= u32::MAX && c.subrange(4, 8) == le32((c.len() - 8) as u32)
}
// "the per-command SDK decoders do not panic on this framed command" — NOT true of every byte string
// (e.g. CreateStream::from_bytes indexes `bytes[5..5 + name_length]` unchecked).
pub uninterp spec fn decodable(c: Seq<u8>) -> bool;

#[verifier::external_body]
pub struct EntryCommand { _p: () }
impl EntryCommand {
    // "the payload of this command's journal form is at most u32::MAX bytes long" (EntryCommand is opaque here; DEFINED in unit
    // journal_cmd as `cmd_payload(c).len() <= u32::MAX`, the `requires` of the real to_bytes). to_bytes writes `len() as u32` into the
    // length word: a longer payload is journalled with a truncated length word (cmd_wf false, the loader then mis-frames the file).
    // In the running server every command handed to `apply` is built from a request that arrived in one frame whose length word is
    // a u32 (binary transports; HTTP bodies are bounded far lower), so its re-encoding is below 4 GiB; that argument is NOT
    // mechanised: the precondition is carried by `FileState::apply` ([C11.apply-ok]) and discharged by nobody yet.
    pub uninterp spec fn payload_fits(&self) -> bool;
    // the journal form of the command (EntryCommand is opaque here; DEFINED in unit journal_cmd as `cmd_enc(c)` =
    // le32(code) ++ le32(|payload|) ++ payload; the same name unit encryption uses). Only used to say WHICH bytes the appended entry
    // carries ([C11.apply-ok.content]).
    pub uninterp spec fn cmd_bytes(&self) -> Seq<u8>;

    // to_bytes frames the payload as above (payload < 4 GiB) and what it writes is decodable
    // LINKED: units/journal_cmd/lemmas.rs, harness [C13.link.journal.to_bytes] proves this contract from the real function (mirror edits
    // there). The link added `requires self.payload_fits()`: the real function needs it, the stub had hidden it.
    #[verifier::external_body]
    pub fn to_bytes(&self) -> (r: ByteSeq)
        requires self.payload_fits(),
        ensures cmd_wf(r@), decodable(r@), r@ == self.cmd_bytes(),
    { unimplemented!() }

    // EntryCommand::from_bytes slices `0..4`, `4..8`, `8..8 + length` (panics when out of range) and then runs the
    // per-command decoder on the payload.
    // LINKED: units/journal_cmd/lemmas.rs, harness [C13.link.journal.from_bytes] (mirror edits there): these preconditions imply the ones
    // the real function is under contract for. `decodable` is DEFINED there as exactly those (frame inside the buffer; for the token
    // command its two inner lengths inside the payload); the SDK payload decoders below that stay total stubs in unit journal_cmd.
    #[verifier::external_body]
    pub fn from_bytes(bytes: ByteSeq) -> (r: Result<EntryCommand, IggyError>)
        requires
            bytes@.len() >= 8,
            forall|n: u32| bytes@.subrange(4, 8) == #[trigger] le32(n) ==> 8 + n <= bytes@.len(),
            decodable(bytes@),
    { unimplemented!() }
}

// A-dep(crc32), authenticity reading (DESIGN §4.4: "CRC-32 ... assumed collision-free on the compared pairs"):
// the files C11 quantifies over are CRC-detectable corruptions of journals written by `apply`. Hence an entry whose
// recomputed checksum equals the checksum field STORED IN THE FILE at its position carries the content that `apply`
// wrote, and that content came out of EntryCommand::to_bytes — it is decodable. The conclusion is available only for
// the stored field (second hypothesis), so it says nothing before the loader has compared the two checksums.
#[verifier::external_body]
pub proof fn axiom_crc_authentic(file: Seq<u8>, p: int, stored: u32, index: u64, term: u64, leader_id: u32, version: u32,
                                 flags: u64, ts: u64, user_id: u32, context: Seq<u8>, command: Seq<u8>)
    ensures
        0 <= p && p + 48 <= file.len() && le32(stored) == file.subrange(p + 44, p + 48)
            && stored == crc32(crc_input(index, term, leader_id, version, flags, ts, user_id, context, command))
            ==> decodable(command),
{}

// ---- the journal format (spec) ---------------------------------------------------------------------------------------
// one entry on disk: 52-byte header ++ context ++ command, all integers little-endian, in this order:
//   index u64 | term u64 | leader_id u32 | version u32 | flags u64 | timestamp u64 | user_id u32 | checksum u32 |
//   context_length u32 | context | command (= code u32 | length u32 | payload)
pub open spec fn enc_hdr(e: StateEntry) -> Seq<u8> {
    le64(e.index) + le64(e.term) + le32(e.leader_id) + le32(e.version) + le64(e.flags) + le64(e.timestamp.0)
        + le32(e.user_id) + le32(e.checksum) + le32(e.context@.len() as u32)
}
pub open spec fn enc(e: StateEntry) -> Seq<u8> { enc_hdr(e) + e.context@ + e.command@ }

// what the checksum covers: every field of the entry except the checksum itself
pub open spec fn crc_input(index: u64, term: u64, leader_id: u32, version: u32, flags: u64, ts: u64, user_id: u32,
                           context: Seq<u8>, command: Seq<u8>) -> Seq<u8> {
    le64(index) + le64(term) + le32(leader_id) + le32(version) + le64(flags) + le64(ts) + le32(user_id)
        + le32(context.len() as u32) + context + command
}
pub open spec fn crc_of(e: StateEntry) -> u32 {
    crc32(crc_input(e.index, e.term, e.leader_id, e.version, e.flags, e.timestamp.0, e.user_id, e.context@, e.command@))
}

pub open spec fn enc_all(es: Seq<StateEntry>) -> Seq<u8>
    decreases es.len(),
{
    if es.len() == 0 { Seq::<u8>::empty() } else { enc_all(es.drop_last()) + enc(es.last()) }
}

pub open spec fn entry_wf(e: StateEntry) -> bool { e.context@.len() <= u32::MAX && cmd_wf(e.command@) }

// indices are 0,1,2,.. in file order  (consecutive AND starting at 0: only a suffix may be lost unnoticed)
pub open spec fn chain0(es: Seq<StateEntry>) -> bool { forall|i: int| 0 <= i < es.len() ==> (#[trigger] es[i]).index == i }
pub open spec fn crc_ok(es: Seq<StateEntry>) -> bool { forall|i: int| 0 <= i < es.len() ==> (#[trigger] es[i]).checksum == crc_of(es[i]) }
pub open spec fn all_wf(es: Seq<StateEntry>) -> bool { forall|i: int| 0 <= i < es.len() ==> entry_wf(#[trigger] es[i]) }

// `file` is exactly the journal of the history `es`
pub open spec fn journal_of(file: Seq<u8>, es: Seq<StateEntry>) -> bool {
    file == enc_all(es) && chain0(es) && crc_ok(es) && all_wf(es)
}
// `file` is a valid journal holding n entries
pub open spec fn jcount(file: Seq<u8>, n: nat) -> bool {
    exists|es: Seq<StateEntry>| #[trigger] journal_of(file, es) && es.len() == n
}
// journal invariant: the file is a valid journal and the in-memory allocator agrees with it
pub open spec fn jwf(s: &FileState) -> bool {
    &&& jcount(s.persister.file(), s.entries_count.v as nat)
    &&& s.current_index.v == (if s.entries_count.v == 0 { 0u64 } else { (s.entries_count.v - 1) as u64 })
    &&& s.persister.file().len() <= u64::MAX
}
// what a successful load promises about (file, entries) — shared by the extracted loop and the bridge stub below
pub open spec fn load_post(file: Seq<u8>, es: Seq<StateEntry>) -> bool { journal_of(file, es) }

// the bytes at offset p of `file` are the fields of e, field by field (the layout the LOADER reads)
pub open spec fn entry_at(file: Seq<u8>, p: int, e: StateEntry) -> bool {
    let cl = e.context@.len() as int;
    let ml = e.command@.len() as int;
    &&& 0 <= p && p + 52 + cl + ml <= file.len()
    &&& cl <= u32::MAX
    &&& file.subrange(p, p + 8) == le64(e.index)
    &&& file.subrange(p + 8, p + 16) == le64(e.term)
    &&& file.subrange(p + 16, p + 20) == le32(e.leader_id)
    &&& file.subrange(p + 20, p + 24) == le32(e.version)
    &&& file.subrange(p + 24, p + 32) == le64(e.flags)
    &&& file.subrange(p + 32, p + 40) == le64(e.timestamp.0)
    &&& file.subrange(p + 40, p + 44) == le32(e.user_id)
    &&& file.subrange(p + 44, p + 48) == le32(e.checksum)
    &&& file.subrange(p + 48, p + 52) == le32(cl as u32)
    &&& file.subrange(p + 52, p + 52 + cl) == e.context@
    &&& file.subrange(p + 52 + cl, p + 52 + cl + ml) == e.command@
}

// R11 bridge (A-io): the whole `load_entries` = the dropped prologue (path exists, open, metadata().len()) followed by
// the extracted remainder `FileState::load_entries_from`, run on the file the persister appends to. Its contract is
// the remainder's contract ([C11.shape.load_post]); used by `init`.
impl FileState {
    // LINKED: units/journal/lemmas.rs, harness [C11.link.journal.load_entries] proves this contract from the extracted remainder under
    // the A-io hypotheses written out (the opened file is the persister's file, file_size its length); mirror edits there.
    // Unit encryption extracts a DIFFERENT slice of the same function (`load_entries_decrypt`: one iteration's decrypt / re-frame /
    // checksum block, both configurations) and does not use this stub: not comparable, nothing to link between the two.
    #[verifier::external_body]
    pub fn load_entries(&self) -> (r: Result<Vec<StateEntry>, IggyError>)
        requires self.encryptor is None,
        ensures r matches Ok(es) ==> load_post(self.persister.file(), es@) && self.persister.file().len() <= u64::MAX,
    { unimplemented!() }
}

// `f1` is `f0` followed by exactly one new well-formed, checksum-consistent entry carrying index n
pub open spec fn appended(f0: Seq<u8>, f1: Seq<u8>, n: u64) -> bool {
    exists|e: StateEntry| f1 == f0 + #[trigger] enc(e) && e.index == n && e.checksum == crc_of(e) && entry_wf(e)
}

// the entry `apply(user_id, command)` builds for a journal of n entries: index n, consistent checksum, well-formed, the caller's
// user id, the command's journal form `c`, no context
pub open spec fn entry_for(e: StateEntry, n: u64, user_id: u32, c: Seq<u8>) -> bool {
    e.index == n && e.checksum == crc_of(e) && entry_wf(e) && e.user_id == user_id && e.command@ == c && e.context@.len() == 0
}
// `f1` is `f0` followed by exactly that entry ...
pub open spec fn appended_cmd(f0: Seq<u8>, f1: Seq<u8>, n: u64, user_id: u32, c: Seq<u8>) -> bool {
    exists|e: StateEntry| f1 == f0 + #[trigger] enc(e) && entry_for(e, n, user_id, c)
}
// ... or by some prefix of its encoding (k == 0: nothing written; k == |enc(e)|: all of it; otherwise a torn write)
pub open spec fn appended_part(f0: Seq<u8>, f1: Seq<u8>, n: u64, user_id: u32, c: Seq<u8>) -> bool {
    exists|e: StateEntry, k: int| 0 <= k <= enc(e).len() && f1 == f0 + #[trigger] enc(e).subrange(0, k) && entry_for(e, n, user_id, c)
}

// ---- helper lemmas used by proof hints inside the extracted functions (proved here, nothing assumed) ------------------
// They have NO preconditions: every fact is an implication, so a hint can never make Verus assume something the code
// did not establish (a failed `requires` would be assumed afterwards and could mask a violation).
pub proof fn lemma_sub_cat(s: Seq<u8>, a: int, b: int, c: int)
    ensures 0 <= a <= b <= c <= s.len() ==> s.subrange(a, b) + s.subrange(b, c) == s.subrange(a, c),
{
    if 0 <= a <= b <= c <= s.len() {
        assert(s.subrange(a, b) + s.subrange(b, c) =~= s.subrange(a, c));
    }
}
pub proof fn lemma_empty_cat(x: Seq<u8>, s: Seq<u8>)
    ensures x.len() == 0 ==> x + s == s && x == Seq::<u8>::empty(),
{
    if x.len() == 0 { assert(x + s =~= s); assert(x =~= Seq::<u8>::empty()); }
}
pub proof fn lemma_sub_full(s: Seq<u8>, n: int)
    ensures n == s.len() ==> s.subrange(0, n) == s,
{
    if n == s.len() { assert(s.subrange(0, n) =~= s); }
}
// framing of a command built as (x ++ a ++ b ++ c) with x empty and a, b four bytes wide
pub proof fn lemma_frame3(x: Seq<u8>, a: Seq<u8>, b: Seq<u8>, c: Seq<u8>)
    ensures x.len() == 0 && a.len() == 4 && b.len() == 4 ==> (x + a + b + c).subrange(4, 8) == b && (x + a + b + c).len() == 8 + c.len(),
{
    if x.len() == 0 && a.len() == 4 && b.len() == 4 { assert((x + a + b + c).subrange(4, 8) =~= b); }
}

// field-by-field layout (what the loader reads) == `enc` (what to_bytes writes)
pub proof fn lemma_entry_at(file: Seq<u8>, p: int, e: StateEntry)
    ensures
        entry_at(file, p, e) ==> file.subrange(p, p + 52 + e.context@.len() + e.command@.len()) == enc(e)
            && enc(e).len() == 52 + e.context@.len() + e.command@.len(),
{
    if entry_at(file, p, e) {
        lemma_le_facts();
        let cl = e.context@.len() as int;
        let ml = e.command@.len() as int;
        lemma_sub_cat(file, p, p + 8, p + 16);
        lemma_sub_cat(file, p, p + 16, p + 20);
        lemma_sub_cat(file, p, p + 20, p + 24);
        lemma_sub_cat(file, p, p + 24, p + 32);
        lemma_sub_cat(file, p, p + 32, p + 40);
        lemma_sub_cat(file, p, p + 40, p + 44);
        lemma_sub_cat(file, p, p + 44, p + 48);
        lemma_sub_cat(file, p, p + 48, p + 52);
        assert(enc_hdr(e) == file.subrange(p, p + 52));
        lemma_sub_cat(file, p, p + 52, p + 52 + cl);
        lemma_sub_cat(file, p, p + 52 + cl, p + 52 + cl + ml);
    }
}

pub proof fn lemma_enc_all_push(es: Seq<StateEntry>, e: StateEntry)
    ensures enc_all(es.push(e)) == enc_all(es) + enc(e),
{
    assert(es.push(e).drop_last() =~= es);
    assert(es.push(e).last() == e);
}

pub proof fn lemma_enc_len(e: StateEntry)
    ensures enc(e).len() == 52 + e.context@.len() + e.command@.len(), entry_wf(e) ==> enc(e).len() >= 60,
{
    lemma_le_facts();
}

pub proof fn lemma_journal_size(es: Seq<StateEntry>)
    ensures all_wf(es) ==> enc_all(es).len() >= 60 * es.len(),
    decreases es.len(),
{
    if all_wf(es) && es.len() > 0 {
        assert(forall|i: int| 0 <= i < es.drop_last().len() ==> es.drop_last()[i] == es[i]);
        lemma_journal_size(es.drop_last());
        lemma_enc_len(es.last());
    }
}

// appending one well-formed, checksum-consistent entry with index n to a valid journal of n entries
pub proof fn lemma_jcount_push(file: Seq<u8>, n: nat, e: StateEntry)
    ensures
        jcount(file, n) && e.index == n && e.checksum == crc_of(e) && entry_wf(e)
            ==> jcount(file + enc(e), n + 1) && appended(file, file + enc(e), e.index),
        jcount(file, n) ==> 60 * n <= file.len(),
{
    if jcount(file, n) {
        let es = choose|es: Seq<StateEntry>| #[trigger] journal_of(file, es) && es.len() == n;
        lemma_journal_size(es);
        if e.index == n && e.checksum == crc_of(e) && entry_wf(e) {
            lemma_enc_all_push(es, e);
            let es2 = es.push(e);
            assert(journal_of(file + enc(e), es2));
        }
    }
}
