// Concrete witnesses on the REAL code for the journal unit's refuted clauses (throw-away, /var/tmp only).
use iggy::bytes_serializable::BytesSerializable;
use iggy::streams::create_stream::CreateStream;
use iggy::utils::crypto::{Aes256GcmEncryptor, EncryptorKind};
use server::state::command::EntryCommand;
use server::state::file::FileState;
use server::state::State;
use server::streaming::persistence::persister::{FilePersister, PersisterKind};
use server::versioning::SemanticVersion;
use std::sync::Arc;

fn cmd(i: u32) -> EntryCommand {
    EntryCommand::CreateStream(CreateStream { stream_id: Some(i), name: format!("s{i}") })
}
fn mk(path: &str, enc: Option<Arc<EncryptorKind>>) -> FileState {
    FileState::new(path, &SemanticVersion::current().unwrap(), Arc::new(PersisterKind::File(FilePersister {})), enc)
}
fn show(r: Result<Vec<server::state::entry::StateEntry>, iggy::error::IggyError>) -> String {
    format!("{:?}", r.map(|es| es.iter().map(|e| e.index).collect::<Vec<_>>()).map_err(|e| e.to_string()))
}

// F15: prefix loss accepted
async fn f15() {
    let dir = tempfile::TempDir::new().unwrap();
    let path = dir.path().join("log").to_str().unwrap().to_string();
    let st = mk(&path, None);
    st.init().await.unwrap();
    for i in 1..=3 { st.apply(1, cmd(i)).await.unwrap(); }
    let es = st.load_entries().await.unwrap();
    let first_len = es[0].to_bytes().len();
    let bytes = std::fs::read(&path).unwrap();
    std::fs::write(&path, &bytes[first_len..]).unwrap();
    println!("F15 first entry removed from [0,1,2] -> load_entries = {}   (property: Err)", show(mk(&path, None).load_entries().await));
}

// F16: one failed append (file untouched) makes the next acknowledged entry unloadable
async fn f16() {
    let dir = tempfile::TempDir::new().unwrap();
    let path = dir.path().join("log").to_str().unwrap().to_string();
    let st = mk(&path, None);
    st.init().await.unwrap();
    st.apply(1, cmd(1)).await.unwrap();
    st.apply(1, cmd(2)).await.unwrap();
    tokio::time::sleep(std::time::Duration::from_millis(200)).await; // tokio File writes complete in the background
    let before = std::fs::read(&path).unwrap();
    // transient I/O fault: the path cannot be opened for append (it is a directory for a moment)
    let aside = format!("{path}.aside");
    std::fs::rename(&path, &aside).unwrap();
    std::fs::create_dir(&path).unwrap();
    let r = st.apply(1, cmd(3)).await;
    std::fs::remove_dir(&path).unwrap();
    std::fs::rename(&aside, &path).unwrap();
    let after = std::fs::read(&path).unwrap();
    println!("F16 file len before={} after={}", before.len(), after.len());
    println!("F16 apply during fault -> {:?}; file unchanged: {}; current_index={} entries_count={} (file holds 2 entries, last index 1)",
        r.map_err(|e| e.to_string()), std::fs::read(&path).unwrap() == before, st.current_index(), st.entries_count());
    let r = st.apply(1, cmd(4)).await;
    println!("F16 next apply -> {:?} (acknowledged)", r.map_err(|e| e.to_string()));
    println!("F16 restart: load_entries = {}   (property: the acknowledged history loads)", show(mk(&path, None).load_entries().await));
    // same on an empty journal
    let path2 = dir.path().join("log2").to_str().unwrap().to_string();
    let st = mk(&path2, None);
    st.init().await.unwrap();
    std::fs::remove_file(&path2).unwrap();
    std::fs::create_dir(&path2).unwrap();
    let r = st.apply(1, cmd(1)).await;
    std::fs::remove_dir(&path2).unwrap();
    std::fs::write(&path2, b"").unwrap();
    println!("F16b first apply during fault -> {:?}; current_index={} entries_count={} (file is empty)", r.map_err(|e| e.to_string()), st.current_index(), st.entries_count());
    st.apply(1, cmd(2)).await.unwrap();
    st.apply(1, cmd(3)).await.unwrap();
    println!("F16b two acknowledged applies, restart: load_entries = {}   (property: indices start at 0)", show(mk(&path2, None).load_entries().await));
}

// F20: one corrupted payload byte crashes the loader (decoder runs before the checksum comparison)
async fn f20() {
    let dir = tempfile::TempDir::new().unwrap();
    let path = dir.path().join("log").to_str().unwrap().to_string();
    let st = mk(&path, None);
    st.init().await.unwrap();
    for i in 1..=2 { st.apply(1, cmd(i)).await.unwrap(); }
    let mut bytes = std::fs::read(&path).unwrap();
    // entry 0: header 52 (context empty) | code 4 | length 4 | payload: stream_id 4 | name_length 1 | name
    println!("F20 byte 64 (name_length of entry 0) = {} -> 0xFF", bytes[64]);
    bytes[64] = 0xFF;
    std::fs::write(&path, &bytes).unwrap();
    println!("F20 load_entries = {}   (property: Err, never a crash)", show(mk(&path, None).load_entries().await));
}

// F22 (encrypted journal, outside this unit's claim): a corrupted command_length < 12 crashes decrypt
async fn f22() {
    let dir = tempfile::TempDir::new().unwrap();
    let path = dir.path().join("log").to_str().unwrap().to_string();
    let enc = Arc::new(EncryptorKind::Aes256Gcm(Aes256GcmEncryptor::new(&[7u8; 32]).unwrap()));
    let st = mk(&path, Some(enc.clone()));
    st.init().await.unwrap();
    for i in 1..=2 { st.apply(1, cmd(i)).await.unwrap(); }
    println!("F22 encrypted journal loads: {}", show(mk(&path, Some(enc.clone())).load_entries().await));
    let mut bytes = std::fs::read(&path).unwrap();
    println!("F22 command_length of entry 0 (bytes 56..60) = {:?} -> 5", &bytes[56..60]);
    bytes[56] = 5; bytes[57] = 0; bytes[58] = 0; bytes[59] = 0;
    std::fs::write(&path, &bytes).unwrap();
    println!("F22 load_entries = {}   (property: Err, never a crash)", show(mk(&path, Some(enc)).load_entries().await));
}

#[tokio::main]
async fn main() {
    macro_rules! run { ($name:expr, $f:expr) => {
        match tokio::spawn($f).await { Ok(_) => {}, Err(e) => println!("{} PANICKED (loader crashed): {}", $name, e) }
    } }
    run!("F15", f15());
    run!("F16", f16());
    run!("F20", f20());
    run!("F22", f22());
}
