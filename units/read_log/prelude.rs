// ---- unit prelude: read_log (C02 range loading, C18 id reload) ----
pub struct BatchV { pub base: int, pub delta: int, pub max_ts: int, pub msgs: Seq<RetainedMessage> }
pub open spec fn batch_view(b: &RetainedMessageBatch) -> BatchV {
    BatchV { base: b.base_offset as int, delta: b.last_offset_delta as int, max_ts: b.max_timestamp as int, msgs: b.bytes.msgs() }
}
pub open spec fn views(v: Seq<RetainedMessageBatch>) -> Seq<BatchV> { v.map(|i: int, b: RetainedMessageBatch| batch_view(&b)) }
pub open spec fn flat(f: Seq<BatchV>) -> Seq<RetainedMessage>
    decreases f.len(),
{
    if f.len() == 0 { Seq::empty() } else { flat(f.drop_last()) + f.last().msgs }
}
pub proof fn lemma_flat_push(f: Seq<BatchV>, b: BatchV)
    ensures flat(f.push(b)) == flat(f) + b.msgs,
{ assert(f.push(b).drop_last() =~= f); }
// bytes a stored batch occupies: 24-byte header + encoded messages
pub open spec fn bsize(b: BatchV) -> nat { (24 + total_size(b.msgs)) as nat }
// file position at which batch k starts (k == len: end of file)
pub open spec fn pos(f: Seq<BatchV>, k: int) -> nat
    decreases k,
{
    if k <= 0 { 0 } else { pos(f, k - 1) + bsize(f[k - 1]) }
}
pub proof fn lemma_pos_mono(f: Seq<BatchV>, i: int, j: int)
    requires 0 <= i <= j,
    ensures pos(f, i) <= pos(f, j), i < j ==> pos(f, i) + 24 <= pos(f, j),
    decreases j - i,
{
    if i < j { lemma_pos_mono(f, i, j - 1); }
}

impl SegmentLogReader {
    // A-io: the log file behind the reader, as the sequence of stored batches; the published size is its length
    pub uninterp spec fn file(&self) -> Seq<BatchV>;
    pub open spec fn reader_ok(&self) -> bool { self.log_size_bytes.v == pos(self.file(), self.file().len() as int) }

    // SegmentLogReader::read_next_batch (byte-level parsing of header and payload; its torn-file behaviour is C04's):
    // at the start position of a complete stored batch it returns that batch and its size (or an I/O error);
    // it returns None only where no complete batch starts within file_size; it never invents a batch.
    #[verifier::external_body]
    pub fn read_next_batch(&self, offset: u64, file_size: u64) -> (r: Result<Option<(RetainedMessageBatch, u64)>, IggyError>)
        ensures
            r matches Ok(Some((b, n))) ==> exists|k: int| 0 <= k < self.file().len() && offset == pos(self.file(), k)
                && #[trigger] batch_view(&b) == self.file()[k] && n == bsize(self.file()[k]) && offset + n <= file_size,
            r matches Ok(None) ==> !exists|k: int| 0 <= k < self.file().len() && offset == #[trigger] pos(self.file(), k) && pos(self.file(), k + 1) <= file_size,
    { unimplemented!() }
}

// R8 batch-iteration schema: RetainedMessageBatch::into_messages_iter yields the encoded messages in order
#[verifier::external_body]
pub fn batch_messages(b: RetainedMessageBatch) -> (r: Vec<RetainedMessage>)
    ensures r@ == b.bytes.msgs(),
{ unimplemented!() }
pub open spec fn ids_of(s: Seq<RetainedMessage>) -> Seq<u128> { s.map(|i: int, m: RetainedMessage| m.id) }
pub open spec fn pos_injective(f: Seq<BatchV>) -> bool {
    forall|i: int, j: int| 0 <= i <= f.len() && 0 <= j <= f.len() && #[trigger] pos(f, i) == #[trigger] pos(f, j) ==> i == j
}
pub proof fn lemma_pos_inj_all(f: Seq<BatchV>)
    ensures pos_injective(f),
{
    assert forall|i: int, j: int| 0 <= i <= f.len() && 0 <= j <= f.len() && #[trigger] pos(f, i) == #[trigger] pos(f, j) implies i == j by {
        if i < j { lemma_pos_mono(f, i, j); }
        if j < i { lemma_pos_mono(f, j, i); }
    }
}

// The real `into_messages_iter()` returns an iterator; its stand-in is the Vec of the messages it yields. The two std adapters a
// prefix/suffix-taking edit would use are offered on the stand-in too (A-std: documented Iterator::take / Iterator::skip semantics),
// so that such an edit is decided by the clauses instead of ending as "no method named take" (seed C18_2).
pub trait IterAdapters<T>: Sized { fn take(self, n: usize) -> Vec<T>; fn skip(self, n: usize) -> Vec<T>; }
impl<T> IterAdapters<T> for Vec<T> {
    #[verifier::external_body]
    fn take(self, n: usize) -> (r: Vec<T>)
        ensures r@ == self@.take(if n <= self@.len() { n as int } else { self@.len() as int }),
    { unimplemented!() }
    #[verifier::external_body]
    fn skip(self, n: usize) -> (r: Vec<T>)
        ensures r@ == self@.skip(if n <= self@.len() { n as int } else { self@.len() as int }),
    { unimplemented!() }
}
