// ---- lemmas: read_log — LINK harnesses: the contracts other units ASSUME for functions proved here, proved from the real ones ----
// Each harness has the assuming unit's stub signature, its `requires` / `ensures` copied VERBATIM from that unit's prelude.rs, and a
// body that is ONE call of the real extracted function: Verus proves "real contract ==> assumed contract" on every run.
// A later edit of the stub has to be mirrored here (and vice versa).

impl SegmentLogReader {
    // copied from units/read_disk/prelude.rs, stub `SegmentLogReader::load_batches_by_range_impl` (pos / views / bsize there are
    // vx/prelude/slices.rs, verbatim copies of this unit's prelude; `reader_ok` there names the published size `log_size()`, here it is
    // the field `log_size_bytes.v` that publishes it)
    // label: C02.link.read_disk.load_batches_by_range_impl
    pub fn link_read_disk_load_batches_by_range_impl(&self, index_range: &IndexRange) -> (r: Result<Vec<RetainedMessageBatch>, IggyError>)
        requires
            self.reader_ok(),
            exists|ks: int| 0 <= ks <= self.file().len() && index_range.start.position == #[trigger] pos(self.file(), ks),
        ensures
            // [C02.range.run]
            r is Ok ==> forall|ks: int| 0 <= ks <= self.file().len() && index_range.start.position == #[trigger] pos(self.file(), ks)
                ==> ks + r->Ok_0@.len() <= self.file().len() && views(r->Ok_0@) == self.file().subrange(ks, ks + r->Ok_0@.len()),
            // [C02.range.reach]
            r is Ok ==> forall|ks: int| 0 <= ks < self.file().len() && index_range.start.position == #[trigger] pos(self.file(), ks)
                ==> r->Ok_0@.len() >= 1 && (ks + r->Ok_0@.len() == self.file().len()
                     || pos(self.file(), ks + r->Ok_0@.len() - 1) >= index_range.end.position),
            // [C02.range.min]
            r is Ok ==> forall|ks: int, j: int| 0 <= ks <= self.file().len() && index_range.start.position == #[trigger] pos(self.file(), ks)
                && ks <= j < ks + r->Ok_0@.len() - 1 ==> #[trigger] pos(self.file(), j) < index_range.end.position,
    {
        self.load_batches_by_range_impl(index_range)
    }
}
