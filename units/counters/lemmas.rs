// ---- lemmas: counters — LINK harnesses: the contracts other units ASSUME for functions proved here, proved from the real ones ----
// Harness = the assuming unit's stub signature, its `requires` / `ensures` copied VERBATIM from that unit's prelude.rs, body = ONE call
// of the real extracted function: Verus proves "real contract ==> assumed contract" on every run. Mirror any edit of the stub here.
impl Segment {
    // copied from units/retention/prelude.rs, stub `Segment::delete` (`seg_core_eq`: same file, repeated below word for word)
    // label: C16.link.retention.delete
    pub fn link_retention_delete(&mut self) -> (r: Result<(), IggyError>)
        requires
            old(self).current_offset >= old(self).start_offset,
            old(self).current_offset - old(self).start_offset + 1 <= u64::MAX,
        ensures seg_core_eq(*old(self), *final(self)),
    {
        self.delete()
    }
}
// (vocabulary of units/retention/prelude.rs used by the copied clause)
// what delete()/persist() (I/O) may not change: everything except the four file handles, the shared parent counters
// and the two file-size cells
pub open spec fn seg_core_eq(a: Segment, b: Segment) -> bool {
    &&& b == (Segment {
            log_writer: b.log_writer, log_reader: b.log_reader, index_writer: b.index_writer, index_reader: b.index_reader,
            size_of_parent_stream: b.size_of_parent_stream, size_of_parent_topic: b.size_of_parent_topic,
            size_of_parent_partition: b.size_of_parent_partition,
            messages_count_of_parent_stream: b.messages_count_of_parent_stream,
            messages_count_of_parent_topic: b.messages_count_of_parent_topic,
            messages_count_of_parent_partition: b.messages_count_of_parent_partition,
            log_size_bytes: b.log_size_bytes, index_size_bytes: b.index_size_bytes,
            ..a })
}
