// ---- unit prelude: counters (C16 wiring and subtraction) ----
#[derive(Clone, Copy)]
pub enum IggyExpiry { ServerDefault, ExpireDuration(u64), NeverExpire }
#[verifier::external_body] pub struct SegmentLogWriter { x: u8 }
#[verifier::external_body] pub struct SegmentLogReader { x: u8 }
#[verifier::external_body] pub struct SegmentIndexWriter { x: u8 }
#[verifier::external_body] pub struct SegmentIndexReader { x: u8 }
#[verifier::external_body] pub struct BatchAccumulator { x: u8 }

impl Counter {
    // Arc::new(AtomicU64::new(0)): a fresh cell
    #[verifier::external_body]
    pub fn new(v: u64) -> (r: Counter) ensures r.v == v, { unimplemented!() }
}
impl SystemConfig {
    #[verifier::external_body]
    pub fn get_segment_path(&self, stream_id: u32, topic_id: u32, partition_id: u32, start_offset: u64) -> (r: String) { unimplemented!() }
}
impl Segment {
    #[verifier::external_body]
    pub fn get_log_path(path: &str) -> (r: String) { unimplemented!() }
    #[verifier::external_body]
    pub fn get_index_path(path: &str) -> (r: String) { unimplemented!() }
    // closing the handles and removing the two files (A-io); counters and sizes untouched
    #[verifier::external_body]
    pub fn shutdown_reading(&mut self)
        ensures *final(self) == (Segment { log_reader: final(self).log_reader, index_reader: final(self).index_reader, ..*old(self) }),
    { unimplemented!() }
    #[verifier::external_body]
    pub fn shutdown_writing(&mut self)
        ensures *final(self) == (Segment { log_writer: final(self).log_writer, index_writer: final(self).index_writer, ..*old(self) }),
    { unimplemented!() }
}
#[verifier::external_body]
pub fn remove_file_ignored(p: &String) { unimplemented!() }

pub open spec fn seg_count(s: &Segment) -> int { if s.size_bytes == 0 { 0 } else { s.current_offset - s.start_offset + 1 } }
