// ---- lemmas: recovery (C03) ----
// A flushed partition (buffer of the open last segment empty) whose last segment is reloaded from the same files:
// the reloaded segment serves the same messages and the append position the tail of `load` derives from it
// ([C03.next]: next_offset == disk_next) is the position before shutdown. Composes [C03.seg.cur]/[C03.step.seg]
// (loaded_seg) with part_wf of unit `offsets`.
// label: C03.restart.open
pub proof fn lemma_restart_open(p: &Partition, s2: &Segment)
    requires
        part_wf(p), !last_seg(p).is_closed, seg_buf(last_seg(p)).len() == 0,
        s2.start_offset == last_seg(p).start_offset, s2.log_reader is Some, s2.index_reader is Some,
        seg_image(s2).0 == seg_disk(last_seg(p)),
        loaded_seg(s2),
    ensures
        flat(seg_image(s2).0) == seg_msgs(last_seg(p)),
        disk_next(s2) == next_offset(p),
{
    let s = last_seg(p);
    assert(seg_msgs(s) =~= flat(seg_disk(s)));
    if flat(seg_disk(s)).len() > 0 {
        assert(flat(seg_disk(s))[flat(seg_disk(s)).len() - 1].offset == s.start_offset + flat(seg_disk(s)).len() - 1);
    }
}

// the image persist_messages leaves behind satisfies image_wf (so [C03.seg.cur]'s hypothesis holds after a clean shutdown)
// label: C03.restart.image
pub proof fn lemma_image_of_wf_segment(s: &Segment)
    requires seg_wf(s), seg_buf(s).len() == 0,
    ensures image_wf(s.start_offset as int, seg_disk(s), s.index_writer->0.idx()),
{
    assert(seg_msgs(s) =~= flat(seg_disk(s)));
}
