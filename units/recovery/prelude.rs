// ---- unit prelude: recovery (C03; restart clauses of C01 and C14) ----
pub struct PartitionConfigX { pub x: u8 }

// bytes a stored batch occupies in the log file: 24-byte header + encoded messages
pub open spec fn file_bytes(f: Seq<BatchV>) -> nat
    decreases f.len(),
{
    if f.len() == 0 { 0 } else { file_bytes(f.drop_last()) + 24 + total_size(f.last().msgs) }
}

#[verifier::external_body]
pub struct SegmentIndexReader { x: u8 }
impl SegmentIndexReader {
    pub uninterp spec fn idx(&self) -> Seq<Index>;
    // SegmentIndexReader::load_all_indexes_impl: every complete record of the index file, in file order
    // (its byte-level behaviour on torn files is C04's business)
    #[verifier::external_body]
    pub fn load_all_indexes_impl(&self) -> (r: Result<Vec<Index>, IggyError>)
        ensures r is Ok ==> r->Ok_0@ == self.idx(),
    { unimplemented!() }
}

// what is on disk for a segment once its files have been opened: (log file, index file)
pub open spec fn seg_image(s: &Segment) -> (Seq<BatchV>, Seq<Index>) {
    (s.log_reader->0.file(), s.index_reader->0.idx())
}
// the image is one that persist_messages leaves behind (seg_wf's disk conjuncts): one index record per batch,
// carrying the batch's last offset relative to the segment start; batches well-formed and contiguous from start
pub open spec fn image_wf(start: int, f: Seq<BatchV>, ix: Seq<Index>) -> bool {
    &&& ix.len() == f.len()
    &&& forall|i: int| 0 <= i < f.len() ==> batch_wf(#[trigger] f[i])
    &&& forall|i: int| 0 <= i < f.len() ==> (#[trigger] ix[i]).offset == f[i].base + f[i].delta - start
    &&& contig(flat(f), start)
}

impl Segment {
    pub uninterp spec fn spec_is_expired(&self, now: IggyTimestamp) -> bool;
    // LINKED: units/retention/lemmas.rs, harness [C14.link.recovery.is_expired], proves this contract from the real function (mirror edits there)
    #[verifier::external_body]
    pub fn is_expired(&self, now: IggyTimestamp) -> (r: bool)
        ensures r == self.spec_is_expired(now), !self.is_closed ==> !r,
    { unimplemented!() }

    // Segment::initialize_writing / initialize_reading open the two files of the segment (A-io): afterwards all four
    // handles exist, reader and writer of the same path see the same content, and the shared size cell holds the log
    // file's length. Nothing else of the segment changes.
    #[verifier::external_body]
    pub fn initialize_writing(&mut self) -> (r: Result<(), IggyError>)
        ensures
            r is Ok ==> final(self).log_writer is Some && final(self).index_writer is Some
                && final(self).log_size_bytes.v == file_bytes(final(self).log_writer->0.file()),
            *final(self) == (Segment { log_writer: final(self).log_writer, index_writer: final(self).index_writer,
                                       log_size_bytes: final(self).log_size_bytes, ..*old(self) }),
    { unimplemented!() }
    #[verifier::external_body]
    pub fn initialize_reading(&mut self) -> (r: Result<(), IggyError>)
        ensures
            r is Ok ==> final(self).log_reader is Some && final(self).index_reader is Some
                && (old(self).log_writer is Some ==> final(self).log_reader->0.file() == old(self).log_writer->0.file())
                && (old(self).index_writer is Some ==> final(self).index_reader->0.idx() == old(self).index_writer->0.idx()),
            *final(self) == (Segment { log_reader: final(self).log_reader, index_reader: final(self).index_reader, ..*old(self) }),
    { unimplemented!() }
    // Segment::load_message_checksums / load_message_ids read the log back (C02/C18 units)
    #[verifier::external_body]
    pub fn load_message_checksums(&self) -> (r: Result<(), IggyError>) { unimplemented!() }
    // Segment::load_message_ids = `self.log_reader.as_ref().unwrap().load_message_ids_impl()`. The wrapper is extracted in no unit, so this
    // contract is STATED, NOT LINKED; what it wraps is proved in unit read_log ([C18.reload.ids]) under `reader_ok`: the published log
    // size (the cell `log_size_bytes`, shared with the reader) is the length of the file — otherwise the reload stops short of the
    // file's end and forgets ids. The `requires` (the unwrap, and reader_ok in this unit's words) was added when the links were made:
    // the stub had no precondition.
    #[verifier::external_body]
    pub fn load_message_ids(&self) -> (r: Result<Vec<u128>, IggyError>)
        requires self.log_reader is Some, self.log_size_bytes.v == file_bytes(self.log_reader->0.file()),
        ensures r is Ok ==> r->Ok_0@ == ids_of(flat(self.log_reader->0.file())),
    { unimplemented!() }
}
pub open spec fn ids_of(s: Seq<RetainedMessage>) -> Seq<u128> { s.map(|i: int, m: RetainedMessage| m.id) }

// ---- what a loaded segment must look like (from the property: same messages, same offsets, same position) ----
// `loaded_seg(s)`: s describes exactly its disk image
pub open spec fn loaded_seg(s: &Segment) -> bool {
    let (f, ix) = seg_image(s);
    &&& s.log_reader is Some && s.index_reader is Some && s.log_writer is Some && s.index_writer is Some
    &&& s.log_writer->0.file() == f
    &&& s.size_bytes == file_bytes(f)
    &&& (flat(f).len() > 0 ==> s.current_offset == flat(f).last().offset)
    &&& (flat(f).len() == 0 ==> s.current_offset == s.start_offset)
    &&& (s.size_bytes == 0 <==> flat(f).len() == 0)
}
pub open spec fn dedup_seen(p: &Partition) -> Set<u128> { p.message_deduplicator->0.cache.seen() }

// A-size (assumption, listed): a segment file stays below 4 GiB and every stored message takes at least 45 bytes
// (4 length + 41 fixed fields), so it holds fewer than 2^31 messages (the id-reload counter is an i32).
#[verifier::external_body]
pub proof fn assume_segment_msgs_below_2_31(s: &Segment)
    ensures flat(s.log_reader->0.file()).len() < 0x7fff_ffff,
{}

// facts about one loaded segment that the tail of `load` relies on (consequences of loaded_seg)
pub open spec fn seg_loaded_facts(s: &Segment) -> bool {
    &&& s.size_bytes == 0 ==> s.current_offset == s.start_offset
    &&& s.size_bytes > 0 ==> s.current_offset >= s.start_offset && s.current_offset < u64::MAX
}
// the append position the disk image implies: one past the last stored message of the last segment, or — when the last
// segment holds no message yet (fresh roll-over, replacement segment created by retention, new partition) — its start
pub open spec fn disk_next(last: &Segment) -> int {
    if last.size_bytes > 0 { last.current_offset + 1 } else { last.start_offset as int }
}

// the message count a loaded segment reports (Segment::get_messages_count)
pub open spec fn loaded_count(s: &Segment) -> int { if s.size_bytes == 0 { 0 } else { s.current_offset - s.start_offset + 1 } }

// crash image: the log holds one complete batch more than the index (crash between save_batches and save_index)
pub open spec fn image_log_ahead(start: int, f: Seq<BatchV>, ix: Seq<Index>) -> bool {
    &&& f.len() >= 1 && ix.len() + 1 == f.len()
    &&& image_wf(start, f.drop_last(), ix)
    &&& batch_wf(f.last())
    &&& contig(flat(f), start)
}
