// ---- lemmas: client_disconnect — spec level, re-proved on every run ----

// label: C08.leave.lemma.all-live
// when every recorded membership is live (the delete cascades of C06 keep it so: deleting a stream / topic / group strikes
// the memberships nested in it off every client record), a disconnect leaves EVERY recorded group, unconditionally
pub proof fn lemma_left_all_when_live(streams: Map<u32, Stream>, gs: Seq<ConsumerGroup>, k: u32)
    requires client_left_all(streams, gs, k), forall|i: int| 0 <= i < gs.len() ==> membership_live(streams, #[trigger] gs[i]),
    ensures forall|i: int| 0 <= i < gs.len() ==> left_evt(streams, #[trigger] gs[i], k),
{
}

// label: C08.leave.lemma.join-then-disconnect
// join followed by disconnect: the membership recorded by System::join_consumer_group ([C08.join.recorded]) is live and
// denotes the joined group, so the disconnect's left_evt speaks about exactly that group
pub proof fn lemma_join_then_disconnect(streams: Map<u32, Stream>, gs: Seq<ConsumerGroup>, m: ConsumerGroup, g: TopicGroup, k: u32)
    requires membership_live(streams, m), streams[m.stream_id].topics@[m.topic_id].consumer_groups@[m.group_id] == g,
        gs.contains(m), client_left_all(streams, gs, k),
    ensures member_left(g, k),
{
    let i = choose|i: int| 0 <= i < gs.len() && gs[i] == m;
    assert(left_evt(streams, gs[i], k));
}
