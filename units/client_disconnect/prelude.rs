// ---- unit prelude: client_disconnect — everything shared with unit user_disconnect lives in vx/prelude/disconnect.rs ----
