// ---- lemmas: replay_partitions — spec level, re-proved on every run ----

// label: C06.replay.lemma.same-ids
// replay == runtime for the partition ids: [C06.partitions.delete] (runtime, unit catalogue_more) and
// [C06.replay.partitions.delete] (replay) have the same shape, so from the same ids 1..=n both end with the same id set
pub proof fn lemma_replay_matches_runtime(n: nat, count: u32, rt_dom: Set<u32>, rp_dom: Set<u32>)
    requires
        forall|k: u32| #[trigger] rt_dom.contains(k) <==> 1 <= k <= n - clamp(count, n),
        forall|k: u32| #[trigger] rp_dom.contains(k) <==> 1 <= k <= n - clamp(count, n),
    ensures rt_dom =~= rp_dom,
{
}
