// ---- unit prelude: replay_partitions (C06: the journal replay of CreatePartitions / DeletePartitions) ----------------------
#[derive(Clone, Copy, Debug)]
pub struct IggyTimestamp(pub u64);

// R8 closure schema: m.values().map(F).max()  — None iff the map is empty, otherwise the greatest F-value
#[verifier::external_body]
pub fn std_values_map_max<K, V>(m: &HashMap<K, V>, Ghost(f): Ghost<spec_fn(V) -> u32>) -> (r: Option<u32>)
    ensures match r {
        Some(x) => (exists|k: K| #[trigger] m@.contains_key(k) && f(m@[k]) == x) && (forall|k: K| #[trigger] m@.contains_key(k) ==> f(m@[k]) <= x),
        None => forall|k: K| !#[trigger] m@.contains_key(k),
    },
{ unimplemented!() }
// R9 panic as precondition: `o.unwrap_or_else(|| panic!(..))` returns the value; the None case is an obligation at the site
pub trait UnwrapOrUnreachable<T>: Sized {
    spec fn is_some_spec(&self) -> bool;
    spec fn value_spec(&self) -> T;
    fn unwrap_or_unreachable(self) -> (r: T) requires self.is_some_spec(), ensures r == self.value_spec();
}
impl<T> UnwrapOrUnreachable<T> for Option<T> {
    open spec fn is_some_spec(&self) -> bool { *self is Some }
    open spec fn value_spec(&self) -> T { self->0 }
    #[verifier::external_body]
    fn unwrap_or_unreachable(self) -> (r: T) { unimplemented!() }
}

// the replayed topic record: partition ids exactly 1..=n, each filed under its own id — the same shape the runtime keeps
// (unit catalogue_more, parts_wf)
pub open spec fn st_parts_wf(t: &TopicState) -> bool {
    &&& t.partitions@.dom().finite()
    &&& t.partitions@.len() <= u32::MAX
    &&& forall|k: u32| #[trigger] t.partitions@.contains_key(k) <==> 1 <= k <= t.partitions@.len()
    &&& forall|k: u32| #[trigger] t.partitions@.contains_key(k) ==> t.partitions@[k].id == k
}
// what the RUNTIME does with a delete request ([C06.partitions.delete] of unit catalogue_more): the request is clamped
pub open spec fn clamp(count: u32, n: nat) -> int { if count > n { n as int } else { count as int } }
