// ---- lemmas: consumer_group (C08) — proved on every run, spec level only ----

// one step of the deal: partition index p goes to member p mod m, at position rr_count(p, m, p mod m)
// label: C08.rr.step.lemma
pub proof fn lemma_rr_step(p: int, m: int)
    requires 0 <= p, 0 < m,
    ensures
        0 <= p % m < m,
        rr_count(p + 1, m, p % m) == rr_count(p, m, p % m) + 1,
        forall|i: int| 0 <= i < m && i != p % m ==> (#[trigger] rr_count(p + 1, m, i)) == rr_count(p, m, i),
        rr_count(p, m, p % m) * m + p % m == p,
        rr_count(p, m, p % m) == 0 ==> p % m == p,
        forall|i: int| 0 <= i < m ==> 0 <= (#[trigger] rr_count(p, m, i)) && rr_count(p, m, i) <= p,
{
    assume(false);
}
