// ---- lemmas: consumer_group (C08) — proved on every run, spec level only ----
// (no executable code of /repo appears here; the lemmas speak about the spec predicates of prelude.rs only)

pub proof fn lemma_divmod(x: int, m: int)
    requires 0 <= x, 0 < m,
    ensures x == (x / m) * m + x % m, 0 <= x % m < m, 0 <= x / m,
{
    vstd::arithmetic::div_mod::lemma_fundamental_div_mod(x, m);
    vstd::arithmetic::div_mod::lemma_mod_pos_bound(x, m);
    vstd::arithmetic::div_mod::lemma_div_pos_is_pos(x, m);
    vstd::arithmetic::mul::lemma_mul_is_commutative(m, x / m);
}

pub proof fn lemma_divmod_unique(x: int, m: int, q: int, r: int)
    requires 0 < m, 0 <= r < m, x == q * m + r,
    ensures x / m == q, x % m == r,
{
    vstd::arithmetic::div_mod::lemma_fundamental_div_mod_converse(x, m, q, r);
}

// one step of the deal: partition index p goes to member p mod m, at position rr_count(p, m, p mod m)
// label: C08.rr.step.lemma
pub proof fn lemma_rr_step(p: int, m: int)
    requires 0 <= p, 0 < m,
    ensures
        0 <= p % m < m,
        rr_count(p + 1, m, p % m) == rr_count(p, m, p % m) + 1,
        forall|i: int| 0 <= i < m && i != p % m ==> (#[trigger] rr_count(p + 1, m, i)) == rr_count(p, m, i),
        rr_count(p, m, p % m) * m + p % m == p,
        rr_count(p, m, p % m) == 0 ==> p % m == p,
        forall|i: int| 0 <= i < m ==> 0 <= (#[trigger] rr_count(p, m, i)) && rr_count(p, m, i) <= p,
{
    lemma_divmod(p, m);
    let q = p / m;
    let r = p % m;
    if r + 1 < m {
        lemma_divmod_unique(p + 1, m, q, r + 1);
    } else {
        assert((q + 1) * m == q * m + m) by (nonlinear_arith);
        lemma_divmod_unique(p + 1, m, q + 1, 0);
    }
    assert(q * m >= q) by (nonlinear_arith) requires q >= 0, m >= 1;
    assert(q == 0 ==> q * m == 0) by (nonlinear_arith);
}

// what the closed form says about one member, in terms of its share
pub proof fn lemma_member_rr_share(mem: ConsumerGroupMember, n: int, m: int, i: int)
    requires member_rr(mem, n, m, i), 0 <= i < m, 0 <= n <= u32::MAX,
    ensures
        share_wf(mem),
        share(mem).len() == rr_count(n, m, i),
        0 <= rr_count(n, m, i) <= n,
        forall|j: int| 0 <= j < share(mem).len() ==> (#[trigger] share(mem)[j]) as int == j * m + i + 1 && 0 <= j * m + i < n,
        cursor_fresh(mem),
        member_wf(mem),
{
    lemma_divmod(n, m);
    let qq = n / m;
    let rr = n % m;
    let c = rr_count(n, m, i);
    assert(qq * m >= qq) by (nonlinear_arith) requires qq >= 0, m >= 1;
    assert(0 <= c <= n);
    assert forall|j: int| 0 <= j < share(mem).len() implies (#[trigger] share(mem)[j]) as int == j * m + i + 1 && 0 <= j * m + i < n by {
        let ju = j as u32;
        assert(mem.partitions@.contains_key(ju));
        assert(mem.partitions@[ju] as int == ju * m + i + 1);
        assert(0 <= j * m) by (nonlinear_arith) requires j >= 0, m >= 1;
        if j < qq {
            assert(j * m <= (qq - 1) * m) by (nonlinear_arith) requires j <= qq - 1, m >= 1;
            assert((qq - 1) * m == qq * m - m) by (nonlinear_arith);
        } else {
            assert(j == qq && i < rr);
        }
    }
    if c > 0 {
        assert(share(mem)[0] as int == 0 * m + i + 1);
        assert(0 * m == 0) by (nonlinear_arith);
        assert(share(mem).contains(share(mem)[0]));
    }
}

// The mechanism implies the property clauses: dealing partition index q to member (q mod m) at position (q div m)
// gives every partition id in 1..=n to exactly one member, nothing else, shares differing by at most one, cursors
// on the first owned partition.
// label: C08.rr.sound
pub proof fn lemma_rr_gives_c08(mm: Map<u32, ConsumerGroupMember>, ks: Seq<u32>, n: int)
    requires assigned_rr(mm, ks, n), ks.len() >= 1, 0 <= n <= u32::MAX,
    ensures
        c08_excl(mm, n),
        c08_even(mm),
        c08_cursor(mm),
        forall|k: u32| mm.contains_key(k) ==> member_wf(#[trigger] mm[k]),
{
    let m = ks.len() as int;
    // every member sits at some position of the key order
    assert forall|k: u32| mm.contains_key(k) implies
        exists|i: int| 0 <= i < m && ks[i] == k && member_rr(mm[k], n, m, i) by {
        assert(ks.contains(k));
        let i = choose|i: int| 0 <= i < ks.len() && ks[i] == k;
        assert(member_rr(mm[ks[i]], n, m, i));
    }
    assert forall|k: u32| mm.contains_key(k) implies share_wf(#[trigger] mm[k]) && cursor_fresh(mm[k]) && member_wf(mm[k]) by {
        let i = choose|i: int| 0 <= i < m && ks[i] == k && member_rr(mm[k], n, m, i);
        lemma_member_rr_share(mm[k], n, m, i);
    }
    // evenness
    assert forall|k1: u32, k2: u32| mm.contains_key(k1) && mm.contains_key(k2)
        implies share(#[trigger] mm[k1]).len() <= share(#[trigger] mm[k2]).len() + 1 by {
        let i1 = choose|i: int| 0 <= i < m && ks[i] == k1 && member_rr(mm[k1], n, m, i);
        let i2 = choose|i: int| 0 <= i < m && ks[i] == k2 && member_rr(mm[k2], n, m, i);
        lemma_member_rr_share(mm[k1], n, m, i1);
        lemma_member_rr_share(mm[k2], n, m, i2);
    }
    // every partition id occurs
    assert forall|pid: u32| #[trigger] is_partition(pid, n) implies exists|k: u32, j: int| owns(mm, k, j, pid) by {
        let q = pid as int - 1;
        lemma_divmod(q, m);
        lemma_divmod(n, m);
        let i = q % m;
        let j = q / m;
        let k = ks[i];
        assert(ks.contains(k));
        assert(mm.contains_key(k));
        assert(member_rr(mm[ks[i]], n, m, i));
        lemma_member_rr_share(mm[k], n, m, i);
        let qq = n / m;
        let rr = n % m;
        if i < rr {
            if j >= qq + 1 {
                assert(j * m >= (qq + 1) * m) by (nonlinear_arith) requires j >= qq + 1, m >= 1;
                assert((qq + 1) * m == qq * m + m) by (nonlinear_arith);
                assert(false);
            }
        } else {
            if j >= qq {
                assert(j * m >= qq * m) by (nonlinear_arith) requires j >= qq, m >= 1;
                assert(false);
            }
        }
        assert(0 <= j < share(mm[k]).len());
        assert(share(mm[k])[j] as int == j * m + i + 1);
        assert(owns(mm, k, j, pid));
    }
    // ... in exactly one place
    assert forall|k1: u32, j1: int, k2: u32, j2: int, pid: u32|
        owns(mm, k1, j1, pid) && owns(mm, k2, j2, pid) implies k1 == k2 && j1 == j2 by {
        let i1 = choose|i: int| 0 <= i < m && ks[i] == k1 && member_rr(mm[k1], n, m, i);
        let i2 = choose|i: int| 0 <= i < m && ks[i] == k2 && member_rr(mm[k2], n, m, i);
        lemma_member_rr_share(mm[k1], n, m, i1);
        lemma_member_rr_share(mm[k2], n, m, i2);
        assert(share(mm[k1])[j1] as int == j1 * m + i1 + 1);
        assert(share(mm[k2])[j2] as int == j2 * m + i2 + 1);
        lemma_divmod_unique(pid as int - 1, m, j1, i1);
        lemma_divmod_unique(pid as int - 1, m, j2, i2);
    }
    // ... and nothing else occurs
    assert forall|k: u32, j: int, pid: u32| owns(mm, k, j, pid) implies is_partition(pid, n) by {
        let i = choose|i: int| 0 <= i < m && ks[i] == k && member_rr(mm[k], n, m, i);
        lemma_member_rr_share(mm[k], n, m, i);
        assert(share(mm[k])[j] as int == j * m + i + 1);
    }
}

// ---- rotation: what a run of polls by one member returns (a lemma over the contract [C08.rot]) ----------
// states ms[0..=T] of one member, outputs rs[0..T): consecutive states are related by the poll contract
pub open spec fn poll_run(ms: Seq<ConsumerGroupMember>, rs: Seq<Option<u32>>) -> bool {
    &&& ms.len() == rs.len() + 1
    &&& forall|t: int| 0 <= t < rs.len() ==> rot_post(#[trigger] ms[t], ms[t + 1], rs[t])
}
// position of the cursor after t polls, starting at i0, in a share of length l
pub open spec fn rot_pos(i0: int, t: int, l: int) -> int { (i0 + t) % l }

// label: C08.rot.run
pub proof fn c08_rot_run(ms: Seq<ConsumerGroupMember>, rs: Seq<Option<u32>>, i0: u32, t: int)
    requires poll_run(ms, rs), member_wf(ms[0]), ms[0].current_partition_index == Some(i0), 0 <= t <= rs.len(),
    ensures
        ms[t].partitions == ms[0].partitions,
        share(ms[t]) == share(ms[0]),
        0 <= rot_pos(i0 as int, t, share(ms[0]).len() as int) < share(ms[0]).len(),
        ms[t].current_partition_index == Some(rot_pos(i0 as int, t, share(ms[0]).len() as int) as u32),
        t >= 1 ==> rs[t - 1] == Some(share(ms[0])[rot_pos(i0 as int, t - 1, share(ms[0]).len() as int)]),
    decreases t,
{
    let l = share(ms[0]).len() as int;
    assert(0 <= i0 < l);
    if t == 0 {
        vstd::arithmetic::div_mod::lemma_small_mod(i0 as nat, l as nat);
    } else {
        c08_rot_run(ms, rs, i0, t - 1);
        let x = i0 as int + t - 1;
        assert(rot_post(ms[t - 1], ms[t - 1 + 1], rs[t - 1]));
        vstd::arithmetic::div_mod::lemma_add_mod_noop_right(1, x, l);
        vstd::arithmetic::div_mod::lemma_mod_pos_bound(x + 1, l);
        assert(1 + x == i0 as int + t);
    }
}

// arithmetic of the rotation: within l consecutive polls starting at poll s, position j is reached ...
pub proof fn lemma_rot_pos_hit(b: int, s: int, l: int, j: int) -> (t: int)
    requires 0 <= b, 0 <= s, 0 < l, 0 <= j < l,
    ensures s <= t < s + l, rot_pos(b, t, l) == j,
{
    let a = (b + s) % l;
    vstd::arithmetic::div_mod::lemma_mod_pos_bound(b + s, l);
    let d = if j >= a { j - a } else { j + l - a };
    let t = s + d;
    vstd::arithmetic::div_mod::lemma_small_mod(d as nat, l as nat);
    vstd::arithmetic::div_mod::lemma_add_mod_noop(b + s, d, l);
    assert(b + s + d == b + t);
    vstd::arithmetic::div_mod::lemma_small_mod(j as nat, l as nat);
    if j < a {
        vstd::arithmetic::div_mod::lemma_mod_multiples_vanish(1, j, l);
        assert(l * 1 + j == j + l);
    }
    t
}
// ... and no position is reached twice
pub proof fn lemma_rot_pos_inj(b: int, t1: int, t2: int, l: int)
    requires 0 <= b, 0 <= t1 < t2, t2 < t1 + l, 0 < l,
    ensures rot_pos(b, t1, l) != rot_pos(b, t2, l),
{
    if rot_pos(b, t1, l) == rot_pos(b, t2, l) {
        vstd::arithmetic::div_mod::lemma_mod_equivalence(b + t2, b + t1, l);
        vstd::arithmetic::div_mod::lemma_small_mod((t2 - t1) as nat, l as nat);
        assert((b + t2) - (b + t1) == t2 - t1);
        assert(false);
    }
}

// `|share|` consecutive polls visit every position of the share exactly once (hence, with [C08.excl], every owned
// partition exactly once): in any window [s, s+l) of polls the cursor positions are pairwise different and every
// position j occurs.
// label: C08.rot.cycle
pub proof fn c08_rot_cycle(ms: Seq<ConsumerGroupMember>, rs: Seq<Option<u32>>, i0: u32, s: int, j: int)
    requires
        poll_run(ms, rs), member_wf(ms[0]), ms[0].current_partition_index == Some(i0),
        0 <= s, s + share(ms[0]).len() <= rs.len(), 0 <= j < share(ms[0]).len(),
    ensures
        forall|t: int| s <= t < s + share(ms[0]).len() ==> #[trigger] rs[t] == Some(share(ms[0])[rot_pos(i0 as int, t, share(ms[0]).len() as int)]),
        exists|t: int| s <= t < s + share(ms[0]).len() && rot_pos(i0 as int, t, share(ms[0]).len() as int) == j && rs[t] == Some(share(ms[0])[j]),
        forall|t1: int, t2: int| s <= t1 < t2 < s + share(ms[0]).len()
            ==> rot_pos(i0 as int, t1, share(ms[0]).len() as int) != rot_pos(i0 as int, t2, share(ms[0]).len() as int),
{
    let l = share(ms[0]).len() as int;
    let b = i0 as int;
    assert forall|t: int| s <= t < s + l implies #[trigger] rs[t] == Some(share(ms[0])[rot_pos(b, t, l)]) by {
        c08_rot_run(ms, rs, i0, t + 1);
    }
    let t = lemma_rot_pos_hit(b, s, l, j);
    assert(rs[t] == Some(share(ms[0])[rot_pos(b, t, l)]));
    assert forall|t1: int, t2: int| s <= t1 < t2 < s + l implies rot_pos(b, t1, l) != rot_pos(b, t2, l) by {
        lemma_rot_pos_inj(b, t1, t2, l);
    }
}

// ---- histories ---------------------------------------------------------------------------------------
pub enum GroupEvent { Join(u32), Leave(u32), Reassign(u32), Poll(u32) }

// A poll leaves every share untouched and keeps the members well-formed: the invariant survives it.
// (hypotheses = the postconditions [C08.rot.poll], [C08.poll.others], [C08.poll.frame], [C08.inv.poll])
// label: C08.inv.poll.lemma
pub proof fn lemma_poll_keeps_inv(a: ConsumerGroup, b: ConsumerGroup, id: u32, r: Option<u32>)
    requires
        group_inv(a), group_wf(b), a.members@.contains_key(id),
        b.members@.contains_key(id) && rot_post(a.members@[id], b.members@[id], r),
        forall|k: u32| k != id ==> (b.members@.contains_key(k) == a.members@.contains_key(k))
            && (a.members@.contains_key(k) ==> #[trigger] b.members@[k] == a.members@[k]),
        b.members@.dom() =~= a.members@.dom(), b.partitions_count == a.partitions_count,
    ensures group_inv(b),
{
    let ma = a.members@;
    let mb = b.members@;
    let n = a.partitions_count as int;
    assert forall|k: u32| mb.contains_key(k) implies share(#[trigger] mb[k]) == share(ma[k]) && share_wf(ma[k]) == share_wf(mb[k]) by {
        if k == id { assert(mb[k].partitions == ma[k].partitions); } else { assert(mb[k] == ma[k]); }
    }
    if ma.len() >= 1 {
        assert forall|k: u32, j: int, pid: u32| owns(mb, k, j, pid) == owns(ma, k, j, pid) by {
            if mb.contains_key(k) { assert(share(mb[k]) == share(ma[k])); }
        }
        assert forall|pid: u32| #[trigger] is_partition(pid, n) implies exists|k: u32, j: int| owns(mb, k, j, pid) by {
            let (k, j) = choose|k: u32, j: int| owns(ma, k, j, pid);
            assert(owns(mb, k, j, pid));
        }
        assert(c08_excl(mb, n));
        assert(c08_even(mb));
    }
}

// what the contracts of the four mutators say about one step (same predicates as contracts.vspec; the resource
// bound on the number of members is the contracts' precondition)
pub open spec fn step_contract(a: ConsumerGroup, e: GroupEvent, b: ConsumerGroup) -> bool {
    match e {
        GroupEvent::Join(id) => (group_wf(a) && members_bound(a)) ==>
            b.members@.dom() =~= a.members@.dom().insert(id) && b.partitions_count == a.partitions_count && group_inv(b),
        GroupEvent::Leave(id) => (group_inv(a) && members_bound(a)) ==>
            b.members@.dom() =~= a.members@.dom().remove(id) && b.partitions_count == a.partitions_count && group_inv(b),
        GroupEvent::Reassign(n) => (group_wf(a) && members_bound(a)) ==>
            b.members@.dom() =~= a.members@.dom() && b.partitions_count == n && group_inv(b),
        GroupEvent::Poll(id) => group_inv(a) ==>
            b.members@.dom() =~= a.members@.dom() && b.partitions_count == a.partitions_count && group_inv(b),
    }
}
pub open spec fn members_after(es: Seq<GroupEvent>) -> Set<u32>
    decreases es.len(),
{
    if es.len() == 0 { Set::empty() } else {
        let s = members_after(es.drop_last());
        match es.last() { GroupEvent::Join(id) => s.insert(id), GroupEvent::Leave(id) => s.remove(id), _ => s }
    }
}
pub open spec fn count_after(n0: u32, es: Seq<GroupEvent>) -> u32
    decreases es.len(),
{
    if es.len() == 0 { n0 } else {
        match es.last() { GroupEvent::Reassign(n) => n, _ => count_after(n0, es.drop_last()) }
    }
}
// gs[0] is a freshly created group ([C08.new.empty], [C08.inv.new]); every later state is produced by one of the
// contracted mutators; the member bound holds throughout
pub open spec fn history(gs: Seq<ConsumerGroup>, es: Seq<GroupEvent>) -> bool {
    &&& gs.len() == es.len() + 1
    &&& gs[0].members@ == Map::<u32, ConsumerGroupMember>::empty()
    &&& group_inv(gs[0])
    &&& forall|t: int| 0 <= t < es.len() ==> step_contract(#[trigger] gs[t], es[t], gs[t + 1]) && members_bound(gs[t])
}

// After ANY sequence of join / leave / reassign(create- or delete-partitions) / poll events the invariant holds:
// the member set is exactly the fold of the joins and leaves, the partition count is the last one announced, and if
// the group is non-empty every partition id in 1..=count sits in exactly one current member's share, shares differ
// by at most one, and every cursor stands inside its member's share.
// label: C08.history
pub proof fn c08_history(gs: Seq<ConsumerGroup>, es: Seq<GroupEvent>, t: int)
    requires history(gs, es), 0 <= t <= es.len(),
    ensures
        group_inv(gs[t]),
        gs[t].members@.dom() =~= members_after(es.take(t)),
        gs[t].partitions_count == count_after(gs[0].partitions_count, es.take(t)),
        gs[t].members@.len() >= 1 ==> c08_excl(gs[t].members@, gs[t].partitions_count as int) && c08_even(gs[t].members@),
        forall|k: u32| gs[t].members@.contains_key(k) ==> member_wf(#[trigger] gs[t].members@[k]),
    decreases t,
{
    if t == 0 {
        assert(es.take(0).len() == 0);
        assert(gs[0].members@.dom() =~= Set::<u32>::empty());
    } else {
        c08_history(gs, es, t - 1);
        assert(step_contract(gs[t - 1], es[t - 1], gs[t - 1 + 1]));
        assert(es.take(t).drop_last() =~= es.take(t - 1));
        assert(es.take(t).last() == es[t - 1]);
    }
}

// ---- LINK harnesses: the contracts other units ASSUME for functions proved here, proved from the real ones ---------------------
// Each harness has the assuming unit's stub signature, its `requires` / `ensures` copied VERBATIM from that unit's prelude.rs, and a
// body that is ONE call of the real extracted function: Verus proves "real contract ==> assumed contract" on every run.
// A later edit of a stub has to be mirrored here (and vice versa).

// `cg_current` is an UNINTERPRETED function of (group, member id) in unit consumer_offsets, whose ConsumerGroup keeps the member table
// as an opaque component (`GroupMembers`): "reads the member's current partition: a function of the group state". Here it is that
// function over the real member table ([C08.current.member], [C08.current.value], [C08.shape.current.err]): a projection.
pub open spec fn cg_current(g: &ConsumerGroup, member_id: u32) -> Result<Option<u32>, IggyError> {
    if g.members@.contains_key(member_id) {
        Ok(g.members@[member_id].current_partition_id)
    } else {
        Err(IggyError::ConsumerGroupMemberNotFound(member_id, g.group_id, g.topic_id))
    }
}
impl ConsumerGroup {
    // copied from units/consumer_offsets/prelude.rs, stub `ConsumerGroup::get_current_partition_id`
    // label: C08.link.consumer_offsets.get_current_partition_id
    pub fn link_consumer_offsets_get_current_partition_id(&self, member_id: u32) -> (r: Result<Option<u32>, IggyError>)
        ensures r == cg_current(self, member_id),
    {
        self.get_current_partition_id(member_id)
    }
}
