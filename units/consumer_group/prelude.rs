// ---- unit prelude: consumer_group (C08) ---------------------------------------------------------
// Stand-ins, assumed std contracts (A-std) and the spec vocabulary of C08. Nothing executable of /repo is
// re-typed here: every `fn` with a body below is an `external_body` stub of a std/ahash container method.

// stand-in for iggy::error::IggyError: only the variants constructed by the extracted functions
pub enum IggyError {
    ConsumerGroupMemberNotFound(u32, u32, u32),
    Other,      // any error produced by a callee that is not extracted
}

// ---- A-std: additional container methods (second impl block of the common HashMap stand-in) ----
// `ks` enumerates the keys of `m` without repetition (an iteration order of the map).
pub open spec fn order_of<K, V>(m: Map<K, V>, ks: Seq<K>) -> bool {
    &&& ks.no_duplicates()
    &&& ks.len() == m.len()
    &&& forall|k: K| m.contains_key(k) <==> ks.contains(k)
    &&& forall|i: int| 0 <= i < ks.len() ==> m.contains_key(#[trigger] ks[i])     // (implied by the line above; trigger-friendly)
}

impl<K, V> HashMap<K, V> {
    // the (unspecified) iteration order of this concrete map object
    pub uninterp spec fn iter_order(&self) -> Seq<K>;

    // R8 map-iteration schema for `m.values_mut().collect::<Vec<_>>()`:
    // one exclusive reference per entry, in the map's iteration order; what is written through the i-th
    // reference is what the map holds under the i-th key once the borrow ends; the key set cannot change.
    #[verifier::external_body]
    pub fn values_mut_collect<'a>(&'a mut self) -> (r: Vec<&'a mut V>)
        ensures
            order_of(old(self)@, old(self).iter_order()),
            r@.len() == old(self).iter_order().len(),
            forall|k: K| final(self)@.contains_key(k) <==> old(self)@.contains_key(k),
            forall|i: int| 0 <= i < r@.len() ==> *(#[trigger] r@[i]) == old(self)@[old(self).iter_order()[i]],
            forall|i: int| 0 <= i < r@.len() ==> *final(#[trigger] r@[i]) == final(self)@[old(self).iter_order()[i]],
    { unimplemented!() }

    // R8 map-iteration schema for `for (k, v) in m.iter_mut()`: (key, exclusive value reference) pairs in the map's
    // iteration order; same write-back reading as values_mut_collect.
    #[verifier::external_body]
    pub fn iter_mut_collect<'a>(&'a mut self) -> (r: Vec<(&'a K, &'a mut V)>)
        ensures
            order_of(old(self)@, old(self).iter_order()),
            r@.len() == old(self).iter_order().len(),
            forall|k: K| final(self)@.contains_key(k) <==> old(self)@.contains_key(k),
            forall|i: int| 0 <= i < r@.len() ==> *(#[trigger] r@[i]).0 == old(self).iter_order()[i]
                && *r@[i].1 == old(self)@[old(self).iter_order()[i]],
            forall|i: int| 0 <= i < r@.len() ==> *final((#[trigger] r@[i]).1) == final(self)@[old(self).iter_order()[i]],
    { unimplemented!() }

    // R8 map-iteration schema for `m.values().copied().collect::<Vec<V>>()`
    #[verifier::external_body]
    pub fn values_copied_collect(&self) -> (r: Vec<V>)
        ensures
            order_of(self@, self.iter_order()),
            r@.len() == self.iter_order().len(),
            forall|i: int| 0 <= i < r@.len() ==> #[trigger] r@[i] == self@[self.iter_order()[i]],
    { unimplemented!() }

    // std HashMap::get_mut
    #[verifier::external_body]
    pub fn get_mut(&mut self, k: &K) -> (r: Option<&mut V>)
        ensures
            match r {
                Some(v) => old(self)@.contains_key(*k) && *v == old(self)@[*k] && final(self)@ == old(self)@.insert(*k, *final(v)),
                None => !old(self)@.contains_key(*k) && final(self)@ == old(self)@,
            },
    { unimplemented!() }
}

// ---- view: a member's share as a sequence ------------------------------------------------------
// `partitions` maps position -> partition id; the share is well formed when the positions are 0..len.
pub open spec fn share_wf(m: ConsumerGroupMember) -> bool {
    forall|j: u32| #[trigger] m.partitions@.contains_key(j) <==> (j as int) < m.partitions@.len()
}
pub open spec fn share(m: ConsumerGroupMember) -> Seq<u32> {
    Seq::new(m.partitions@.len(), |j: int| m.partitions@[j as u32])
}

// r lists the share in some order: ks is a duplicate-free enumeration of the positions 0..|share| and r[i] = share[ks[i]]
pub open spec fn is_permuted_share(m: ConsumerGroupMember, r: Seq<u32>, ks: Seq<u32>) -> bool {
    &&& order_of(m.partitions@, ks)
    &&& r.len() == ks.len()
    &&& forall|i: int| 0 <= i < r.len() ==> (ks[i] as int) < share(m).len() && #[trigger] r[i] == share(m)[ks[i] as int]
}

// ---- the property clauses, over assign(g) : member id -> share -----------------------------------
// member k holds partition id `pid` at position j of its share
pub open spec fn owns(mm: Map<u32, ConsumerGroupMember>, k: u32, j: int, pid: u32) -> bool {
    mm.contains_key(k) && 0 <= j < share(mm[k]).len() && share(mm[k])[j] == pid
}
// the partition ids of a topic with n partitions
pub open spec fn is_partition(pid: u32, n: int) -> bool { 1 <= pid <= n }
// [C08.excl] every partition id in 1..=n occurs in exactly one member's share (once), and nothing else occurs
pub open spec fn c08_excl(mm: Map<u32, ConsumerGroupMember>, n: int) -> bool {
    &&& forall|k: u32| mm.contains_key(k) ==> share_wf(#[trigger] mm[k])
    &&& forall|pid: u32| #[trigger] is_partition(pid, n) ==> exists|k: u32, j: int| owns(mm, k, j, pid)
    &&& forall|k1: u32, j1: int, k2: u32, j2: int, pid: u32|
            owns(mm, k1, j1, pid) && owns(mm, k2, j2, pid) ==> k1 == k2 && j1 == j2
    &&& forall|k: u32, j: int, pid: u32| owns(mm, k, j, pid) ==> is_partition(pid, n)
}
// [C08.even] share sizes differ by at most one
pub open spec fn c08_even(mm: Map<u32, ConsumerGroupMember>) -> bool {
    forall|k1: u32, k2: u32| mm.contains_key(k1) && mm.contains_key(k2)
        ==> share(#[trigger] mm[k1]).len() <= share(#[trigger] mm[k2]).len() + 1
}
// [C08.cursor] after (re)assignment the rotation cursor stands on the first owned partition (none if no share)
pub open spec fn cursor_fresh(m: ConsumerGroupMember) -> bool {
    if share(m).len() == 0 {
        m.current_partition_index is None && m.current_partition_id is None
    } else {
        m.current_partition_index == Some(0u32) && m.current_partition_id == Some(share(m)[0])
    }
}
pub open spec fn c08_cursor(mm: Map<u32, ConsumerGroupMember>) -> bool {
    forall|k: u32| mm.contains_key(k) ==> cursor_fresh(#[trigger] mm[k])
}

// [C08.rot] one poll: returns share[i], remembers it as current, advances i := (i+1) mod |share|; share untouched
pub open spec fn rot_post(a: ConsumerGroupMember, b: ConsumerGroupMember, r: Option<u32>) -> bool {
    &&& b.id == a.id
    &&& b.partitions == a.partitions
    &&& match a.current_partition_index {
            None => r is None && b.current_partition_index is None && b.current_partition_id == a.current_partition_id,
            Some(i) => {
                &&& r == Some(share(a)[i as int])
                &&& b.current_partition_id == r
                &&& b.current_partition_index == Some(((i as int + 1) % (share(a).len() as int)) as u32)
            },
        }
}

// ---- invariants (helper shapes derived from the code) --------------------------------------------
// a member between two polls: cursor inside the share, current id taken from the share
pub open spec fn member_wf(m: ConsumerGroupMember) -> bool {
    &&& share_wf(m)
    &&& share(m).len() <= u32::MAX
    &&& match m.current_partition_index { Some(i) => (i as int) < share(m).len(), None => share(m).len() == 0 }
    &&& match m.current_partition_id { Some(p) => share(m).contains(p), None => share(m).len() == 0 }
}
pub open spec fn group_wf(g: ConsumerGroup) -> bool {
    forall|k: u32| g.members@.contains_key(k) ==> member_wf(#[trigger] g.members@[k]) && g.members@[k].id == k
}
// the invariant of every history: well-formed members and, for a non-empty group, exclusivity and evenness
pub open spec fn group_inv(g: ConsumerGroup) -> bool {
    &&& group_wf(g)
    &&& g.members@.len() >= 1 ==> c08_excl(g.members@, g.partitions_count as int) && c08_even(g.members@)
}
// resource bound: member ids are u32, `members.len() as u32` must not truncate (2^32-1 connected clients)
pub open spec fn members_bound(g: ConsumerGroup) -> bool { g.members@.len() < u32::MAX }

pub open spec fn group_frame(a: ConsumerGroup, b: ConsumerGroup) -> bool {
    b.topic_id == a.topic_id && b.group_id == a.group_id && b.name == a.name
}

// ---- the mechanism: partition index q -> member (q mod m), position (q div m) --------------------
// number of q in [0, p) with q mod m == i   (0 <= i < m)
pub open spec fn rr_count(p: int, m: int, i: int) -> int {
    p / m + if i < p % m { 1int } else { 0int }
}
// state of the member at position i of m members after the first p partitions have been dealt
pub open spec fn member_rr(mem: ConsumerGroupMember, p: int, m: int, i: int) -> bool {
    let c = rr_count(p, m, i);
    &&& mem.partitions@.len() == c
    &&& forall|j: u32| #[trigger] mem.partitions@.contains_key(j) <==> (j as int) < c
    &&& forall|j: u32| (j as int) < c ==> #[trigger] mem.partitions@[j] as int == j * m + i + 1
    &&& c == 0 ==> mem.current_partition_index is None && mem.current_partition_id is None
    &&& c > 0 ==> mem.current_partition_index == Some(0u32) && mem.current_partition_id == Some((i + 1) as u32)
}
// the whole group is dealt round-robin along the key order ks
pub open spec fn assigned_rr(mm: Map<u32, ConsumerGroupMember>, ks: Seq<u32>, n: int) -> bool {
    &&& order_of(mm, ks)
    &&& forall|i: int| 0 <= i < ks.len() ==> member_rr(mm[#[trigger] ks[i]], n, ks.len() as int, i)
}

// ---- Topic level: stand-ins and the assumed contract of the (not extracted) group lookup ------------------
// opaque stand-ins: a partition object behind its lock (only the NUMBER of partitions matters here) and the
// sdk Identifier (numeric id or name)
#[verifier::external_body]
pub struct PartitionCell { _p: () }
#[verifier::external_body]
pub struct Identifier { _p: () }

// which consumer group of topic t the identifier denotes, if any (resolution by id / by name is C06's subject)
pub uninterp spec fn group_of(t: Topic, id: Identifier) -> Option<u32>;
// the identifier is well-formed as decoded (sdk Identifier::from_bytes / validate / numeric / named: a numeric identifier is 4 bytes
// long) — unit catalogue_maps' `ident_valid`, opaque here like the Identifier itself (added by link pass 2)
pub uninterp spec fn ident_valid(id: Identifier) -> bool;

impl Topic {
    // Topic::get_consumer_group (topics/consumer_groups.rs) is NOT extracted. In the source it returns
    // `&RwLock<ConsumerGroup>` from `&self` and the caller takes the write lock; with the lock object dropped (R5) the
    // same group is handed out as an exclusive reference (R6 promotion at the access path). Assumed: it yields the
    // group the identifier denotes, what is written through the reference is what the map holds afterwards under the
    // same key, nothing else of the topic changes; on Err nothing changes.
    // LINKED (the READ half: the clauses over old(self) of the match; with group_of INTERPRETED as the catalogue lookup): units/catalogue_maps/lemmas.rs,
    // harness [C06.link.consumer_group.get_consumer_group] (mirror edits there). The write-back half (final(self)..) is the get_mut schema of the R6
    // promotion: still assumed. The `requires` was ADDED by the link: the real function `unwrap()`s `identifier.get_u32_value()`
    // (topics/consumer_groups.rs:38) and panics on a numeric identifier that is not 4 bytes long — the stub had no precondition.
    #[verifier::external_body]
    pub fn get_consumer_group<'a>(&'a mut self, identifier: &Identifier) -> (r: Result<&'a mut ConsumerGroup, IggyError>)
        requires ident_valid(*identifier),
        ensures
            final(self).partitions == old(self).partitions,
            final(self).stream_id == old(self).stream_id && final(self).topic_id == old(self).topic_id,
            match r {
                Ok(g) => {
                    &&& group_of(*old(self), *identifier) is Some
                    &&& old(self).consumer_groups@.contains_key(group_of(*old(self), *identifier)->0)
                    &&& *g == old(self).consumer_groups@[group_of(*old(self), *identifier)->0]
                    &&& final(self).consumer_groups@ == old(self).consumer_groups@.insert(group_of(*old(self), *identifier)->0, *final(g))
                },
                Err(_) => group_of(*old(self), *identifier) is None && final(self).consumer_groups@ == old(self).consumer_groups@,
            },
    { unimplemented!() }
}

// every group of the topic satisfies P-style invariants (helper shapes for the Topic-level requires)
pub open spec fn topic_groups_wf(t: Topic) -> bool {
    forall|g: u32| t.consumer_groups@.contains_key(g) ==> group_wf(#[trigger] t.consumer_groups@[g]) && members_bound(t.consumer_groups@[g])
}
pub open spec fn topic_groups_inv(t: Topic) -> bool {
    forall|g: u32| t.consumer_groups@.contains_key(g) ==> group_inv(#[trigger] t.consumer_groups@[g]) && members_bound(t.consumer_groups@[g])
}

// ---- System level ([C08.track] for create/delete partitions): opaque stand-ins and assumed callee contracts ------
// None of these callees is extracted; they belong to other subsystems (session/authn C09-C10, catalogue lookup C06,
// partition storage C03/C06, metrics). Their assumed contracts say only what C08 needs: lookups hand out the object
// the identifiers denote and write it back under the same key; adding/deleting partitions does not touch the
// consumer groups; metrics and permission checks have no effect on streams.
#[verifier::external_body]
pub struct Session { _p: () }
#[verifier::external_body]
pub struct Permissioner { _p: () }
#[verifier::external_body]
pub struct Metrics { _p: () }
#[verifier::external_body]
pub struct Stream { _p: () }

impl Session {
    #[verifier::external_body]
    pub fn get_user_id(&self) -> u32 { unimplemented!() }
}
impl Permissioner {
    #[verifier::external_body]
    pub fn create_partitions(&self, user_id: u32, stream_id: u32, topic_id: u32) -> Result<(), IggyError> { unimplemented!() }
    #[verifier::external_body]
    pub fn delete_partitions(&self, user_id: u32, stream_id: u32, topic_id: u32) -> Result<(), IggyError> { unimplemented!() }
}
impl Metrics {
    #[verifier::external_body]
    pub fn increment_partitions(&self, count: u32) { unimplemented!() }
    #[verifier::external_body]
    pub fn increment_segments(&self, count: u32) { unimplemented!() }
    #[verifier::external_body]
    pub fn decrement_partitions(&self, count: u32) { unimplemented!() }
    #[verifier::external_body]
    pub fn decrement_segments(&self, count: u32) { unimplemented!() }
    #[verifier::external_body]
    pub fn decrement_messages(&self, count: u64) { unimplemented!() }
}

// which stream of the system / which topic of a stream an identifier denotes (C06's subject)
pub uninterp spec fn stream_of(s: System, id: Identifier) -> Option<u32>;
pub uninterp spec fn stream_topic(st: Stream, id: Identifier) -> Topic;

impl Stream {
    // LINKED (stream_topic INTERPRETED as the catalogue lookup): units/catalogue_maps/lemmas.rs, harness [C06.link.consumer_group.get_topic_mut] (mirror edits there)
    #[verifier::external_body]
    pub fn get_topic_mut<'a>(&'a mut self, identifier: &Identifier) -> (r: Result<&'a mut Topic, IggyError>)
        ensures
            match r {
                Ok(t) => *t == stream_topic(*old(self), *identifier) && stream_topic(*final(self), *identifier) == *final(t),
                Err(_) => *final(self) == *old(self),
            },
    { unimplemented!() }
}
impl System {
    #[verifier::external_body]
    pub fn ensure_authenticated(&self, session: &Session) -> Result<(), IggyError> { unimplemented!() }
    #[verifier::external_body]
    pub fn find_topic(&self, session: &Session, stream_id: &Identifier, topic_id: &Identifier) -> Result<&Topic, IggyError> { unimplemented!() }
    // LINKED (stream_of INTERPRETED as the catalogue lookup): units/catalogue_maps/lemmas.rs, harness [C06.link.consumer_group.get_stream_mut] (mirror edits there)
    #[verifier::external_body]
    pub fn get_stream_mut<'a>(&'a mut self, identifier: &Identifier) -> (r: Result<&'a mut Stream, IggyError>)
        ensures
            final(self).permissioner == old(self).permissioner && final(self).metrics == old(self).metrics,
            forall|id: Identifier| stream_of(*final(self), id) == stream_of(*old(self), id),
            match r {
                Ok(st) => {
                    &&& stream_of(*old(self), *identifier) is Some
                    &&& old(self).streams@.contains_key(stream_of(*old(self), *identifier)->0)
                    &&& *st == old(self).streams@[stream_of(*old(self), *identifier)->0]
                    &&& final(self).streams@ == old(self).streams@.insert(stream_of(*old(self), *identifier)->0, *final(st))
                },
                Err(_) => final(self).streams@ == old(self).streams@,
            },
    { unimplemented!() }
}
// the partition table of the topic is well-formed in the sense of unit catalogue_more (ids exactly 1..=n <= 100000, each partition filed under
// its own ids; A-size: the topic's segment / message totals fit u32 / u64) — the preconditions under which the real
// add_/delete_persisted_partitions are proved there (`parts_wf`, `sum_segs`, `sum_msgs`); opaque here like the partition cells
// (added by link pass 2; established by Topic::create / load, preserved by the two functions: catalogue_more [C06.partitions.*])
pub uninterp spec fn parts_ok(t: Topic) -> bool;
// ... of the topic the two identifiers denote (nothing is required of any other topic)
pub open spec fn sys_topic_parts_ok(s: System, sid: Identifier, tid: Identifier) -> bool {
    (stream_of(s, sid) is Some && s.streams@.contains_key(stream_of(s, sid)->0)) ==> parts_ok(stream_topic(s.streams@[stream_of(s, sid)->0], tid))
}
impl Topic {
    // topics/partitions.rs (not extracted): creates/deletes partition objects and their files. Assumed for C08: the
    // consumer groups are not touched, and the partition map stays within the u32 id space.
    // LINKED (second clause; parts_ok INTERPRETED): units/catalogue_more/lemmas.rs, harnesses [C08.link.consumer_group.add_persisted_partitions] /
    // [C08.link.consumer_group.delete_persisted_partitions] (mirror edits there). The `requires` were ADDED by the link: the real functions add
    // `partitions.len() as u32 + count` in u32, `unwrap()` the removal of the n highest ids and sum the gauges in u32 / u64 — the stubs had no
    // precondition (100_000 = server MAX_PARTITIONS_COUNT). The first clause is the R12 projection argument (catalogue_more's Topic has no
    // `consumer_groups` field: the real text type-checks without it, and every kept field but `partitions` is framed there): still stated.
    #[verifier::external_body]
    pub fn add_persisted_partitions(&mut self, count: u32) -> (r: Result<Vec<u32>, IggyError>)
        requires parts_ok(*old(self)), count <= 100_000,
        ensures final(self).consumer_groups == old(self).consumer_groups, final(self).partitions@.len() <= u32::MAX,
    { unimplemented!() }
    #[verifier::external_body]
    pub fn delete_persisted_partitions(&mut self, count: u32) -> (r: Result<Option<DeletedPartitions>, IggyError>)
        requires parts_ok(*old(self)),
        ensures final(self).consumer_groups == old(self).consumer_groups, final(self).partitions@.len() <= u32::MAX,
    { unimplemented!() }
}

// [C08.track] every group of the topic counts exactly the topic's partitions and is dealt accordingly
pub open spec fn topic_tracks(t: Topic) -> bool {
    forall|g: u32| t.consumer_groups@.contains_key(g)
        ==> (#[trigger] t.consumer_groups@[g]).partitions_count as int == t.partitions@.len() && group_inv(t.consumer_groups@[g])
}
pub open spec fn sys_topic_tracks(s: System, sid: Identifier, tid: Identifier) -> bool {
    &&& stream_of(s, sid) is Some
    &&& s.streams@.contains_key(stream_of(s, sid)->0)
    &&& topic_tracks(stream_topic(s.streams@[stream_of(s, sid)->0], tid))
}
pub open spec fn sys_groups_wf(s: System) -> bool {
    forall|k: u32, tid: Identifier| s.streams@.contains_key(k) ==> topic_groups_wf(#[trigger] stream_topic(s.streams@[k], tid))
}

// ConsumerGroup::get_members (the real accessor: `self.members.values().collect()`; proved as a getter in unit codec_responses):
// offered on the stand-in so that an edit testing the member list is decided by the clauses (seed C08_4). One entry per member.
impl ConsumerGroup {
    #[verifier::external_body]
    pub fn get_members(&self) -> (r: Vec<&ConsumerGroupMember>)
        ensures r@.len() == self.members@.dom().len(),
    { unimplemented!() }
}
