// ---- unit prelude: consumer_offsets (C07) -------------------------------------------------------
// Stand-in types, assumed contracts of non-extracted callees, and the spec vocabulary of C07.

#[derive(Debug)]
pub enum IggyError {
    InvalidOffset(u64),
    ConsumerOffsetNotFound(u32),
    PartitionNotFound(u32, u32, u32),
    CannotCreateConsumerOffsetsDirectory(String),
    InvalidIdentifier,
    ConsumerGroupIdNotFound(u32, u32),
    ConsumerGroupMemberNotFound(u32, u32, u32),
    Io,
}

// std function vstd has no specification for (no functional content is assumed; used for an error payload)
pub assume_specification<T: Clone> [<T as std::borrow::ToOwned>::to_owned] (s: &T) -> (r: T);

// --- FilePath: stand-in for the `Arc<String>` that holds the path "{dir}/{id}" of one offset file (R4/R10).
// A-io: the string "{dir}/{id}" is identified with the pair (dir, id).
#[verifier::external_body]
pub struct FilePath { s: std::sync::Arc<String> }
impl FilePath {
    pub uninterp spec fn dir(&self) -> Seq<char>;
    pub uninterp spec fn id(&self) -> u32;
    #[verifier::external_body]
    pub fn of(dir: &str, id: u32) -> (r: FilePath)
        ensures r.dir() == dir@, r.id() == id,
    { unimplemented!() }
}
impl Clone for FilePath {
    #[verifier::external_body]
    fn clone(&self) -> (r: Self)
        ensures r == *self,
    { unimplemented!() }
}

// --- the storage layer: ghost directory of offset files, keyed by (directory, consumer id) ---
// Fault scope (DESIGN §6 C06/C07): the persistence calls are assumed to return Ok.
#[verifier::external_body]
pub struct PartitionStorage { x: u8 }
pub struct SystemStorage { pub partition: PartitionStorage }
impl PartitionStorage {
    pub uninterp spec fn files(&self) -> Map<(Seq<char>, u32), u64>;

    // FilePartitionStorage::save_consumer_offset: overwrite(path, offset.to_le_bytes())
    #[verifier::external_body]
    pub fn save_consumer_offset(&mut self, offset: u64, path: &FilePath) -> (r: Result<(), IggyError>)
        ensures r is Ok, final(self).files() == old(self).files().insert((path.dir(), path.id()), offset),
    { unimplemented!() }

    // FilePartitionStorage::delete_consumer_offset: remove_file(path) if it exists
    #[verifier::external_body]
    pub fn delete_consumer_offset(&mut self, path: &FilePath) -> (r: Result<(), IggyError>)
        ensures r is Ok, final(self).files() == old(self).files().remove((path.dir(), path.id())),
    { unimplemented!() }

    // FilePartitionStorage::delete_consumer_offsets: remove_dir_all(path) if it exists
    #[verifier::external_body]
    pub fn delete_consumer_offsets(&mut self, path: &str) -> (r: Result<(), IggyError>)
        ensures r is Ok,
            forall|d: Seq<char>, i: u32| #![trigger final(self).files().contains_key((d, i))]
                final(self).files().contains_key((d, i)) <==> (old(self).files().contains_key((d, i)) && d != path@),
            forall|d: Seq<char>, i: u32| #![trigger final(self).files()[(d, i)]]
                final(self).files().contains_key((d, i)) ==> final(self).files()[(d, i)] == old(self).files()[(d, i)],
    { unimplemented!() }

    // FilePartitionStorage::load_consumer_offsets: one ConsumerOffset per file "<id>" of the directory,
    // offset = the u64 stored in it, path = that file's path (sorted by id — order not relied upon here)
    #[verifier::external_body]
    pub fn load_consumer_offsets(&self, kind: ConsumerKind, path: &str) -> (r: Result<Vec<ConsumerOffset>, IggyError>)
        ensures r is Ok, listing_of(self.files(), kind, path@, r->Ok_0@),
    { unimplemented!() }
}

pub open spec fn listing_of(files: Map<(Seq<char>, u32), u64>, kind: ConsumerKind, dir: Seq<char>, l: Seq<ConsumerOffset>) -> bool {
    &&& forall|i: int, j: int| 0 <= i < j < l.len() ==> l[i].consumer_id != l[j].consumer_id
    &&& forall|i: int| 0 <= i < l.len() ==> {
            &&& files.contains_key((dir, (#[trigger] l[i]).consumer_id))
            &&& l[i].offset == files[(dir, l[i].consumer_id)]
            &&& l[i].kind == kind
            &&& l[i].path.dir() == dir
            &&& l[i].path.id() == l[i].consumer_id
        }
    &&& forall|id: u32| #[trigger] files.contains_key((dir, id)) ==> exists|i: int| 0 <= i < l.len() && l[i].consumer_id == id
}

// --- other subsystems touched by Partition::purge (opaque; nothing of C07 lives in them) ---
#[verifier::external_body]
pub struct RetainedMessage { x: u8 }
#[verifier::external_body]
pub struct SmartCache { x: u8 }
impl SmartCache {
    #[verifier::external_body]
    pub fn purge(&mut self) { unimplemented!() }
}
#[verifier::external_body]
pub struct Segment { x: u8 }
impl Segment {
    #[verifier::external_body]
    pub fn delete(&mut self) -> (r: Result<(), IggyError>)
        ensures r is Ok,
    { unimplemented!() }
}
#[verifier::external_body]
pub struct Counter32 { x: u8 }
impl Counter32 {
    #[verifier::external_body]
    pub fn fetch_sub(&mut self, n: u32) -> u32 { unimplemented!() }
    #[verifier::external_body]
    pub fn load(&self) -> u32 { unimplemented!() }
    #[verifier::external_body]
    pub fn store(&mut self, v: u32) { unimplemented!() }
}
// std::path::Path / tokio::fs::create_dir_all as used by purge (directory re-creation; A-io, Ok assumed)
pub struct Path { pub x: u8 }
impl Path {
    #[verifier::external_body]
    pub fn new(s: &String) -> (r: Path) { unimplemented!() }
    #[verifier::external_body]
    pub fn exists(&self) -> (r: bool) { unimplemented!() }
}
#[verifier::external_body]
pub fn create_dir_all(s: &String) -> (r: Result<(), IggyError>)
    ensures r is Ok,
{ unimplemented!() }

// --- spec vocabulary ------------------------------------------------------------------------------
pub open spec fn pc_kind(c: PollingConsumer) -> ConsumerKind {
    match c {
        PollingConsumer::Consumer(_, _) => ConsumerKind::Consumer,
        PollingConsumer::ConsumerGroup(_, _) => ConsumerKind::ConsumerGroup,
    }
}
pub open spec fn pc_id(c: PollingConsumer) -> u32 {
    match c {
        PollingConsumer::Consumer(id, _) => id,
        PollingConsumer::ConsumerGroup(id, _) => id,
    }
}
pub open spec fn other(k: ConsumerKind) -> ConsumerKind {
    match k { ConsumerKind::Consumer => ConsumerKind::ConsumerGroup, ConsumerKind::ConsumerGroup => ConsumerKind::Consumer }
}
// the two maps of a partition: KIND selects the map
pub open spec fn emap(p: &Partition, k: ConsumerKind) -> Map<u32, ConsumerOffset> {
    match k { ConsumerKind::Consumer => p.consumer_offsets@, ConsumerKind::ConsumerGroup => p.consumer_group_offsets@ }
}
pub open spec fn offs(m: Map<u32, ConsumerOffset>) -> Map<u32, u64> {
    Map::new(m.dom(), |id: u32| m[id].offset)
}
// the abstract view: stored offsets by (kind, id)
pub open spec fn sel(p: &Partition, k: ConsumerKind) -> Map<u32, u64> { offs(emap(p, k)) }
pub open spec fn get_val(p: &Partition, k: ConsumerKind, id: u32) -> Option<u64> {
    if sel(p, k).contains_key(id) { Some(sel(p, k)[id]) } else { None }
}
pub open spec fn dir_of(p: &Partition, k: ConsumerKind) -> Seq<char> {
    match k { ConsumerKind::Consumer => p.consumer_offsets_path@, ConsumerKind::ConsumerGroup => p.consumer_group_offsets_path@ }
}
pub open spec fn files(p: &Partition) -> Map<(Seq<char>, u32), u64> { p.storage.partition.files() }

// everything of a partition that is not an offset map or the offset directory
pub open spec fn rest_same(a: &Partition, b: &Partition) -> bool {
    &&& a.stream_id == b.stream_id && a.topic_id == b.topic_id && a.partition_id == b.partition_id
    &&& a.consumer_offsets_path == b.consumer_offsets_path
    &&& a.consumer_group_offsets_path == b.consumer_group_offsets_path
    &&& a.current_offset == b.current_offset
    &&& a.cache == b.cache
    &&& a.unsaved_messages_count == b.unsaved_messages_count
    &&& a.should_increment_offset == b.should_increment_offset
    &&& a.segments_count_of_parent_stream == b.segments_count_of_parent_stream
    &&& a.segments == b.segments
}
// nothing observable changed at all (maps compared entry-wise, not only by offset)
pub open spec fn unchanged(a: &Partition, b: &Partition) -> bool {
    &&& rest_same(a, b)
    &&& a.consumer_offsets@ =~= b.consumer_offsets@
    &&& a.consumer_group_offsets@ =~= b.consumer_group_offsets@
    &&& files(a) =~= files(b)
}

// helper invariants (derived from the code): each entry records the file it is persisted in / stays within the log
pub open spec fn paths_ok(p: &Partition) -> bool {
    &&& forall|id: u32| #[trigger] p.consumer_offsets@.contains_key(id) ==>
            p.consumer_offsets@[id].path.dir() == p.consumer_offsets_path@ && p.consumer_offsets@[id].path.id() == id
    &&& forall|id: u32| #[trigger] p.consumer_group_offsets@.contains_key(id) ==>
            p.consumer_group_offsets@[id].path.dir() == p.consumer_group_offsets_path@ && p.consumer_group_offsets@[id].path.id() == id
}
pub open spec fn bounded(p: &Partition) -> bool {
    &&& forall|id: u32| #[trigger] p.consumer_offsets@.contains_key(id) ==> p.consumer_offsets@[id].offset <= p.current_offset
    &&& forall|id: u32| #[trigger] p.consumer_group_offsets@.contains_key(id) ==> p.consumer_group_offsets@[id].offset <= p.current_offset
}
// the in-memory maps and the offset directories agree (what makes offsets durable)
pub open spec fn mirrored_kind(p: &Partition, k: ConsumerKind) -> bool {
    &&& forall|id: u32| #![trigger emap(p, k).contains_key(id)] #![trigger files(p).contains_key((dir_of(p, k), id))]
            emap(p, k).contains_key(id) <==> files(p).contains_key((dir_of(p, k), id))
    &&& forall|id: u32| #[trigger] emap(p, k).contains_key(id) ==> emap(p, k)[id].offset == files(p)[(dir_of(p, k), id)]
}
pub open spec fn mirrored(p: &Partition) -> bool {
    mirrored_kind(p, ConsumerKind::Consumer) && mirrored_kind(p, ConsumerKind::ConsumerGroup)
}
pub open spec fn dirs_distinct(p: &Partition) -> bool { p.consumer_offsets_path@ != p.consumer_group_offsets_path@ }

// entry-level frames (helper): the entries with ids outside `s` are the same in ma and mb
pub open spec fn same_entries_except(ma: Map<u32, ConsumerOffset>, mb: Map<u32, ConsumerOffset>, s: spec_fn(u32) -> bool) -> bool {
    &&& forall|id: u32| #![trigger ma.contains_key(id)] #![trigger mb.contains_key(id)] !s(id) ==> ma.contains_key(id) == mb.contains_key(id)
    &&& forall|id: u32| #![trigger ma[id]] #![trigger mb[id]] !s(id) && ma.contains_key(id) ==> ma[id] == mb[id]
}
pub open spec fn store_entries(a: &Partition, b: &Partition, k: ConsumerKind, id: u32, o: u64) -> bool {
    &&& emap(b, k).contains_key(id) && emap(b, k)[id].offset == o
    &&& same_entries_except(emap(a, k), emap(b, k), |j: u32| j == id)
    &&& emap(b, other(k)) =~= emap(a, other(k))
}

// --- what the operations do to the view (used by the contracts AND by the isolation lemmas) ---
pub open spec fn store_post(a: &Partition, b: &Partition, k: ConsumerKind, id: u32, o: u64) -> bool {
    &&& sel(b, k) =~= sel(a, k).insert(id, o)
    &&& sel(b, other(k)) =~= sel(a, other(k))
}
pub open spec fn delete_post(a: &Partition, b: &Partition, k: ConsumerKind, id: u32) -> bool {
    &&& sel(b, k) =~= sel(a, k).remove(id)
    &&& sel(b, other(k)) =~= sel(a, other(k))
}
pub open spec fn purge_post(b: &Partition) -> bool {
    &&& sel(b, ConsumerKind::Consumer) =~= Map::<u32, u64>::empty()
    &&& sel(b, ConsumerKind::ConsumerGroup) =~= Map::<u32, u64>::empty()
}

// --- reads of the log (C02's subject): Partition::get_messages_by_offset is not extracted here ---
pub uninterp spec fn by_offset(p: &Partition, start: u64, count: u32) -> Result<Seq<RetainedMessage>, IggyError>;
pub open spec fn res_view(r: Result<Vec<RetainedMessage>, IggyError>) -> Result<Seq<RetainedMessage>, IggyError> {
    match r { Ok(v) => Ok(v@), Err(e) => Err(e) }
}
impl Partition {
    // assumed: a function of (partition state, start, count); a start beyond current_offset yields Ok(empty)
    // (first guard of the real function: `if self.segments.is_empty() || start_offset > self.current_offset`)
    #[verifier::external_body]
    pub fn get_messages_by_offset(&self, start_offset: u64, count: u32) -> (r: Result<Vec<RetainedMessage>, IggyError>)
        ensures res_view(r) == by_offset(self, start_offset, count),
            start_offset > self.current_offset ==> r is Ok && r->Ok_0@.len() == 0,
    { unimplemented!() }

    // partitions/segments.rs (other subsystem): creates and registers a segment; assumed not to touch offsets
    // LINKED (every clause but the fault-scope `r is Ok`): units/wiring/lemmas.rs, harness [C16.link.consumer_offsets.add_persisted_segment] (mirror edits there)
    #[verifier::external_body]
    pub fn add_persisted_segment(&mut self, start_offset: u64) -> (r: Result<(), IggyError>)
        ensures r is Ok,
            final(self).consumer_offsets == old(self).consumer_offsets,
            final(self).consumer_group_offsets == old(self).consumer_group_offsets,
            final(self).storage == old(self).storage,
            final(self).consumer_offsets_path == old(self).consumer_offsets_path,
            final(self).consumer_group_offsets_path == old(self).consumer_group_offsets_path,
            final(self).current_offset == old(self).current_offset,
            final(self).should_increment_offset == old(self).should_increment_offset,
            final(self).unsaved_messages_count == old(self).unsaved_messages_count,
    { unimplemented!() }
}

// --- identity of a consumer: numeric id, or the 32-bit hash of its name ---
pub uninterp spec fn le_u32(v: Seq<u8>) -> u32;          // u32::from_le_bytes
pub mod hash {
    use super::*;
    pub uninterp spec fn hash32(data: Seq<u8>) -> u32;   // XxHash32::oneshot(0, data)
    // LINKED: units/partitioning/lemmas.rs, harness [C17.link.consumer_offsets.calculate_32] (the real streaming::utils::hash::calculate_32; mirror edits there)
    #[verifier::external_body]
    pub fn calculate_32(data: &[u8]) -> (r: u32)
        ensures r == hash32(data@),
    { unimplemented!() }
}
// validity of an Identifier as established by its constructors (numeric ids are 4 bytes)
pub open spec fn ident_wf(i: &Identifier) -> bool {
    match i.kind { IdKind::Numeric => i.length == 4 && i.value@.len() == 4, IdKind::String => true }
}
pub open spec fn ident_id(i: Identifier) -> u32 {
    match i.kind { IdKind::Numeric => le_u32(i.value@), IdKind::String => hash::hash32(i.value@) }
}
impl Identifier {
    // sdk: Err unless kind == Numeric && length == 4, else u32::from_le_bytes(value)
    #[verifier::external_body]
    pub fn get_u32_value(&self) -> (r: Result<u32, IggyError>)
        ensures match self.kind {
            IdKind::Numeric => if self.length == 4 { r == Ok::<u32, IggyError>(le_u32(self.value@)) } else { r is Err },
            IdKind::String => r is Err,
        },
    { unimplemented!() }
}

// --- topic level: partitions are reached through `Topic::get_partition` ------------------------------
// `IggySharedMut<Partition>` (Arc<RwLock<Partition>>) is mapped to `Partition` (R4), `.read()`/`.write()` are
// dropped (R5) and the shared handle that `get_partition` clones out of the table becomes an exclusive
// borrow of the table entry (R6). `get_partition` itself (catalogue, C06) is not extracted; assumed: it
// returns the partition registered under `partition_id`, Err(PartitionNotFound) if there is none.
#[verifier::external_body]
pub struct GroupMembers { x: u8 }
pub uninterp spec fn topic_group(t: &Topic, id: Identifier) -> Option<ConsumerGroup>;
pub uninterp spec fn cg_current(g: &ConsumerGroup, member_id: u32) -> Result<Option<u32>, IggyError>;
impl Topic {
    // LINKED (first and last clause; the Err arm was `final(self).partitions == old(self).partitions`, weakened to the views: what the real function over the
    // lock-map stand-in proves): units/topic_limit/lemmas.rs, harness [C15.link.consumer_offsets.get_partition] (mirror edits there)
    #[verifier::external_body]
    pub fn get_partition(&mut self, partition_id: u32) -> (r: Result<&mut Partition, IggyError>)
        ensures
            final(self).stream_id == old(self).stream_id && final(self).topic_id == old(self).topic_id,
            final(self).consumer_groups == old(self).consumer_groups && final(self).consumer_groups_ids == old(self).consumer_groups_ids,
            final(self).storage == old(self).storage && final(self).current_consumer_group_id == old(self).current_consumer_group_id,
            match r {
                Ok(p) => old(self).partitions@.contains_key(partition_id) && *p == old(self).partitions@[partition_id]
                    && final(self).partitions@ == old(self).partitions@.insert(partition_id, *final(p)),
                Err(_) => !old(self).partitions@.contains_key(partition_id) && final(self).partitions@ == old(self).partitions@,
            },
    { unimplemented!() }

    // topics/consumer_groups.rs (C06/C08): lookup of a group by numeric id or by name — a function of the topic
    // LINKED (topic_group INTERPRETED as the catalogue lookup): units/catalogue_maps/lemmas.rs, harness [C06.link.consumer_offsets.get_consumer_group]
    // (mirror edits there). The `requires` was ADDED by the link: the real function `unwrap()`s `identifier.get_u32_value()`
    // (topics/consumer_groups.rs:38) and panics on a numeric identifier that is not 4 bytes long (catalogue_maps' `ident_valid`; implied by ident_wf).
    #[verifier::external_body]
    pub fn get_consumer_group(&self, identifier: &Identifier) -> (r: Result<&ConsumerGroup, IggyError>)
        requires identifier.kind == IdKind::Numeric ==> identifier.length == 4,
        ensures match r { Ok(g) => topic_group(self, *identifier) == Some(*g), Err(_) => topic_group(self, *identifier) is None },
    { unimplemented!() }
}
impl ConsumerGroup {
    // advances the member's round-robin position (interior mutability): nothing assumed about the result
    // (link pass 2: no contract, nothing to link. The real function — unit consumer_group, [C08.poll.total] — is proved panic-free under
    //  group_wf, the invariant of every group history: `partition_index + 1` of the member's cursor must not overflow.)
    #[verifier::external_body]
    pub fn calculate_partition_id(&self, member_id: u32) -> (r: Result<Option<u32>, IggyError>)
    { unimplemented!() }
    // reads the member's current partition: a function of the group state
    // LINKED: units/consumer_group/lemmas.rs, harness [C08.link.consumer_offsets.get_current_partition_id] (mirror edits there); the link
    // INTERPRETS cg_current over the real member table: Ok(member.current_partition_id), Err(ConsumerGroupMemberNotFound(..)) for a non-member
    #[verifier::external_body]
    pub fn get_current_partition_id(&self, member_id: u32) -> (r: Result<Option<u32>, IggyError>)
        ensures r == cg_current(self, member_id),
    { unimplemented!() }
}

pub open spec fn pid_or_default(partition_id: Option<u32>) -> u32 { match partition_id { Some(p) => p, None => 1 } }
// identity resolution without advancing the group (calculate_partition_id == false), as a function:
// None = Err, Some(None) = "no partition assigned", Some(Some((identity, partition)))
pub open spec fn resolve_fn(t: &Topic, c: &Consumer, client_id: u32, partition_id: Option<u32>) -> Option<Option<(PollingConsumer, u32)>> {
    match c.kind {
        ConsumerKind::Consumer => Some(Some((PollingConsumer::Consumer(ident_id(c.id), pid_or_default(partition_id)), pid_or_default(partition_id)))),
        ConsumerKind::ConsumerGroup => match topic_group(t, c.id) {
            None => None,
            Some(g) => match partition_id {
                Some(p) => Some(Some((PollingConsumer::ConsumerGroup(g.group_id, client_id), p))),
                None => match cg_current(&g, client_id) {
                    Err(_) => None,
                    Ok(None) => Some(None),
                    Ok(Some(p)) => Some(Some((PollingConsumer::ConsumerGroup(g.group_id, client_id), p))),
                },
            },
        },
    }
}
pub open spec fn res_opt<T>(r: Result<T, IggyError>) -> Option<T> { match r { Ok(v) => Some(v), Err(_) => None } }

pub open spec fn topic_paths_ok(t: &Topic) -> bool {
    forall|pid: u32| #[trigger] t.partitions@.contains_key(pid) ==> paths_ok(&t.partitions@[pid])
}
// every partition except `pid` is literally the same object, nothing else of the topic changed
pub open spec fn topic_frame(a: &Topic, b: &Topic, pid: u32) -> bool {
    &&& a.stream_id == b.stream_id && a.topic_id == b.topic_id
    &&& a.consumer_groups == b.consumer_groups && a.consumer_groups_ids == b.consumer_groups_ids
    &&& a.storage == b.storage && a.current_consumer_group_id == b.current_consumer_group_id
    &&& forall|q: u32| #![trigger a.partitions@.contains_key(q)] #![trigger b.partitions@.contains_key(q)] a.partitions@.contains_key(q) == b.partitions@.contains_key(q)
    &&& forall|q: u32| #![trigger b.partitions@[q]] q != pid && a.partitions@.contains_key(q) ==> b.partitions@[q] == a.partitions@[q]
}
pub open spec fn topic_unchanged(a: &Topic, b: &Topic) -> bool {
    &&& a.stream_id == b.stream_id && a.topic_id == b.topic_id
    &&& a.consumer_groups == b.consumer_groups && a.consumer_groups_ids == b.consumer_groups_ids
    &&& a.storage == b.storage && a.current_consumer_group_id == b.current_consumer_group_id
    &&& forall|q: u32| #![trigger a.partitions@.contains_key(q)] #![trigger b.partitions@.contains_key(q)] a.partitions@.contains_key(q) == b.partitions@.contains_key(q)
    &&& forall|q: u32| #![trigger b.partitions@[q]] a.partitions@.contains_key(q) ==> unchanged(&a.partitions@[q], &b.partitions@[q])
}
// the partition-level store/delete applied to partition `pid` of the topic, everything else framed
pub open spec fn topic_store_post(a: &Topic, b: &Topic, pid: u32, pc: PollingConsumer, offset: u64, ok: bool) -> bool {
    &&& topic_frame(a, b, pid)
    &&& ok == (offset <= a.partitions@[pid].current_offset)
    &&& ok ==> store_post(&a.partitions@[pid], &b.partitions@[pid], pc_kind(pc), pc_id(pc), offset)
    &&& ok ==> files(&b.partitions@[pid]) =~= files(&a.partitions@[pid]).insert((dir_of(&a.partitions@[pid], pc_kind(pc)), pc_id(pc)), offset)
    &&& !ok ==> unchanged(&a.partitions@[pid], &b.partitions@[pid])
    &&& rest_same(&a.partitions@[pid], &b.partitions@[pid])
}
pub open spec fn topic_delete_post(a: &Topic, b: &Topic, pid: u32, pc: PollingConsumer, ok: bool) -> bool {
    &&& topic_frame(a, b, pid)
    &&& ok == sel(&a.partitions@[pid], pc_kind(pc)).contains_key(pc_id(pc))
    &&& ok ==> delete_post(&a.partitions@[pid], &b.partitions@[pid], pc_kind(pc), pc_id(pc))
    &&& ok ==> files(&b.partitions@[pid]) =~= files(&a.partitions@[pid]).remove((dir_of(&a.partitions@[pid], pc_kind(pc)), pc_id(pc)))
    &&& !ok ==> unchanged(&a.partitions@[pid], &b.partitions@[pid])
    &&& rest_same(&a.partitions@[pid], &b.partitions@[pid])
}

// --- Topic::delete_consumer_group: iteration over the partition table (R8 map-iteration schema, as in unit
// consumer_group): (key, exclusive value reference) pairs in the map's (unspecified) iteration order; what is
// written through the i-th reference is what the map holds under the i-th key once the borrow ends.
pub open spec fn order_of<K, V>(m: Map<K, V>, ks: Seq<K>) -> bool {
    &&& ks.no_duplicates()
    &&& ks.len() == m.len()
    &&& forall|k: K| m.contains_key(k) <==> ks.contains(k)
    &&& forall|i: int| 0 <= i < ks.len() ==> m.contains_key(#[trigger] ks[i])
}
impl<K, V> HashMap<K, V> {
    pub uninterp spec fn iter_order(&self) -> Seq<K>;
    #[verifier::external_body]
    pub fn iter_mut_collect<'a>(&'a mut self) -> (r: Vec<(&'a K, &'a mut V)>)
        ensures
            order_of(old(self)@, old(self).iter_order()),
            r@.len() == old(self).iter_order().len(),
            forall|k: K| final(self)@.contains_key(k) <==> old(self)@.contains_key(k),
            forall|i: int| 0 <= i < r@.len() ==> *(#[trigger] r@[i]).0 == old(self).iter_order()[i]
                && *r@[i].1 == old(self)@[old(self).iter_order()[i]],
            forall|i: int| 0 <= i < r@.len() ==> *final((#[trigger] r@[i]).1) == final(self)@[old(self).iter_order()[i]],
    { unimplemented!() }
}
// the group's entry (and nothing else) leaves partition a, giving b — entry level (helper of the loop)
pub open spec fn group_entry_removed(a: &Partition, b: &Partition, g: u32) -> bool {
    &&& b.consumer_group_offsets@ =~= a.consumer_group_offsets@.remove(g)
    &&& b.consumer_offsets == a.consumer_offsets
    &&& b.storage == a.storage
    &&& rest_same(a, b)
}
// the topic-level offset directory (the storage handle the topic deletes through)
pub open spec fn tfiles(t: &Topic) -> Map<(Seq<char>, u32), u64> { t.storage.partition.files() }
// the group-offset file of partition p for group g
pub open spec fn gfile(p: &Partition, g: u32) -> (Seq<char>, u32) { (p.consumer_group_offsets_path@, g) }
// catalogue invariant used to name the deleted group (C06's subject; assumed here): entries are keyed by their id
pub open spec fn groups_keyed(t: &Topic) -> bool {
    forall|k: u32| #[trigger] t.consumer_groups@.contains_key(k) ==> t.consumer_groups@[k].group_id == k
}

// --- System::poll_messages (auto-commit block): the read itself is C02's subject ---
impl Topic {
    // topics/messages.rs: reads messages of one partition for a consumer; `&self` and no write to offsets
    #[verifier::external_body]
    pub fn get_messages(&self, consumer: PollingConsumer, partition_id: u32, strategy: PollingStrategy, count: u32) -> (r: Result<PolledMessages, IggyError>)
    { unimplemented!() }
}
