// ---- lemmas: consumer_offsets (C07) — proved on every run, spec level only ----
// They speak about the predicates store_post / delete_post / purge_post / mirrored that the contracts of the
// real functions establish ([C07.store.view], [C07.delete.view], [C07.purge.maps], [C07.durable.*]) and about
// get_val, which [C07.get] ties to the real `Partition::get_consumer_offset`.

// Exactness: what was stored is what the next get returns.
// label: C07.exact.store
pub proof fn c07_exact_store(a: &Partition, b: &Partition, k: ConsumerKind, id: u32, o: u64)
    requires store_post(a, b, k, id, o),
    ensures get_val(b, k, id) == Some(o),
{
    assert(sel(a, k).insert(id, o).contains_key(id));
}

// label: C07.exact.delete
pub proof fn c07_exact_delete(a: &Partition, b: &Partition, k: ConsumerKind, id: u32)
    requires delete_post(a, b, k, id),
    ensures get_val(b, k, id) is None,
{
    assert(!sel(a, k).remove(id).contains_key(id));
}

// label: C07.exact.purge
pub proof fn c07_exact_purge(b: &Partition, k: ConsumerKind, id: u32)
    requires purge_post(b),
    ensures get_val(b, k, id) is None,
{
    assert(!Map::<u32, u64>::empty().contains_key(id));
}

// Isolation: an operation on identity (k1, id1) does not change what get returns for any other identity
// (k2, id2) of the same partition.
// label: C07.isolation.store
pub proof fn c07_isolation_store(a: &Partition, b: &Partition, k1: ConsumerKind, id1: u32, o: u64, k2: ConsumerKind, id2: u32)
    requires store_post(a, b, k1, id1, o), k1 != k2 || id1 != id2,
    ensures get_val(b, k2, id2) == get_val(a, k2, id2),
{
    if k1 == k2 {
        assert(sel(a, k1).insert(id1, o).contains_key(id2) == sel(a, k1).contains_key(id2));
    } else {
        assert(k2 == other(k1));
    }
}

// label: C07.isolation.delete
pub proof fn c07_isolation_delete(a: &Partition, b: &Partition, k1: ConsumerKind, id1: u32, k2: ConsumerKind, id2: u32)
    requires delete_post(a, b, k1, id1), k1 != k2 || id1 != id2,
    ensures get_val(b, k2, id2) == get_val(a, k2, id2),
{
    if k1 == k2 {
        assert(sel(a, k1).remove(id1).contains_key(id2) == sel(a, k1).contains_key(id2));
    } else {
        assert(k2 == other(k1));
    }
}

// the instance the statement singles out: a consumer and a group that share a numeric id
// label: C07.isolation.shared_numeric_id
pub proof fn c07_isolation_shared_numeric_id(a: &Partition, b: &Partition, id: u32, o: u64)
    requires store_post(a, b, ConsumerKind::Consumer, id, o),
    ensures get_val(b, ConsumerKind::ConsumerGroup, id) == get_val(a, ConsumerKind::ConsumerGroup, id),
{
    c07_isolation_store(a, b, ConsumerKind::Consumer, id, o, ConsumerKind::ConsumerGroup, id);
}

// Histories: a sequence of partition states linked by operations. A value stays what it is for as long as
// no operation of the history addresses its identity (store/delete of that identity, or a purge).
pub enum OffsetOp {
    Store(ConsumerKind, u32, u64),   // accepted store
    Delete(ConsumerKind, u32),       // accepted delete
    Purge,
    Other,                           // get, poll next, refused store/delete: the view is unchanged
}
pub open spec fn addresses(op: OffsetOp, k: ConsumerKind, id: u32) -> bool {
    match op {
        OffsetOp::Store(k1, id1, _) => k1 == k && id1 == id,
        OffsetOp::Delete(k1, id1) => k1 == k && id1 == id,
        OffsetOp::Purge => true,
        OffsetOp::Other => false,
    }
}
pub open spec fn step(a: &Partition, b: &Partition, op: OffsetOp) -> bool {
    match op {
        OffsetOp::Store(k, id, o) => store_post(a, b, k, id, o),
        OffsetOp::Delete(k, id) => delete_post(a, b, k, id),
        OffsetOp::Purge => purge_post(b),
        OffsetOp::Other => sel(b, ConsumerKind::Consumer) =~= sel(a, ConsumerKind::Consumer)
            && sel(b, ConsumerKind::ConsumerGroup) =~= sel(a, ConsumerKind::ConsumerGroup),
    }
}
pub open spec fn history(ps: Seq<Partition>, ops: Seq<OffsetOp>) -> bool {
    &&& ps.len() == ops.len() + 1
    &&& forall|i: int| 0 <= i < ops.len() ==> step(&ps[i], &ps[i + 1], #[trigger] ops[i])
}

// label: C07.isolation.history
pub proof fn c07_isolation(ps: Seq<Partition>, ops: Seq<OffsetOp>, k: ConsumerKind, id: u32)
    requires
        history(ps, ops),
        forall|i: int| 0 <= i < ops.len() ==> !addresses(#[trigger] ops[i], k, id),
    ensures
        get_val(&ps[ps.len() - 1], k, id) == get_val(&ps[0], k, id),
    decreases ops.len(),
{
    if ops.len() > 0 {
        let n = ops.len() - 1;
        let ps0 = ps.subrange(0, n + 1);
        let ops0 = ops.subrange(0, n);
        assert forall|i: int| 0 <= i < ops0.len() implies step(&ps0[i], &ps0[i + 1], #[trigger] ops0[i]) by {
            assert(ops0[i] == ops[i]);
            assert(ps0[i] == ps[i] && ps0[i + 1] == ps[i + 1]);
        }
        assert forall|i: int| 0 <= i < ops0.len() implies !addresses(#[trigger] ops0[i], k, id) by {
            assert(ops0[i] == ops[i]);
        }
        c07_isolation(ps0, ops0, k, id);
        assert(ps0[ps0.len() - 1] == ps[n]);
        assert(ps0[0] == ps[0]);
        let a = &ps[n];
        let b = &ps[n + 1];
        let op = ops[n];
        assert(step(a, b, op));
        assert(!addresses(op, k, id));
        match op {
            OffsetOp::Store(k1, id1, o) => { c07_isolation_store(a, b, k1, id1, o, k, id); },
            OffsetOp::Delete(k1, id1) => { c07_isolation_delete(a, b, k1, id1, k, id); },
            OffsetOp::Purge => {},
            OffsetOp::Other => {
                match k { ConsumerKind::Consumer => {}, ConsumerKind::ConsumerGroup => {} }
            },
        }
    }
}

// "returned unchanged by the next get ... until it is overwritten or deleted": store, then any history that
// does not address the identity, then get.
// label: C07.exact.history
pub proof fn c07_store_then_history(p0: &Partition, ps: Seq<Partition>, ops: Seq<OffsetOp>, k: ConsumerKind, id: u32, o: u64)
    requires
        ps.len() > 0,
        store_post(p0, &ps[0], k, id, o),
        history(ps, ops),
        forall|i: int| 0 <= i < ops.len() ==> !addresses(#[trigger] ops[i], k, id),
    ensures
        get_val(&ps[ps.len() - 1], k, id) == Some(o),
{
    c07_exact_store(p0, &ps[0], k, id, o);
    c07_isolation(ps, ops, k, id);
}

// Durability: if maps and offset files agree before a restart (every operation keeps them in step:
// [C07.durable.store], [C07.durable.delete], [C07.shape.purge.inv]) and the restarted partition has loaded
// the same files from the same directories ([C07.durable.load] gives `mirrored` again), then every get
// returns after the restart what it returned before.
// label: C07.durable.restart
pub proof fn c07_restart(a: &Partition, b: &Partition, k: ConsumerKind, id: u32)
    requires
        mirrored(a), mirrored(b),
        files(a) == files(b),
        dir_of(a, k) == dir_of(b, k),
    ensures
        get_val(b, k, id) == get_val(a, k, id),
{
    assert(mirrored_kind(a, k) && mirrored_kind(b, k)) by {
        match k { ConsumerKind::Consumer => {}, ConsumerKind::ConsumerGroup => {} }
    }
    assert(emap(a, k).contains_key(id) == files(a).contains_key((dir_of(a, k), id)));
    assert(emap(b, k).contains_key(id) == files(b).contains_key((dir_of(b, k), id)));
}

// Topic level: a store routed to partition `pid` leaves what get returns on any other partition untouched.
// label: C07.isolation.partition
pub proof fn c07_isolation_partition(a: &Topic, b: &Topic, pid: u32, pc: PollingConsumer, o: u64, ok: bool, q: u32, k: ConsumerKind, id: u32)
    requires
        topic_store_post(a, b, pid, pc, o, ok) || topic_delete_post(a, b, pid, pc, ok),
        q != pid, a.partitions@.contains_key(q),
    ensures
        b.partitions@.contains_key(q),
        get_val(&b.partitions@[q], k, id) == get_val(&a.partitions@[q], k, id),
{
}
