// ---- labelled lemmas of codec_requests2: properties of the wire-format SPECIFICATION (no executable code is mentioned) --------
// Together with [C13.req.<Cmd>.enc] (encoder == enc) and [C13.req.<Cmd>] (decoder inverts enc) they give agreement: the encodings
// are injective on valid requests, so no two different valid requests share a frame; the sentinel conversions are inverse to each
// other on every representable value.

// label: C13.code.CompressionAlgorithm.inj
pub proof fn c13_code_compression_injective()
    ensures forall|a: CompressionAlgorithm, b: CompressionAlgorithm| compression_code(a) == compression_code(b) ==> a == b,
{}
// label: C13.code.UserStatus.inj
pub proof fn c13_code_userstatus_injective()
    ensures forall|a: UserStatus, b: UserStatus| status_code(a) == status_code(b) ==> a == b,
{ lemma_status_code_injective(); }

// label: C13.conv.IggyExpiry.rt
pub proof fn c13_conv_expiry_roundtrip(e: IggyExpiry, w: u64)
    ensures
        expiry_valid(e) ==> expiry_of_wire(expiry_wire(e)) == e,
        expiry_valid(expiry_of_wire(w)) && expiry_wire(expiry_of_wire(w)) == w,
{
    if expiry_valid(e) { lemma_expiry_roundtrip(e); }
    lemma_dur_roundtrip(dur_from_micros(w));
}
// label: C13.conv.MaxTopicSize.rt
pub proof fn c13_conv_size_roundtrip(s: MaxTopicSize, w: u64)
    ensures
        size_valid(s) ==> size_of_wire(size_wire(s)) == s,
        size_valid(size_of_wire(w)) && size_wire(size_of_wire(w)) == w,
{}

// label: C13.inj.ids
pub proof fn c13_inj_ids(a: Identifier, b: Identifier, c: Identifier, t: Seq<u8>, a2: Identifier, b2: Identifier, c2: Identifier, t2: Seq<u8>)
    requires id_valid(a), id_valid(b), id_valid(c), id_valid(a2), id_valid(b2), id_valid(c2),
    ensures
        enc_ids1(a, t) == enc_ids1(a2, t2) ==> id_eq(a, a2) && t == t2,
        enc_ids2(a, b, t) == enc_ids2(a2, b2, t2) ==> id_eq(a, a2) && id_eq(b, b2) && t == t2,
        enc_ids3(a, b, c, t) == enc_ids3(a2, b2, c2, t2) ==> id_eq(a, a2) && id_eq(b, b2) && id_eq(c, c2) && t == t2,
{
    if enc_ids1(a, t) == enc_ids1(a2, t2) { lemma_ids1_prefix_free(a, t, a2, t2); }
    if enc_ids2(a, b, t) == enc_ids2(a2, b2, t2) { lemma_ids2_prefix_free(a, b, t, a2, b2, t2); }
    if enc_ids3(a, b, c, t) == enc_ids3(a2, b2, c2, t2) { lemma_ids3_prefix_free(a, b, c, t, a2, b2, c2, t2); }
}
// label: C13.inj.CreateTopic
pub proof fn c13_inj_create_topic(a: CreateTopic, b: CreateTopic)
    requires create_topic_valid(a), create_topic_valid(b), enc_create_topic(a) == enc_create_topic(b),
    ensures create_topic_eq(a, b),
{ lemma_create_topic_injective(a, b); }
// label: C13.inj.UpdateTopic
pub proof fn c13_inj_update_topic(a: UpdateTopic, b: UpdateTopic)
    requires update_topic_valid(a), update_topic_valid(b), enc_update_topic(a) == enc_update_topic(b),
    ensures update_topic_eq(a, b),
{ lemma_update_topic_injective(a, b); }
// label: C13.inj.UpdateStream
pub proof fn c13_inj_update_stream(a: UpdateStream, b: UpdateStream)
    requires update_stream_valid(a), update_stream_valid(b), enc_update_stream(a) == enc_update_stream(b),
    ensures update_stream_eq(a, b),
{ lemma_update_stream_injective(a, b); }
// label: C13.inj.DeleteConsumerOffset
pub proof fn c13_inj_dco(a: DeleteConsumerOffset, b: DeleteConsumerOffset)
    requires dco_valid(a), dco_valid(b), enc_dco(a) == enc_dco(b),
    ensures dco_eq(a, b),
{ lemma_dco_injective(a, b); }
// label: C13.inj.ChangePassword
pub proof fn c13_inj_change_password(a: ChangePassword, b: ChangePassword)
    requires change_password_valid(a), change_password_valid(b), enc_change_password(a) == enc_change_password(b),
    ensures change_password_eq(a, b),
{ lemma_change_password_injective(a, b); }
// label: C13.inj.UpdateUser
pub proof fn c13_inj_update_user(a: UpdateUser, b: UpdateUser)
    requires update_user_valid(a), update_user_valid(b), enc_update_user(a) == enc_update_user(b),
    ensures update_user_eq(a, b),
{ lemma_update_user_injective(a, b); }
// label: C13.inj.LoginUser
pub proof fn c13_inj_login_user(a: LoginUser, b: LoginUser)
    requires login_user_valid(a), login_user_valid(b), enc_login_user(a) == enc_login_user(b),
    ensures login_user_eq(a, b),
{ lemma_login_user_injective(a, b); }
// label: C13.inj.CreatePersonalAccessToken
pub proof fn c13_inj_create_pat(a: CreatePersonalAccessToken, b: CreatePersonalAccessToken)
    requires create_pat_valid(a), create_pat_valid(b), enc_create_pat(a) == enc_create_pat(b),
    ensures create_pat_eq(a, b),
{ lemma_create_pat_injective(a, b); }
// label: C13.inj.Permissions
// the frame determines the permission set, whatever entry orders the two sides used
pub proof fn c13_inj_permissions(p: Permissions, q: Permissions, bytes: Seq<u8>)
    requires enc_permissions_rel(p, bytes), enc_permissions_rel(q, bytes),
    ensures perm_eq(p, q),
{
    let (os1, ot1) = choose|os: Seq<u32>, ot: Map<u32, Seq<u32>>| orders_ok(perm_view(p), os, ot) && bytes == enc_permv(perm_view(p), os, ot);
    let (os0, ot0) = choose|os: Seq<u32>, ot: Map<u32, Seq<u32>>| orders_ok(perm_view(q), os, ot) && bytes == enc_permv(perm_view(q), os, ot);
    lemma_permv_injective(perm_view(p), os1, ot1, perm_view(q), os0, ot0);
}
// label: C13.inj.UpdatePermissions
pub proof fn c13_inj_update_permissions(a: Identifier, pb: Option<Seq<u8>>, a2: Identifier, pb2: Option<Seq<u8>>)
    requires
        id_valid(a), id_valid(a2), pb matches Some(b) ==> b.len() <= u32::MAX, pb2 matches Some(b) ==> b.len() <= u32::MAX,
        enc_up_frame(a, pb) == enc_up_frame(a2, pb2),
    ensures id_eq(a, a2), pb == pb2,
{ lemma_up_frame_injective(a, pb, a2, pb2); }
// label: C13.inj.CreateUser
pub proof fn c13_inj_create_user(u: Seq<u8>, pw: Seq<u8>, st: UserStatus, pb: Option<Seq<u8>>, u2: Seq<u8>, pw2: Seq<u8>, st2: UserStatus, pb2: Option<Seq<u8>>)
    requires
        u.len() <= 255, pw.len() <= 255, u2.len() <= 255, pw2.len() <= 255,
        pb matches Some(b) ==> b.len() <= u32::MAX, pb2 matches Some(b) ==> b.len() <= u32::MAX,
        enc_cu_frame(u, pw, st, pb) == enc_cu_frame(u2, pw2, st2, pb2),
    ensures u == u2, pw == pw2, st == st2, pb == pb2,
{ lemma_cu_frame_injective(u, pw, st, pb, u2, pw2, st2, pb2); }
// label: C13.inj.FlushUnsavedBuffer
pub proof fn c13_inj_flush(a: FlushUnsavedBuffer, b: FlushUnsavedBuffer)
    requires flush_valid(a), flush_valid(b), enc_flush(a) == enc_flush(b),
    ensures flush_eq(a, b),
{ lemma_flush_injective(a, b); }
// label: C13.inj.Message
// a buffer starts with at most one message frame (whatever follows): the fields and the rest are determined
pub proof fn c13_inj_message(id: u128, hb: Seq<u8>, length: u32, payload: Seq<u8>, rest: Seq<u8>, id2: u128, hb2: Seq<u8>, length2: u32, payload2: Seq<u8>, rest_2: Seq<u8>)
    requires
        hb.len() <= u32::MAX, hb2.len() <= u32::MAX, length == payload.len(), length2 == payload2.len(),
        enc_msg(id, hb, length, payload) + rest == enc_msg(id2, hb2, length2, payload2) + rest_2,
    ensures id == id2, hb == hb2, length == length2, payload == payload2, rest == rest_2,
{ lemma_msg_prefix_free(id, hb, length, payload, rest, id2, hb2, length2, payload2, rest_2); }
