// ---- unit prelude: codec_requests2 (C13): wire format of the request payloads of the second batch ------------------------
// `enc_*` is the payload the SDK sends after the command code, written from the protocol layout (field order, widths,
// little-endian integers, length prefixes); the server decodes it with `<Cmd>::from_bytes` (server/src/command.rs
// dispatches on the code to exactly these functions). BOTH directions are proved against the same `enc_*`.

// ---- shapes: one, two, three identifiers followed by a tail -----------------------------------------------------------------
pub open spec fn enc_ids1(a: Identifier, tail: Seq<u8>) -> Seq<u8> { enc_identifier(a) + tail }
pub open spec fn enc_ids2(a: Identifier, b: Identifier, tail: Seq<u8>) -> Seq<u8> { enc_identifier(a) + (enc_identifier(b) + tail) }
pub open spec fn enc_ids3(a: Identifier, b: Identifier, c: Identifier, tail: Seq<u8>) -> Seq<u8> {
    enc_identifier(a) + (enc_identifier(b) + (enc_identifier(c) + tail))
}
pub open spec fn nil() -> Seq<u8> { Seq::<u8>::empty() }

pub proof fn lemma_ids1_layout(a: Identifier, tail: Seq<u8>)
    ensures
        ({
            let b = enc_ids1(a, tail);
            let p1 = 2 + a.value@.len() as int;
            &&& b.len() == p1 + tail.len()
            &&& b == enc_identifier(a) + tail
            &&& b[1] == a.length
            &&& b.subrange(p1, b.len() as int) == tail
        }),
{
    lemma_identifier_layout(a, tail);
}
pub proof fn lemma_ids2_layout(a: Identifier, b: Identifier, tail: Seq<u8>)
    ensures
        ({
            let f = enc_ids2(a, b, tail);
            let p1 = 2 + a.value@.len() as int;
            let p2 = p1 + 2 + b.value@.len() as int;
            &&& f.len() == p2 + tail.len()
            &&& f == enc_identifier(a) + (enc_identifier(b) + tail)
            &&& f[1] == a.length
            &&& f.subrange(p1, f.len() as int) == enc_identifier(b) + tail
            &&& f[p1 + 1] == b.length
            &&& f.subrange(p2, f.len() as int) == tail
        }),
{
    let f = enc_ids2(a, b, tail);
    let p1 = 2 + a.value@.len() as int;
    let p2 = p1 + 2 + b.value@.len() as int;
    lemma_identifier_layout(a, enc_identifier(b) + tail);
    lemma_identifier_layout(b, tail);
    assert(f.subrange(p2, f.len() as int) =~= (enc_identifier(b) + tail).subrange(2 + b.value@.len() as int, (enc_identifier(b) + tail).len() as int));
    assert(f[p1 + 1] == (enc_identifier(b) + tail)[1]);
}
pub proof fn lemma_ids3_layout(a: Identifier, b: Identifier, c: Identifier, tail: Seq<u8>)
    ensures
        ({
            let f = enc_ids3(a, b, c, tail);
            let p1 = 2 + a.value@.len() as int;
            let p2 = p1 + 2 + b.value@.len() as int;
            let p3 = p2 + 2 + c.value@.len() as int;
            &&& f.len() == p3 + tail.len()
            &&& f == enc_identifier(a) + (enc_identifier(b) + (enc_identifier(c) + tail))
            &&& f[1] == a.length
            &&& f.subrange(p1, f.len() as int) == enc_identifier(b) + (enc_identifier(c) + tail)
            &&& f[p1 + 1] == b.length
            &&& f.subrange(p2, f.len() as int) == enc_identifier(c) + tail
            &&& f[p2 + 1] == c.length
            &&& f.subrange(p3, f.len() as int) == tail
        }),
{
    let f = enc_ids3(a, b, c, tail);
    let p1 = 2 + a.value@.len() as int;
    let p2 = p1 + 2 + b.value@.len() as int;
    let p3 = p2 + 2 + c.value@.len() as int;
    let t1 = enc_identifier(c) + tail;
    lemma_identifier_layout(a, enc_identifier(b) + t1);
    lemma_ids2_layout(b, c, tail);
    let g = enc_ids2(b, c, tail);
    assert(f.subrange(p1, f.len() as int) == g);
    assert(f.subrange(p2, f.len() as int) =~= g.subrange(2 + b.value@.len() as int, g.len() as int));
    assert(f.subrange(p3, f.len() as int) =~= g.subrange(4 + b.value@.len() as int + c.value@.len() as int, g.len() as int));
    assert(f[p1 + 1] == g[1]);
    assert(f[p2 + 1] == g[2 + b.value@.len() as int + 1]);
}

// two frames of the same shape built from valid identifiers are equal only if the identifiers and the tails are
pub proof fn lemma_ids1_prefix_free(a: Identifier, tail: Seq<u8>, a2: Identifier, tail_2: Seq<u8>)
    requires id_valid(a), id_valid(a2), enc_ids1(a, tail) == enc_ids1(a2, tail_2),
    ensures id_eq(a, a2), tail == tail_2,
{
    lemma_identifier_prefix_free(a, tail, a2, tail_2);
}
pub proof fn lemma_ids2_prefix_free(a: Identifier, b: Identifier, tail: Seq<u8>, a2: Identifier, b2: Identifier, tail_2: Seq<u8>)
    requires id_valid(a), id_valid(b), id_valid(a2), id_valid(b2), enc_ids2(a, b, tail) == enc_ids2(a2, b2, tail_2),
    ensures id_eq(a, a2), id_eq(b, b2), tail == tail_2,
{
    lemma_identifier_prefix_free(a, enc_identifier(b) + tail, a2, enc_identifier(b2) + tail_2);
    lemma_identifier_prefix_free(b, tail, b2, tail_2);
}
pub proof fn lemma_ids3_prefix_free(a: Identifier, b: Identifier, c: Identifier, tail: Seq<u8>, a2: Identifier, b2: Identifier, c2: Identifier, tail_2: Seq<u8>)
    requires id_valid(a), id_valid(b), id_valid(c), id_valid(a2), id_valid(b2), id_valid(c2), enc_ids3(a, b, c, tail) == enc_ids3(a2, b2, c2, tail_2),
    ensures id_eq(a, a2), id_eq(b, b2), id_eq(c, c2), tail == tail_2,
{
    lemma_identifier_prefix_free(a, enc_identifier(b) + (enc_identifier(c) + tail), a2, enc_identifier(b2) + (enc_identifier(c2) + tail_2));
    lemma_ids2_prefix_free(b, c, tail, b2, c2, tail_2);
}

// the encodings depend on the Rust values only through their contents (Vec views)
pub proof fn lemma_ids2_eq_enc(a: Identifier, b: Identifier, a2: Identifier, b2: Identifier, tail: Seq<u8>)
    requires id_eq(a, a2), id_eq(b, b2),
    ensures enc_ids2(a, b, tail) == enc_ids2(a2, b2, tail),
{}
pub proof fn lemma_ids3_eq_enc(a: Identifier, b: Identifier, c: Identifier, a2: Identifier, b2: Identifier, c2: Identifier, tail: Seq<u8>)
    requires id_eq(a, a2), id_eq(b, b2), id_eq(c, c2),
    ensures enc_ids3(a, b, c, tail) == enc_ids3(a2, b2, c2, tail),
{}

// ---- helper: a tail that is known to sit at absolute position p of a buffer ------------------------------------------------------
pub proof fn lemma_tail_at(b: Seq<u8>, p: int, t: Seq<u8>, i: int, j: int)
    requires 0 <= p <= b.len(), b.subrange(p, b.len() as int) == t, 0 <= i <= j <= t.len(),
    ensures b.subrange(p + i, p + j) == t.subrange(i, j), i < t.len() ==> b[p + i] == t[i],
{
    assert(b.subrange(p + i, p + j) =~= t.subrange(i, j));
    if i < t.len() { assert(t[i] == b.subrange(p, b.len() as int)[i]); }
}
// a length-prefixed name (u8 length) followed by arbitrary bytes
pub proof fn lemma_name8_layout(n: Seq<u8>, rest: Seq<u8>)
    requires n.len() <= 255,
    ensures
        ({
            let t = enc_name8(n) + rest;
            &&& t.len() == 1 + n.len() + rest.len()
            &&& t[0] == n.len()
            &&& t.subrange(1, 1 + n.len() as int) == n
            &&& t.subrange(1 + n.len() as int, t.len() as int) == rest
        }),
{
    let t = enc_name8(n) + rest;
    assert(t.subrange(1, 1 + n.len() as int) =~= n);
    assert(t.subrange(1 + n.len() as int, t.len() as int) =~= rest);
}
pub proof fn lemma_name8_prefix_free(n: Seq<u8>, rest: Seq<u8>, n2: Seq<u8>, rest_2: Seq<u8>)
    requires n.len() <= 255, n2.len() <= 255, enc_name8(n) + rest == enc_name8(n2) + rest_2,
    ensures n == n2, rest == rest_2,
{
    lemma_name8_layout(n, rest);
    lemma_name8_layout(n2, rest_2);
}

// ---- CreatePartitions / DeletePartitions:  stream Identifier | topic Identifier | partitions_count:u32 ------------------------------
pub open spec fn enc_partitions(s: Identifier, t: Identifier, n: u32) -> Seq<u8> { enc_ids2(s, t, le32(n)) }
pub proof fn lemma_partitions_layout(s: Identifier, t: Identifier, n: u32)
    ensures
        ({
            let f = enc_partitions(s, t, n);
            let p1 = 2 + s.value@.len() as int;
            let p2 = p1 + 2 + t.value@.len() as int;
            &&& f.len() == p2 + 4
            &&& f == enc_identifier(s) + (enc_identifier(t) + le32(n))
            &&& f[1] == s.length
            &&& f.subrange(p1, f.len() as int) == enc_identifier(t) + le32(n)
            &&& f[p1 + 1] == t.length
            &&& f.subrange(p2, p2 + 4) == le32(n)
        }),
{
    lemma_le_facts();
    lemma_ids2_layout(s, t, le32(n));
}
pub proof fn lemma_partitions_injective(s: Identifier, t: Identifier, n: u32, s2: Identifier, t2: Identifier, n2: u32)
    requires id_valid(s), id_valid(t), id_valid(s2), id_valid(t2), enc_partitions(s, t, n) == enc_partitions(s2, t2, n2),
    ensures id_eq(s, s2), id_eq(t, t2), n == n2,
{
    lemma_le_facts();
    lemma_ids2_prefix_free(s, t, le32(n), s2, t2, le32(n2));
    assert(un_le32(le32(n)) == un_le32(le32(n2)));
}
pub proof fn lemma_partitions_eq_enc(s: Identifier, t: Identifier, s2: Identifier, t2: Identifier, n: u32)
    requires id_eq(s, s2), id_eq(t, t2),
    ensures enc_partitions(s, t, n) == enc_partitions(s2, t2, n),
{}

// ---- UpdateStream:  stream Identifier | name_length:u8 | name[name_length] ---------------------------------------------------------
pub open spec fn enc_update_stream(m: UpdateStream) -> Seq<u8> { enc_ids1(m.stream_id, enc_name8(m.name@)) }
pub open spec fn update_stream_valid(m: UpdateStream) -> bool { id_valid(m.stream_id) && name_valid(m.name@) }
pub open spec fn update_stream_eq(a: UpdateStream, b: UpdateStream) -> bool { id_eq(a.stream_id, b.stream_id) && a.name@ == b.name@ }
pub proof fn lemma_update_stream_layout(v: UpdateStream)
    requires name_valid(v.name@),
    ensures
        ({
            let b = enc_update_stream(v);
            let p1 = 2 + v.stream_id.value@.len() as int;
            &&& b.len() == p1 + 1 + v.name@.len()
            &&& b == enc_identifier(v.stream_id) + enc_name8(v.name@)
            &&& b[1] == v.stream_id.length
            &&& b[p1] == v.name@.len()
            &&& b.subrange(p1 + 1, p1 + 1 + v.name@.len() as int) == v.name@
        }),
{
    let b = enc_update_stream(v);
    let p1 = 2 + v.stream_id.value@.len() as int;
    let t = enc_name8(v.name@);
    lemma_ids1_layout(v.stream_id, t);
    lemma_name8_layout(v.name@, nil());
    assert(t + nil() =~= t);
    lemma_tail_at(b, p1, t, 0, 1);
    lemma_tail_at(b, p1, t, 1, 1 + v.name@.len() as int);
}
pub proof fn lemma_update_stream_injective(a: UpdateStream, b: UpdateStream)
    requires update_stream_valid(a), update_stream_valid(b), enc_update_stream(a) == enc_update_stream(b),
    ensures update_stream_eq(a, b),
{
    lemma_ids1_prefix_free(a.stream_id, enc_name8(a.name@), b.stream_id, enc_name8(b.name@));
    assert(enc_name8(a.name@) + nil() =~= enc_name8(a.name@));
    assert(enc_name8(b.name@) + nil() =~= enc_name8(b.name@));
    lemma_name8_prefix_free(a.name@, nil(), b.name@, nil());
}
pub proof fn lemma_update_stream_eq_enc(a: UpdateStream, b: UpdateStream)
    requires update_stream_eq(a, b),
    ensures enc_update_stream(a) == enc_update_stream(b), update_stream_valid(a) == update_stream_valid(b),
{}

// ---- DeleteConsumerOffset:  Consumer | stream Identifier | topic Identifier | partition_id:u32 (0 = none) ----------------------------
pub open spec fn enc_dco(m: DeleteConsumerOffset) -> Seq<u8> { enc_head(m.consumer, m.stream_id, m.topic_id, m.partition_id) + Seq::<u8>::empty() }
pub open spec fn dco_valid(m: DeleteConsumerOffset) -> bool { head_valid(m.consumer, m.stream_id, m.topic_id, m.partition_id) }
pub open spec fn dco_eq(a: DeleteConsumerOffset, b: DeleteConsumerOffset) -> bool {
    head_eq(a.consumer, a.stream_id, a.topic_id, a.partition_id, b.consumer, b.stream_id, b.topic_id, b.partition_id)
}
pub proof fn lemma_dco_layout(v: DeleteConsumerOffset)
    ensures
        ({
            let b = enc_dco(v);
            let p1 = 3 + v.consumer.id.value@.len() as int;
            let p2 = p1 + 2 + v.stream_id.value@.len() as int;
            let p3 = p2 + 2 + v.topic_id.value@.len() as int;
            &&& b.len() == p3 + 4
            &&& b[0] == consumerkind_code(v.consumer.kind)
            &&& b.subrange(1, b.len() as int) == enc_identifier(v.consumer.id) + tail1(v.stream_id, v.topic_id, v.partition_id, Seq::<u8>::empty())
            &&& b.subrange(p1, b.len() as int) == enc_identifier(v.stream_id) + tail2(v.topic_id, v.partition_id, Seq::<u8>::empty())
            &&& b.subrange(p2, b.len() as int) == enc_identifier(v.topic_id) + tail3(v.partition_id, Seq::<u8>::empty())
            &&& b.subrange(p3, p3 + 4) == le32(pid_wire(v.partition_id))
        }),
{
    lemma_le_facts();
    lemma_head_layout(v.consumer, v.stream_id, v.topic_id, v.partition_id, Seq::<u8>::empty());
}
pub proof fn lemma_dco_injective(a: DeleteConsumerOffset, b: DeleteConsumerOffset)
    requires dco_valid(a), dco_valid(b), enc_dco(a) == enc_dco(b),
    ensures dco_eq(a, b),
{
    lemma_head_prefix_free(a.consumer, a.stream_id, a.topic_id, a.partition_id, Seq::<u8>::empty(), b.consumer, b.stream_id, b.topic_id, b.partition_id, Seq::<u8>::empty());
}
pub proof fn lemma_dco_eq_enc(a: DeleteConsumerOffset, b: DeleteConsumerOffset)
    requires dco_eq(a, b),
    ensures enc_dco(a) == enc_dco(b), dco_valid(a) == dco_valid(b),
{
    assert(enc_dco(a) =~= enc_dco(b));
}

// ---- topic configuration tail (CreateTopic, UpdateTopic) ------------------------------------------------------------------------------
//   compression:u8 | message_expiry:u64 | max_topic_size:u64 | replication_factor:u8 (0 = none) | name_length:u8 | name[name_length]
pub open spec fn rf_wire(r: Option<u8>) -> u8 { match r { Some(x) => x, None => 0 } }
pub open spec fn rf_valid(r: Option<u8>) -> bool { r != Some(0u8) }
pub open spec fn topic_cfg_tail(c: CompressionAlgorithm, e: IggyExpiry, s: MaxTopicSize, rf: Option<u8>, n: Seq<u8>) -> Seq<u8> {
    seq![compression_code(c)] + le64(expiry_wire(e)) + le64(size_wire(s)) + seq![rf_wire(rf)] + enc_name8(n)
}
pub open spec fn topic_cfg_valid(e: IggyExpiry, s: MaxTopicSize, rf: Option<u8>, n: Seq<u8>) -> bool {
    expiry_valid(e) && size_valid(s) && rf_valid(rf) && name_valid(n)
}
pub proof fn lemma_topic_cfg_tail_layout(c: CompressionAlgorithm, e: IggyExpiry, s: MaxTopicSize, rf: Option<u8>, n: Seq<u8>)
    requires n.len() <= 255,
    ensures
        ({
            let t = topic_cfg_tail(c, e, s, rf, n);
            &&& t.len() == 19 + n.len()
            &&& t[0] == compression_code(c)
            &&& t.subrange(1, 9) == le64(expiry_wire(e))
            &&& t.subrange(9, 17) == le64(size_wire(s))
            &&& t[17] == rf_wire(rf)
            &&& t[18] == n.len()
            &&& t.subrange(19, 19 + n.len() as int) == n
        }),
{
    lemma_le_facts();
    let t = topic_cfg_tail(c, e, s, rf, n);
    assert(t.subrange(1, 9) =~= le64(expiry_wire(e)));
    assert(t.subrange(9, 17) =~= le64(size_wire(s)));
    assert(t.subrange(19, 19 + n.len() as int) =~= n);
}
// the conversions are inverse to each other on every representable value
pub proof fn lemma_expiry_roundtrip(e: IggyExpiry)
    requires expiry_valid(e),
    ensures expiry_of_wire(expiry_wire(e)) == e,
{
    if let IggyExpiry::ExpireDuration(d) = e { lemma_dur_roundtrip(d); }
}
pub proof fn lemma_size_roundtrip(s: MaxTopicSize)
    requires size_valid(s),
    ensures size_of_wire(size_wire(s)) == s,
{}
pub proof fn lemma_topic_cfg_tail_injective(c: CompressionAlgorithm, e: IggyExpiry, s: MaxTopicSize, rf: Option<u8>, n: Seq<u8>,
                                            c2: CompressionAlgorithm, e2: IggyExpiry, s2: MaxTopicSize, rf2: Option<u8>, n2: Seq<u8>)
    requires topic_cfg_valid(e, s, rf, n), topic_cfg_valid(e2, s2, rf2, n2), topic_cfg_tail(c, e, s, rf, n) == topic_cfg_tail(c2, e2, s2, rf2, n2),
    ensures c == c2, e == e2, s == s2, rf == rf2, n == n2,
{
    lemma_le_facts();
    lemma_topic_cfg_tail_layout(c, e, s, rf, n);
    lemma_topic_cfg_tail_layout(c2, e2, s2, rf2, n2);
    assert(un_le64(le64(expiry_wire(e))) == un_le64(le64(expiry_wire(e2))));
    assert(un_le64(le64(size_wire(s))) == un_le64(le64(size_wire(s2))));
    lemma_expiry_roundtrip(e); lemma_expiry_roundtrip(e2);
    lemma_size_roundtrip(s); lemma_size_roundtrip(s2);
}

// ---- CreateTopic:  stream Identifier | topic_id:u32 (0 = none) | partitions_count:u32 | topic configuration tail -------------------
pub open spec fn create_topic_tail(m: CreateTopic) -> Seq<u8> {
    le32(opt_wire(m.topic_id)) + le32(m.partitions_count) + topic_cfg_tail(m.compression_algorithm, m.message_expiry, m.max_topic_size, m.replication_factor, m.name@)
}
pub open spec fn enc_create_topic(m: CreateTopic) -> Seq<u8> { enc_ids1(m.stream_id, create_topic_tail(m)) }
pub open spec fn create_topic_valid(m: CreateTopic) -> bool {
    id_valid(m.stream_id) && m.topic_id != Some(0u32) && topic_cfg_valid(m.message_expiry, m.max_topic_size, m.replication_factor, m.name@)
}
pub open spec fn create_topic_eq(a: CreateTopic, b: CreateTopic) -> bool {
    &&& id_eq(a.stream_id, b.stream_id) && a.topic_id == b.topic_id && a.partitions_count == b.partitions_count
    &&& a.compression_algorithm == b.compression_algorithm && a.message_expiry == b.message_expiry && a.max_topic_size == b.max_topic_size
    &&& a.replication_factor == b.replication_factor && a.name@ == b.name@
}
pub proof fn lemma_create_topic_tail_layout(v: CreateTopic)
    requires v.name@.len() <= 255,
    ensures
        ({
            let t = create_topic_tail(v);
            &&& t.len() == 27 + v.name@.len()
            &&& t.subrange(0, 4) == le32(opt_wire(v.topic_id))
            &&& t.subrange(4, 8) == le32(v.partitions_count)
            &&& t.subrange(8, t.len() as int) == topic_cfg_tail(v.compression_algorithm, v.message_expiry, v.max_topic_size, v.replication_factor, v.name@)
        }),
{
    lemma_le_facts();
    let t = create_topic_tail(v);
    let c = topic_cfg_tail(v.compression_algorithm, v.message_expiry, v.max_topic_size, v.replication_factor, v.name@);
    lemma_topic_cfg_tail_layout(v.compression_algorithm, v.message_expiry, v.max_topic_size, v.replication_factor, v.name@);
    assert(t.subrange(0, 4) =~= le32(opt_wire(v.topic_id)));
    assert(t.subrange(4, 8) =~= le32(v.partitions_count));
    assert(t.subrange(8, t.len() as int) =~= c);
}
pub proof fn lemma_create_topic_layout(v: CreateTopic)
    requires v.name@.len() <= 255,
    ensures
        ({
            let b = enc_create_topic(v);
            let p = 2 + v.stream_id.value@.len() as int;
            let n = v.name@.len() as int;
            &&& b.len() == p + 27 + n
            &&& b == enc_identifier(v.stream_id) + create_topic_tail(v)
            &&& b[1] == v.stream_id.length
            &&& b.subrange(p, p + 4) == le32(opt_wire(v.topic_id))
            &&& b.subrange(p + 4, p + 8) == le32(v.partitions_count)
            &&& b[p + 8] == compression_code(v.compression_algorithm)
            &&& b.subrange(p + 9, p + 17) == le64(expiry_wire(v.message_expiry))
            &&& b.subrange(p + 17, p + 25) == le64(size_wire(v.max_topic_size))
            &&& b[p + 25] == rf_wire(v.replication_factor)
            &&& b[p + 26] == n
            &&& b.subrange(p + 27, p + 27 + n) == v.name@
        }),
{
    let b = enc_create_topic(v);
    let p = 2 + v.stream_id.value@.len() as int;
    let n = v.name@.len() as int;
    let t = create_topic_tail(v);
    let c = topic_cfg_tail(v.compression_algorithm, v.message_expiry, v.max_topic_size, v.replication_factor, v.name@);
    lemma_ids1_layout(v.stream_id, t);
    lemma_create_topic_tail_layout(v);
    lemma_topic_cfg_tail_layout(v.compression_algorithm, v.message_expiry, v.max_topic_size, v.replication_factor, v.name@);
    lemma_tail_at(b, p, t, 0, 4);
    lemma_tail_at(b, p, t, 4, 8);
    lemma_tail_at(b, p, t, 8, t.len() as int);
    assert(b.subrange(p + 8, b.len() as int) == c);
    lemma_tail_at(b, p + 8, c, 0, 1);
    lemma_tail_at(b, p + 8, c, 1, 9);
    lemma_tail_at(b, p + 8, c, 9, 17);
    lemma_tail_at(b, p + 8, c, 17, 18);
    lemma_tail_at(b, p + 8, c, 18, 19);
    lemma_tail_at(b, p + 8, c, 19, 19 + n);
}
pub proof fn lemma_create_topic_injective(a: CreateTopic, b: CreateTopic)
    requires create_topic_valid(a), create_topic_valid(b), enc_create_topic(a) == enc_create_topic(b),
    ensures create_topic_eq(a, b),
{
    lemma_le_facts();
    lemma_ids1_prefix_free(a.stream_id, create_topic_tail(a), b.stream_id, create_topic_tail(b));
    lemma_create_topic_tail_layout(a);
    lemma_create_topic_tail_layout(b);
    assert(create_topic_tail(a).len() == create_topic_tail(b).len());
    assert(un_le32(le32(opt_wire(a.topic_id))) == un_le32(le32(opt_wire(b.topic_id))));
    assert(un_le32(le32(a.partitions_count)) == un_le32(le32(b.partitions_count)));
    lemma_topic_cfg_tail_injective(a.compression_algorithm, a.message_expiry, a.max_topic_size, a.replication_factor, a.name@,
                                   b.compression_algorithm, b.message_expiry, b.max_topic_size, b.replication_factor, b.name@);
}
pub proof fn lemma_create_topic_eq_enc(a: CreateTopic, b: CreateTopic)
    requires create_topic_eq(a, b),
    ensures enc_create_topic(a) == enc_create_topic(b), create_topic_valid(a) == create_topic_valid(b),
{}

// ---- UpdateTopic:  stream Identifier | topic Identifier | topic configuration tail -----------------------------------------------
pub open spec fn update_topic_tail(m: UpdateTopic) -> Seq<u8> {
    topic_cfg_tail(m.compression_algorithm, m.message_expiry, m.max_topic_size, m.replication_factor, m.name@)
}
pub open spec fn enc_update_topic(m: UpdateTopic) -> Seq<u8> { enc_ids2(m.stream_id, m.topic_id, update_topic_tail(m)) }
pub open spec fn update_topic_valid(m: UpdateTopic) -> bool {
    id_valid(m.stream_id) && id_valid(m.topic_id) && topic_cfg_valid(m.message_expiry, m.max_topic_size, m.replication_factor, m.name@)
}
pub open spec fn update_topic_eq(a: UpdateTopic, b: UpdateTopic) -> bool {
    &&& id_eq(a.stream_id, b.stream_id) && id_eq(a.topic_id, b.topic_id)
    &&& a.compression_algorithm == b.compression_algorithm && a.message_expiry == b.message_expiry && a.max_topic_size == b.max_topic_size
    &&& a.replication_factor == b.replication_factor && a.name@ == b.name@
}
pub proof fn lemma_update_topic_layout(v: UpdateTopic)
    requires v.name@.len() <= 255,
    ensures
        ({
            let b = enc_update_topic(v);
            let p1 = 2 + v.stream_id.value@.len() as int;
            let p = p1 + 2 + v.topic_id.value@.len() as int;
            let n = v.name@.len() as int;
            &&& b.len() == p + 19 + n
            &&& b == enc_identifier(v.stream_id) + (enc_identifier(v.topic_id) + update_topic_tail(v))
            &&& b[1] == v.stream_id.length
            &&& b.subrange(p1, b.len() as int) == enc_identifier(v.topic_id) + update_topic_tail(v)
            &&& b[p1 + 1] == v.topic_id.length
            &&& b[p] == compression_code(v.compression_algorithm)
            &&& b.subrange(p + 1, p + 9) == le64(expiry_wire(v.message_expiry))
            &&& b.subrange(p + 9, p + 17) == le64(size_wire(v.max_topic_size))
            &&& b[p + 17] == rf_wire(v.replication_factor)
            &&& b[p + 18] == n
            &&& b.subrange(p + 19, p + 19 + n) == v.name@
        }),
{
    let b = enc_update_topic(v);
    let p1 = 2 + v.stream_id.value@.len() as int;
    let p = p1 + 2 + v.topic_id.value@.len() as int;
    let n = v.name@.len() as int;
    let c = update_topic_tail(v);
    lemma_ids2_layout(v.stream_id, v.topic_id, c);
    lemma_topic_cfg_tail_layout(v.compression_algorithm, v.message_expiry, v.max_topic_size, v.replication_factor, v.name@);
    lemma_tail_at(b, p, c, 0, 1);
    lemma_tail_at(b, p, c, 1, 9);
    lemma_tail_at(b, p, c, 9, 17);
    lemma_tail_at(b, p, c, 17, 18);
    lemma_tail_at(b, p, c, 18, 19);
    lemma_tail_at(b, p, c, 19, 19 + n);
}
pub proof fn lemma_update_topic_injective(a: UpdateTopic, b: UpdateTopic)
    requires update_topic_valid(a), update_topic_valid(b), enc_update_topic(a) == enc_update_topic(b),
    ensures update_topic_eq(a, b),
{
    lemma_ids2_prefix_free(a.stream_id, a.topic_id, update_topic_tail(a), b.stream_id, b.topic_id, update_topic_tail(b));
    lemma_topic_cfg_tail_injective(a.compression_algorithm, a.message_expiry, a.max_topic_size, a.replication_factor, a.name@,
                                   b.compression_algorithm, b.message_expiry, b.max_topic_size, b.replication_factor, b.name@);
}
pub proof fn lemma_update_topic_eq_enc(a: UpdateTopic, b: UpdateTopic)
    requires update_topic_eq(a, b),
    ensures enc_update_topic(a) == enc_update_topic(b), update_topic_valid(a) == update_topic_valid(b),
{}

// ---- users / personal access tokens: what the SDK's validation admits (sdk/src/users/defaults.rs) ---------------------------------
pub open spec fn username_valid(n: Seq<u8>) -> bool { 3 <= n.len() <= 50 }
pub open spec fn password_valid(n: Seq<u8>) -> bool { 3 <= n.len() <= 100 }
pub open spec fn pat_name_valid(n: Seq<u8>) -> bool { 3 <= n.len() <= 30 }
pub open spec fn pat_token_valid(n: Seq<u8>) -> bool { 1 <= n.len() <= 100 }

// two length-prefixed strings (u8 lengths) followed by arbitrary bytes
pub open spec fn enc_two_names(a: Seq<u8>, b: Seq<u8>, rest: Seq<u8>) -> Seq<u8> { enc_name8(a) + (enc_name8(b) + rest) }
pub proof fn lemma_two_names_layout(a: Seq<u8>, b: Seq<u8>, rest: Seq<u8>)
    requires a.len() <= 255, b.len() <= 255,
    ensures
        ({
            let t = enc_two_names(a, b, rest);
            let la = a.len() as int;
            let lb = b.len() as int;
            &&& t.len() == 2 + la + lb + rest.len()
            &&& t[0] == la
            &&& t.subrange(1, 1 + la) == a
            &&& t[1 + la] == lb
            &&& t.subrange(2 + la, 2 + la + lb) == b
            &&& t.subrange(2 + la + lb, t.len() as int) == rest
        }),
{
    let t = enc_two_names(a, b, rest);
    let la = a.len() as int;
    let lb = b.len() as int;
    lemma_name8_layout(a, enc_name8(b) + rest);
    lemma_name8_layout(b, rest);
    let u = enc_name8(b) + rest;
    lemma_tail_at(t, 1 + la, u, 0, 1);
    lemma_tail_at(t, 1 + la, u, 1, 1 + lb);
    lemma_tail_at(t, 1 + la, u, 1 + lb, u.len() as int);
}
pub proof fn lemma_two_names_prefix_free(a: Seq<u8>, b: Seq<u8>, rest: Seq<u8>, a2: Seq<u8>, b2: Seq<u8>, rest_2: Seq<u8>)
    requires a.len() <= 255, b.len() <= 255, a2.len() <= 255, b2.len() <= 255, enc_two_names(a, b, rest) == enc_two_names(a2, b2, rest_2),
    ensures a == a2, b == b2, rest == rest_2,
{
    lemma_name8_prefix_free(a, enc_name8(b) + rest, a2, enc_name8(b2) + rest_2);
    lemma_name8_prefix_free(b, rest, b2, rest_2);
}

// ---- ChangePassword:  user Identifier | current_length:u8 | current | new_length:u8 | new --------------------------------------------
pub open spec fn enc_change_password(m: ChangePassword) -> Seq<u8> { enc_ids1(m.user_id, enc_two_names(m.current_password@, m.new_password@, nil())) }
pub open spec fn change_password_valid(m: ChangePassword) -> bool { id_valid(m.user_id) && password_valid(m.current_password@) && password_valid(m.new_password@) }
pub open spec fn change_password_eq(a: ChangePassword, b: ChangePassword) -> bool {
    id_eq(a.user_id, b.user_id) && a.current_password@ == b.current_password@ && a.new_password@ == b.new_password@
}
pub proof fn lemma_change_password_layout(v: ChangePassword)
    requires v.current_password@.len() <= 255, v.new_password@.len() <= 255,
    ensures
        ({
            let b = enc_change_password(v);
            let p = 2 + v.user_id.value@.len() as int;
            let lc = v.current_password@.len() as int;
            let ln = v.new_password@.len() as int;
            &&& b.len() == p + 2 + lc + ln
            &&& b == enc_identifier(v.user_id) + enc_two_names(v.current_password@, v.new_password@, nil())
            &&& b[1] == v.user_id.length
            &&& b[p] == lc
            &&& b.subrange(p + 1, p + 1 + lc) == v.current_password@
            &&& b[p + 1 + lc] == ln
            &&& b.subrange(p + 2 + lc, p + 2 + lc + ln) == v.new_password@
        }),
{
    let b = enc_change_password(v);
    let p = 2 + v.user_id.value@.len() as int;
    let lc = v.current_password@.len() as int;
    let ln = v.new_password@.len() as int;
    let t = enc_two_names(v.current_password@, v.new_password@, nil());
    lemma_ids1_layout(v.user_id, t);
    lemma_two_names_layout(v.current_password@, v.new_password@, nil());
    lemma_tail_at(b, p, t, 0, 1);
    lemma_tail_at(b, p, t, 1, 1 + lc);
    lemma_tail_at(b, p, t, 1 + lc, 2 + lc);
    lemma_tail_at(b, p, t, 2 + lc, 2 + lc + ln);
}
pub proof fn lemma_change_password_injective(a: ChangePassword, b: ChangePassword)
    requires change_password_valid(a), change_password_valid(b), enc_change_password(a) == enc_change_password(b),
    ensures change_password_eq(a, b),
{
    lemma_ids1_prefix_free(a.user_id, enc_two_names(a.current_password@, a.new_password@, nil()), b.user_id, enc_two_names(b.current_password@, b.new_password@, nil()));
    lemma_two_names_prefix_free(a.current_password@, a.new_password@, nil(), b.current_password@, b.new_password@, nil());
}
pub proof fn lemma_change_password_eq_enc(a: ChangePassword, b: ChangePassword)
    requires change_password_eq(a, b),
    ensures enc_change_password(a) == enc_change_password(b), change_password_valid(a) == change_password_valid(b),
{}

// ---- UpdateUser:  user Identifier | has_username:u8 [| username_length:u8 | username] | has_status:u8 [| status:u8] -------------------
pub open spec fn opt_name8(o: Option<Text>) -> Seq<u8> { match o { None => seq![0u8], Some(t) => seq![1u8] + enc_name8(t@) } }
pub open spec fn opt_status(o: Option<UserStatus>) -> Seq<u8> { match o { None => seq![0u8], Some(s) => seq![1u8, status_code(s)] } }
pub open spec fn opt_text_eq(a: Option<Text>, b: Option<Text>) -> bool {
    match (a, b) { (None, None) => true, (Some(x), Some(y)) => x@ == y@, _ => false }
}
pub open spec fn enc_update_user(m: UpdateUser) -> Seq<u8> { enc_ids1(m.user_id, opt_name8(m.username) + opt_status(m.status)) }
pub open spec fn update_user_valid(m: UpdateUser) -> bool { id_valid(m.user_id) && (m.username matches Some(t) ==> username_valid(t@)) }
pub open spec fn update_user_eq(a: UpdateUser, b: UpdateUser) -> bool { id_eq(a.user_id, b.user_id) && opt_text_eq(a.username, b.username) && a.status == b.status }
pub open spec fn opt_name8_len(o: Option<Text>) -> int { match o { None => 1, Some(t) => 2 + t@.len() as int } }
pub proof fn lemma_update_user_tail_layout(u: Option<Text>, s: Option<UserStatus>)
    requires u matches Some(t) ==> t@.len() <= 255,
    ensures
        ({
            let t = opt_name8(u) + opt_status(s);
            let q = opt_name8_len(u);
            &&& t.len() == q + (if s is Some { 2int } else { 1int })
            &&& (u is None ==> t[0] == 0)
            &&& (u matches Some(n) ==> t[0] == 1 && t[1] == n@.len() && t.subrange(2, 2 + n@.len() as int) == n@)
            &&& (s is None ==> t[q] == 0)
            &&& (s matches Some(st) ==> t[q] == 1 && t[q + 1] == status_code(st))
        }),
{
    let t = opt_name8(u) + opt_status(s);
    if let Some(n) = u {
        assert(t.subrange(2, 2 + n@.len() as int) =~= n@);
    }
}
#[verifier::spinoff_prover]
pub proof fn lemma_update_user_layout(v: UpdateUser)
    requires v.username matches Some(t) ==> t@.len() <= 255,
    ensures
        ({
            let b = enc_update_user(v);
            let p = 2 + v.user_id.value@.len() as int;
            let q = p + opt_name8_len(v.username);
            &&& b.len() == q + (if v.status is Some { 2int } else { 1int })
            &&& b == enc_identifier(v.user_id) + (opt_name8(v.username) + opt_status(v.status))
            &&& b[1] == v.user_id.length
            &&& (v.username is None ==> b[p] == 0)
            &&& (v.username matches Some(n) ==> b[p] == 1 && b[p + 1] == n@.len() && b.subrange(p + 2, p + 2 + n@.len() as int) == n@)
            &&& (v.status is None ==> b[q] == 0)
            &&& (v.status matches Some(st) ==> b[q] == 1 && b[q + 1] == status_code(st))
        }),
{
    // (only the facts the two layout lemmas state about the opaque tail `t` are needed)
    hide(opt_name8); hide(opt_status); hide(enc_ids1); hide(enc_identifier); hide(enc_name8);
    let b = enc_update_user(v);
    let p = 2 + v.user_id.value@.len() as int;
    let t = opt_name8(v.username) + opt_status(v.status);
    let q = opt_name8_len(v.username);
    lemma_ids1_layout(v.user_id, t);
    lemma_update_user_tail_layout(v.username, v.status);
    assert(b.subrange(p, b.len() as int) == t);
    lemma_tail_at(b, p, t, 0, 1);
    lemma_tail_at(b, p, t, q, q + 1);
    match v.username {
        Some(n) => {
            lemma_tail_at(b, p, t, 1, 2);
            lemma_tail_at(b, p, t, 2, 2 + n@.len() as int);
        },
        None => {},
    }
    match v.status {
        Some(st) => { lemma_tail_at(b, p, t, q + 1, q + 2); },
        None => {},
    }
}
pub proof fn lemma_status_code_injective()
    ensures forall|a: UserStatus, b: UserStatus| status_code(a) == status_code(b) ==> a == b,
{}
pub proof fn lemma_update_user_injective(a: UpdateUser, b: UpdateUser)
    requires update_user_valid(a), update_user_valid(b), enc_update_user(a) == enc_update_user(b),
    ensures update_user_eq(a, b),
{
    lemma_status_code_injective();
    lemma_ids1_prefix_free(a.user_id, opt_name8(a.username) + opt_status(a.status), b.user_id, opt_name8(b.username) + opt_status(b.status));
    lemma_update_user_tail_layout(a.username, a.status);
    lemma_update_user_tail_layout(b.username, b.status);
}
pub proof fn lemma_update_user_eq_enc(a: UpdateUser, b: UpdateUser)
    requires update_user_eq(a, b),
    ensures enc_update_user(a) == enc_update_user(b), update_user_valid(a) == update_user_valid(b),
{}

// ---- LoginUser:  username_length:u8 | username | password_length:u8 | password | version_length:u32 | version | context_length:u32 | context
// (an absent version/context is the length 0)
pub open spec fn str32_len(o: Option<Text>) -> int { match o { None => 0, Some(t) => t@.len() as int } }
pub open spec fn str32_bytes(o: Option<Text>) -> Seq<u8> { match o { None => Seq::<u8>::empty(), Some(t) => t@ } }
pub open spec fn enc_str32(o: Option<Text>) -> Seq<u8> { le32(str32_len(o) as u32) + str32_bytes(o) }
pub open spec fn str32_valid(o: Option<Text>) -> bool { o matches Some(t) ==> 1 <= t@.len() <= u32::MAX }
pub open spec fn enc_login_user(m: LoginUser) -> Seq<u8> { enc_two_names(m.username@, m.password@, enc_str32(m.version) + enc_str32(m.context)) }
pub open spec fn login_user_valid(m: LoginUser) -> bool {
    username_valid(m.username@) && password_valid(m.password@) && str32_valid(m.version) && str32_valid(m.context)
}
pub open spec fn login_user_eq(a: LoginUser, b: LoginUser) -> bool {
    a.username@ == b.username@ && a.password@ == b.password@ && opt_text_eq(a.version, b.version) && opt_text_eq(a.context, b.context)
}
pub proof fn lemma_two_str32_layout(x: Option<Text>, y: Option<Text>)
    requires str32_len(x) <= u32::MAX, str32_len(y) <= u32::MAX,
    ensures
        ({
            let t = enc_str32(x) + enc_str32(y);
            let lx = str32_len(x);
            let ly = str32_len(y);
            &&& t.len() == 8 + lx + ly
            &&& t.subrange(0, 4) == le32(lx as u32)
            &&& t.subrange(4, 4 + lx) == str32_bytes(x)
            &&& t.subrange(4 + lx, 8 + lx) == le32(ly as u32)
            &&& t.subrange(8 + lx, 8 + lx + ly) == str32_bytes(y)
        }),
{
    lemma_le_facts();
    let t = enc_str32(x) + enc_str32(y);
    let lx = str32_len(x);
    let ly = str32_len(y);
    assert(t.subrange(0, 4) =~= le32(lx as u32));
    assert(t.subrange(4, 4 + lx) =~= str32_bytes(x));
    assert(t.subrange(4 + lx, 8 + lx) =~= le32(ly as u32));
    assert(t.subrange(8 + lx, 8 + lx + ly) =~= str32_bytes(y));
}
pub proof fn lemma_login_user_layout(v: LoginUser)
    requires v.username@.len() <= 255, v.password@.len() <= 255, str32_len(v.version) <= u32::MAX, str32_len(v.context) <= u32::MAX,
    ensures
        ({
            let b = enc_login_user(v);
            let lu = v.username@.len() as int;
            let lp = v.password@.len() as int;
            let p = 2 + lu + lp;
            let lv = str32_len(v.version);
            let lc = str32_len(v.context);
            let q = p + 4 + lv;
            &&& b.len() == q + 4 + lc
            &&& b[0] == lu
            &&& b.subrange(1, 1 + lu) == v.username@
            &&& b[1 + lu] == lp
            &&& b.subrange(2 + lu, 2 + lu + lp) == v.password@
            &&& b.subrange(p, p + 4) == le32(lv as u32)
            &&& b.subrange(p + 4, p + 4 + lv) == str32_bytes(v.version)
            &&& b.subrange(q, q + 4) == le32(lc as u32)
            &&& b.subrange(q + 4, q + 4 + lc) == str32_bytes(v.context)
        }),
{
    let b = enc_login_user(v);
    let lu = v.username@.len() as int;
    let lp = v.password@.len() as int;
    let p = 2 + lu + lp;
    let lv = str32_len(v.version);
    let lc = str32_len(v.context);
    let t = enc_str32(v.version) + enc_str32(v.context);
    lemma_two_names_layout(v.username@, v.password@, t);
    lemma_two_str32_layout(v.version, v.context);
    lemma_tail_at(b, p, t, 0, 4);
    lemma_tail_at(b, p, t, 4, 4 + lv);
    lemma_tail_at(b, p, t, 4 + lv, 8 + lv);
    lemma_tail_at(b, p, t, 8 + lv, 8 + lv + lc);
}
pub proof fn lemma_login_user_injective(a: LoginUser, b: LoginUser)
    requires login_user_valid(a), login_user_valid(b), enc_login_user(a) == enc_login_user(b),
    ensures login_user_eq(a, b),
{
    lemma_le_facts();
    lemma_two_names_prefix_free(a.username@, a.password@, enc_str32(a.version) + enc_str32(a.context), b.username@, b.password@, enc_str32(b.version) + enc_str32(b.context));
    lemma_two_str32_layout(a.version, a.context);
    lemma_two_str32_layout(b.version, b.context);
    assert(un_le32(le32(str32_len(a.version) as u32)) == un_le32(le32(str32_len(b.version) as u32)));
    assert(un_le32(le32(str32_len(a.context) as u32)) == un_le32(le32(str32_len(b.context) as u32)));
}
pub proof fn lemma_login_user_eq_enc(a: LoginUser, b: LoginUser)
    requires login_user_eq(a, b),
    ensures enc_login_user(a) == enc_login_user(b), login_user_valid(a) == login_user_valid(b),
{}

// ---- personal access tokens -------------------------------------------------------------------------------------------------------------
// CreatePersonalAccessToken:  name_length:u8 | name | expiry:u64
pub open spec fn enc_create_pat(m: CreatePersonalAccessToken) -> Seq<u8> { enc_name8(m.name@) + le64(expiry_wire(m.expiry)) }
pub open spec fn create_pat_valid(m: CreatePersonalAccessToken) -> bool { pat_name_valid(m.name@) && expiry_valid(m.expiry) }
pub open spec fn create_pat_eq(a: CreatePersonalAccessToken, b: CreatePersonalAccessToken) -> bool { a.name@ == b.name@ && a.expiry == b.expiry }
pub proof fn lemma_create_pat_layout(v: CreatePersonalAccessToken)
    requires v.name@.len() <= 255,
    ensures
        ({
            let b = enc_create_pat(v);
            let n = v.name@.len() as int;
            &&& b.len() == 9 + n
            &&& b[0] == n
            &&& b.subrange(1, 1 + n) == v.name@
            &&& b.subrange(1 + n, 9 + n) == le64(expiry_wire(v.expiry))
        }),
{
    lemma_le_facts();
    lemma_name8_layout(v.name@, le64(expiry_wire(v.expiry)));
}
pub proof fn lemma_create_pat_injective(a: CreatePersonalAccessToken, b: CreatePersonalAccessToken)
    requires create_pat_valid(a), create_pat_valid(b), enc_create_pat(a) == enc_create_pat(b),
    ensures create_pat_eq(a, b),
{
    lemma_le_facts();
    lemma_name8_prefix_free(a.name@, le64(expiry_wire(a.expiry)), b.name@, le64(expiry_wire(b.expiry)));
    assert(un_le64(le64(expiry_wire(a.expiry))) == un_le64(le64(expiry_wire(b.expiry))));
    lemma_expiry_roundtrip(a.expiry); lemma_expiry_roundtrip(b.expiry);
}
pub proof fn lemma_create_pat_eq_enc(a: CreatePersonalAccessToken, b: CreatePersonalAccessToken)
    requires create_pat_eq(a, b),
    ensures enc_create_pat(a) == enc_create_pat(b), create_pat_valid(a) == create_pat_valid(b),
{}
// DeletePersonalAccessToken / LoginWithPersonalAccessToken:  length:u8 | text
pub proof fn lemma_name8_only_layout(n: Seq<u8>)
    requires n.len() <= 255,
    ensures enc_name8(n).len() == 1 + n.len(), enc_name8(n)[0] == n.len(), enc_name8(n).subrange(1, 1 + n.len() as int) == n,
{
    lemma_name8_layout(n, nil());
    assert(enc_name8(n) + nil() =~= enc_name8(n));
}
pub proof fn lemma_name8_only_injective(n: Seq<u8>, n2: Seq<u8>)
    requires n.len() <= 255, n2.len() <= 255, enc_name8(n) == enc_name8(n2),
    ensures n == n2,
{
    lemma_name8_only_layout(n);
    lemma_name8_only_layout(n2);
}

// ---- optional Permissions inside a request:  has_permissions:u8 [| length:u32 | Permissions bytes] --------------------------------------
// `pb` are the permission bytes the frame carries; they are tied to a Permissions value by `enc_permissions_rel` (any entry order)
pub open spec fn opt_pb(pb: Option<Seq<u8>>) -> Seq<u8> { match pb { None => seq![0u8], Some(b) => seq![1u8] + le32(b.len() as u32) + b } }
pub open spec fn opt_perm_rel(p: Option<Permissions>, pb: Option<Seq<u8>>) -> bool {
    match (p, pb) { (None, None) => true, (Some(x), Some(b)) => enc_permissions_rel(x, b) && b.len() <= u32::MAX, _ => false }
}
pub open spec fn opt_perm_eq(a: Option<Permissions>, b: Option<Permissions>) -> bool {
    match (a, b) { (None, None) => true, (Some(x), Some(y)) => perm_eq(x, y), _ => false }
}
// the bytes the SDK encoder puts for a given value (entry order = iteration order of its own maps)
pub open spec fn opt_perm_bytes(p: Option<Permissions>) -> Option<Seq<u8>> { match p { None => None, Some(x) => Some(enc_permissions(x)) } }
pub proof fn lemma_opt_pb_layout(pb: Option<Seq<u8>>)
    requires pb matches Some(b) ==> b.len() <= u32::MAX,
    ensures
        ({
            let t = opt_pb(pb);
            &&& (pb is None ==> t.len() == 1 && t[0] == 0)
            &&& (pb matches Some(b) ==> t.len() == 5 + b.len() && t[0] == 1 && t.subrange(1, 5) == le32(b.len() as u32) && t.subrange(5, 5 + b.len() as int) == b)
        }),
{
    lemma_le_facts();
    let t = opt_pb(pb);
    if let Some(b) = pb {
        assert(t.subrange(1, 5) =~= le32(b.len() as u32));
        assert(t.subrange(5, 5 + b.len() as int) =~= b);
    }
}
pub proof fn lemma_opt_pb_injective(pb: Option<Seq<u8>>, pb2: Option<Seq<u8>>)
    requires pb matches Some(b) ==> b.len() <= u32::MAX, pb2 matches Some(b) ==> b.len() <= u32::MAX, opt_pb(pb) == opt_pb(pb2),
    ensures pb == pb2,
{
    lemma_le_facts();
    lemma_opt_pb_layout(pb);
    lemma_opt_pb_layout(pb2);
    if let Some(b) = pb {
        let b2 = pb2->0;
        assert(un_le32(le32(b.len() as u32)) == un_le32(le32(b2.len() as u32)));
    }
}

// ---- UpdatePermissions:  user Identifier | has_permissions:u8 [| length:u32 | Permissions bytes] -----------------------------------------
pub open spec fn enc_up_frame(a: Identifier, pb: Option<Seq<u8>>) -> Seq<u8> { enc_ids1(a, opt_pb(pb)) }
pub proof fn lemma_up_frame_layout(a: Identifier, pb: Option<Seq<u8>>)
    requires pb matches Some(b) ==> b.len() <= u32::MAX,
    ensures
        ({
            let f = enc_up_frame(a, pb);
            let p = 2 + a.value@.len() as int;
            &&& f == enc_identifier(a) + opt_pb(pb)
            &&& f[1] == a.length
            &&& (pb is None ==> f.len() == p + 1 && f[p] == 0)
            &&& (pb matches Some(b) ==> f.len() == p + 5 + b.len() && f[p] == 1 && f.subrange(p + 1, p + 5) == le32(b.len() as u32)
                    && f.subrange(p + 5, p + 5 + b.len() as int) == b)
        }),
{
    let f = enc_up_frame(a, pb);
    let p = 2 + a.value@.len() as int;
    let t = opt_pb(pb);
    lemma_ids1_layout(a, t);
    lemma_opt_pb_layout(pb);
    lemma_tail_at(f, p, t, 0, 1);
    if let Some(b) = pb {
        lemma_tail_at(f, p, t, 1, 5);
        lemma_tail_at(f, p, t, 5, 5 + b.len() as int);
    }
}
pub proof fn lemma_up_frame_injective(a: Identifier, pb: Option<Seq<u8>>, a2: Identifier, pb2: Option<Seq<u8>>)
    requires
        id_valid(a), id_valid(a2), pb matches Some(b) ==> b.len() <= u32::MAX, pb2 matches Some(b) ==> b.len() <= u32::MAX,
        enc_up_frame(a, pb) == enc_up_frame(a2, pb2),
    ensures id_eq(a, a2), pb == pb2,
{
    lemma_ids1_prefix_free(a, opt_pb(pb), a2, opt_pb(pb2));
    lemma_opt_pb_injective(pb, pb2);
}

// ---- CreateUser:  username_length:u8 | username | password_length:u8 | password | status:u8 | has_permissions:u8 [| length:u32 | Permissions]
pub open spec fn enc_cu_frame(u: Seq<u8>, pw: Seq<u8>, st: UserStatus, pb: Option<Seq<u8>>) -> Seq<u8> {
    enc_two_names(u, pw, seq![status_code(st)] + opt_pb(pb))
}
pub proof fn lemma_cu_frame_layout(u: Seq<u8>, pw: Seq<u8>, st: UserStatus, pb: Option<Seq<u8>>)
    requires u.len() <= 255, pw.len() <= 255, pb matches Some(b) ==> b.len() <= u32::MAX,
    ensures
        ({
            let f = enc_cu_frame(u, pw, st, pb);
            let lu = u.len() as int;
            let lp = pw.len() as int;
            let p = 2 + lu + lp;
            &&& f[0] == lu
            &&& f.subrange(1, 1 + lu) == u
            &&& f[1 + lu] == lp
            &&& f.subrange(2 + lu, 2 + lu + lp) == pw
            &&& f[p] == status_code(st)
            &&& (pb is None ==> f.len() == p + 2 && f[p + 1] == 0)
            &&& (pb matches Some(b) ==> f.len() == p + 6 + b.len() && f[p + 1] == 1 && f.subrange(p + 2, p + 6) == le32(b.len() as u32)
                    && f.subrange(p + 6, p + 6 + b.len() as int) == b)
        }),
{
    let f = enc_cu_frame(u, pw, st, pb);
    let lu = u.len() as int;
    let lp = pw.len() as int;
    let p = 2 + lu + lp;
    let t = seq![status_code(st)] + opt_pb(pb);
    let o = opt_pb(pb);
    lemma_two_names_layout(u, pw, t);
    lemma_opt_pb_layout(pb);
    assert(t.subrange(1, t.len() as int) =~= o);
    lemma_tail_at(f, p, t, 0, 1);
    lemma_tail_at(f, p, t, 1, t.len() as int);
    assert(f.subrange(p + 1, f.len() as int) == o);
    lemma_tail_at(f, p + 1, o, 0, 1);
    if let Some(b) = pb {
        lemma_tail_at(f, p + 1, o, 1, 5);
        lemma_tail_at(f, p + 1, o, 5, 5 + b.len() as int);
    }
}
pub proof fn lemma_cu_frame_injective(u: Seq<u8>, pw: Seq<u8>, st: UserStatus, pb: Option<Seq<u8>>, u2: Seq<u8>, pw2: Seq<u8>, st2: UserStatus, pb2: Option<Seq<u8>>)
    requires
        u.len() <= 255, pw.len() <= 255, u2.len() <= 255, pw2.len() <= 255,
        pb matches Some(b) ==> b.len() <= u32::MAX, pb2 matches Some(b) ==> b.len() <= u32::MAX,
        enc_cu_frame(u, pw, st, pb) == enc_cu_frame(u2, pw2, st2, pb2),
    ensures u == u2, pw == pw2, st == st2, pb == pb2,
{
    lemma_status_code_injective();
    let t = seq![status_code(st)] + opt_pb(pb);
    let t2 = seq![status_code(st2)] + opt_pb(pb2);
    lemma_two_names_prefix_free(u, pw, t, u2, pw2, t2);
    assert(t[0] == t2[0]);
    assert(t.subrange(1, t.len() as int) =~= opt_pb(pb));
    assert(t2.subrange(1, t2.len() as int) =~= opt_pb(pb2));
    lemma_opt_pb_injective(pb, pb2);
}

// ---- FlushUnsavedBuffer:  stream Identifier | topic Identifier | partition_id:u32 | fsync:u8 (1 = true) -------------------------------
pub open spec fn flush_tail(pid: u32, fsync: bool) -> Seq<u8> { le32(pid) + seq![bool_wire(fsync)] }
pub open spec fn enc_flush(m: FlushUnsavedBuffer) -> Seq<u8> { enc_ids2(m.stream_id, m.topic_id, flush_tail(m.partition_id, m.fsync)) }
pub open spec fn flush_valid(m: FlushUnsavedBuffer) -> bool { id_valid(m.stream_id) && id_valid(m.topic_id) }
pub open spec fn flush_eq(a: FlushUnsavedBuffer, b: FlushUnsavedBuffer) -> bool {
    id_eq(a.stream_id, b.stream_id) && id_eq(a.topic_id, b.topic_id) && a.partition_id == b.partition_id && a.fsync == b.fsync
}
pub proof fn lemma_flush_layout(v: FlushUnsavedBuffer)
    ensures
        ({
            let f = enc_flush(v);
            let p1 = 2 + v.stream_id.value@.len() as int;
            let p2 = p1 + 2 + v.topic_id.value@.len() as int;
            &&& f.len() == p2 + 5
            &&& f == enc_identifier(v.stream_id) + (enc_identifier(v.topic_id) + flush_tail(v.partition_id, v.fsync))
            &&& f[1] == v.stream_id.length
            &&& f.subrange(p1, f.len() as int) == enc_identifier(v.topic_id) + flush_tail(v.partition_id, v.fsync)
            &&& f[p1 + 1] == v.topic_id.length
            &&& f.subrange(p2, p2 + 4) == le32(v.partition_id)
            &&& f[p2 + 4] == bool_wire(v.fsync)
        }),
{
    lemma_le_facts();
    let f = enc_flush(v);
    let p1 = 2 + v.stream_id.value@.len() as int;
    let p2 = p1 + 2 + v.topic_id.value@.len() as int;
    let t = flush_tail(v.partition_id, v.fsync);
    lemma_ids2_layout(v.stream_id, v.topic_id, t);
    assert(t.subrange(0, 4) =~= le32(v.partition_id));
    lemma_tail_at(f, p2, t, 0, 4);
    lemma_tail_at(f, p2, t, 4, 5);
}
pub proof fn lemma_flush_injective(a: FlushUnsavedBuffer, b: FlushUnsavedBuffer)
    requires flush_valid(a), flush_valid(b), enc_flush(a) == enc_flush(b),
    ensures flush_eq(a, b),
{
    lemma_le_facts();
    let ta = flush_tail(a.partition_id, a.fsync);
    let tb = flush_tail(b.partition_id, b.fsync);
    lemma_ids2_prefix_free(a.stream_id, a.topic_id, ta, b.stream_id, b.topic_id, tb);
    assert(ta.subrange(0, 4) =~= le32(a.partition_id));
    assert(tb.subrange(0, 4) =~= le32(b.partition_id));
    assert(un_le32(le32(a.partition_id)) == un_le32(le32(b.partition_id)));
    assert(ta[4] == tb[4]);
}
pub proof fn lemma_flush_eq_enc(a: FlushUnsavedBuffer, b: FlushUnsavedBuffer)
    requires flush_eq(a, b),
    ensures enc_flush(a) == enc_flush(b), flush_valid(a) == flush_valid(b),
{}

// ---- Message (one message inside SendMessages):  id:u128 | headers_length:u32 | headers | payload_length:u32 | payload --------------------
// (headers_length 0 = no headers; the payload must not be empty; id 0 = "let the server generate one")
pub open spec fn enc_msg(id: u128, hb: Seq<u8>, length: u32, payload: Seq<u8>) -> Seq<u8> {
    le128(id) + le32(hb.len() as u32) + hb + le32(length) + payload
}
pub open spec fn msg_parts_valid(a: HdrAbs, hb: Seq<u8>, length: u32, payload: Seq<u8>) -> bool {
    hb.len() <= u32::MAX && hdr_enc_ok(a, hb) && length == payload.len() && 1 <= payload.len() <= u32::MAX
}
// the content of an optional header map (an absent map has the content of the empty map)
pub open spec fn hdr_content(h: Option<Headers>) -> HdrAbs { match h { None => hdr_none(), Some(x) => hdr_view(x) } }
pub open spec fn opt_hdr_bytes(h: Option<Headers>) -> Seq<u8> { match h { None => Seq::<u8>::empty(), Some(x) => hdr_bytes(x) } }
// b = (one message) + rest
pub proof fn lemma_msg_layout(id: u128, hb: Seq<u8>, length: u32, payload: Seq<u8>, rest: Seq<u8>)
    requires hb.len() <= u32::MAX,
    ensures
        ({
            let b = enc_msg(id, hb, length, payload) + rest;
            let h = hb.len() as int;
            &&& b.len() == 24 + h + payload.len() + rest.len()
            &&& b.subrange(0, 16) == le128(id)
            &&& b.subrange(16, 20) == le32(hb.len() as u32)
            &&& b.subrange(20, 20 + h) == hb
            &&& b.subrange(20 + h, 24 + h) == le32(length)
            &&& b.subrange(24 + h, 24 + h + payload.len() as int) == payload
            &&& b.subrange(24 + h + payload.len() as int, b.len() as int) == rest
        }),
{
    lemma_le_facts();
    lemma_le128_facts();
    let b = enc_msg(id, hb, length, payload) + rest;
    let h = hb.len() as int;
    assert(b.subrange(0, 16) =~= le128(id));
    assert(b.subrange(16, 20) =~= le32(hb.len() as u32));
    assert(b.subrange(20, 20 + h) =~= hb);
    assert(b.subrange(20 + h, 24 + h) =~= le32(length));
    assert(b.subrange(24 + h, 24 + h + payload.len() as int) =~= payload);
    assert(b.subrange(24 + h + payload.len() as int, b.len() as int) =~= rest);
}
// two messages whose payload lengths are what their length fields say and that start the same buffer are equal, and so are the rests
pub proof fn lemma_msg_prefix_free(id: u128, hb: Seq<u8>, length: u32, payload: Seq<u8>, rest: Seq<u8>, id2: u128, hb2: Seq<u8>, length2: u32, payload2: Seq<u8>, rest_2: Seq<u8>)
    requires
        hb.len() <= u32::MAX, hb2.len() <= u32::MAX, length == payload.len(), length2 == payload2.len(),
        enc_msg(id, hb, length, payload) + rest == enc_msg(id2, hb2, length2, payload2) + rest_2,
    ensures id == id2, hb == hb2, length == length2, payload == payload2, rest == rest_2,
{
    lemma_le_facts();
    lemma_le128_facts();
    lemma_msg_layout(id, hb, length, payload, rest);
    lemma_msg_layout(id2, hb2, length2, payload2, rest_2);
    assert(un_le128(le128(id)) == un_le128(le128(id2)));
    assert(un_le32(le32(hb.len() as u32)) == un_le32(le32(hb2.len() as u32)));
    assert(un_le32(le32(length)) == un_le32(le32(length2)));
}
// Message::get_size_bytes (Sizeable; iterates the header map): NOT extracted. In this unit it only feeds `BytesMut::with_capacity` of
// Message::to_bytes. Assumed: it returns (no arithmetic overflow) a size an allocation can have.
impl Message {
    #[verifier::external_body]
    pub fn get_size_bytes(&self) -> (r: IggyByteSize)
        ensures r.0 <= isize::MAX,
    { unimplemented!() }
}
