// Concrete witnesses on the REAL code for the refuted clauses of unit authn_gate (C09):
//   [C09.authz.get_snapshot]            System::get_snapshot consults no permission rule
//   [C09.authn.get_stats], [C09.authz.get_stats]   the binary GetStats command is served without authentication / permission
use iggy::client::{Client, SystemClient, UserClient};
use iggy::models::user_status::UserStatus;
use iggy::snapshot::{SnapshotCompression, SystemSnapshotType};
use iggy::tcp::client::TcpClient;
use iggy::tcp::config::TcpClientConfig;
use server::configs::server::{DataMaintenanceConfig, PersonalAccessTokenConfig};
use server::configs::system::SystemConfig;
use server::configs::tcp::TcpConfig;
use server::streaming::session::Session;
use server::streaming::systems::system::{SharedSystem, System};
use std::net::{Ipv4Addr, SocketAddr};
use std::sync::Arc;

#[tokio::main]
async fn main() {
    let dir = tempfile::TempDir::new().unwrap();
    let config = Arc::new(SystemConfig { path: dir.path().to_str().unwrap().to_string(), ..Default::default() });
    let mut system = System::new(config, DataMaintenanceConfig::default(), PersonalAccessTokenConfig::default());
    system.init().await.unwrap();
    let ip = SocketAddr::new(Ipv4Addr::LOCALHOST.into(), 1234);
    let root = Session::stateless(1, ip);
    // a user WITHOUT any permission record
    let nobody = system.create_user(&root, "nobody", "secret123", UserStatus::Active, None).await.unwrap().id;
    let s = Session::stateless(nobody, ip);
    println!("user 'nobody' (id {nobody}, permissions: None):");
    println!("  get_clients  -> {:?}   (servers class: refused, as it should)", system.get_clients(&s).await.map(|v| v.len()).map_err(|e| e.to_string()));
    println!("  get_snapshot -> {:?}   (property: refused — no permission grants it)",
        system.get_snapshot(&s, SnapshotCompression::Stored, vec![SystemSnapshotType::Test]).await.map(|z| format!("{} bytes of zip", z.0.len())).map_err(|e| e.to_string()));

    // the real TCP server on the real System, the real SDK client, NO login
    let shared = SharedSystem::new(system);
    let addr = server::tcp::tcp_server::start(TcpConfig { address: "127.0.0.1:0".to_string(), ..Default::default() }, shared.clone()).await;
    let client = TcpClient::create(Arc::new(TcpClientConfig { server_address: addr.to_string(), ..Default::default() })).unwrap();
    client.connect().await.unwrap();
    println!("TCP connection that never logged in:");
    println!("  get_stats -> {:?}   (property: refused — not ping/login)",
        client.get_stats().await.map(|st| format!("hostname={} os={} kernel={} streams={} clients={}", st.hostname, st.os_name, st.kernel_version, st.streams_count, st.clients_count)).map_err(|e| e.to_string()));
    client.login_user("nobody", "secret123").await.unwrap();
    println!("TCP connection logged in as 'nobody' (no permissions):");
    println!("  get_clients -> {:?}   (refused, as it should)", client.get_clients().await.map(|v| v.len()).map_err(|e| e.to_string()));
    println!("  get_stats   -> {:?}   (property: refused — read_servers documents get_stats)",
        client.get_stats().await.map(|st| format!("hostname={} streams={}", st.hostname, st.streams_count)).map_err(|e| e.to_string()));
}
