// ---- unit prelude: authn_gate (C09) ----------------------------------------------------------------
// Stand-ins (R4) and spec vocabulary. Nothing here re-states a function body of /repo.
// The permission RULES are verified in unit `permissioner`; here the Permissioner is a stand-in whose rule methods
// decide an uninterpreted predicate `allows(rule, user, stream, topic)` ("the rule is a function of the tables":
// exactly what permissioner's [C09.shape.*] clauses provide). This unit proves that the System operations GATE:
// they refuse unauthenticated sessions, consult the rule of their own class with the ids of the RESOLVED entities,
// and do so before any effect.

// --- names: opaque strings; only equality is observable (A-std: String::clone/to_owned/to_string copy the value) ---
#[verifier::external_body]
#[derive(Debug)]
pub struct Name { s: String }
impl Name {
    #[verifier::external_body]
    pub fn to_owned(&self) -> (r: Name) ensures r == *self { unimplemented!() }
    #[verifier::external_body]
    pub fn to_string(&self) -> (r: Name) ensures r == *self { unimplemented!() }
}
impl Clone for Name {
    #[verifier::external_body]
    fn clone(&self) -> (r: Name) ensures r == *self { unimplemented!() }
}
// A-std: `ToOwned for T: Clone` is `clone` (used as `Option<String>::to_owned()`)
pub assume_specification<T: Clone> [<T as std::borrow::ToOwned>::to_owned] (_0: &T) -> (r: T)
    ensures call_ensures(T::clone, (_0,), r);

#[derive(Debug)]
pub enum IggyError {
    InvalidIdentifier,
    StaleClient,
    Unauthenticated,
    Unauthorized,
    InvalidCommand,
    StreamIdNotFound(u32),
    StreamNameNotFound(Name),
    StreamNameAlreadyExists(Name),
    StreamIdAlreadyExists(u32),
    CannotDeleteStream(u32),
    TopicIdNotFound(u32, u32),
    TopicNameNotFound(Name, Name),
    InvalidMessagesCount,
    NoPartitions(u32, u32),
    CannotDecryptData,
    CannotEncryptData,
    UserAlreadyExists,
    UsersLimitReached,
    CannotDeleteUser(u32),
    CannotChangePermissions(u32),
    ResourceNotFound(Name),
    InvalidCredentials,
    PersonalAccessTokensLimitReached(u32, u32),
    PersonalAccessTokenAlreadyExists(Name, u32),
    ClientNotFound(u32),
    Io,
}

// --- R6: the session's atomics are plain cells (no other task touches the session during one request: A-seq) ---
pub struct AtomU32 { pub v: u32 }
impl AtomU32 { pub fn load(&self) -> (r: u32) ensures r == self.v { self.v } }
pub struct AtomBool { pub v: bool }
impl AtomBool { pub fn load(&self) -> (r: bool) ensures r == self.v { self.v } }
// the user a session acts for, and what "the connection has authenticated" means: a login stored a user id in the
// session (user id 0 = nobody: Session::from_client_id / clear_user_id)
pub open spec fn uid(s: &Session) -> u32 { s.user_id.v }
pub open spec fn authenticated(s: &Session) -> bool { s.user_id.v != 0 }

// R6: process-global id allocators (`static X: AtomicU32`): opaque cells handing out arbitrary ids (their policy is C05's)
#[verifier::external_body]
pub struct Counter32 { v: std::sync::atomic::AtomicU32 }
impl Counter32 {
    #[verifier::external_body]
    pub const fn new(v: u32) -> (r: Counter32) { Counter32 { v: std::sync::atomic::AtomicU32::new(v) } }
    #[verifier::external_body]
    pub fn fetch_add(&self, n: u32) -> (r: u32) { unimplemented!() }
    #[verifier::external_body]
    pub fn load(&self) -> (r: u32) { unimplemented!() }
    #[verifier::external_body]
    pub fn store(&self, n: u32) { unimplemented!() }
}
exec static CURRENT_STREAM_ID: Counter32 ensures true { Counter32::new(1) }
exec static USER_ID: Counter32 ensures true { Counter32::new(1) }

// --- Identifier payload accessors (sdk): the payload is abstracted to two uninterpreted projections; `kind`/`length`
// are the real (extracted) fields ---
impl Identifier {
    pub uninterp spec fn num(&self) -> u32;
    pub uninterp spec fn text(&self) -> Name;
    #[verifier::external_body]
    pub fn get_u32_value(&self) -> (r: Result<u32, IggyError>)
        ensures r == (if self.kind == IdKind::Numeric && self.length == 4 { Ok::<u32, IggyError>(self.num()) } else { Err::<u32, IggyError>(IggyError::InvalidIdentifier) }),
    { unimplemented!() }
    #[verifier::external_body]
    pub fn get_cow_str_value(&self) -> (r: Result<Name, IggyError>)
        ensures r == (if self.kind == IdKind::Name { Ok::<Name, IggyError>(self.text()) } else { Err::<Name, IggyError>(IggyError::InvalidIdentifier) }),
    { unimplemented!() }
    // sdk Identifier::numeric: 0 is refused, otherwise the 4-byte numeric identifier of `value`
    #[verifier::external_body]
    pub fn numeric(value: u32) -> (r: Result<Identifier, IggyError>)
        ensures match r { Ok(i) => value != 0 && i.kind == IdKind::Numeric && i.length == 4 && i.num() == value, Err(_) => value == 0 },
    { unimplemented!() }
    // sdk Identifier::named: an empty or over-long (> 255 bytes) name is refused, otherwise the name identifier of `value`
    // (never a numeric one, whatever the characters)
    #[verifier::external_body]
    pub fn named(value: &Name) -> (r: Result<Identifier, IggyError>)
        ensures r matches Ok(i) ==> i.kind == IdKind::Name && i.text() == *value,
    { unimplemented!() }
    #[verifier::external_body]
    pub fn to_string(&self) -> (r: Name) { unimplemented!() }
}
impl TryFrom<u32> for Identifier {
    type Error = IggyError;
    // sdk: `Identifier::numeric(value)`
    #[verifier::external_body]
    fn try_from(value: u32) -> (r: Result<Identifier, IggyError>)
        ensures match r { Ok(i) => value != 0 && i.kind == IdKind::Numeric && i.length == 4 && i.num() == value, Err(_) => value == 0 },
    { unimplemented!() }
}
impl TryFrom<Name> for Identifier {
    type Error = IggyError;
    // sdk: `Identifier::from_str` (a string of digits becomes a numeric identifier): no contract
    #[verifier::external_body]
    fn try_from(value: Name) -> (r: Result<Identifier, IggyError>) { unimplemented!() }
}
impl<'a> TryFrom<&'a Name> for Identifier {
    type Error = IggyError;
    #[verifier::external_body]
    fn try_from(value: &'a Name) -> (r: Result<Identifier, IggyError>) { unimplemented!() }
}

// --- opaque values passed through (configuration, storage, wire types) ---
#[verifier::external_body]
pub struct SystemConfig { x: u8 }
impl Clone for SystemConfig { #[verifier::external_body] fn clone(&self) -> (r: Self) { unimplemented!() } }
#[verifier::external_body]
pub struct SystemStorage { x: u8 }
impl Clone for SystemStorage { #[verifier::external_body] fn clone(&self) -> (r: Self) { unimplemented!() } }
#[derive(Clone, Copy)]
pub struct IggyExpiry(pub u64);
#[derive(Clone, Copy)]
pub struct CompressionAlgorithm(pub u8);
#[derive(Clone, Copy)]
pub struct MaxTopicSize(pub u64);
#[derive(Clone, Copy)]
pub struct UserStatus(pub u8);
#[derive(Clone, Copy)]
pub struct PollingConsumer(pub u64);
#[verifier::external_body] pub struct PollingStrategy { x: u8 }
#[verifier::external_body] pub struct Consumer { x: u8 }
#[verifier::external_body] pub struct Partitioning { x: u8 }
#[verifier::external_body] pub struct Confirmation { x: u8 }
#[verifier::external_body] pub struct ConsumerOffsetInfo { x: u8 }
#[verifier::external_body] pub struct ClientRef { x: u8 }
#[verifier::external_body] pub struct Snapshot { x: u8 }
#[verifier::external_body] pub struct Headers { x: u8 }
impl Clone for Headers { #[verifier::external_body] fn clone(&self) -> (r: Self) { unimplemented!() } }
pub struct IggyTimestamp(pub u64);
impl IggyTimestamp { #[verifier::external_body] pub fn now() -> (r: IggyTimestamp) { unimplemented!() } }
#[verifier::external_body]
pub struct Permissions { x: u8 }
impl Clone for Permissions { #[verifier::external_body] fn clone(&self) -> (r: Self) ensures r == *self { unimplemented!() } }

// opaque byte buffer (bytes::Bytes) and size (IggyByteSize) with the operations the message path uses
#[verifier::external_body] pub struct BytesS { x: u8 }
impl BytesS {
    #[verifier::external_body] pub fn from(v: Vec<u8>) -> (r: BytesS) { unimplemented!() }
    #[verifier::external_body] pub fn len(&self) -> (r: usize) { unimplemented!() }
}
#[derive(Clone, Copy)]
pub struct ByteSize(pub u64);
impl ByteSize {
    #[verifier::external_body] pub fn default() -> (r: ByteSize) { unimplemented!() }
    #[verifier::external_body] pub fn from(v: u64) -> (r: ByteSize) { unimplemented!() }
}
impl core::ops::AddAssign for ByteSize {
    #[verifier::external_body]
    fn add_assign(&mut self, rhs: ByteSize) { unimplemented!() }
}
impl vstd::std_specs::ops::AddAssignSpecImpl for ByteSize {
    open spec fn obeys_add_assign_spec() -> bool { false }
    open spec fn add_assign_req(&self, rhs: ByteSize) -> bool { true }
    open spec fn add_assign_spec(&self, rhs: ByteSize) -> &ByteSize { self }
}
// link pass 2: encrypt / decrypt / Message::get_size_bytes below are contract-less (totality only) - nothing to link. The real
// functions are under contract in unit encryption ([C19.shape.kind.encrypt], [C19.poll.dec.kind], [C19.shape.size]); the real decrypt
// PANICS on data shorter than 12 bytes (its `requires` there) - irrelevant here: this unit makes no no-panic claim.
#[verifier::external_body]
pub struct EncryptorKind { x: u8 }
impl EncryptorKind {
    #[verifier::external_body] pub fn encrypt(&self, data: &BytesS) -> (r: Result<Vec<u8>, IggyError>) { unimplemented!() }
    #[verifier::external_body] pub fn decrypt(&self, data: &BytesS) -> (r: Result<Vec<u8>, IggyError>) { unimplemented!() }
}
#[verifier::external_body]
pub struct CacheMemoryTracker { x: u8 }
impl CacheMemoryTracker {
    #[verifier::external_body] pub fn get_instance() -> (r: Option<CacheMemoryTracker>) { unimplemented!() }
    #[verifier::external_body] pub fn will_fit_into_cache(&self, requested_size: ByteSize) -> (r: bool) { unimplemented!() }
}
impl Message {
    #[verifier::external_body] pub fn get_size_bytes(&self) -> (r: ByteSize) { unimplemented!() }
}
// R8 schema: `messages.iter().map(|msg| msg.get_size_bytes()).sum::<IggyByteSize>()`
#[verifier::external_body]
pub fn sum_get_size_bytes(messages: &Vec<Message>) -> (r: ByteSize) { unimplemented!() }
pub mod crypto {
    use super::*;
    #[verifier::external_body] pub fn verify_password(password: &Name, hash: &Name) -> (r: bool) { unimplemented!() }
    #[verifier::external_body] pub fn hash_password(password: &Name) -> (r: Name) { unimplemented!() }
}

// R8 closure schemas over a map's values (std semantics of Iterator::any / Iterator::find over HashMap::iter/values)
impl<K, V> HashMap<K, V> {
    #[verifier::external_body]
    pub fn any_value_spec(&self, Ghost(f): Ghost<spec_fn(V) -> bool>) -> (r: bool)
        ensures r == exists|k: K| #[trigger] self@.contains_key(k) && f(self@[k]),
    { unimplemented!() }
    #[verifier::external_body]
    pub fn find_entry_spec(&self, Ghost(f): Ghost<spec_fn(V) -> bool>) -> (r: Option<(&K, &V)>)
        ensures match r {
            Some(e) => self@.contains_key(*e.0) && *e.1 == self@[*e.0] && f(*e.1),
            None => forall|k: K| #[trigger] self@.contains_key(k) ==> !f(self@[k]),
        },
    { unimplemented!() }
}

// ---- the Permissioner stand-in ---------------------------------------------------------------------
// the operation classes: one per rule method of the real Permissioner (server/src/streaming/users/permissioner_rules/*.rs)
pub enum Rule {
    GetStats, GetClients, GetClient, GetUser, GetUsers, CreateUser, DeleteUser, UpdateUser, UpdatePermissions, ChangePassword, GetStreams, CreateStream,
    GetStream, UpdateStream, DeleteStream, PurgeStream, GetTopics, CreateTopic,
    GetTopic, UpdateTopic, DeleteTopic, PurgeTopic, CreatePartitions, DeletePartitions, PollMessages, AppendMessages, CreateConsumerGroup,
    DeleteConsumerGroup, GetConsumerGroup, GetConsumerGroups, JoinConsumerGroup, LeaveConsumerGroup, GetConsumerOffset, StoreConsumerOffset, DeleteConsumerOffset,
}
#[verifier::external_body]
pub struct Permissioner { x: u8 }
#[verifier::external_body]
pub struct UserRows { x: u8 }
// what a rule method answers: Ok exactly when the rule's decision predicate holds for the ids it was GIVEN; and a
// table without any row for user id 0 (`no_anon`, = no_rows(p, 0) of unit permissioner) denies user 0 everything
// (every rule of unit permissioner is Ok only if some row of the user exists: [C09.sound.*])
pub open spec fn rule_result(p: &Permissioner, r: Result<(), IggyError>, rule: Rule, u: u32, s: u32, t: u32) -> bool {
    &&& r is Ok <==> p.allows(rule, u, s, t)
    &&& (p.no_anon() && u == 0) ==> r is Err
}
impl Permissioner {
    pub uninterp spec fn allows(&self, rule: Rule, user_id: u32, stream_id: u32, topic_id: u32) -> bool;
    pub uninterp spec fn no_anon(&self) -> bool;
    // the denormalisation invariant of the tables (perm_wf of unit permissioner): precondition of the five message rules
    pub uninterp spec fn wf(&self) -> bool;
    // the rows of a user in the permission tables (abstract here; the link interprets it as the user's slice of the six real tables).
    // (before link pass 2 this was `-> Option<Option<Permissions>>`, "the record the rows denormalise": not a function of the tables)
    pub uninterp spec fn rows(&self, user_id: u32) -> UserRows;
    // LINKED: units/permissioner/lemmas.rs, harnesses [C09.link.authn_gate.<method>], prove every stub contract of this impl block from the real
    // functions, under the interpretation of allows / no_anon / wf / rows given there (mirror edits there)
    #[verifier::external_body]
    pub fn get_stats(&self, user_id: u32) -> (r: Result<(), IggyError>)
        ensures rule_result(self, r, Rule::GetStats, user_id, 0, 0),
    { unimplemented!() }
    #[verifier::external_body]
    pub fn get_clients(&self, user_id: u32) -> (r: Result<(), IggyError>)
        ensures rule_result(self, r, Rule::GetClients, user_id, 0, 0),
    { unimplemented!() }
    #[verifier::external_body]
    pub fn get_client(&self, user_id: u32) -> (r: Result<(), IggyError>)
        ensures rule_result(self, r, Rule::GetClient, user_id, 0, 0),
    { unimplemented!() }
    #[verifier::external_body]
    pub fn get_user(&self, user_id: u32) -> (r: Result<(), IggyError>)
        ensures rule_result(self, r, Rule::GetUser, user_id, 0, 0),
    { unimplemented!() }
    #[verifier::external_body]
    pub fn get_users(&self, user_id: u32) -> (r: Result<(), IggyError>)
        ensures rule_result(self, r, Rule::GetUsers, user_id, 0, 0),
    { unimplemented!() }
    #[verifier::external_body]
    pub fn create_user(&self, user_id: u32) -> (r: Result<(), IggyError>)
        ensures rule_result(self, r, Rule::CreateUser, user_id, 0, 0),
    { unimplemented!() }
    #[verifier::external_body]
    pub fn delete_user(&self, user_id: u32) -> (r: Result<(), IggyError>)
        ensures rule_result(self, r, Rule::DeleteUser, user_id, 0, 0),
    { unimplemented!() }
    #[verifier::external_body]
    pub fn update_user(&self, user_id: u32) -> (r: Result<(), IggyError>)
        ensures rule_result(self, r, Rule::UpdateUser, user_id, 0, 0),
    { unimplemented!() }
    #[verifier::external_body]
    pub fn update_permissions(&self, user_id: u32) -> (r: Result<(), IggyError>)
        ensures rule_result(self, r, Rule::UpdatePermissions, user_id, 0, 0),
    { unimplemented!() }
    #[verifier::external_body]
    pub fn change_password(&self, user_id: u32) -> (r: Result<(), IggyError>)
        ensures rule_result(self, r, Rule::ChangePassword, user_id, 0, 0),
    { unimplemented!() }
    #[verifier::external_body]
    pub fn get_streams(&self, user_id: u32) -> (r: Result<(), IggyError>)
        ensures rule_result(self, r, Rule::GetStreams, user_id, 0, 0),
    { unimplemented!() }
    #[verifier::external_body]
    pub fn create_stream(&self, user_id: u32) -> (r: Result<(), IggyError>)
        ensures rule_result(self, r, Rule::CreateStream, user_id, 0, 0),
    { unimplemented!() }
    #[verifier::external_body]
    pub fn get_stream(&self, user_id: u32, stream_id: u32) -> (r: Result<(), IggyError>)
        ensures rule_result(self, r, Rule::GetStream, user_id, stream_id, 0),
    { unimplemented!() }
    #[verifier::external_body]
    pub fn update_stream(&self, user_id: u32, stream_id: u32) -> (r: Result<(), IggyError>)
        ensures rule_result(self, r, Rule::UpdateStream, user_id, stream_id, 0),
    { unimplemented!() }
    #[verifier::external_body]
    pub fn delete_stream(&self, user_id: u32, stream_id: u32) -> (r: Result<(), IggyError>)
        ensures rule_result(self, r, Rule::DeleteStream, user_id, stream_id, 0),
    { unimplemented!() }
    #[verifier::external_body]
    pub fn purge_stream(&self, user_id: u32, stream_id: u32) -> (r: Result<(), IggyError>)
        ensures rule_result(self, r, Rule::PurgeStream, user_id, stream_id, 0),
    { unimplemented!() }
    #[verifier::external_body]
    pub fn get_topics(&self, user_id: u32, stream_id: u32) -> (r: Result<(), IggyError>)
        ensures rule_result(self, r, Rule::GetTopics, user_id, stream_id, 0),
    { unimplemented!() }
    #[verifier::external_body]
    pub fn create_topic(&self, user_id: u32, stream_id: u32) -> (r: Result<(), IggyError>)
        ensures rule_result(self, r, Rule::CreateTopic, user_id, stream_id, 0),
    { unimplemented!() }
    #[verifier::external_body]
    pub fn get_topic(&self, user_id: u32, stream_id: u32, topic_id: u32) -> (r: Result<(), IggyError>)
        ensures rule_result(self, r, Rule::GetTopic, user_id, stream_id, topic_id),
    { unimplemented!() }
    #[verifier::external_body]
    pub fn update_topic(&self, user_id: u32, stream_id: u32, topic_id: u32) -> (r: Result<(), IggyError>)
        ensures rule_result(self, r, Rule::UpdateTopic, user_id, stream_id, topic_id),
    { unimplemented!() }
    #[verifier::external_body]
    pub fn delete_topic(&self, user_id: u32, stream_id: u32, topic_id: u32) -> (r: Result<(), IggyError>)
        ensures rule_result(self, r, Rule::DeleteTopic, user_id, stream_id, topic_id),
    { unimplemented!() }
    #[verifier::external_body]
    pub fn purge_topic(&self, user_id: u32, stream_id: u32, topic_id: u32) -> (r: Result<(), IggyError>)
        ensures rule_result(self, r, Rule::PurgeTopic, user_id, stream_id, topic_id),
    { unimplemented!() }
    #[verifier::external_body]
    pub fn create_partitions(&self, user_id: u32, stream_id: u32, topic_id: u32) -> (r: Result<(), IggyError>)
        ensures rule_result(self, r, Rule::CreatePartitions, user_id, stream_id, topic_id),
    { unimplemented!() }
    #[verifier::external_body]
    pub fn delete_partitions(&self, user_id: u32, stream_id: u32, topic_id: u32) -> (r: Result<(), IggyError>)
        ensures rule_result(self, r, Rule::DeletePartitions, user_id, stream_id, topic_id),
    { unimplemented!() }
    #[verifier::external_body]
    pub fn poll_messages(&self, user_id: u32, stream_id: u32, topic_id: u32) -> (r: Result<(), IggyError>)
        requires self.wf(),
        ensures rule_result(self, r, Rule::PollMessages, user_id, stream_id, topic_id),
    { unimplemented!() }
    #[verifier::external_body]
    pub fn append_messages(&self, user_id: u32, stream_id: u32, topic_id: u32) -> (r: Result<(), IggyError>)
        requires self.wf(),
        ensures rule_result(self, r, Rule::AppendMessages, user_id, stream_id, topic_id),
    { unimplemented!() }
    #[verifier::external_body]
    pub fn create_consumer_group(&self, user_id: u32, stream_id: u32, topic_id: u32) -> (r: Result<(), IggyError>)
        ensures rule_result(self, r, Rule::CreateConsumerGroup, user_id, stream_id, topic_id),
    { unimplemented!() }
    #[verifier::external_body]
    pub fn delete_consumer_group(&self, user_id: u32, stream_id: u32, topic_id: u32) -> (r: Result<(), IggyError>)
        ensures rule_result(self, r, Rule::DeleteConsumerGroup, user_id, stream_id, topic_id),
    { unimplemented!() }
    #[verifier::external_body]
    pub fn get_consumer_group(&self, user_id: u32, stream_id: u32, topic_id: u32) -> (r: Result<(), IggyError>)
        ensures rule_result(self, r, Rule::GetConsumerGroup, user_id, stream_id, topic_id),
    { unimplemented!() }
    #[verifier::external_body]
    pub fn get_consumer_groups(&self, user_id: u32, stream_id: u32, topic_id: u32) -> (r: Result<(), IggyError>)
        ensures rule_result(self, r, Rule::GetConsumerGroups, user_id, stream_id, topic_id),
    { unimplemented!() }
    #[verifier::external_body]
    pub fn join_consumer_group(&self, user_id: u32, stream_id: u32, topic_id: u32) -> (r: Result<(), IggyError>)
        ensures rule_result(self, r, Rule::JoinConsumerGroup, user_id, stream_id, topic_id),
    { unimplemented!() }
    #[verifier::external_body]
    pub fn leave_consumer_group(&self, user_id: u32, stream_id: u32, topic_id: u32) -> (r: Result<(), IggyError>)
        ensures rule_result(self, r, Rule::LeaveConsumerGroup, user_id, stream_id, topic_id),
    { unimplemented!() }
    #[verifier::external_body]
    pub fn get_consumer_offset(&self, user_id: u32, stream_id: u32, topic_id: u32) -> (r: Result<(), IggyError>)
        requires self.wf(),
        ensures rule_result(self, r, Rule::GetConsumerOffset, user_id, stream_id, topic_id),
    { unimplemented!() }
    #[verifier::external_body]
    pub fn store_consumer_offset(&self, user_id: u32, stream_id: u32, topic_id: u32) -> (r: Result<(), IggyError>)
        requires self.wf(),
        ensures rule_result(self, r, Rule::StoreConsumerOffset, user_id, stream_id, topic_id),
    { unimplemented!() }
    #[verifier::external_body]
    pub fn delete_consumer_offset(&self, user_id: u32, stream_id: u32, topic_id: u32) -> (r: Result<(), IggyError>)
        requires self.wf(),
        ensures rule_result(self, r, Rule::DeleteConsumerOffset, user_id, stream_id, topic_id),
    { unimplemented!() }
    // [C09.tables.*.others] of unit permissioner: the rows of every user other than `user_id` are untouched.
    // (link pass 2 dropped the first clause `final(self).rows(user_id) == Some(permissions)` / `.. is None`: it said more than
    //  [C09.tables.*.rows] proves — the tables do not determine the record — and no proof of this unit used it)
    #[verifier::external_body]
    pub fn init_permissions_for_user(&mut self, user_id: u32, permissions: Option<Permissions>)
        ensures
            forall|v: u32| v != user_id ==> #[trigger] final(self).rows(v) == old(self).rows(v),
            user_id != 0 ==> final(self).no_anon() == old(self).no_anon(),
    { unimplemented!() }
    #[verifier::external_body]
    pub fn update_permissions_for_user(&mut self, user_id: u32, permissions: Option<Permissions>)
        ensures
            forall|v: u32| v != user_id ==> #[trigger] final(self).rows(v) == old(self).rows(v),
            user_id != 0 ==> final(self).no_anon() == old(self).no_anon(),
    { unimplemented!() }
    #[verifier::external_body]
    pub fn delete_permissions_for_user(&mut self, user_id: u32)
        ensures
            forall|v: u32| v != user_id ==> #[trigger] final(self).rows(v) == old(self).rows(v),
            user_id != 0 ==> final(self).no_anon() == old(self).no_anon(),
    { unimplemented!() }
}
// "a rule check of class `rule` on (stream_id, topic_id) has succeeded": `allows` is uninterpreted, so the only way to
// establish this at a call site is the Ok answer of that rule method for exactly these ids earlier on the same path.
// It is the precondition of the effectful callees below ([C09.order.*]: the permission check comes BEFORE the effect).
pub open spec fn cleared(rule: Rule, stream_id: u32, topic_id: u32) -> bool {
    exists|p: Permissioner, u: u32| #[trigger] p.allows(rule, u, stream_id, topic_id)
}

// ---- collaborators of the System operations (other subsystems; no contract unless an effect is gated) -----
#[verifier::external_body]
pub struct Metrics { x: u8 }
impl Metrics {
    #[verifier::external_body] pub fn increment_streams(&self, n: u32) { unimplemented!() }
    #[verifier::external_body] pub fn decrement_streams(&self, n: u32) { unimplemented!() }
    #[verifier::external_body] pub fn increment_topics(&self, n: u32) { unimplemented!() }
    #[verifier::external_body] pub fn decrement_topics(&self, n: u32) { unimplemented!() }
    #[verifier::external_body] pub fn increment_partitions(&self, n: u32) { unimplemented!() }
    #[verifier::external_body] pub fn decrement_partitions(&self, n: u32) { unimplemented!() }
    #[verifier::external_body] pub fn increment_segments(&self, n: u32) { unimplemented!() }
    #[verifier::external_body] pub fn decrement_segments(&self, n: u32) { unimplemented!() }
    #[verifier::external_body] pub fn increment_messages(&self, n: u64) { unimplemented!() }
    #[verifier::external_body] pub fn decrement_messages(&self, n: u64) { unimplemented!() }
    #[verifier::external_body] pub fn increment_users(&self, n: u32) { unimplemented!() }
    #[verifier::external_body] pub fn decrement_users(&self, n: u32) { unimplemented!() }
}
// the client manager (verified in unit client_memberships) sits behind a lock and is mutated through `&self`
#[verifier::external_body]
pub struct ClientManager { x: u8 }
impl ClientManager {
    #[verifier::external_body] pub fn delete_consumer_groups_for_stream(&self, stream_id: u32) { unimplemented!() }
    #[verifier::external_body] pub fn delete_consumer_groups_for_topic(&self, stream_id: u32, topic_id: u32) { unimplemented!() }
    #[verifier::external_body] pub fn leave_consumer_group(&self, client_id: u32, stream_id: u32, topic_id: u32, group_id: u32) -> (r: Result<(), IggyError>) { unimplemented!() }
    #[verifier::external_body]
    pub fn join_consumer_group(&self, client_id: u32, stream_id: u32, topic_id: u32, group_id: u32) -> (r: Result<(), IggyError>)
        requires cleared(Rule::JoinConsumerGroup, stream_id, topic_id), //@requires [C09.order.join_consumer_group.membership]
    { unimplemented!() }
    #[verifier::external_body] pub fn delete_clients_for_user(&self, user_id: u32) -> (r: Result<(), IggyError>) { unimplemented!() }
    #[verifier::external_body] pub fn clear_user_id(&self, client_id: u32) -> (r: Result<(), IggyError>) { unimplemented!() }
    #[verifier::external_body] pub fn try_get_client(&self, client_id: u32) -> (r: Option<ClientRef>) { unimplemented!() }
    #[verifier::external_body] pub fn get_clients(&self) -> (r: Vec<ClientRef>) { unimplemented!() }
}
pub struct ConsumerGroupMember { pub id: u32 }
pub struct ConsumerGroup { pub group_id: u32 }
impl ConsumerGroup {
    #[verifier::external_body] pub fn get_members(&self) -> (r: Vec<&ConsumerGroupMember>) { unimplemented!() }
}

// ---- resolution of client-supplied identifiers (same vocabulary as unit catalogue_maps) -----------------
// what an Identifier denotes in a name index (None: malformed identifier or unknown name)
pub open spec fn denotes(ident: &Identifier, idx: Map<Name, u32>) -> Option<u32> {
    if ident.kind == IdKind::Numeric {
        if ident.length == 4 { Some(ident.num()) } else { None }
    } else {
        if idx.contains_key(ident.text()) { Some(idx[ident.text()]) } else { None }
    }
}
pub open spec fn stream_of(s: &System, ident: &Identifier) -> Option<u32> {
    match denotes(ident, s.streams_ids@) {
        Some(id) => if s.streams@.contains_key(id) { Some(id) } else { None },
        None => None,
    }
}
pub open spec fn topic_of(s: &Stream, ident: &Identifier) -> Option<u32> {
    match denotes(ident, s.topics_ids@) {
        Some(id) => if s.topics@.contains_key(id) { Some(id) } else { None },
        None => None,
    }
}
// the ENTITY a request addresses: the stream record (and the topic record in it) the identifiers resolve to.
// Permission is to be checked on the ids of these records (`.stream_id`, `.topic_id`), never on a client-supplied number.
pub open spec fn stream_at(s: &System, sid: &Identifier) -> Option<Stream> {
    match stream_of(s, sid) { Some(k) => Some(s.streams@[k]), None => None }
}
pub open spec fn topic_in(st: &Stream, tid: &Identifier) -> Option<Topic> {
    match topic_of(st, tid) { Some(k) => Some(st.topics@[k]), None => None }
}
pub open spec fn topic_at(s: &System, sid: &Identifier, tid: &Identifier) -> Option<(Stream, Topic)> {
    match stream_at(s, sid) {
        Some(st) => match topic_in(&st, tid) { Some(tp) => Some((st, tp)), None => None },
        None => None,
    }
}
// the gate of the three operation shapes: the session has authenticated AND the target resolves AND the rule of the
// operation's class holds for (session user, id of the resolved stream, id of the resolved topic)
pub open spec fn may_global(s: &System, session: &Session, rule: Rule) -> bool {
    authenticated(session) && s.permissioner.allows(rule, uid(session), 0, 0)
}
pub open spec fn may_stream(s: &System, session: &Session, rule: Rule, sid: &Identifier) -> bool {
    authenticated(session) && (stream_at(s, sid) matches Some(st) && s.permissioner.allows(rule, uid(session), st.stream_id, 0))
}
pub open spec fn may_topic(s: &System, session: &Session, rule: Rule, sid: &Identifier, tid: &Identifier) -> bool {
    authenticated(session)
    && (topic_at(s, sid, tid) matches Some(e) && s.permissioner.allows(rule, uid(session), e.0.stream_id, e.1.topic_id))
}
// invariants of the System the gate relies on (established by construction/loading; their preservation is C06's):
//  - a topic record carries the id of the stream record that holds it (Topic::create(stream_id, ..));
//  - the permission tables have no row for user id 0 (ids are allocated from 1);
//  - the denormalised membership sets of the permission tables agree with the tables (perm_wf of unit permissioner: precondition of the
//    five message rules, added when their stubs were linked; kept by the three table mutators, [C09.tables.*.wf] there — for
//    init_permissions_for_user on a user id WITHOUT rows, i.e. create_user relies on the freshness of the allocated id, C05's subject);
pub open spec fn gate_wf(s: &System) -> bool {
    &&& forall|k: u32, j: u32| #![trigger s.streams@[k].topics@[j]]
            s.streams@.contains_key(k) && s.streams@[k].topics@.contains_key(j) ==> s.streams@[k].topics@[j].stream_id == s.streams@[k].stream_id
    &&& s.permissioner.no_anon()
    &&& s.permissioner.wf()
}

// ---- users ---------------------------------------------------------------------------------------------
// by-name lookup of a user scans the map (`iter().find(..)`): which key it yields is an uninterpreted function of the map
pub uninterp spec fn name_key(users: Map<u32, User>, name: Name) -> Option<u32>;
pub open spec fn user_of(users: Map<u32, User>, ident: &Identifier) -> Option<u32> {
    if ident.kind == IdKind::Numeric {
        if ident.length == 4 && users.contains_key(ident.num()) { Some(ident.num()) } else { None }
    } else {
        match name_key(users, ident.text()) { Some(k) => if users.contains_key(k) { Some(k) } else { None }, None => None }
    }
}
// user names identify users (unit catalogue_more keeps it: [C06.users.unique.*]). Precondition of the by-name lookups since link pass 2:
// without it "the key the scan yields" is not a function of the map, and the lookups of one operation need not hit the same record
pub open spec fn user_names_unique(users: Map<u32, User>) -> bool {
    forall|a: u32, b: u32| #![trigger users[a], users[b]] users.contains_key(a) && users.contains_key(b) && users[a].username == users[b].username ==> a == b
}
// user operations that a user may always apply to the own account, and to another account only with the rule
pub open spec fn may_self_or(s: &System, session: &Session, rule: Rule, user_id: &Identifier) -> bool {
    authenticated(session)
    && (user_of(s.users@, user_id) matches Some(k) && (s.users@[k].id == uid(session) || s.permissioner.allows(rule, uid(session), 0, 0)))
}
// nothing but the record of user k differs
pub open spec fn only_user_changed(a: &System, b: &System, k: u32) -> bool {
    &&& sys_only_users(a, b)
    &&& forall|j: u32| a.users@.contains_key(j) <==> #[trigger] b.users@.contains_key(j)
    &&& forall|j: u32| j != k && #[trigger] a.users@.contains_key(j) ==> b.users@[j] == a.users@[j]
}
pub open spec fn users_wf(s: &System) -> bool {
    forall|k: u32| #[trigger] s.users@.contains_key(k) ==> s.users@[k].id == k
}
pub open spec fn sys_only_users(a: &System, b: &System) -> bool {
    *b == (System { users: b.users, ..*a })
}
// "the root user can be neither deleted nor stripped of permissions": if the root account exists before, it exists
// after, with the same permission record and the same rows in the permission tables
pub open spec fn root_kept(a: &System, b: &System) -> bool {
    a.users@.contains_key(DEFAULT_ROOT_USER_ID) ==> {
        &&& b.users@.contains_key(DEFAULT_ROOT_USER_ID)
        &&& b.users@[DEFAULT_ROOT_USER_ID].id == a.users@[DEFAULT_ROOT_USER_ID].id
        &&& b.users@[DEFAULT_ROOT_USER_ID].permissions == a.users@[DEFAULT_ROOT_USER_ID].permissions
        &&& b.permissioner.rows(DEFAULT_ROOT_USER_ID) == a.permissioner.rows(DEFAULT_ROOT_USER_ID)
    }
}
impl User {
    // LINKED: units/credentials/lemmas.rs, harness [C10.link.authn_gate.User_new] (mirror edits there)
    #[verifier::external_body]
    pub fn new(id: u32, username: &Name, password: &Name, status: UserStatus, permissions: Option<Permissions>) -> (r: User)
        ensures r.id == id,
    { unimplemented!() }
}
impl PersonalAccessToken {
    #[verifier::external_body]
    pub fn new(user_id: u32, name: &Name, now: IggyTimestamp, expiry: IggyExpiry) -> (r: (PersonalAccessToken, Name)) { unimplemented!() }
}

// ---- Stream / Topic collaborators ---------------------------------------------------------------------
impl Stream {
    #[verifier::external_body]
    pub fn create(id: u32, name: &Name, config: SystemConfig, storage: SystemStorage) -> (r: Stream) { unimplemented!() }
    // writes the stream's directory / info: an effect of create_stream or update_stream
    #[verifier::external_body]
    pub fn persist(&self) -> (r: Result<(), IggyError>)
        requires cleared(Rule::CreateStream, 0, 0) || cleared(Rule::UpdateStream, self.stream_id, 0), //@requires [C09.order.stream_persist]
    { unimplemented!() }
    // removes the stream's directory
    #[verifier::external_body]
    pub fn delete(&self) -> (r: Result<(), IggyError>)
        requires cleared(Rule::DeleteStream, self.stream_id, 0), //@requires [C09.order.stream_delete]
    { unimplemented!() }
    // drops all messages of all topics (through the partitions' locks)
    #[verifier::external_body]
    pub fn purge(&self) -> (r: Result<(), IggyError>)
        requires cleared(Rule::PurgeStream, self.stream_id, 0), //@requires [C09.order.stream_purge]
    { unimplemented!() }
    #[verifier::external_body] pub fn get_topics(&self) -> (r: Vec<&Topic>) { unimplemented!() }
    #[verifier::external_body] pub fn get_topics_count(&self) -> (r: u32) { unimplemented!() }
    #[verifier::external_body] pub fn get_partitions_count(&self) -> (r: u32) { unimplemented!() }
    #[verifier::external_body] pub fn get_messages_count(&self) -> (r: u64) { unimplemented!() }
    #[verifier::external_body] pub fn get_segments_count(&self) -> (r: u32) { unimplemented!() }
    #[verifier::external_body] pub fn get_topic_mut(&mut self, identifier: &Identifier) -> (r: Result<&mut Topic, IggyError>) { unimplemented!() }
    #[verifier::external_body]
    pub fn create_topic(&mut self, topic_id: Option<u32>, name: &Name, partitions_count: u32, message_expiry: IggyExpiry,
        compression_algorithm: CompressionAlgorithm, max_topic_size: MaxTopicSize, replication_factor: u8) -> (r: Result<u32, IggyError>)
    { unimplemented!() }
    #[verifier::external_body]
    pub fn update_topic(&mut self, id: &Identifier, name: &Name, message_expiry: IggyExpiry, compression_algorithm: CompressionAlgorithm,
        max_topic_size: MaxTopicSize, replication_factor: u8) -> (r: Result<(), IggyError>)
    { unimplemented!() }
    #[verifier::external_body] pub fn delete_topic(&mut self, id: &Identifier) -> (r: Result<Topic, IggyError>) { unimplemented!() }
}
impl Topic {
    // drops all messages of the topic (through the partitions' locks)
    #[verifier::external_body]
    pub fn purge(&self) -> (r: Result<(), IggyError>)
        requires cleared(Rule::PurgeTopic, self.stream_id, self.topic_id), //@requires [C09.order.topic_purge]
    { unimplemented!() }
    #[verifier::external_body] pub fn has_partitions(&self) -> (r: bool) { unimplemented!() }
    #[verifier::external_body]
    pub fn resolve_consumer_with_partition_id(&self, consumer: &Consumer, client_id: u32, partition_id: Option<u32>, calculate_partition_id: bool)
        -> (r: Result<Option<(PollingConsumer, u32)>, IggyError>)
    { unimplemented!() }
    // hands out the messages
    #[verifier::external_body]
    pub fn get_messages(&self, consumer: PollingConsumer, partition_id: u32, strategy: PollingStrategy, count: u32) -> (r: Result<PolledMessages, IggyError>)
        requires cleared(Rule::PollMessages, self.stream_id, self.topic_id), //@requires [C09.order.topic_get_messages]
    { unimplemented!() }
    // auto-commit: stores the consumer's offset
    #[verifier::external_body]
    pub fn store_consumer_offset_internal(&self, consumer: PollingConsumer, offset: u64, partition_id: u32) -> (r: Result<(), IggyError>)
        requires cleared(Rule::PollMessages, self.stream_id, self.topic_id), //@requires [C09.order.topic_autocommit]
    { unimplemented!() }
    #[verifier::external_body]
    pub fn append_messages(&self, batch_size: ByteSize, partitioning: Partitioning, messages: Vec<Message>, confirmation: Option<Confirmation>) -> (r: Result<(), IggyError>)
        requires cleared(Rule::AppendMessages, self.stream_id, self.topic_id), //@requires [C09.order.topic_append]
    { unimplemented!() }
    #[verifier::external_body]
    pub fn flush_unsaved_buffer(&self, partition_id: u32, fsync: bool) -> (r: Result<(), IggyError>)
        requires cleared(Rule::AppendMessages, self.stream_id, self.topic_id), //@requires [C09.order.topic_flush]
    { unimplemented!() }
    #[verifier::external_body]
    pub fn store_consumer_offset(&self, consumer: Consumer, offset: u64, partition_id: Option<u32>, client_id: u32) -> (r: Result<(), IggyError>)
        requires cleared(Rule::StoreConsumerOffset, self.stream_id, self.topic_id), //@requires [C09.order.topic_store_offset]
    { unimplemented!() }
    #[verifier::external_body]
    pub fn get_consumer_offset(&self, consumer: &Consumer, partition_id: Option<u32>, client_id: u32) -> (r: Result<Option<ConsumerOffsetInfo>, IggyError>)
        requires cleared(Rule::GetConsumerOffset, self.stream_id, self.topic_id), //@requires [C09.order.topic_get_offset]
    { unimplemented!() }
    #[verifier::external_body]
    pub fn delete_consumer_offset(&self, consumer: Consumer, partition_id: Option<u32>, client_id: u32) -> (r: Result<(), IggyError>)
        requires cleared(Rule::DeleteConsumerOffset, self.stream_id, self.topic_id), //@requires [C09.order.topic_delete_offset]
    { unimplemented!() }
    #[verifier::external_body]
    pub fn join_consumer_group(&self, group_id: &Identifier, member_id: u32) -> (r: Result<(), IggyError>)
        requires cleared(Rule::JoinConsumerGroup, self.stream_id, self.topic_id), //@requires [C09.order.topic_join]
    { unimplemented!() }
    #[verifier::external_body] pub fn add_persisted_partitions(&mut self, count: u32) -> (r: Result<Vec<u32>, IggyError>) { unimplemented!() }
    #[verifier::external_body] pub fn delete_persisted_partitions(&mut self, count: u32) -> (r: Result<Option<DeletedPartitions>, IggyError>) { unimplemented!() }
    #[verifier::external_body] pub fn reassign_consumer_groups(&mut self) { unimplemented!() }
    #[verifier::external_body] pub fn get_partitions_count(&self) -> (r: u32) { unimplemented!() }
    #[verifier::external_body] pub fn get_messages_count(&self) -> (r: u64) { unimplemented!() }
    #[verifier::external_body] pub fn get_segments_count(&self) -> (r: u32) { unimplemented!() }
    #[verifier::external_body] pub fn try_get_consumer_group(&self, identifier: &Identifier) -> (r: Result<Option<&ConsumerGroup>, IggyError>) { unimplemented!() }
    #[verifier::external_body] pub fn get_consumer_group(&self, identifier: &Identifier) -> (r: Result<&ConsumerGroup, IggyError>) { unimplemented!() }
    #[verifier::external_body] pub fn get_consumer_groups(&self) -> (r: Vec<&ConsumerGroup>) { unimplemented!() }
    #[verifier::external_body] pub fn create_consumer_group(&mut self, group_id: Option<u32>, name: &Name) -> (r: Result<&ConsumerGroup, IggyError>) { unimplemented!() }
    #[verifier::external_body] pub fn delete_consumer_group(&mut self, id: &Identifier) -> (r: Result<ConsumerGroup, IggyError>) { unimplemented!() }
}

// ---- System: callees that are not gates (resolution of users, mutable resolution of streams: C06's) -------
impl System {
    #[verifier::external_body] pub fn get_streams(&self) -> (r: Vec<&Stream>) { unimplemented!() }
    // systems/streams.rs get_stream_mut (verified in unit catalogue_maps, [C06.byname.stream.get_mut]): the same record
    // get_stream resolves, handed out mutably
    // LINKED: units/catalogue_maps/lemmas.rs, harness [C06.link.authn_gate.get_stream_mut] (mirror edits there)
    #[verifier::external_body]
    pub fn get_stream_mut(&mut self, identifier: &Identifier) -> (r: Result<&mut Stream, IggyError>)
        ensures r matches Ok(s) ==> stream_at(old(self), identifier) == Some(*s),
    { unimplemented!() }
    #[verifier::external_body] pub fn clean_cache(&self, size_to_clean: ByteSize) { unimplemented!() }
    // systems/users.rs try_get_user / get_user / get_user_mut: numeric identifiers index the map, names scan it
    // LINKED: units/credentials/lemmas.rs, harnesses [C10.link.authn_gate.try_get_user] / [..get_user] / [..get_user_mut], prove these three
    // contracts from the real functions with `name_key` interpreted as "the key that holds the name" (mirror edits there). The `requires` was
    // ADDED by the link: the real by-name scan yields SOME record with the name; it is the record at name_key only if names are unique.
    #[verifier::external_body]
    pub fn try_get_user(&self, user_id: &Identifier) -> (r: Result<Option<&User>, IggyError>)
        requires user_id.kind != IdKind::Numeric ==> user_names_unique(self.users@),
        ensures match r {
            Ok(Some(u)) => user_of(self.users@, user_id) matches Some(k) && *u == self.users@[k],
            Ok(None) => user_of(self.users@, user_id) is None,
            Err(_) => true },
    { unimplemented!() }
    #[verifier::external_body]
    pub fn get_user(&self, user_id: &Identifier) -> (r: Result<&User, IggyError>)
        requires user_id.kind != IdKind::Numeric ==> user_names_unique(self.users@),
        ensures match r {
            Ok(u) => user_of(self.users@, user_id) matches Some(k) && *u == self.users@[k],
            Err(_) => user_of(self.users@, user_id) is None },
    { unimplemented!() }
    #[verifier::external_body]
    pub fn get_user_mut(&mut self, user_id: &Identifier) -> (r: Result<&mut User, IggyError>)
        requires user_id.kind != IdKind::Numeric ==> user_names_unique(old(self).users@),
        ensures match r {
            Ok(u) => user_of(old(self).users@, user_id) matches Some(k) && *u == old(self).users@[k]
                && final(self).users@ == old(self).users@.insert(k, *final(u)) && sys_only_users(old(self), final(self)),
            Err(_) => user_of(old(self).users@, user_id) is None && *final(self) == *old(self) },
    { unimplemented!() }
    // internal (also used by delete_client with the server's own authority): removes the membership of `client_id`.
    // From the client-facing leave_consumer_group it may only be reached after the LeaveConsumerGroup rule passed.
    #[verifier::external_body]
    pub fn leave_consumer_group_by_client(&self, stream_id: &Identifier, topic_id: &Identifier, consumer_group_id: &Identifier, client_id: u32) -> (r: Result<(), IggyError>)
        requires topic_at(self, stream_id, topic_id) matches Some(e) ==> cleared(Rule::LeaveConsumerGroup, e.0.stream_id, e.1.topic_id), //@requires [C09.order.leave_by_client]
    { unimplemented!() }
}

// ---- server information (stats, snapshot) --------------------------------------------------------------
// any rule of the "servers" class (read_servers / manage_servers): sdk/src/models/permissions.rs lists get_stats,
// get_clients, get_client under it; a diagnostic snapshot of the server is information of the same class
pub open spec fn may_server(s: &System, session: &Session) -> bool {
    may_global(s, session, Rule::GetStats) || may_global(s, session, Rule::GetClients) || may_global(s, session, Rule::GetClient)
}
#[verifier::external_body] pub struct SystemSnapshotType { x: u8 }
#[verifier::external_body] pub struct SnapshotCompression { x: u8 }
#[verifier::external_body] pub struct Stats { x: u8 }
#[verifier::external_body] pub struct GetStats { x: u8 }
impl System {
    // systems/stats.rs get_stats(&self): collects process / OS / catalogue figures; takes no session
    #[verifier::external_body] pub fn get_stats(&self) -> (r: Result<Stats, IggyError>) { unimplemented!() }
}
// R5 lock: `SharedSystem` is `Arc<RwLock<System>>`; `read()` hands out the System
pub struct SharedSystem { pub system: System }
impl SharedSystem {
    #[verifier::external_body]
    pub fn read(&self) -> (r: &System) ensures *r == self.system { unimplemented!() }
}
#[verifier::external_body] pub struct SenderKind { x: u8 }
impl SenderKind {
    // puts the response on the wire: the effect of a binary handler
    #[verifier::external_body] pub fn send_ok_response(&mut self, payload: &BytesS) -> (r: Result<(), IggyError>) { unimplemented!() }
}
pub mod mapper {
    use super::*;
    #[verifier::external_body] pub fn map_stats(stats: &Stats) -> (r: BytesS) { unimplemented!() }
}

impl System {
    // repair F70: disconnects the clients of the user (units client_disconnect / user_disconnect); interior mutation of the client manager only
    #[verifier::external_body] pub fn delete_clients_for_user(&self, user_id: u32) { unimplemented!() }
}
