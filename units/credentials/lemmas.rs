// ---- lemmas: credentials (C10) — proved on every run, spec level only -----------------------------------------
// They connect the per-function contracts to the temporal wording of the property ("stops working", "ends that
// credential's validity"). `verify(p, h)` is `pw_of(h) == Some(p)` (A-dep(bcrypt), see prelude).

// after a successful change to a different password the old password no longer verifies against the stored hash
// label: C10.chpw.old-stops-working
pub proof fn lemma_old_password_stops_working(stored_hash: Name, current: Name, new: Name)
    requires pw_of(stored_hash) == Some(new), new != current,
    ensures !(pw_of(stored_hash) == Some(current)),
{
}

// two hashes of the same password (the runtime one and the re-salted one written to the journal) verify exactly the
// same passwords: credentials behave identically whichever of the two a restart restores
// label: C10.journal.same-credential
pub proof fn lemma_rehash_same_credential(runtime_hash: Name, journal_hash: Name, password: Name, candidate: Name)
    requires pw_of(runtime_hash) == Some(password), pw_of(journal_hash) == Some(password),
    ensures (pw_of(runtime_hash) == Some(candidate)) == (pw_of(journal_hash) == Some(candidate)),
{
}

// once user k is removed from a well-formed table, no stored record has id k and no stored token belongs to k:
// neither [C10.login.exists] nor [C10.pat.record] can hold for it any more
// label: C10.del.user.no-login
pub proof fn lemma_deleted_user_cannot_login(s: &System, k: u32, raw: Name, now: IggyTimestamp)
    requires users_wf(s), !s.users@.contains_key(k),
    ensures
        forall|u: User| stored(s, u) ==> u.id != k,
        !valid_token(s, raw, now, k),
{
    assert forall|u: User| stored(s, u) implies u.id != k by {
        let j = choose|j: u32| #[trigger] s.users@.contains_key(j) && s.users@[j] == u;
        assert(s.users@[j].id == j);
    }
}

// once the record with digest H(raw) is removed from its owner's map (well-formed table), the raw token is not a
// valid token of that user any more
// label: C10.del.pat.no-login
pub proof fn lemma_deleted_token_cannot_login(s: &System, uid: u32, raw: Name, now: IggyTimestamp)
    requires users_wf(s), s.users@.contains_key(uid) ==> !s.users@[uid].personal_access_tokens@.contains_key(H(raw)),
    ensures !valid_token(s, raw, now, uid),
{
    if valid_token(s, raw, now, uid) {
        let k = choose|k: u32| #[trigger] s.users@.contains_key(k) && s.users@[k].personal_access_tokens@.contains_key(H(raw))
            && !expired_at(s.users@[k].personal_access_tokens@[H(raw)], now)
            && s.users@[k].personal_access_tokens@[H(raw)].user_id == uid;
        assert(s.users@[k].personal_access_tokens@[H(raw)].user_id == k);
    }
}

// expiry is monotone in time: an expired token stays expired
// label: C10.expiry.monotone
pub proof fn lemma_expired_stays_expired(t: PersonalAccessToken, now: IggyTimestamp, later: IggyTimestamp)
    requires expired_at(t, now), now.0 <= later.0,
    ensures expired_at(t, later),
{
}

// a token created with a duration d at time t0 is valid strictly before t0 + d and expired from t0 + d on
// label: C10.expiry.window
pub proof fn lemma_expiry_window(t: PersonalAccessToken, t0: IggyTimestamp, d: IggyDuration, now: IggyTimestamp)
    requires t.expiry_at == expiry_of(t0, IggyExpiry::ExpireDuration(d)), t0.0 + d.0 <= u64::MAX,
    ensures expired_at(t, now) <==> now.0 >= t0.0 + d.0,
{
}

// ---- LINK harnesses: the contracts other units ASSUME for functions proved here, proved from the real ones ---------------------
// Each harness has the assuming unit's stub signature, its `requires` / `ensures` copied VERBATIM from that unit's prelude.rs, and a
// body that is ONE call of the real extracted function: Verus proves "real contract ==> assumed contract" on every run.
// A later edit of a stub has to be mirrored here (and vice versa).
//
// (vocabulary of units/authn_gate/prelude.rs used by the copied clauses: `user_of`, `sys_only_users`, `user_names_unique` are verbatim copies.
//  `name_key` is UNINTERPRETED there — "which key the by-name scan yields is a function of the map" —; the link gives it the
//  interpretation "the key that holds the name", which the scan is bound to yield only when user names are unique: the stubs had silently
//  assumed that determinism, the link adds `user_names_unique` as their precondition for non-numeric identifiers.)
pub open spec fn name_key(users: Map<u32, User>, name: Name) -> Option<u32> {
    if exists|k: u32| users.contains_key(k) && (#[trigger] users[k]).username == name {
        Some(choose|k: u32| users.contains_key(k) && (#[trigger] users[k]).username == name)
    } else { None }
}
pub open spec fn user_of(users: Map<u32, User>, ident: &Identifier) -> Option<u32> {
    if ident.kind == IdKind::Numeric {
        if ident.length == 4 && users.contains_key(ident.num()) { Some(ident.num()) } else { None }
    } else {
        match name_key(users, ident.text()) { Some(k) => if users.contains_key(k) { Some(k) } else { None }, None => None }
    }
}
pub open spec fn user_names_unique(users: Map<u32, User>) -> bool {
    forall|a: u32, b: u32| #![trigger users[a], users[b]] users.contains_key(a) && users.contains_key(b) && users[a].username == users[b].username ==> a == b
}
pub open spec fn sys_only_users(a: &System, b: &System) -> bool {
    *b == (System { users: b.users, ..*a })
}
// under unique names every record carrying the name sits at the key `name_key` denotes
pub proof fn lemma_name_key(users: Map<u32, User>, name: Name)
    ensures user_names_unique(users) ==> forall|k: u32| #[trigger] users.contains_key(k) && users[k].username == name ==> name_key(users, name) == Some(k),
{
    if user_names_unique(users) {
        assert forall|k: u32| #[trigger] users.contains_key(k) && users[k].username == name implies name_key(users, name) == Some(k) by {
            let k2 = choose|k: u32| users.contains_key(k) && (#[trigger] users[k]).username == name;
            assert(users[k2].username == users[k].username);
        }
    }
}
impl System {
    // copied from units/authn_gate/prelude.rs, stub `System::try_get_user` (requires ADDED by the link)
    // label: C10.link.authn_gate.try_get_user
    pub fn link_authn_gate_try_get_user(&self, user_id: &Identifier) -> (r: Result<Option<&User>, IggyError>)
        requires user_id.kind != IdKind::Numeric ==> user_names_unique(self.users@),
        ensures match r {
            Ok(Some(u)) => user_of(self.users@, user_id) matches Some(k) && *u == self.users@[k],
            Ok(None) => user_of(self.users@, user_id) is None,
            Err(_) => true },
    {
        proof { lemma_name_key(self.users@, user_id.text()); }
        self.try_get_user(user_id)
    }
    // copied from units/authn_gate/prelude.rs, stub `System::get_user` (requires ADDED by the link)
    // label: C10.link.authn_gate.get_user
    pub fn link_authn_gate_get_user(&self, user_id: &Identifier) -> (r: Result<&User, IggyError>)
        requires user_id.kind != IdKind::Numeric ==> user_names_unique(self.users@),
        ensures match r {
            Ok(u) => user_of(self.users@, user_id) matches Some(k) && *u == self.users@[k],
            Err(_) => user_of(self.users@, user_id) is None },
    {
        proof { lemma_name_key(self.users@, user_id.text()); }
        self.get_user(user_id)
    }
    // copied from units/authn_gate/prelude.rs, stub `System::get_user_mut` (requires ADDED by the link)
    // label: C10.link.authn_gate.get_user_mut
    pub fn link_authn_gate_get_user_mut(&mut self, user_id: &Identifier) -> (r: Result<&mut User, IggyError>)
        requires user_id.kind != IdKind::Numeric ==> user_names_unique(old(self).users@),
        ensures match r {
            Ok(u) => user_of(old(self).users@, user_id) matches Some(k) && *u == old(self).users@[k]
                && final(self).users@ == old(self).users@.insert(k, *final(u)) && sys_only_users(old(self), final(self)),
            Err(_) => user_of(old(self).users@, user_id) is None && *final(self) == *old(self) },
    {
        proof { lemma_name_key(old(self).users@, user_id.text()); }
        self.get_user_mut(user_id)
    }
}
impl User {
    // copied from units/authn_gate/prelude.rs, stub `User::new`
    // label: C10.link.authn_gate.User_new
    pub fn link_authn_gate_user_new(id: u32, username: &Name, password: &Name, status: UserStatus, permissions: Option<Permissions>) -> (r: User)
        ensures r.id == id,
    { User::new(id, username, password, status, permissions) }
    // copied from units/alloc_runtime/prelude.rs, stub `User::new`
    // label: C10.link.alloc_runtime.User_new
    pub fn link_alloc_runtime_user_new(id: u32, username: &Name, password: &Name, status: UserStatus, permissions: Option<Permissions>) -> (r: User)
        ensures r.id == id && r.username == *username,
    { User::new(id, username, password, status, permissions) }
}
impl System {
    // copied from units/alloc_runtime/prelude.rs, stub `System::get_user` (a relational contract: no precondition needed)
    // label: C10.link.alloc_runtime.get_user
    pub fn link_alloc_runtime_get_user(&self, user_id: &Identifier) -> (r: Result<&User, IggyError>)
        ensures
            r matches Ok(u) ==> exists|k: u32| #[trigger] self.users@.contains_key(k) && self.users@[k] == *u
                && (user_id.kind == IdKind::Numeric ==> user_id.length == 4 && k == user_id.num()),
            (user_id.kind == IdKind::Numeric && user_id.length == 4 && self.users@.contains_key(user_id.num())) ==> r is Ok,
    { self.get_user(user_id) }
}
// (vocabulary of units/journal_sinks/prelude.rs: `token_digest` is uninterpreted there; it is this unit's digest `H`)
pub open spec fn token_digest(raw: Name) -> Name { H(raw) }
impl PersonalAccessToken {
    // copied from units/journal_sinks/prelude.rs, stub `PersonalAccessToken::hash_token`
    // label: C10.link.journal_sinks.hash_token
    pub fn link_journal_sinks_hash_token(token: &Name) -> (r: Name)
        ensures r == token_digest(*token),
    { PersonalAccessToken::hash_token(token) }
}
