// ---- lemmas: credentials (C10) — proved on every run, spec level only -----------------------------------------
// They connect the per-function contracts to the temporal wording of the property ("stops working", "ends that
// credential's validity"). `verify(p, h)` is `pw_of(h) == Some(p)` (A-dep(bcrypt), see prelude).

// after a successful change to a different password the old password no longer verifies against the stored hash
// label: C10.chpw.old-stops-working
pub proof fn lemma_old_password_stops_working(stored_hash: Name, current: Name, new: Name)
    requires pw_of(stored_hash) == Some(new), new != current,
    ensures !(pw_of(stored_hash) == Some(current)),
{
}

// two hashes of the same password (the runtime one and the re-salted one written to the journal) verify exactly the
// same passwords: credentials behave identically whichever of the two a restart restores
// label: C10.journal.same-credential
pub proof fn lemma_rehash_same_credential(runtime_hash: Name, journal_hash: Name, password: Name, candidate: Name)
    requires pw_of(runtime_hash) == Some(password), pw_of(journal_hash) == Some(password),
    ensures (pw_of(runtime_hash) == Some(candidate)) == (pw_of(journal_hash) == Some(candidate)),
{
}

// once user k is removed from a well-formed table, no stored record has id k and no stored token belongs to k:
// neither [C10.login.exists] nor [C10.pat.record] can hold for it any more
// label: C10.del.user.no-login
pub proof fn lemma_deleted_user_cannot_login(s: &System, k: u32, raw: Name, now: IggyTimestamp)
    requires users_wf(s), !s.users@.contains_key(k),
    ensures
        forall|u: User| stored(s, u) ==> u.id != k,
        !valid_token(s, raw, now, k),
{
    assert forall|u: User| stored(s, u) implies u.id != k by {
        let j = choose|j: u32| #[trigger] s.users@.contains_key(j) && s.users@[j] == u;
        assert(s.users@[j].id == j);
    }
}

// once the record with digest H(raw) is removed from its owner's map (well-formed table), the raw token is not a
// valid token of that user any more
// label: C10.del.pat.no-login
pub proof fn lemma_deleted_token_cannot_login(s: &System, uid: u32, raw: Name, now: IggyTimestamp)
    requires users_wf(s), s.users@.contains_key(uid) ==> !s.users@[uid].personal_access_tokens@.contains_key(H(raw)),
    ensures !valid_token(s, raw, now, uid),
{
    if valid_token(s, raw, now, uid) {
        let k = choose|k: u32| #[trigger] s.users@.contains_key(k) && s.users@[k].personal_access_tokens@.contains_key(H(raw))
            && !expired_at(s.users@[k].personal_access_tokens@[H(raw)], now)
            && s.users@[k].personal_access_tokens@[H(raw)].user_id == uid;
        assert(s.users@[k].personal_access_tokens@[H(raw)].user_id == k);
    }
}

// expiry is monotone in time: an expired token stays expired
// label: C10.expiry.monotone
pub proof fn lemma_expired_stays_expired(t: PersonalAccessToken, now: IggyTimestamp, later: IggyTimestamp)
    requires expired_at(t, now), now.0 <= later.0,
    ensures expired_at(t, later),
{
}

// a token created with a duration d at time t0 is valid strictly before t0 + d and expired from t0 + d on
// label: C10.expiry.window
pub proof fn lemma_expiry_window(t: PersonalAccessToken, t0: IggyTimestamp, d: IggyDuration, now: IggyTimestamp)
    requires t.expiry_at == expiry_of(t0, IggyExpiry::ExpireDuration(d)), t0.0 + d.0 <= u64::MAX,
    ensures expired_at(t, now) <==> now.0 >= t0.0 + d.0,
{
}
