// ---- unit prelude: credentials (C10) --------------------------------------------------------------------------
// Stand-ins (R4) and assumed contracts for everything the extracted credential functions call but which is not
// extracted, plus the spec vocabulary of the credential view. Nothing here re-states a function body of /repo.

// --- names: opaque strings; only equality is observable (A-std: clone/to_owned/to_string/into copy the value) ----
#[verifier::external_body]
#[derive(Debug)]
pub struct Name { s: String }
// what `str::parse::<T>()` makes of the text (A-std): uninterpreted; an all-digit name parses as a number
pub uninterp spec fn parsed<T>(n: Name) -> Option<T>;
// `1 <= len <= 255` (what Identifier::named accepts)
pub uninterp spec fn ident_len_ok(n: Name) -> bool;
#[derive(Debug)]
pub struct ParseError { pub k: u8 }
impl Name {
    #[verifier::external_body]
    pub fn to_owned(&self) -> (r: Name) ensures r == *self { unimplemented!() }
    #[verifier::external_body]
    pub fn to_string(&self) -> (r: Name) ensures r == *self { unimplemented!() }
    // the bytes of a name are the name (only handed to the digest)
    #[verifier::external_body]
    pub fn as_bytes(&self) -> (r: &Name) ensures *r == *self { unimplemented!() }
    #[verifier::external_body]
    pub fn parse<T>(&self) -> (r: Result<T, ParseError>)
        ensures match r { Ok(v) => parsed::<T>(*self) == Some(v), Err(_) => parsed::<T>(*self) is None },
    { unimplemented!() }
}
impl Clone for Name {
    #[verifier::external_body]
    fn clone(&self) -> (r: Name) ensures r == *self { unimplemented!() }
}
impl<'a> From<&'a Name> for Name {
    #[verifier::external_body]
    fn from(v: &'a Name) -> (r: Name) ensures r == *v { unimplemented!() }
}
impl<'a> vstd::std_specs::convert::FromSpecImpl<&'a Name> for Name {
    open spec fn obeys_from_spec() -> bool { true }
    open spec fn from_spec(v: &'a Name) -> Name { *v }
}

// A-std: `ToOwned::to_owned` of a `Clone` type is `clone` (std's blanket impl)
pub assume_specification<T: Clone> [ <T as std::borrow::ToOwned>::to_owned ](x: &T) -> (r: T)
    ensures vstd::pervasive::cloned::<T>(*x, r);

#[derive(Debug)]
pub enum IggyError {
    InvalidIdentifier,
    StaleClient,
    Unauthenticated,
    Unauthorized,
    ResourceNotFound(Name),
    UserAlreadyExists,
    UsersLimitReached,
    CannotDeleteUser(u32),
    InvalidCredentials,
    UserInactive,
    ClientNotFound(u32),
    PersonalAccessTokensLimitReached(u32, u32),
    PersonalAccessTokenAlreadyExists(Name, u32),
    PersonalAccessTokenExpired(Name, u32),
    Io,
}

// --- atomics (R6): plain integers ---------------------------------------------------------------------------------
pub struct AtomicU32 { pub v: u32 }
impl AtomicU32 {
    pub fn load(&self) -> (r: u32) ensures r == self.v, { self.v }
    pub fn store(&mut self, n: u32) ensures final(self).v == n, { self.v = n; }
}
pub struct AtomicBool { pub v: bool }
impl AtomicBool {
    pub fn load(&self) -> (r: bool) ensures r == self.v, { self.v }
    pub fn store(&mut self, n: bool) ensures final(self).v == n, { self.v = n; }
}
// the process-global user id allocator of systems/users.rs (`static USER_ID: AtomicU32`): its value is C05's subject;
// the credential clauses must hold whatever id it hands out, so it stays an opaque cell returning arbitrary ids
#[verifier::external_body]
pub struct Counter32 { v: std::sync::atomic::AtomicU32 }
impl Counter32 {
    #[verifier::external_body]
    pub const fn new(v: u32) -> (r: Counter32) { Counter32 { v: std::sync::atomic::AtomicU32::new(v) } }
    #[verifier::external_body]
    pub fn fetch_add(&self, n: u32) -> (r: u32) { unimplemented!() }
}
exec static USER_ID: Counter32 ensures true { Counter32::new(1) }

// --- clock (A-clock) and durations ----------------------------------------------------------------------------------
#[derive(Clone, Copy, Debug)]
pub struct IggyTimestamp(pub u64);
pub uninterp spec fn the_now() -> IggyTimestamp;
impl IggyTimestamp {
    #[verifier::external_body]
    pub fn now() -> (r: IggyTimestamp) ensures r == the_now() { unimplemented!() }
    pub fn as_micros(&self) -> (r: u64) ensures r == self.0 { self.0 }
}
impl From<u64> for IggyTimestamp {
    fn from(timestamp: u64) -> (r: Self) { IggyTimestamp(timestamp) }
}
impl vstd::std_specs::convert::FromSpecImpl<u64> for IggyTimestamp {
    open spec fn obeys_from_spec() -> bool { true }
    open spec fn from_spec(v: u64) -> Self { IggyTimestamp(v) }
}
#[derive(Clone, Copy, Debug)]
pub struct IggyDuration(pub u64);
impl IggyDuration {
    pub fn as_micros(&self) -> (r: u64) ensures r == self.0 { self.0 }
}

// --- bcrypt wrappers (server/src/streaming/utils/crypto.rs): A-dep(bcrypt) -----------------------------------------
// `pw_of(h)`: the password the stored string h is a bcrypt hash of (None: h is not a bcrypt hash of anything).
// hash_password is salted, so it is a relation, not a function: two hashes of one password differ and both verify.
pub uninterp spec fn pw_of(h: Name) -> Option<Name>;
pub mod crypto {
    use super::*;
    #[verifier::external_body]
    pub fn hash_password(password: &Name) -> (r: Name)
        ensures pw_of(r) == Some(*password), r != *password,
    { unimplemented!() }
    #[verifier::external_body]
    pub fn verify_password(password: &Name, hash: &Name) -> (r: bool)
        ensures r == (pw_of(*hash) == Some(*password)),
    { unimplemented!() }
}

// --- blake3 digest (server/src/streaming/utils/hash.rs): A-dep(blake3) ---------------------------------------------
pub uninterp spec fn H(x: Name) -> Name;
pub mod hash {
    use super::*;
    #[verifier::external_body]
    pub fn calculate_256(data: &Name) -> (r: Name)
        ensures r == H(*data), r != *data,
    { unimplemented!() }
}

// --- token material: ring's system RNG and base64 (PersonalAccessToken::new) ---------------------------------------
// a failing RNG panics (`.unwrap()`): partial correctness, the function does not return (R9 reading)
pub mod ring { pub mod rand {
    use vstd::prelude::*;
    #[derive(Debug)]
    pub struct Unspecified { pub k: u8 }
    #[verifier::external_body]
    pub struct SystemRandom { x: u8 }
    impl SystemRandom {
        #[verifier::external_body]
        pub fn new() -> (r: SystemRandom) { unimplemented!() }
        #[verifier::external_body]
        pub fn fill(&self, dest: &mut [u8; 50]) -> (r: Result<(), Unspecified>) ensures r is Ok { unimplemented!() }
    }
} }
#[verifier::external_body]
pub fn as_base64(value: &[u8; 50]) -> (r: Name) { unimplemented!() }

// --- Identifier (sdk): the payload is abstracted to two uninterpreted projections; `kind`/`length` are real fields --
impl Identifier {
    pub uninterp spec fn num(&self) -> u32;
    pub uninterp spec fn text(&self) -> Name;
    #[verifier::external_body]
    pub fn get_u32_value(&self) -> (r: Result<u32, IggyError>)
        ensures r == (if self.kind == IdKind::Numeric && self.length == 4 { Ok::<u32, IggyError>(self.num()) } else { Err::<u32, IggyError>(IggyError::InvalidIdentifier) }),
    { unimplemented!() }
    #[verifier::external_body]
    pub fn get_cow_str_value(&self) -> (r: Result<Name, IggyError>)
        ensures r == (if self.kind == IdKind::Name { Ok::<Name, IggyError>(self.text()) } else { Err::<Name, IggyError>(IggyError::InvalidIdentifier) }),
    { unimplemented!() }
    // Identifier::numeric: 0 is rejected, otherwise a 4-byte numeric identifier carrying the value
    #[verifier::external_body]
    pub fn numeric(value: u32) -> (r: Result<Identifier, IggyError>)
        ensures match r { Ok(i) => value != 0 && is_numeric_ident(i, value), Err(_) => value == 0 },
    { unimplemented!() }
    // Identifier::named: a name identifier carrying the text (never looked at as a number), or Err on a bad length
    #[verifier::external_body]
    pub fn named(value: &Name) -> (r: Result<Identifier, IggyError>)
        ensures match r { Ok(i) => ident_len_ok(*value) && is_name_ident(i, *value), Err(_) => !ident_len_ok(*value) },
    { unimplemented!() }
    // Validatable::validate accepts what `named`/`numeric` build
    #[verifier::external_body]
    pub fn validate(&self) -> (r: Result<(), IggyError>)
        ensures (self.kind == IdKind::Name && self.length > 0) ==> r is Ok,
    { unimplemented!() }
    #[verifier::external_body]
    pub fn to_string(&self) -> (r: Name) { unimplemented!() }
}
pub open spec fn is_numeric_ident(i: Identifier, v: u32) -> bool { i.kind == IdKind::Numeric && i.length == 4 && i.num() == v }
pub open spec fn is_name_ident(i: Identifier, n: Name) -> bool { i.kind == IdKind::Name && i.length > 0 && i.text() == n }
// what the sdk's `Identifier::from_str` makes of a text ([C10.shape.from_str] ties this to the extracted function):
// a text that parses as u32 becomes a NUMERIC identifier
pub open spec fn ident_of_text(n: Name, r: Result<Identifier, IggyError>) -> bool {
    match parsed::<u32>(n) {
        Some(v) => match r { Ok(i) => v != 0 && is_numeric_ident(i, v), Err(_) => v == 0 },
        None => match r { Ok(i) => ident_len_ok(n) && is_name_ident(i, n), Err(_) => !ident_len_ok(n) },
    }
}
// sdk: `impl TryFrom<&str> for Identifier { fn try_from(value) { Identifier::from_str(value) } }` (one-line delegation)
impl<'a> TryFrom<&'a Name> for Identifier {
    type Error = IggyError;
    #[verifier::external_body]
    fn try_from(value: &'a Name) -> (r: Result<Self, IggyError>) ensures ident_of_text(*value, r) { unimplemented!() }
}
impl TryFrom<Name> for Identifier {
    type Error = IggyError;
    #[verifier::external_body]
    fn try_from(value: Name) -> (r: Result<Self, IggyError>) ensures ident_of_text(value, r) { unimplemented!() }
}
// sdk: `impl TryFrom<u32> for Identifier { fn try_from(value) { Identifier::numeric(value) } }`
impl TryFrom<u32> for Identifier {
    type Error = IggyError;
    #[verifier::external_body]
    fn try_from(value: u32) -> (r: Result<Self, IggyError>)
        ensures match r { Ok(i) => value != 0 && is_numeric_ident(i, value), Err(_) => value == 0 },
    { unimplemented!() }
}

// --- opaque collaborators: not part of the credential view ----------------------------------------------------------
#[verifier::external_body]
#[derive(Debug)]
pub struct Permissions { x: u8 }
impl Clone for Permissions { #[verifier::external_body] fn clone(&self) -> (r: Self) ensures r == *self { unimplemented!() } }
impl Permissions {
    #[verifier::external_body]
    pub fn root() -> (r: Permissions) { unimplemented!() }
}
// authorisation (C09's subject): arbitrary answers; the permission tables are written through `&mut`
#[verifier::external_body]
pub struct Permissioner { x: u8 }
impl Permissioner {
    #[verifier::external_body] pub fn create_user(&self, user_id: u32) -> (r: Result<(), IggyError>) { unimplemented!() }
    #[verifier::external_body] pub fn delete_user(&self, user_id: u32) -> (r: Result<(), IggyError>) { unimplemented!() }
    #[verifier::external_body] pub fn update_user(&self, user_id: u32) -> (r: Result<(), IggyError>) { unimplemented!() }
    #[verifier::external_body] pub fn change_password(&self, user_id: u32) -> (r: Result<(), IggyError>) { unimplemented!() }
    #[verifier::external_body] pub fn init_permissions_for_user(&mut self, user_id: u32, permissions: Option<Permissions>) { unimplemented!() }
    #[verifier::external_body] pub fn delete_permissions_for_user(&mut self, user_id: u32) { unimplemented!() }
}
// the client manager (unit client_memberships) is reached through its lock by `&self` functions: opaque, `&self`
#[verifier::external_body]
pub struct ClientManager { x: u8 }
impl ClientManager {
    #[verifier::external_body] pub fn set_user_id(&self, client_id: u32, user_id: u32) -> (r: Result<(), IggyError>) { unimplemented!() }
    #[verifier::external_body] pub fn clear_user_id(&self, client_id: u32) -> (r: Result<(), IggyError>) { unimplemented!() }
    #[verifier::external_body] pub fn delete_clients_for_user(&self, user_id: u32) -> (r: Result<(), IggyError>) { unimplemented!() }
}
#[verifier::external_body]
pub struct Metrics { x: u8 }
impl System {
    // repair F70: disconnects the clients of the user (units client_disconnect / user_disconnect); touches the client manager only
    #[verifier::external_body] pub fn delete_clients_for_user(&self, user_id: u32) { unimplemented!() }
}
impl Metrics {
    #[verifier::external_body] pub fn increment_users(&self, n: u32) { unimplemented!() }
    #[verifier::external_body] pub fn decrement_users(&self, n: u32) { unimplemented!() }
}

// --- binary transport: the response channel and the (empty) command records are not part of the credential view -----
#[verifier::external_body]
pub struct SenderKind { x: u8 }
impl SenderKind {
    #[verifier::external_body] pub fn send_empty_ok_response(&mut self) -> (r: Result<(), IggyError>) { unimplemented!() }
}
pub struct LogoutUser {}
#[verifier::external_body]
pub struct RespBytes { x: u8 }
impl SenderKind {
    #[verifier::external_body] pub fn send_ok_response(&mut self, payload: &RespBytes) -> (r: Result<(), IggyError>) { unimplemented!() }
}
pub mod mapper {
    use super::*;
    #[verifier::external_body] pub fn map_user(user: &User) -> (r: RespBytes) { unimplemented!() }
    #[verifier::external_body] pub fn map_raw_pat(token: &Name) -> (r: RespBytes) { unimplemented!() }
}
// a string literal as a Name
pub uninterp spec fn name_of_str(v: &str) -> Name;
impl<'a> From<&'a str> for Name {
    #[verifier::external_body]
    fn from(v: &'a str) -> (r: Name) ensures r == name_of_str(v) { unimplemented!() }
}
impl<'a> vstd::std_specs::convert::FromSpecImpl<&'a str> for Name {
    open spec fn obeys_from_spec() -> bool { true }
    open spec fn from_spec(v: &'a str) -> Name { name_of_str(v) }
}
// A-std: cloning an Identifier copies it
impl Clone for Identifier {
    #[verifier::external_body]
    fn clone(&self) -> (r: Identifier) ensures r == *self { unimplemented!() }
}
// h is a digest of some text (and not that text itself)
pub open spec fn is_digest(h: Name) -> bool { exists|raw: Name| #[trigger] H(raw) == h && h != raw }

// --- the state journal as the credential functions see it: `Arc<StateKind>` -> `StateLog`. The commands handed to
// `apply` are recorded in a ghost sequence (what FileState::apply does with them is C11/C19's subject). A failed
// apply may or may not have written the entry (fault scope).
pub enum EntryCommand {
    CreateUser(CreateUser),
    ChangePassword(ChangePassword),
    CreatePersonalAccessToken(CreatePersonalAccessTokenWithHash),
    Other,
}
#[verifier::external_body]
pub struct StateLog { x: u8 }
impl StateLog {
    pub uninterp spec fn log(&self) -> Seq<EntryCommand>;
    // LINKED (relational reading, not verbatim): units/journal/lemmas.rs, harness [C05.link.alloc_runtime.apply] proves both clauses from the real
    // FileState::apply with `log()` read as "a ghost sequence the journal file DENOTES" (valid journal whose entries carry, in order, the
    // journal forms `cmd_bytes` of the logged commands): Ok => the new file denotes log.push(..); Err => it denotes log or log.push(..)
    // OR - a case this stub does not list - the write was torn and the file is no journal any more (the loader refuses it at the next
    // start). The real function's preconditions are NOT carried here: the journal invariant `jwf` (broken by a failed apply: F16),
    // `command.payload_fits()` (payload below 4 GiB) and unit journal's scope `encryptor is None`. The VALUE-level equation on `log()` as a
    // function needs `cmd_bytes` injective = the round trip of unit journal_cmd ([C13.journal.cmd.rt]): still stated, not linked.
    #[verifier::external_body]
    pub fn apply(&mut self, user_id: u32, command: EntryCommand) -> (r: Result<(), IggyError>)
        ensures
            final(self).log() == old(self).log().push(command) || (r is Err && final(self).log() == old(self).log()),
    { unimplemented!() }
}
// the journal grew by nothing, or by exactly one command satisfying p
pub open spec fn journaled_one(a: &StateLog, b: &StateLog, p: spec_fn(EntryCommand) -> bool) -> bool {
    b.log() == a.log().push(b.log().last()) && p(b.log().last())
}
pub open spec fn journaled_at_most(a: &StateLog, b: &StateLog, p: spec_fn(EntryCommand) -> bool) -> bool {
    b.log() == a.log() || journaled_one(a, b, p)
}

// --- R8 closure schemas over maps (documented std semantics; iteration order abstracted) ------------------------------
// m.iter().find(|(k, v)| P).map(|(_, v)| v)
#[verifier::external_body]
pub fn std_map_find_value<'a, K, V>(m: &'a HashMap<K, V>, Ghost(f): Ghost<spec_fn(K, V) -> bool>) -> (r: Option<&'a V>)
    ensures match r {
        Some(v) => exists|k: K| #[trigger] m@.contains_key(k) && m@[k] == *v && f(k, *v),
        None => forall|k: K| #[trigger] m@.contains_key(k) ==> !f(k, m@[k]),
    },
{ unimplemented!() }
// m.iter_mut().find(|(k, v)| P).map(|(_, v)| v): the map after the borrow ends is the old map with the final value
// of the borrow written at the found key
#[verifier::external_body]
pub fn std_map_find_value_mut<'a, K, V>(m: &'a mut HashMap<K, V>, Ghost(f): Ghost<spec_fn(K, V) -> bool>) -> (r: Option<&'a mut V>)
    ensures match r {
        Some(v) => exists|k: K| #[trigger] old(m)@.contains_key(k) && old(m)@[k] == *v && f(k, *v)
                      && final(m)@ == old(m)@.insert(k, *final(v)) && (*final(v) == *v ==> *final(m) == *old(m)),
        None => (forall|k: K| #[trigger] old(m)@.contains_key(k) ==> !f(k, old(m)@[k])) && *final(m) == *old(m),
    },
{ unimplemented!() }
// m.iter().any(|(k, v)| P)   /   m.values().any(|v| P)
#[verifier::external_body]
pub fn std_map_any<K, V>(m: &HashMap<K, V>, Ghost(f): Ghost<spec_fn(K, V) -> bool>) -> (r: bool)
    ensures r == (exists|k: K| #[trigger] m@.contains_key(k) && f(k, m@[k])),
{ unimplemented!() }
// m.iter().find(|(k, v)| P)
#[verifier::external_body]
pub fn std_map_find_entry<'a, K, V>(m: &'a HashMap<K, V>, Ghost(f): Ghost<spec_fn(K, V) -> bool>) -> (r: Option<(&'a K, &'a V)>)
    ensures match r {
        Some(e) => m@.contains_key(*e.0) && m@[*e.0] == *e.1 && f(*e.0, *e.1),
        None => forall|k: K| #[trigger] m@.contains_key(k) ==> !f(k, m@[k]),
    },
{ unimplemented!() }

// ---- the credential view -------------------------------------------------------------------------------------------
// u is one of the stored user records
pub open spec fn stored(s: &System, u: User) -> bool {
    exists|k: u32| #[trigger] s.users@.contains_key(k) && s.users@[k] == u
}
// representation invariant: a record sits under its own id; a token record sits in its owner's map under its own digest
pub open spec fn users_wf(s: &System) -> bool {
    &&& forall|k: u32| #[trigger] s.users@.contains_key(k) ==> s.users@[k].id == k
    &&& forall|k: u32, h: Name| s.users@.contains_key(k) && #[trigger] s.users@[k].personal_access_tokens@.contains_key(h)
            ==> s.users@[k].personal_access_tokens@[h].user_id == k && s.users@[k].personal_access_tokens@[h].token == h
}
// usernames identify users
pub open spec fn names_unique(s: &System) -> bool {
    forall|a: u32, b: u32| #[trigger] s.users@.contains_key(a) && #[trigger] s.users@.contains_key(b)
        && s.users@[a].username == s.users@[b].username ==> a == b
}
// what an Identifier denotes among the stored users
pub open spec fn resolves(s: &System, ident: &Identifier, u: User) -> bool {
    if ident.kind == IdKind::Numeric {
        ident.length == 4 && s.users@.contains_key(ident.num()) && s.users@[ident.num()] == u
    } else {
        exists|k: u32| #[trigger] s.users@.contains_key(k) && s.users@[k] == u && u.username == ident.text()
    }
}
pub open spec fn resolves_none(s: &System, ident: &Identifier) -> bool {
    if ident.kind == IdKind::Numeric {
        ident.length == 4 && !s.users@.contains_key(ident.num())
    } else {
        forall|k: u32| #[trigger] s.users@.contains_key(k) ==> s.users@[k].username != ident.text()
    }
}
pub open spec fn session_ok(s: &Session) -> bool { s.active.v && s.user_id.v > 0 }
// token expiry over mathematical integers
pub open spec fn expired_at(t: PersonalAccessToken, now: IggyTimestamp) -> bool {
    t.expiry_at matches Some(e) && e.0 <= now.0
}
// C10 "deleting ... the token ends that credential's validity": tokens are deleted by NAME, so a user's token names must be unique —
// expired tokens included (they stay in the table until the cleaner runs): otherwise `delete` can remove a dead namesake and
// answer Ok while the live token keeps authenticating (seed C10_4)
pub open spec fn pat_names_unique_of(u: User) -> bool {
    forall|h1: Name, h2: Name| #![trigger u.personal_access_tokens@[h1], u.personal_access_tokens@[h2]]
        u.personal_access_tokens@.contains_key(h1) && u.personal_access_tokens@.contains_key(h2)
        && u.personal_access_tokens@[h1].name == u.personal_access_tokens@[h2].name ==> h1 == h2
}
pub open spec fn pat_names_unique(s: &System) -> bool {
    forall|k: u32| #[trigger] s.users@.contains_key(k) ==> pat_names_unique_of(s.users@[k])
}
pub open spec fn expiry_of(now: IggyTimestamp, expiry: IggyExpiry) -> Option<IggyTimestamp> {
    match expiry {
        IggyExpiry::ExpireDuration(d) => Some(IggyTimestamp((now.0 + d.0) as u64)),
        _ => None,
    }
}
// a token record for the raw token `raw` that is valid at `now` and belongs to user `uid` is stored
pub open spec fn valid_token(s: &System, raw: Name, now: IggyTimestamp, uid: u32) -> bool {
    exists|k: u32| #[trigger] s.users@.contains_key(k) && s.users@[k].personal_access_tokens@.contains_key(H(raw))
        && !expired_at(s.users@[k].personal_access_tokens@[H(raw)], now)
        && s.users@[k].personal_access_tokens@[H(raw)].user_id == uid
}
// every field of System except `users` (and the opaque permission tables written on the way) is untouched
pub open spec fn only_users(a: &System, b: &System) -> bool {
    *b == (System { users: b.users, permissioner: b.permissioner, ..*a })
}
