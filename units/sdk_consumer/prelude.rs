// ---- unit prelude: sdk_consumer (C20, consumer half) ---------------------------------------------
// Stand-in types, assumed contracts of non-extracted callees, and the spec vocabulary. Nothing here re-states a
// function body of /repo.

#[derive(Debug)]
pub enum IggyError { Disconnected, Unauthenticated, StaleClient, CannotDecryptData, Other(u32) }

// ---- R6: an atomic cell is a plain integer (memory orderings dropped; no interference at await points: A-seq) ----
pub struct AtomicU64 { pub v: u64 }
impl AtomicU64 {
    pub fn new(v: u64) -> (r: Self) ensures r.v == v { AtomicU64 { v } }
    pub fn load(&self) -> (r: u64) ensures r == self.v { self.v }
    pub fn store(&mut self, v: u64) ensures final(self).v == v { self.v = v; }
}

// ---- OffsetMap: stand-in for `DashMap<u32, AtomicU64>` (R4/R6) -------------------------------------
// View: the partial map partition id -> value of the cell. Sharding, hashing, shard locks and the Arc are dropped.
// dashmap's `get` hands out a guard through which the code `load`s/`store`s the atomic: with interior mutability made
// explicit (R6) the guard is a `&mut` to the cell and the map afterwards holds whatever the cell holds.
#[verifier::external_body]
pub struct OffsetMap { m: std::collections::HashMap<u32, u64> }
impl View for OffsetMap {
    type V = Map<u32, u64>;
    uninterp spec fn view(&self) -> Map<u32, u64>;
}
pub struct OffsetEntry { pub k: u32, pub cell: AtomicU64 }
impl OffsetEntry {
    pub fn key(&self) -> (r: &u32) ensures *r == self.k { &self.k }
    pub fn load(&self) -> (r: u64) ensures r == self.cell.v { self.cell.load() }
}
impl OffsetMap {
    #[verifier::external_body]
    pub fn new() -> (r: Self)
        ensures r@ == Map::<u32, u64>::empty(),
    { unimplemented!() }

    #[verifier::external_body]
    pub fn get(&mut self, k: &u32) -> (r: Option<&mut AtomicU64>)
        ensures match r {
            Some(c) => old(self)@.contains_key(*k) && c.v == old(self)@[*k] && final(self)@ == old(self)@.insert(*k, final(c).v),
            None => !old(self)@.contains_key(*k) && final(self)@ == old(self)@,
        },
    { unimplemented!() }

    #[verifier::external_body]
    pub fn insert(&mut self, k: u32, v: AtomicU64) -> (r: Option<AtomicU64>)
        ensures final(self)@ == old(self)@.insert(k, v.v),
    { unimplemented!() }

    // `for entry in m.iter()`: every entry exactly once, in an unspecified order; `entry.key()`, `entry.load(..)`.
    // (A-seq: the map is not changed by another task while it is iterated.)
    #[verifier::external_body]
    pub fn iter(&self) -> (r: Vec<OffsetEntry>)
        ensures
            forall|i: int, j: int| 0 <= i < j < r@.len() ==> r@[i].k != r@[j].k,
            forall|i: int| 0 <= i < r@.len() ==> self@.contains_key(#[trigger] r@[i].k) && self@[r@[i].k] == r@[i].cell.v,
            forall|p: u32| #[trigger] self@.contains_key(p) ==> exists|i: int| 0 <= i < r@.len() && r@[i].k == p,
    { unimplemented!() }
}

// absent == 0: `store_consumer_offset` and the poll future read a missing `last_stored_offsets` entry as 0
pub open spec fn val0(m: Map<u32, u64>, p: u32) -> u64 { if m.contains_key(p) { m[p] } else { 0 } }

// exactly one request was added to the log, for partition p and offset o
pub open spec fn one_request(a: Seq<(Option<u32>, u64, bool)>, b: Seq<(Option<u32>, u64, bool)>, p: u32, o: u64) -> bool {
    b.len() == a.len() + 1 && b =~= a.push((Some(p), o, b[a.len() as int].2))
}

// ---- ClientStub: the transport (`IggySharedMut<Box<dyn Client>>`) ----------------------------------
// Ghost log `commits()`: every StoreConsumerOffset request handed to the client, in order: (partition, offset, acknowledged).
// The request is logged whether or not the call returns Ok (an Err says nothing about what the server did); the third
// component is whether the call returned Ok.
#[verifier::external_body]
pub struct ClientStub { x: u8 }
impl ClientStub {
    pub uninterp spec fn commits(&self) -> Seq<(Option<u32>, u64, bool)>;

    #[verifier::external_body]
    pub fn store_consumer_offset(&mut self, consumer: &Consumer, stream_id: &Identifier, topic_id: &Identifier,
                                 partition_id: Option<u32>, offset: u64) -> (r: Result<(), IggyError>)
        ensures final(self).commits() == old(self).commits().push((partition_id, offset, r is Ok)),
    { unimplemented!() }
}

// ---- remaining stand-ins for the fields of IggyConsumer -------------------------------------------
pub struct AtomicU32 { pub v: u32 }
impl AtomicU32 {
    pub fn new(v: u32) -> (r: Self) ensures r.v == v { AtomicU32 { v } }
    pub fn load(&self) -> (r: u32) ensures r == self.v { self.v }
    pub fn store(&mut self, v: u32) ensures final(self).v == v { self.v = v; }
}
pub struct AtomicBool { pub v: bool }
impl AtomicBool {
    pub fn new(v: bool) -> (r: Self) ensures r.v == v { AtomicBool { v } }
}
#[derive(Clone, Copy)]
pub struct IggyDuration { pub micros: u64 }
#[verifier::external_body]
pub struct EncryptorKind { x: u8 }
// bytes::Bytes / IggyByteSize: payload and its length, opaque (no clause speaks about payload contents)
#[verifier::external_body]
#[derive(Debug)]
pub struct Bytes { b: Vec<u8> }
impl Bytes {
    #[verifier::external_body]
    pub fn len(&self) -> (r: usize) { unimplemented!() }
}
impl From<Vec<u8>> for Bytes {
    #[verifier::external_body]
    fn from(v: Vec<u8>) -> (r: Self) { unimplemented!() }
}
#[derive(Clone, Copy, Debug)]
pub struct IggyByteSize(pub u64);
impl From<u64> for IggyByteSize {
    fn from(byte_size: u64) -> (r: Self) { IggyByteSize(byte_size) }
}
impl vstd::std_specs::convert::FromSpecImpl<u64> for IggyByteSize {
    open spec fn obeys_from_spec() -> bool { true }
    open spec fn from_spec(v: u64) -> Self { IggyByteSize(v) }
}
impl vstd::std_specs::convert::FromSpecImpl<Vec<u8>> for Bytes {
    open spec fn obeys_from_spec() -> bool { false }
    uninterp spec fn from_spec(v: Vec<u8>) -> Self;
}
impl EncryptorKind {
    // AES-256-GCM decryption of one payload (sdk/src/utils/crypto.rs): no state, may fail
    #[verifier::external_body]
    pub fn decrypt(&self, data: &Bytes) -> (r: Result<Vec<u8>, IggyError>) { unimplemented!() }
}
// the boxed, pinned poll future: opaque (the body of its async block is verified as the slice `poll_future_tail`)
#[verifier::external_body]
pub struct PollMessagesFuture { x: u8 }

// ---- OffsetSender: the flume channel to the task that stores offsets (`init`) -----------------------
// Ghost log `sent()`: the (partition, offset) records queued so far. `send` fails only if the receiver is gone.
#[verifier::external_body]
pub struct OffsetSender { x: u8 }
pub struct SendError { pub x: u8 }
impl OffsetSender {
    pub uninterp spec fn sent(&self) -> Seq<(u32, u64)>;
    #[verifier::external_body]
    pub fn send(&mut self, rec: (u32, u64)) -> (r: Result<(), SendError>)
        ensures r is Ok ==> final(self).sent() == old(self).sent().push(rec),
            r is Err ==> final(self).sent() == old(self).sent(),
    { unimplemented!() }
}

// ---- MsgDeque: stand-in for std `VecDeque<PolledMessage>` (assumed std semantics over a Seq view) ---
#[verifier::external_body]
pub struct MsgDeque { d: std::collections::VecDeque<PolledMessage> }
impl View for MsgDeque {
    type V = Seq<PolledMessage>;
    uninterp spec fn view(&self) -> Seq<PolledMessage>;
}
impl MsgDeque {
    #[verifier::external_body]
    pub fn new() -> (r: Self)
        ensures r@ == Seq::<PolledMessage>::empty(),
    { unimplemented!() }
    #[verifier::external_body]
    pub fn pop_front(&mut self) -> (r: Option<PolledMessage>)
        ensures match r {
            Some(m) => old(self)@.len() > 0 && m == old(self)@[0] && final(self)@ == old(self)@.subrange(1, old(self)@.len() as int),
            None => old(self)@.len() == 0 && final(self)@ == old(self)@,
        },
    { unimplemented!() }
    #[verifier::external_body]
    pub fn extend(&mut self, v: Vec<PolledMessage>)
        ensures final(self)@ == old(self)@ + v@,
    { unimplemented!() }
    #[verifier::external_body]
    pub fn is_empty(&self) -> (r: bool)
        ensures r == (self@.len() == 0),
    { unimplemented!() }
}

// ---- R8 closure schema (documented std semantics): v.retain(|x| P(x)) keeps exactly the elements satisfying P, in order
pub trait VecRetainSpec<T>: View<V = Seq<T>> {
    fn retain_spec(&mut self, f: Ghost<spec_fn(T) -> bool>)
        ensures final(self)@ == old(self)@.filter(f@);
}
impl<T> VecRetainSpec<T> for Vec<T> {
    #[verifier::external_body]
    fn retain_spec(&mut self, f: Ghost<spec_fn(T) -> bool>) { unimplemented!() }
}

// tokio::time::sleep / IggyDuration::get_duration: timing only, no state
pub struct Duration { pub x: u64 }
impl IggyDuration {
    #[verifier::external_body]
    pub fn get_duration(&self) -> (r: Duration) { unimplemented!() }
}
#[verifier::external_body]
pub fn sleep(d: Duration) { unimplemented!() }

// proved (not assumed) facts about vstd's Seq::filter (same lemmas as unit client_memberships): filter depends on the
// predicate's extension only; filtering by a predicate every element satisfies is the identity
pub mod seqlem {
    use vstd::prelude::*;
    pub broadcast proof fn lemma_filter_ext<A>(s: Seq<A>, f: spec_fn(A) -> bool, g: spec_fn(A) -> bool)
        requires forall|x: A| #[trigger] f(x) == g(x),
        ensures #![trigger s.filter(f), s.filter(g)] s.filter(f) == s.filter(g),
        decreases s.len(),
    {
        reveal_with_fuel(Seq::filter, 2);
        if s.len() > 0 {
            lemma_filter_ext(s.drop_last(), f, g);
        }
    }
    pub broadcast proof fn lemma_filter_all<A>(s: Seq<A>, f: spec_fn(A) -> bool)
        requires forall|i: int| 0 <= i < s.len() ==> f(#[trigger] s[i]),
        ensures #[trigger] s.filter(f) == s,
        decreases s.len(),
    {
        reveal_with_fuel(Seq::filter, 2);
        if s.len() > 0 {
            lemma_filter_all(s.drop_last(), f);
            assert(s.drop_last().push(s.last()) =~= s);
        }
    }
    // every element of s.filter(f) satisfies f and is an element of s
    pub proof fn lemma_filter_sub<A>(s: Seq<A>, f: spec_fn(A) -> bool)
        ensures
            forall|i: int| 0 <= i < s.filter(f).len() ==> f(#[trigger] s.filter(f)[i]) && s.contains(s.filter(f)[i]),
            s.filter(f).len() <= s.len(),
        decreases s.len(),
    {
        reveal_with_fuel(Seq::filter, 2);
        if s.len() > 0 {
            lemma_filter_sub(s.drop_last(), f);
            let t = s.drop_last().filter(f);
            assert forall|i: int| 0 <= i < s.filter(f).len() implies f(#[trigger] s.filter(f)[i]) && s.contains(s.filter(f)[i]) by {
                if i < t.len() {
                    assert(s.filter(f)[i] == t[i]);
                    let k = choose|k: int| 0 <= k < s.drop_last().len() && s.drop_last()[k] == t[i];
                    assert(s[k] == t[i]);
                } else {
                    assert(s.filter(f)[i] == s.last());
                    assert(s[s.len() - 1] == s.last());
                }
            }
        }
    }
}
broadcast use {seqlem::lemma_filter_ext, seqlem::lemma_filter_all};

// ---- spec vocabulary of C20 (consumer half) --------------------------------------------------------
// what the property calls "the last message it has yielded" of a partition: the entry of `last_consumed_offsets`
pub open spec fn consumed_of(m: Map<u32, u64>, p: u32) -> Option<u64> { if m.contains_key(p) { Some(m[p]) } else { None } }
// "not yet yielded": offset beyond the last yielded one (everything, if nothing was yielded from the partition)
pub open spec fn newer(m: PolledMessage, c: Option<u64>) -> bool { match c { Some(o) => m.offset > o, None => true } }
// (opaque: the two-variable quantifier is only opened inside the access lemmas of lemmas.rs)
#[verifier::opaque]
pub open spec fn offsets_increasing(s: Seq<PolledMessage>) -> bool {
    forall|i: int, j: int| 0 <= i < j < s.len() ==> s[i].offset < s[j].offset
}
// A-server: a poll answer is a run of one partition: strictly increasing offsets, none beyond the partition's current offset
pub open spec fn server_run(pm: PolledMessages) -> bool {
    &&& offsets_increasing(pm.messages@)
    &&& forall|i: int| 0 <= i < pm.messages@.len() ==> (#[trigger] pm.messages@[i]).offset <= pm.current_offset
}
pub open spec fn vmax(a: u64, b: u64) -> u64 { if a >= b { a } else { b } }

// derived `PartialEq` of the extracted enum is structural equality
impl vstd::std_specs::cmp::PartialEqSpecImpl for PollingKind {
    open spec fn obeys_eq_spec() -> bool { true }
    open spec fn eq_spec(&self, other: &PollingKind) -> bool { *self == *other }
}

// std::task::Poll (R11: the branches of `Stream::poll_next` are sliced into plain functions; `Poll::Pending` is also the
// slice-tail marker "fell out of the slice without yielding")
pub enum Poll<T> { Ready(T), Pending }

// ---- the consumer's cursor state ----------------------------------------------------------------
// A-server: offsets stay below u64::MAX (the code computes `offset + 1` for the Offset polling strategy)
#[verifier::opaque]
pub open spec fn offsets_bounded(s: Seq<PolledMessage>) -> bool {
    forall|i: int| 0 <= i < s.len() ==> (#[trigger] s[i]).offset < u64::MAX
}
// all messages of s are "not yet yielded" w.r.t. the last yielded offset c of their partition
pub open spec fn all_newer(s: Seq<PolledMessage>, c: Option<u64>) -> bool {
    forall|i: int| 0 <= i < s.len() ==> newer(#[trigger] s[i], c)
}
// Invariant of the buffer: the buffered messages are a strictly increasing run of partition `current_partition_id`,
// all beyond the last yielded message of that partition (whose entry exists while the buffer is non-empty).
pub open spec fn consumer_wf(c: &IggyConsumer) -> bool {
    &&& offsets_increasing(c.buffered_messages@)
    &&& offsets_bounded(c.buffered_messages@)
    &&& c.buffered_messages@.len() > 0 ==> (c.last_consumed_offsets@.contains_key(c.current_partition_id.v)
            && c.buffered_messages@[0].offset > c.last_consumed_offsets@[c.current_partition_id.v])
}
// fields that no branch of poll_next touches
pub open spec fn same_static(a: &IggyConsumer, b: &IggyConsumer) -> bool {
    &&& a.client == b.client && a.consumer == b.consumer && a.stream_id == b.stream_id && a.topic_id == b.topic_id
    &&& a.auto_commit == b.auto_commit && a.auto_commit_after_polling == b.auto_commit_after_polling
    &&& a.last_stored_offsets == b.last_stored_offsets
    &&& a.store_offset_after_each_message == b.store_offset_after_each_message
    &&& a.store_offset_after_all_messages == b.store_offset_after_all_messages
    &&& a.store_after_every_nth_message == b.store_after_every_nth_message
    &&& a.allow_replay == b.allow_replay
}
// the records queued for the offset-storing task between two states: `a.sent()` extended by records that are all `rec`
pub open spec fn sent_only(a: Seq<(u32, u64)>, b: Seq<(u32, u64)>, rec: (u32, u64)) -> bool {
    &&& a.len() <= b.len() && b.subrange(0, a.len() as int) =~= a
    &&& forall|i: int| a.len() <= i < b.len() ==> b[i] == rec
}
// "the modes that commit on consumption", as the flags poll_next consults (tied to AutoCommit by [C20.mode.*])
pub open spec fn commits_on_yield(c: &IggyConsumer, offset: u64, emptied: bool) -> bool {
    ||| c.store_offset_after_each_message
    ||| (c.store_after_every_nth_message > 0 && offset % c.store_after_every_nth_message == 0)
    ||| (c.store_offset_after_all_messages && emptied)
}

// commit requests between two states of the client log: `a` extended by records that are all entries (partition, value) of `m`
pub open spec fn commits_from(a: Seq<(Option<u32>, u64, bool)>, b: Seq<(Option<u32>, u64, bool)>, m: Map<u32, u64>) -> bool {
    &&& a.len() <= b.len() && b.subrange(0, a.len() as int) =~= a
    &&& forall|i: int| a.len() <= i < b.len() ==> (#[trigger] b[i]).0 is Some && m.contains_key(b[i].0->0) && m[b[i].0->0] == b[i].1
}
pub open spec fn stored_monotone(a: Map<u32, u64>, b: Map<u32, u64>) -> bool {
    forall|p: u32| val0(b, p) >= val0(a, p)
}

// ---- stand-ins used only by the constructor ----
impl vstd::std_specs::cmp::PartialEqSpecImpl for ConsumerKind {
    open spec fn obeys_eq_spec() -> bool { true }
    open spec fn eq_spec(&self, other: &ConsumerKind) -> bool { *self == *other }
}
pub fn arc_new<T>(t: T) -> (r: T) ensures r == t { t }
impl IggyDuration {
    // IggyDuration::ONE_SECOND (the value plays no role in any clause)
    pub const ONE_SECOND: IggyDuration = IggyDuration { micros: 1_000_000 };
    #[verifier::external_body]
    pub fn as_micros(&self) -> (r: u64) { unimplemented!() }
}
pub mod flume {
    use super::*;
    #[verifier::external_body]
    pub struct Receiver { x: u8 }
    #[verifier::external_body]
    pub fn unbounded() -> (r: (OffsetSender, Receiver))
        ensures r.0.sent() == Seq::<(u32, u64)>::empty(),
    { unimplemented!() }
}
// the `When` part of the auto-commit configuration (doc comments of `AutoCommit`): the trigger that commits while consuming
pub open spec fn commit_when(a: AutoCommit) -> Option<AutoCommitWhen> {
    match a { AutoCommit::When(w) => Some(w), AutoCommit::IntervalOrWhen(_, w) => Some(w), _ => None }
}
