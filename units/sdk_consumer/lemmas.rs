// ---- lemmas of unit sdk_consumer (C20, consumer half): spec functions only ------------------------------

// access lemmas of the opaque run predicates (requires-free: implications in `ensures`)
pub proof fn lemma_run_tail(s: Seq<PolledMessage>)
    ensures
        (offsets_increasing(s) && s.len() > 0) ==> offsets_increasing(s.subrange(1, s.len() as int)),
        (offsets_bounded(s) && s.len() > 0) ==> (offsets_bounded(s.subrange(1, s.len() as int)) && s[0].offset < u64::MAX),
        (offsets_increasing(s) && s.len() > 1) ==> s[0].offset < s[1].offset,
{
    reveal(offsets_increasing);
    reveal(offsets_bounded);
    if s.len() > 0 {
        let t = s.subrange(1, s.len() as int);
        assert forall|i: int| 0 <= i < t.len() implies t[i] == s[i + 1] by {}
    }
}

pub proof fn lemma_run_empty(s: Seq<PolledMessage>)
    ensures s.len() == 0 ==> (offsets_increasing(s) && offsets_bounded(s)),
{
    reveal(offsets_increasing);
    reveal(offsets_bounded);
}

pub proof fn lemma_run_le_last(s: Seq<PolledMessage>, k: int)
    ensures (offsets_increasing(s) && 0 <= k < s.len()) ==> s[k].offset <= s.last().offset,
{
    reveal(offsets_increasing);
}

// The answer of the poll future satisfies what the yielding arm of poll_next relies on: filtering a run by "beyond the last
// yielded offset" leaves a run all of whose messages are beyond it.
// label: C20.link.filter-fresh
pub proof fn lemma_filter_run(s: Seq<PolledMessage>, c: Option<u64>)
    ensures
        offsets_increasing(s) ==> offsets_increasing(s.filter(|m: PolledMessage| newer(m, c))),
        offsets_bounded(s) ==> offsets_bounded(s.filter(|m: PolledMessage| newer(m, c))),
        all_newer(s.filter(|m: PolledMessage| newer(m, c)), c),
    decreases s.len(),
{
    let f = |m: PolledMessage| newer(m, c);
    reveal(offsets_increasing);
    reveal(offsets_bounded);
    reveal_with_fuel(Seq::filter, 2);
    seqlem::lemma_filter_sub(s, f);
    if s.len() > 0 {
        let d = s.drop_last();
        lemma_filter_run(d, c);
        seqlem::lemma_filter_sub(d, f);
        let t = d.filter(f);
        if offsets_increasing(s) {
            assert forall|i: int, j: int| 0 <= i < j < s.filter(f).len() implies s.filter(f)[i].offset < s.filter(f)[j].offset by {
                if j < t.len() {
                    assert(s.filter(f)[i] == t[i] && s.filter(f)[j] == t[j]);
                } else {
                    assert(s.filter(f)[j] == s.last());
                    assert(s.filter(f)[i] == t[i]);
                    let k = choose|k: int| 0 <= k < d.len() && d[k] == t[i];
                    assert(s[k] == t[i] && s[s.len() - 1] == s.last());
                }
            }
        }
        if offsets_bounded(s) {
            assert forall|i: int| 0 <= i < s.filter(f).len() implies (#[trigger] s.filter(f)[i]).offset < u64::MAX by {
                let k = choose|k: int| 0 <= k < s.len() && s[k] == s.filter(f)[i];
            }
        }
    }
}

// the run predicates speak about offsets only (the decrypt loop replaces payload and length)
pub open spec fn same_offsets(a: Seq<PolledMessage>, b: Seq<PolledMessage>) -> bool {
    a.len() == b.len() && forall|i: int| 0 <= i < a.len() ==> (#[trigger] b[i]).offset == a[i].offset
}
pub proof fn lemma_same_offsets(a: Seq<PolledMessage>, b: Seq<PolledMessage>, c: Option<u64>)
    ensures
        (same_offsets(a, b) && offsets_increasing(a)) ==> offsets_increasing(b),
        (same_offsets(a, b) && offsets_bounded(a)) ==> offsets_bounded(b),
        (same_offsets(a, b) && all_newer(a, c)) ==> all_newer(b, c),
{
    reveal(offsets_increasing);
    reveal(offsets_bounded);
    if same_offsets(a, b) && all_newer(a, c) {
        assert forall|i: int| 0 <= i < b.len() implies newer(#[trigger] b[i], c) by { assert(newer(a[i], c)); }
    }
}

// Composition of the four slices in the order poll_next runs them when the buffer is empty and the poll future completes
// (consumer.rs l.859-923: `match future.poll_unpin(cx) { Poll::Ready(Ok(mut polled_messages)) => { <take_partition>;
// if polled_messages.messages.is_empty() { .. } else { if let Some(ref encryptor) = self.encryptor { <decrypt> } <polled> } } }`):
// ONE obligation proved from the contracts of poll_future_tail, poll_next_take_partition, poll_next_decrypt and
// poll_next_polled. Without replay the message yielded after a poll has the offset of the first polled message beyond the
// last yielded one of that partition, the remaining such messages are buffered in order, nothing else is, and the buffer
// invariant holds again; if nothing is yielded (no such message, poll error, decrypt error) nothing counts as consumed.
// label: C20.compose.poll-yield
pub fn c20_poll_then_yield(c: &mut IggyConsumer, polled: Result<PolledMessages, IggyError>, consumer: Consumer, stream_id: Identifier,
                           topic_id: Identifier, retry_interval: IggyDuration, auto_commit_enabled: bool, encryptor: Option<EncryptorKind>)
    -> (r: Option<ReceivedMessage>)
    requires
        consumer_wf(old(c)),
        old(c).buffered_messages@.len() == 0,
        polled is Ok ==> (server_run(polled->Ok_0) && offsets_bounded(polled->Ok_0.messages@)),
    ensures
        consumer_wf(final(c)),
        (polled is Ok && !old(c).allow_replay) ==> ({
            let pm = polled->Ok_0;
            let kept = pm.messages@.filter(|m: PolledMessage| newer(m, consumed_of(old(c).last_consumed_offsets@, pm.partition_id)));
            match r {
                Some(rm) => kept.len() > 0 && rm.message.offset == kept[0].offset && rm.partition_id == pm.partition_id
                    && same_offsets(kept.subrange(1, kept.len() as int), final(c).buffered_messages@)
                    && final(c).current_partition_id.v == pm.partition_id
                    && final(c).last_consumed_offsets@ == old(c).last_consumed_offsets@.insert(pm.partition_id, rm.message.offset)
                    && newer(rm.message, consumed_of(old(c).last_consumed_offsets@, pm.partition_id)),
                None => (kept.len() == 0 || encryptor is Some) && final(c).buffered_messages@.len() == 0
                    && final(c).last_consumed_offsets@ == old(c).last_consumed_offsets@
                    && final(c).store_offset_sender.sent() == old(c).store_offset_sender.sent(),
            }
        }),
        r is Some ==> polled is Ok,
{
    proof {
        if polled is Ok {
            lemma_filter_run(polled->Ok_0.messages@, consumed_of(c.last_consumed_offsets@, polled->Ok_0.partition_id));
        }
    }
    let allow_replay = c.allow_replay;
    let after_polling = c.auto_commit_after_polling;
    let answer = IggyConsumer::poll_future_tail(polled, &mut c.last_consumed_offsets, &mut c.last_stored_offsets, allow_replay, after_polling,
                                                auto_commit_enabled, &mut c.client, consumer, stream_id, topic_id, retry_interval);
    match answer {
        Ok(polled_messages) => {
            let mut polled_messages = polled_messages;
            let partition_id = c.poll_next_take_partition(&polled_messages);
            if polled_messages.messages.is_empty() {
                None
            } else {
                let ghost before = polled_messages.messages@;
                proof {
                    if allow_replay {
                        reveal(offsets_increasing);
                    }
                }
                if let Some(enc) = &encryptor {
                    match c.poll_next_decrypt(&mut polled_messages, enc, partition_id) {
                        Poll::Pending => {},
                        _ => { return None; },
                    }
                }
                proof {
                    lemma_same_offsets(before, polled_messages.messages@, consumed_of(c.last_consumed_offsets@, partition_id));
                }
                let ghost msgs = polled_messages.messages@;
                match c.poll_next_polled(polled_messages, partition_id) {
                    Poll::Ready(Some(Ok(rm))) => {
                        proof {
                            let s = seq![rm.message] + c.buffered_messages@;
                            assert(s =~= msgs);
                            assert(s[0] == rm.message);
                            assert forall|i: int| 0 <= i < c.buffered_messages@.len() implies c.buffered_messages@[i] == msgs[i + 1] by {
                                assert(s[i + 1] == c.buffered_messages@[i]);
                            }
                        }
                        Some(rm)
                    },
                    _ => None,
                }
            }
        }
        Err(_) => None,
    }
}
