#!/usr/bin/env bash
# Runs the witness tests of unit sdk_consumer against the real sdk crate.
#   ./run.sh [filter]                                   -> against /repo/sdk (on the unrepaired tree f120_/f121_ are EXPECTED to fail)
#   IGGY_SDK=/var/tmp/wt_sdk_consumer/sdk ./run.sh      -> against a repaired tree (a scratch copy of this crate with the path swapped)
# Exit status is cargo's: 0 = every selected test passed, 101 = at least one failed, other = build problem.
set -u
here="$(dirname "$(readlink -f "$0")")"
export CARGO_NET_OFFLINE=true
export CARGO_TARGET_DIR="${CARGO_TARGET_DIR:-/var/tmp/sdk_consumer_target}"
export RUST_BACKTRACE=0
dir="$here"
if [ -n "${IGGY_SDK:-}" ]; then
  dir=/var/tmp/sdk_consumer/witness_alt
  rm -rf "$dir"; mkdir -p "$dir"; cp -r "$here/Cargo.toml" "$here/tests" "$dir/"
  sed -i "s|path = \"/repo/sdk\"|path = \"$IGGY_SDK\"|" "$dir/Cargo.toml"
fi
cd "$dir" || exit 2
cp /repo/Cargo.lock ./Cargo.lock || exit 2
cargo test --offline --test witnesses -- --test-threads 1 "$@"
exit $?
