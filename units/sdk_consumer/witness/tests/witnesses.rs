//! Witness histories for the findings of unit sdk_consumer (C20, consumer half).
//! The real `IggyConsumer` (built through the public `IggyClient::consumer(..)` builder) runs against `FakeClient`,
//! a transport that answers polls from an in-memory partition and records every StoreConsumerOffset request.
use async_trait::async_trait;
use bytes::Bytes;
use futures_util::StreamExt;
use iggy::client::*;
use iggy::clients::client::IggyClient;
use iggy::clients::consumer::{AutoCommit, AutoCommitWhen, IggyConsumer};
use iggy::compression::compression_algorithm::CompressionAlgorithm;
use iggy::consumer::Consumer;
use iggy::diagnostic::DiagnosticEvent;
use iggy::error::IggyError;
use iggy::identifier::Identifier;
use iggy::messages::poll_messages::{PollingKind, PollingStrategy};
use iggy::messages::send_messages::{Message, Partitioning};
use iggy::models::client_info::{ClientInfo, ClientInfoDetails};
use iggy::models::consumer_group::{ConsumerGroup, ConsumerGroupDetails};
use iggy::models::consumer_offset_info::ConsumerOffsetInfo;
use iggy::models::identity_info::IdentityInfo;
use iggy::models::messages::{MessageState, PolledMessage, PolledMessages};
use iggy::models::permissions::Permissions;
use iggy::models::personal_access_token::{PersonalAccessTokenInfo, RawPersonalAccessToken};
use iggy::models::snapshot::Snapshot;
use iggy::models::stats::Stats;
use iggy::models::stream::{Stream, StreamDetails};
use iggy::models::topic::{Topic, TopicDetails};
use iggy::models::user_info::{UserInfo, UserInfoDetails};
use iggy::models::user_status::UserStatus;
use iggy::snapshot::{SnapshotCompression, SystemSnapshotType};
use iggy::utils::byte_size::IggyByteSize;
use iggy::utils::crypto::{Aes256GcmEncryptor, EncryptorKind};
use iggy::utils::duration::IggyDuration;
use iggy::utils::expiry::IggyExpiry;
use iggy::utils::personal_access_token_expiry::PersonalAccessTokenExpiry;
use iggy::utils::timestamp::IggyTimestamp;
use iggy::utils::topic_size::MaxTopicSize;
use std::collections::HashMap;
use std::sync::{Arc, Mutex};
use std::time::Duration;

/// One partition of the fake server: payloads by offset (offset = index), the stored consumer offset, and the log of
/// StoreConsumerOffset requests (partition, offset) in arrival order.
#[derive(Debug, Default)]
struct FakeServer {
    partitions: Mutex<HashMap<u32, Vec<Vec<u8>>>>,
    stored: Mutex<HashMap<u32, u64>>,
    commits: Mutex<Vec<(u32, u64)>>,
}

#[derive(Debug, Clone)]
struct FakeClient {
    srv: Arc<FakeServer>,
    events: (async_broadcast::Sender<DiagnosticEvent>, async_broadcast::Receiver<DiagnosticEvent>),
}

impl FakeClient {
    fn new(srv: Arc<FakeServer>) -> Self {
        FakeClient { srv, events: async_broadcast::broadcast(8) }
    }
}

fn msg(offset: u64, payload: &[u8]) -> PolledMessage {
    PolledMessage {
        offset,
        state: MessageState::Available,
        timestamp: 1,
        id: offset as u128 + 1,
        checksum: 0,
        headers: None,
        length: IggyByteSize::from(payload.len() as u64),
        payload: Bytes::copy_from_slice(payload),
    }
}

#[async_trait]
impl Client for FakeClient {
    async fn connect(&self) -> Result<(), IggyError> { Ok(()) }
    async fn disconnect(&self) -> Result<(), IggyError> { Ok(()) }
    async fn shutdown(&self) -> Result<(), IggyError> { Ok(()) }
    async fn subscribe_events(&self) -> async_broadcast::Receiver<DiagnosticEvent> { self.events.1.clone() }
}
#[async_trait]
impl SystemClient for FakeClient {
    async fn get_stats(&self) -> Result<Stats, IggyError> { unimplemented!() }
    async fn get_me(&self) -> Result<ClientInfoDetails, IggyError> { unimplemented!() }
    async fn get_client(&self, _: u32) -> Result<Option<ClientInfoDetails>, IggyError> { unimplemented!() }
    async fn get_clients(&self) -> Result<Vec<ClientInfo>, IggyError> { unimplemented!() }
    async fn ping(&self) -> Result<(), IggyError> { Ok(()) }
    async fn heartbeat_interval(&self) -> IggyDuration { IggyDuration::ONE_SECOND }
    async fn snapshot(&self, _: SnapshotCompression, _: Vec<SystemSnapshotType>) -> Result<Snapshot, IggyError> { unimplemented!() }
}
#[async_trait]
impl UserClient for FakeClient {
    async fn get_user(&self, _: &Identifier) -> Result<Option<UserInfoDetails>, IggyError> { unimplemented!() }
    async fn get_users(&self) -> Result<Vec<UserInfo>, IggyError> { unimplemented!() }
    async fn create_user(&self, _: &str, _: &str, _: UserStatus, _: Option<Permissions>) -> Result<UserInfoDetails, IggyError> { unimplemented!() }
    async fn delete_user(&self, _: &Identifier) -> Result<(), IggyError> { unimplemented!() }
    async fn update_user(&self, _: &Identifier, _: Option<&str>, _: Option<UserStatus>) -> Result<(), IggyError> { unimplemented!() }
    async fn update_permissions(&self, _: &Identifier, _: Option<Permissions>) -> Result<(), IggyError> { unimplemented!() }
    async fn change_password(&self, _: &Identifier, _: &str, _: &str) -> Result<(), IggyError> { unimplemented!() }
    async fn login_user(&self, _: &str, _: &str) -> Result<IdentityInfo, IggyError> { unimplemented!() }
    async fn logout_user(&self) -> Result<(), IggyError> { unimplemented!() }
}
#[async_trait]
impl PersonalAccessTokenClient for FakeClient {
    async fn get_personal_access_tokens(&self) -> Result<Vec<PersonalAccessTokenInfo>, IggyError> { unimplemented!() }
    async fn create_personal_access_token(&self, _: &str, _: PersonalAccessTokenExpiry) -> Result<RawPersonalAccessToken, IggyError> { unimplemented!() }
    async fn delete_personal_access_token(&self, _: &str) -> Result<(), IggyError> { unimplemented!() }
    async fn login_with_personal_access_token(&self, _: &str) -> Result<IdentityInfo, IggyError> { unimplemented!() }
}
#[async_trait]
impl StreamClient for FakeClient {
    async fn get_stream(&self, _: &Identifier) -> Result<Option<StreamDetails>, IggyError> {
        Ok(Some(StreamDetails { id: 1, created_at: IggyTimestamp::now(), name: "s".into(), size: IggyByteSize::from(0u64), messages_count: 0, topics_count: 1, topics: vec![] }))
    }
    async fn get_streams(&self) -> Result<Vec<Stream>, IggyError> { unimplemented!() }
    async fn create_stream(&self, _: &str, _: Option<u32>) -> Result<StreamDetails, IggyError> { unimplemented!() }
    async fn update_stream(&self, _: &Identifier, _: &str) -> Result<(), IggyError> { unimplemented!() }
    async fn delete_stream(&self, _: &Identifier) -> Result<(), IggyError> { unimplemented!() }
    async fn purge_stream(&self, _: &Identifier) -> Result<(), IggyError> { unimplemented!() }
}
#[async_trait]
impl TopicClient for FakeClient {
    async fn get_topic(&self, _: &Identifier, _: &Identifier) -> Result<Option<TopicDetails>, IggyError> {
        Ok(Some(TopicDetails { id: 1, created_at: IggyTimestamp::now(), name: "t".into(), size: IggyByteSize::from(0u64), message_expiry: IggyExpiry::NeverExpire,
            compression_algorithm: CompressionAlgorithm::None, max_topic_size: MaxTopicSize::Unlimited, replication_factor: 1, messages_count: 0, partitions_count: 2, partitions: vec![] }))
    }
    async fn get_topics(&self, _: &Identifier) -> Result<Vec<Topic>, IggyError> { unimplemented!() }
    async fn create_topic(&self, _: &Identifier, _: &str, _: u32, _: CompressionAlgorithm, _: Option<u8>, _: Option<u32>, _: IggyExpiry, _: MaxTopicSize) -> Result<TopicDetails, IggyError> { unimplemented!() }
    async fn update_topic(&self, _: &Identifier, _: &Identifier, _: &str, _: CompressionAlgorithm, _: Option<u8>, _: IggyExpiry, _: MaxTopicSize) -> Result<(), IggyError> { unimplemented!() }
    async fn delete_topic(&self, _: &Identifier, _: &Identifier) -> Result<(), IggyError> { unimplemented!() }
    async fn purge_topic(&self, _: &Identifier, _: &Identifier) -> Result<(), IggyError> { unimplemented!() }
}
#[async_trait]
impl PartitionClient for FakeClient {
    async fn create_partitions(&self, _: &Identifier, _: &Identifier, _: u32) -> Result<(), IggyError> { unimplemented!() }
    async fn delete_partitions(&self, _: &Identifier, _: &Identifier, _: u32) -> Result<(), IggyError> { unimplemented!() }
}
#[async_trait]
impl MessageClient for FakeClient {
    /// The server's poll: `Offset(v)` from v, `Next` from stored+1 (or 0), `First` from 0; at most `count` messages;
    /// with `auto_commit` the offset of the last returned message is stored (server/src/streaming/systems/messages.rs).
    async fn poll_messages(&self, _: &Identifier, _: &Identifier, partition_id: Option<u32>, _: &Consumer, strategy: &PollingStrategy, count: u32, auto_commit: bool) -> Result<PolledMessages, IggyError> {
        let p = partition_id.unwrap_or(1);
        let log = self.srv.partitions.lock().unwrap().get(&p).cloned().unwrap_or_default();
        let start = match strategy.kind {
            PollingKind::Offset => strategy.value,
            PollingKind::Next => self.srv.stored.lock().unwrap().get(&p).map(|o| o + 1).unwrap_or(0),
            _ => 0,
        };
        let messages: Vec<PolledMessage> = log.iter().enumerate().skip(start as usize).take(count as usize).map(|(i, pl)| msg(i as u64, pl)).collect();
        if auto_commit {
            if let Some(last) = messages.last() {
                self.srv.stored.lock().unwrap().insert(p, last.offset);
            }
        }
        // keep the test from spinning when the partition is drained
        if messages.is_empty() { tokio::time::sleep(Duration::from_millis(5)).await; }
        Ok(PolledMessages { partition_id: p, current_offset: log.len().saturating_sub(1) as u64, messages })
    }
    async fn send_messages(&self, _: &Identifier, _: &Identifier, _: &Partitioning, _: &mut [Message]) -> Result<(), IggyError> { unimplemented!() }
    async fn flush_unsaved_buffer(&self, _: &Identifier, _: &Identifier, _: u32, _: bool) -> Result<(), IggyError> { unimplemented!() }
}
#[async_trait]
impl ConsumerOffsetClient for FakeClient {
    async fn store_consumer_offset(&self, _: &Consumer, _: &Identifier, _: &Identifier, partition_id: Option<u32>, offset: u64) -> Result<(), IggyError> {
        let p = partition_id.unwrap_or(1);
        self.srv.commits.lock().unwrap().push((p, offset));
        self.srv.stored.lock().unwrap().insert(p, offset);
        Ok(())
    }
    async fn get_consumer_offset(&self, _: &Consumer, _: &Identifier, _: &Identifier, _: Option<u32>) -> Result<Option<ConsumerOffsetInfo>, IggyError> { unimplemented!() }
    async fn delete_consumer_offset(&self, _: &Consumer, _: &Identifier, _: &Identifier, _: Option<u32>) -> Result<(), IggyError> { unimplemented!() }
}
#[async_trait]
impl ConsumerGroupClient for FakeClient {
    async fn get_consumer_group(&self, _: &Identifier, _: &Identifier, _: &Identifier) -> Result<Option<ConsumerGroupDetails>, IggyError> { unimplemented!() }
    async fn get_consumer_groups(&self, _: &Identifier, _: &Identifier) -> Result<Vec<ConsumerGroup>, IggyError> { unimplemented!() }
    async fn create_consumer_group(&self, _: &Identifier, _: &Identifier, _: &str, _: Option<u32>) -> Result<ConsumerGroupDetails, IggyError> { unimplemented!() }
    async fn delete_consumer_group(&self, _: &Identifier, _: &Identifier, _: &Identifier) -> Result<(), IggyError> { unimplemented!() }
    async fn join_consumer_group(&self, _: &Identifier, _: &Identifier, _: &Identifier) -> Result<(), IggyError> { unimplemented!() }
    async fn leave_consumer_group(&self, _: &Identifier, _: &Identifier, _: &Identifier) -> Result<(), IggyError> { unimplemented!() }
}

fn encryptor(key: u8) -> Arc<EncryptorKind> {
    Arc::new(EncryptorKind::Aes256Gcm(Aes256GcmEncryptor::new(&[key; 32]).unwrap()))
}

async fn consumer(srv: &Arc<FakeServer>, enc: Option<Arc<EncryptorKind>>, auto_commit: AutoCommit, strategy: PollingStrategy, batch: u32) -> IggyConsumer {
    let client = IggyClient::create(Box::new(FakeClient::new(srv.clone())), None, enc);
    let mut c = client.consumer("c1", "s", "t", 1).unwrap()
        .auto_commit(auto_commit).polling_strategy(strategy).batch_size(batch).build();
    c.init().await.unwrap();
    c
}

/// Sanity (must pass on every tree): 25 messages, batch 10, every commit mode that commits on consumption: each message
/// is yielded once, in order, and no commit ever exceeds the last yielded offset.
#[tokio::test]
async fn sanity_every_message_once_in_order() {
    for mode in [AutoCommit::When(AutoCommitWhen::ConsumingEachMessage), AutoCommit::When(AutoCommitWhen::ConsumingAllMessages),
                 AutoCommit::When(AutoCommitWhen::ConsumingEveryNthMessage(3)), AutoCommit::Disabled] {
        let srv = Arc::new(FakeServer::default());
        srv.partitions.lock().unwrap().insert(1, (0..25u8).map(|i| vec![i]).collect());
        let mut c = consumer(&srv, None, mode, PollingStrategy::offset(0), 10).await;
        let mut yielded = vec![];
        while yielded.len() < 25 {
            let m = tokio::time::timeout(Duration::from_secs(2), c.next()).await.expect("stream stalled").unwrap().unwrap();
            assert_eq!(m.partition_id, 1);
            yielded.push(m.message.offset);
            tokio::time::sleep(Duration::from_millis(2)).await;
            let last = *yielded.last().unwrap();
            assert!(srv.commits.lock().unwrap().iter().all(|(_, o)| *o <= last), "{mode:?}: commit beyond the last yielded message");
        }
        assert_eq!(yielded, (0..25u64).collect::<Vec<_>>(), "{mode:?}");
    }
}

/// F120. The poll future records "offset 0 consumed" for a partition nothing was yielded from
/// (consumer.rs: `last_consumed_offset.insert(partition_id, AtomicU64::new(0))`). If the answer is then not yielded
/// (here: its payload cannot be decrypted, poll_next returns the error), the interval committer stores offset 0 on the
/// server: the message at offset 0 is acknowledged although it was never yielded; a consumer re-created with the same
/// identity (and the right key) starts at offset 1.
#[tokio::test]
async fn f120_commit_without_yield() {
    let srv = Arc::new(FakeServer::default());
    // offset 0 was produced with another key: not decryptable by this consumer
    let foreign = encryptor(9).encrypt(b"m0").unwrap();
    srv.partitions.lock().unwrap().insert(1, vec![foreign]);
    let mut c = consumer(&srv, Some(encryptor(1)), AutoCommit::Interval(IggyDuration::from(20_000u64)), PollingStrategy::next(), 10).await;
    let first = tokio::time::timeout(Duration::from_secs(2), c.next()).await.expect("stream stalled").unwrap();
    assert!(first.is_err(), "the undecryptable message must not be yielded");
    tokio::time::sleep(Duration::from_millis(150)).await;
    let commits = srv.commits.lock().unwrap().clone();
    assert!(commits.is_empty(), "nothing was yielded, but the consumer committed {commits:?} (offset 0 acknowledged without having been yielded)");
}

/// F121. Without replay `store_consumer_offset` skips offsets that are not beyond the last stored one - except offset 0
/// (`offset <= stored_offset && offset >= 1`): 3 after 5 is skipped, 0 after 5 is sent and rewinds the stored offset to 0.
#[tokio::test]
async fn f121_offset_zero_rewinds_the_commit() {
    let srv = Arc::new(FakeServer::default());
    srv.partitions.lock().unwrap().insert(1, (0..10u8).map(|i| vec![i]).collect());
    let c = consumer(&srv, None, AutoCommit::Disabled, PollingStrategy::next(), 10).await;
    c.store_offset(5, Some(1)).await.unwrap();
    c.store_offset(3, Some(1)).await.unwrap();
    c.store_offset(0, Some(1)).await.unwrap();
    let commits = srv.commits.lock().unwrap().clone();
    let stored = srv.stored.lock().unwrap().get(&1).copied();
    assert_eq!(commits, vec![(1, 5)], "without replay no offset below the stored one may be sent");
    assert_eq!(stored, Some(5), "the committed offset went backwards");
}

/// Observation O1 (no contract clause: the meaning of `First` is the server's; not run by default).
/// With `PollingStrategy::first()` only `PollingKind::Offset` is ever advanced by poll_next, so every poll asks for the first
/// batch again, the filter drops it, and the stream never gets past `batch_size` messages.
#[tokio::test]
#[ignore]
async fn obs_first_strategy_never_passes_the_first_batch() {
    let srv = Arc::new(FakeServer::default());
    srv.partitions.lock().unwrap().insert(1, (0..25u8).map(|i| vec![i]).collect());
    let mut c = consumer(&srv, None, AutoCommit::Disabled, PollingStrategy::first(), 10).await;
    let mut yielded = vec![];
    while yielded.len() < 25 {
        match tokio::time::timeout(Duration::from_millis(500), c.next()).await {
            Ok(m) => yielded.push(m.unwrap().unwrap().message.offset),
            Err(_) => break,
        }
    }
    assert_eq!(yielded.len(), 25, "stalled after {yielded:?}");
}
