// ---- unit prelude: journal_sinks (C05: what every journalling request handler hands to the state log) ------------
// Stand-ins (R4) and assumed contracts of everything the extracted handlers call but which is not extracted.
// Nothing here re-states a function body of /repo.
//
// MODEL (handler level). For the request handlers the in-memory runtime has ONE observable: `System::ops()`, the ghost log
// of the runtime operations that were executed successfully, each with the arguments it was called with (and, where the
// operation resolves something, what it resolved: assigned ids, resolved expiry / size limit, the raw token). It is an
// uninterpreted function of the opaque remainder of the runtime (`System.users`, R4: `UsersRt` - users, tokens,
// permissions and, as ghost state, this log). Every `System` operation the handlers call is a stub that appends its own
// record on Ok and NOTHING on Err ("a failed operation executed nothing"), and never touches `System.state`.
// `StateKind::apply` appends (user id, command) to the ghost journal `StateKind::log()` (the file side is unit journal's
// subject, C11). The two logs live in different fields of `System`, so neither stub can move the other log.
// The stub assumption "Err => nothing executed" is what unit catalogue_maps proves for the entity-level operations
// ([C06.fail.*]); for the System-level wrapper of update_topic it is proved HERE against the real text ([C05.exec.*],
// second part of this prelude), because the handlers journal only after Ok: an operation that changes the catalogue and
// then reports Err leaves the running catalogue ahead of its journal.

// --- names: opaque strings; only equality is observable (A-std: clone/to_owned/to_string/into copy the value) ----
#[verifier::external_body]
#[derive(Debug)]
pub struct Name { s: String }
impl Name {
    #[verifier::external_body]
    pub fn to_owned(&self) -> (r: Name) ensures r == *self { unimplemented!() }
    #[verifier::external_body]
    pub fn to_string(&self) -> (r: Name) ensures r == *self { unimplemented!() }
}
impl Clone for Name {
    #[verifier::external_body]
    fn clone(&self) -> (r: Name) ensures r == *self { unimplemented!() }
}
// a string literal as a Name (`"".into()`)
pub uninterp spec fn name_of_str(v: &str) -> Name;
impl<'a> From<&'a str> for Name {
    #[verifier::external_body]
    fn from(v: &'a str) -> (r: Name) ensures r == name_of_str(v) { unimplemented!() }
}
impl<'a> vstd::std_specs::convert::FromSpecImpl<&'a str> for Name {
    open spec fn obeys_from_spec() -> bool { true }
    open spec fn from_spec(v: &'a str) -> Name { name_of_str(v) }
}

// --- errors: opaque; the HTTP wrapper is `#[error(transparent)] Error(#[from] IggyError)` (thiserror derives this From)
#[derive(Debug)]
pub struct IggyError { pub code: u32 }
#[derive(Debug)]
pub enum CustomError { Error(IggyError), ResourceNotFound }
impl From<IggyError> for CustomError {
    fn from(e: IggyError) -> (r: CustomError) ensures r == CustomError::Error(e) { CustomError::Error(e) }
}
impl vstd::std_specs::convert::FromSpecImpl<IggyError> for CustomError {
    open spec fn obeys_from_spec() -> bool { true }
    open spec fn from_spec(v: IggyError) -> CustomError { CustomError::Error(v) }
}

// --- setting values: opaque, copied around; only equality is observable ---
#[derive(Clone, Copy)]
pub struct IggyExpiry(pub u64);
#[derive(Clone, Copy)]
pub struct CompressionAlgorithm(pub u8);
#[derive(Clone, Copy)]
pub struct MaxTopicSize(pub u64);
#[derive(Clone, Copy)]
pub struct UserStatus(pub u8);
#[verifier::external_body]
pub struct Permissions { x: u8 }
impl Clone for Permissions { #[verifier::external_body] fn clone(&self) -> (r: Self) ensures r == *self { unimplemented!() } }
#[derive(Clone, Copy)]
pub struct SocketAddr(pub u64);

// R6: AtomicU32 / AtomicBool of the session as plain cells (orderings dropped)
pub struct Cell32 { pub v: u32 }
impl Cell32 {
    pub fn new(v: u32) -> (r: Cell32) ensures r.v == v { Cell32 { v } }
    pub fn load(&self) -> (r: u32) ensures r == self.v { self.v }
}
pub struct CellBool { pub v: bool }
impl CellBool {
    pub fn new(v: bool) -> (r: CellBool) ensures r.v == v { CellBool { v } }
}

// --- Identifier (sdk): the struct is extracted; cloning copies it; a path segment is turned into an identifier by a
// FUNCTION of the text (numeric if it parses as u32, else a name) - which function is the codec units' matter
impl Clone for Identifier { #[verifier::external_body] fn clone(&self) -> (r: Self) ensures r == *self { unimplemented!() } }
pub uninterp spec fn ident_of(text: Name) -> Identifier;
impl Identifier {
    #[verifier::external_body]
    pub fn from_str_value(value: &Name) -> (r: Result<Identifier, IggyError>)
        ensures r matches Ok(i) ==> i == ident_of(*value),
    { unimplemented!() }
    // A-std: `ToOwned::to_owned` of a Clone type is `clone`
    #[verifier::external_body]
    pub fn to_owned(&self) -> (r: Identifier) ensures r == *self { unimplemented!() }
}

// --- the opaque in-memory catalogue and its ghost log of executed operations ---
#[verifier::external_body]
pub struct UsersRt { x: u8 }
pub uninterp spec fn rt_ops(u: UsersRt) -> Seq<Op>;

// one record per successfully executed runtime operation: who ran it, with which arguments, and what it resolved
pub enum Op {
    CreateStream { user: u32, requested: Option<u32>, name: Name, assigned: u32 },
    UpdateStream { user: u32, stream_id: Identifier, name: Name },
    DeleteStream { user: u32, stream_id: Identifier },
    PurgeStream { user: u32, stream_id: Identifier },
    CreateTopic { user: u32, stream_id: Identifier, requested: Option<u32>, name: Name, partitions_count: u32, message_expiry: IggyExpiry,
        compression_algorithm: CompressionAlgorithm, max_topic_size: MaxTopicSize, replication_factor: Option<u8>,
        assigned: u32, resolved_expiry: IggyExpiry, resolved_max_size: MaxTopicSize },
    UpdateTopic { user: u32, stream_id: Identifier, topic_id: Identifier, name: Name, message_expiry: IggyExpiry,
        compression_algorithm: CompressionAlgorithm, max_topic_size: MaxTopicSize, replication_factor: Option<u8>,
        resolved_expiry: IggyExpiry, resolved_max_size: MaxTopicSize },
    DeleteTopic { user: u32, stream_id: Identifier, topic_id: Identifier },
    PurgeTopic { user: u32, stream_id: Identifier, topic_id: Identifier },
    CreatePartitions { user: u32, stream_id: Identifier, topic_id: Identifier, partitions_count: u32 },
    DeletePartitions { user: u32, stream_id: Identifier, topic_id: Identifier, partitions_count: u32 },
    CreateConsumerGroup { user: u32, stream_id: Identifier, topic_id: Identifier, requested: Option<u32>, name: Name, assigned: u32 },
    DeleteConsumerGroup { user: u32, stream_id: Identifier, topic_id: Identifier, group_id: Identifier },
    CreateUser { user: u32, username: Name, password: Name, status: UserStatus, permissions: Option<Permissions> },
    UpdateUser { user: u32, user_id: Identifier, username: Option<Name>, status: Option<UserStatus> },
    DeleteUser { user: u32, user_id: Identifier },
    UpdatePermissions { user: u32, user_id: Identifier, permissions: Option<Permissions> },
    ChangePassword { user: u32, user_id: Identifier, current_password: Name, new_password: Name },
    CreateToken { user: u32, name: Name, expiry: IggyExpiry, token: Name },
    DeleteToken { user: u32, name: Name },
}

// the stub contract of a runtime operation: the journal is not touched; on Ok its record is appended, on Err nothing is
pub open spec fn ran(pre: &System, post: &System, ok: bool, op: Op) -> bool {
    &&& post.state == pre.state
    &&& ok ==> post.ops() == pre.ops().push(op)
    &&& !ok ==> post.ops() == pre.ops()
}

impl System {
    pub open spec fn ops(&self) -> Seq<Op> { rt_ops(self.users) }

    // ---- streams (streaming/systems/streams.rs) ----
    #[verifier::external_body]
    pub fn create_stream(&mut self, session: &Session, stream_id: Option<u32>, name: &Name) -> (r: Result<&Stream, IggyError>)
        ensures ran(old(self), final(self), r is Ok, Op::CreateStream { user: session.user_id.v, requested: stream_id, name: *name,
            assigned: (if r is Ok { r->Ok_0.stream_id } else { 0 }) }),
    { unimplemented!() }
    #[verifier::external_body]
    pub fn update_stream(&mut self, session: &Session, id: &Identifier, name: &Name) -> (r: Result<(), IggyError>)
        ensures ran(old(self), final(self), r is Ok, Op::UpdateStream { user: session.user_id.v, stream_id: *id, name: *name }),
    { unimplemented!() }
    #[verifier::external_body]
    pub fn delete_stream(&mut self, session: &Session, id: &Identifier) -> (r: Result<u32, IggyError>)
        ensures ran(old(self), final(self), r is Ok, Op::DeleteStream { user: session.user_id.v, stream_id: *id }),
    { unimplemented!() }
    // R6 receiver: purge works through the partitions' interior mutability (`&self` in the source)
    #[verifier::external_body]
    pub fn purge_stream(&mut self, session: &Session, stream_id: &Identifier) -> (r: Result<(), IggyError>)
        ensures ran(old(self), final(self), r is Ok, Op::PurgeStream { user: session.user_id.v, stream_id: *stream_id }),
    { unimplemented!() }

    // ---- topics (streaming/systems/topics.rs): create/update return the topic they created/updated ----
    #[verifier::external_body]
    pub fn create_topic(&mut self, session: &Session, stream_id: &Identifier, topic_id: Option<u32>, name: &Name, partitions_count: u32,
        message_expiry: IggyExpiry, compression_algorithm: CompressionAlgorithm, max_topic_size: MaxTopicSize, replication_factor: Option<u8>)
        -> (r: Result<&Topic, IggyError>)
        ensures ran(old(self), final(self), r is Ok, Op::CreateTopic { user: session.user_id.v, stream_id: *stream_id, requested: topic_id, name: *name,
            partitions_count, message_expiry, compression_algorithm, max_topic_size, replication_factor,
            assigned: (if r is Ok { r->Ok_0.topic_id } else { 0 }),
            resolved_expiry: (if r is Ok { r->Ok_0.message_expiry } else { message_expiry }),
            resolved_max_size: (if r is Ok { r->Ok_0.max_topic_size } else { max_topic_size }) }),
    { unimplemented!() }
    #[verifier::external_body]
    pub fn update_topic(&mut self, session: &Session, stream_id: &Identifier, topic_id: &Identifier, name: &Name,
        message_expiry: IggyExpiry, compression_algorithm: CompressionAlgorithm, max_topic_size: MaxTopicSize, replication_factor: Option<u8>)
        -> (r: Result<&Topic, IggyError>)
        ensures ran(old(self), final(self), r is Ok, Op::UpdateTopic { user: session.user_id.v, stream_id: *stream_id, topic_id: *topic_id, name: *name,
            message_expiry, compression_algorithm, max_topic_size, replication_factor,
            resolved_expiry: (if r is Ok { r->Ok_0.message_expiry } else { message_expiry }),
            resolved_max_size: (if r is Ok { r->Ok_0.max_topic_size } else { max_topic_size }) }),
    { unimplemented!() }
    #[verifier::external_body]
    pub fn delete_topic(&mut self, session: &Session, stream_id: &Identifier, topic_id: &Identifier) -> (r: Result<(), IggyError>)
        ensures ran(old(self), final(self), r is Ok, Op::DeleteTopic { user: session.user_id.v, stream_id: *stream_id, topic_id: *topic_id }),
    { unimplemented!() }
    // R6 receiver (`&self` in the source)
    #[verifier::external_body]
    pub fn purge_topic(&mut self, session: &Session, stream_id: &Identifier, topic_id: &Identifier) -> (r: Result<(), IggyError>)
        ensures ran(old(self), final(self), r is Ok, Op::PurgeTopic { user: session.user_id.v, stream_id: *stream_id, topic_id: *topic_id }),
    { unimplemented!() }

    // ---- partitions (streaming/systems/partitions.rs) ----
    #[verifier::external_body]
    pub fn create_partitions(&mut self, session: &Session, stream_id: &Identifier, topic_id: &Identifier, partitions_count: u32) -> (r: Result<(), IggyError>)
        ensures ran(old(self), final(self), r is Ok, Op::CreatePartitions { user: session.user_id.v, stream_id: *stream_id, topic_id: *topic_id, partitions_count }),
    { unimplemented!() }
    #[verifier::external_body]
    pub fn delete_partitions(&mut self, session: &Session, stream_id: &Identifier, topic_id: &Identifier, partitions_count: u32) -> (r: Result<(), IggyError>)
        ensures ran(old(self), final(self), r is Ok, Op::DeletePartitions { user: session.user_id.v, stream_id: *stream_id, topic_id: *topic_id, partitions_count }),
    { unimplemented!() }

    // ---- consumer groups (streaming/systems/consumer_groups.rs) ----
    #[verifier::external_body]
    pub fn create_consumer_group(&mut self, session: &Session, stream_id: &Identifier, topic_id: &Identifier, group_id: Option<u32>, name: &Name)
        -> (r: Result<&ConsumerGroup, IggyError>)
        ensures ran(old(self), final(self), r is Ok, Op::CreateConsumerGroup { user: session.user_id.v, stream_id: *stream_id, topic_id: *topic_id,
            requested: group_id, name: *name, assigned: (if r is Ok { r->Ok_0.group_id } else { 0 }) }),
    { unimplemented!() }
    #[verifier::external_body]
    pub fn delete_consumer_group(&mut self, session: &Session, stream_id: &Identifier, topic_id: &Identifier, consumer_group_id: &Identifier)
        -> (r: Result<(), IggyError>)
        ensures ran(old(self), final(self), r is Ok, Op::DeleteConsumerGroup { user: session.user_id.v, stream_id: *stream_id, topic_id: *topic_id,
            group_id: *consumer_group_id }),
    { unimplemented!() }

    // ---- users (streaming/systems/users.rs) ----
    #[verifier::external_body]
    pub fn create_user(&mut self, session: &Session, username: &Name, password: &Name, status: UserStatus, permissions: Option<Permissions>)
        -> (r: Result<&User, IggyError>)
        ensures ran(old(self), final(self), r is Ok, Op::CreateUser { user: session.user_id.v, username: *username, password: *password, status, permissions }),
    { unimplemented!() }
    #[verifier::external_body]
    pub fn update_user(&mut self, session: &Session, user_id: &Identifier, username: Option<Name>, status: Option<UserStatus>)
        -> (r: Result<&User, IggyError>)
        ensures ran(old(self), final(self), r is Ok, Op::UpdateUser { user: session.user_id.v, user_id: *user_id, username, status }),
    { unimplemented!() }
    #[verifier::external_body]
    pub fn delete_user(&mut self, session: &Session, user_id: &Identifier) -> (r: Result<User, IggyError>)
        ensures ran(old(self), final(self), r is Ok, Op::DeleteUser { user: session.user_id.v, user_id: *user_id }),
    { unimplemented!() }
    #[verifier::external_body]
    pub fn update_permissions(&mut self, session: &Session, user_id: &Identifier, permissions: Option<Permissions>) -> (r: Result<(), IggyError>)
        ensures ran(old(self), final(self), r is Ok, Op::UpdatePermissions { user: session.user_id.v, user_id: *user_id, permissions }),
    { unimplemented!() }
    #[verifier::external_body]
    pub fn change_password(&mut self, session: &Session, user_id: &Identifier, current_password: &Name, new_password: &Name) -> (r: Result<(), IggyError>)
        ensures ran(old(self), final(self), r is Ok, Op::ChangePassword { user: session.user_id.v, user_id: *user_id,
            current_password: *current_password, new_password: *new_password }),
    { unimplemented!() }

    // ---- personal access tokens (streaming/systems/personal_access_tokens.rs): create returns the raw token ----
    #[verifier::external_body]
    pub fn create_personal_access_token(&mut self, session: &Session, name: &Name, expiry: IggyExpiry) -> (r: Result<Name, IggyError>)
        ensures ran(old(self), final(self), r is Ok, Op::CreateToken { user: session.user_id.v, name: *name, expiry,
            token: (if r is Ok { r->Ok_0 } else { *name }) }),
    { unimplemented!() }
    #[verifier::external_body]
    pub fn delete_personal_access_token(&mut self, session: &Session, name: &Name) -> (r: Result<(), IggyError>)
        ensures ran(old(self), final(self), r is Ok, Op::DeleteToken { user: session.user_id.v, name: *name }),
    { unimplemented!() }

    // ---- read-only operations (`&self`: neither log can move) ----
    #[verifier::external_body]
    pub fn try_find_stream(&self, session: &Session, identifier: &Identifier) -> (r: Result<Option<&Stream>, IggyError>) { unimplemented!() }
    #[verifier::external_body]
    pub fn try_find_topic(&self, session: &Session, stream_id: &Identifier, topic_id: &Identifier) -> (r: Result<Option<&Topic>, IggyError>) { unimplemented!() }
    #[verifier::external_body]
    pub fn find_topics(&self, session: &Session, stream_id: &Identifier) -> (r: Result<Vec<&Topic>, IggyError>) { unimplemented!() }
    // login changes the SESSION (C10's subject), not the catalogue
    #[verifier::external_body]
    pub fn login_user(&self, username: &Name, password: &Name, session: Option<&Session>) -> (r: Result<&User, IggyError>) { unimplemented!() }
}

// --- the journal: `Arc<StateKind>` (FileState). `apply` appends exactly one entry holding the user id and the command
// it is handed (the file side is unit journal's subject, C11); a failed apply may or may not have written the entry.
// R6 receiver: the real `apply(&self)` mutates through atomics + file.
#[verifier::external_body]
pub struct StateKind { x: u8 }
impl StateKind {
    pub uninterp spec fn log(&self) -> Seq<(u32, EntryCommand)>;
    // LINKED (relational reading, not verbatim): units/journal/lemmas.rs, harness [C05.link.journal_sinks.apply] proves both clauses from the real
    // FileState::apply with `log()` read as "a ghost sequence the journal file DENOTES" (valid journal whose entries carry, in order, the
    // journal forms `cmd_bytes` of the logged commands and the user ids): Ok => the new file denotes log.push(..); Err => it denotes log or log.push(..)
    // OR - a case this stub does not list - the write was torn and the file is no journal any more (the loader refuses it at the next
    // start). The real function's preconditions are NOT carried here: the journal invariant `jwf` (broken by a failed apply: F16),
    // `command.payload_fits()` (payload below 4 GiB) and unit journal's scope `encryptor is None`. The VALUE-level equation on `log()` as a
    // function needs `cmd_bytes` injective = the round trip of unit journal_cmd ([C13.journal.cmd.rt]): still stated, not linked.
    #[verifier::external_body]
    pub fn apply(&mut self, user_id: u32, command: EntryCommand) -> (r: Result<(), IggyError>)
        ensures r is Ok ==> final(self).log() == old(self).log().push((user_id, command)),
            r is Err ==> (final(self).log() == old(self).log() || final(self).log() == old(self).log().push((user_id, command))),
    { unimplemented!() }
}

// --- secrets: what is journalled is the hash / digest (units credentials + encryption own what a hash is) ---
pub uninterp spec fn pw_hash(clear: Name) -> Name;
pub uninterp spec fn token_digest(raw: Name) -> Name;
pub mod crypto {
    use super::*;
    #[verifier::external_body]
    pub fn hash_password(password: &Name) -> (r: Name) ensures r == pw_hash(*password) { unimplemented!() }
}
pub struct PersonalAccessToken { pub x: u8 }
impl PersonalAccessToken {
    // LINKED: units/credentials/lemmas.rs, harness [C10.link.journal_sinks.hash_token] (token_digest = credentials' digest `H`; mirror edits there)
    #[verifier::external_body]
    pub fn hash_token(token: &Name) -> (r: Name) ensures r == token_digest(*token) { unimplemented!() }
}

// --- request validation (sdk Validatable): may refuse; says nothing else ---
impl CreateStream { #[verifier::external_body] pub fn validate(&self) -> (r: Result<(), IggyError>) { unimplemented!() } }
impl UpdateStream { #[verifier::external_body] pub fn validate(&self) -> (r: Result<(), IggyError>) { unimplemented!() } }
impl CreateTopic { #[verifier::external_body] pub fn validate(&self) -> (r: Result<(), IggyError>) { unimplemented!() } }
impl UpdateTopic { #[verifier::external_body] pub fn validate(&self) -> (r: Result<(), IggyError>) { unimplemented!() } }
impl CreatePartitions { #[verifier::external_body] pub fn validate(&self) -> (r: Result<(), IggyError>) { unimplemented!() } }
impl DeletePartitions { #[verifier::external_body] pub fn validate(&self) -> (r: Result<(), IggyError>) { unimplemented!() } }
impl CreateConsumerGroup { #[verifier::external_body] pub fn validate(&self) -> (r: Result<(), IggyError>) { unimplemented!() } }
impl CreateUser { #[verifier::external_body] pub fn validate(&self) -> (r: Result<(), IggyError>) { unimplemented!() } }
impl UpdateUser { #[verifier::external_body] pub fn validate(&self) -> (r: Result<(), IggyError>) { unimplemented!() } }
impl UpdatePermissions { #[verifier::external_body] pub fn validate(&self) -> (r: Result<(), IggyError>) { unimplemented!() } }
impl ChangePassword { #[verifier::external_body] pub fn validate(&self) -> (r: Result<(), IggyError>) { unimplemented!() } }
impl CreatePersonalAccessToken { #[verifier::external_body] pub fn validate(&self) -> (r: Result<(), IggyError>) { unimplemented!() } }

// --- transport side of a handler: response rendering and the socket are not part of the catalogue ---
#[verifier::external_body]
pub struct ResponseBytes { x: u8 }
pub mod mapper {            // crate::binary::mapper
    use super::*;
    #[verifier::external_body] pub fn map_stream(stream: &Stream) -> (r: ResponseBytes) { unimplemented!() }
    #[verifier::external_body] pub fn map_topic(topic: &Topic) -> (r: ResponseBytes) { unimplemented!() }
    #[verifier::external_body] pub fn map_consumer_group(consumer_group: &ConsumerGroup) -> (r: ResponseBytes) { unimplemented!() }
    #[verifier::external_body] pub fn map_user(user: &User) -> (r: ResponseBytes) { unimplemented!() }
    #[verifier::external_body] pub fn map_raw_pat(token: &Name) -> (r: ResponseBytes) { unimplemented!() }
    #[verifier::external_body] pub fn map_identity_info(user_id: u32) -> (r: ResponseBytes) { unimplemented!() }
}
#[verifier::external_body]
pub struct SenderKind { x: u8 }
impl SenderKind {
    #[verifier::external_body] pub fn send_ok_response(&mut self, payload: &ResponseBytes) -> (r: Result<(), IggyError>) { unimplemented!() }
    #[verifier::external_body] pub fn send_empty_ok_response(&mut self) -> (r: Result<(), IggyError>) { unimplemented!() }
}
// HTTP: status codes, the JSON body wrapper and the response models (sdk models; rendering only)
pub struct StatusCode(pub u16);
impl StatusCode {
    pub const CREATED: StatusCode = StatusCode(201);
    pub const NO_CONTENT: StatusCode = StatusCode(204);
}
pub struct Json<T>(pub T);
#[verifier::external_body] pub struct StreamDetails { x: u8 }
#[verifier::external_body] pub struct TopicDetails { x: u8 }
#[verifier::external_body] pub struct TopicInfo { x: u8 }
#[verifier::external_body] pub struct ConsumerGroupDetails { x: u8 }
#[verifier::external_body] pub struct UserInfoDetails { x: u8 }
pub mod http_mapper {       // crate::http::mapper
    use super::*;
    #[verifier::external_body] pub fn map_stream(stream: &Stream) -> (r: StreamDetails) { unimplemented!() }
    #[verifier::external_body] pub fn map_topic(topic: &Topic) -> (r: TopicDetails) { unimplemented!() }
    #[verifier::external_body] pub fn map_topics(topics: &Vec<&Topic>) -> (r: Vec<TopicInfo>) { unimplemented!() }
    #[verifier::external_body] pub fn map_consumer_group(consumer_group: &ConsumerGroup) -> (r: ConsumerGroupDetails) { unimplemented!() }
    #[verifier::external_body] pub fn map_user(user: &User) -> (r: UserInfoDetails) { unimplemented!() }
}

// ---- the property vocabulary (from the statement of C05) ------------------------------------------------------
// "the journal entry denotes the operation that was executed": it is the variant for that operation, journalled under the
// user that ran it, and every field is the value the runtime call was made with, IN THE SAME ROLE; where the operation
// resolved a value (assigned id, effective expiry / size limit) the entry carries the resolved one; secrets are hashed.
pub open spec fn entry_denotes(e: (u32, EntryCommand), op: Op) -> bool {
    match op {
        Op::CreateStream { user, requested, name, assigned } =>
            e.1 matches EntryCommand::CreateStream(c) && e.0 == user && c.stream_id == Some(assigned) && c.name == name,
        Op::UpdateStream { user, stream_id, name } =>
            e.1 matches EntryCommand::UpdateStream(c) && e.0 == user && c.stream_id == stream_id && c.name == name,
        Op::DeleteStream { user, stream_id } =>
            e.1 matches EntryCommand::DeleteStream(c) && e.0 == user && c.stream_id == stream_id,
        Op::PurgeStream { user, stream_id } =>
            e.1 matches EntryCommand::PurgeStream(c) && e.0 == user && c.stream_id == stream_id,
        Op::CreateTopic { user, stream_id, requested, name, partitions_count, message_expiry, compression_algorithm, max_topic_size,
            replication_factor, assigned, resolved_expiry, resolved_max_size } =>
            e.1 matches EntryCommand::CreateTopic(c) && e.0 == user && c.stream_id == stream_id && c.topic_id == Some(assigned) && c.name == name
                && c.partitions_count == partitions_count && c.message_expiry == resolved_expiry && c.compression_algorithm == compression_algorithm
                && c.max_topic_size == resolved_max_size && c.replication_factor == replication_factor,
        Op::UpdateTopic { user, stream_id, topic_id, name, message_expiry, compression_algorithm, max_topic_size, replication_factor,
            resolved_expiry, resolved_max_size } =>
            e.1 matches EntryCommand::UpdateTopic(c) && e.0 == user && c.stream_id == stream_id && c.topic_id == topic_id && c.name == name
                && c.message_expiry == resolved_expiry && c.compression_algorithm == compression_algorithm
                && c.max_topic_size == resolved_max_size && c.replication_factor == replication_factor,
        Op::DeleteTopic { user, stream_id, topic_id } =>
            e.1 matches EntryCommand::DeleteTopic(c) && e.0 == user && c.stream_id == stream_id && c.topic_id == topic_id,
        Op::PurgeTopic { user, stream_id, topic_id } =>
            e.1 matches EntryCommand::PurgeTopic(c) && e.0 == user && c.stream_id == stream_id && c.topic_id == topic_id,
        Op::CreatePartitions { user, stream_id, topic_id, partitions_count } =>
            e.1 matches EntryCommand::CreatePartitions(c) && e.0 == user && c.stream_id == stream_id && c.topic_id == topic_id
                && c.partitions_count == partitions_count,
        Op::DeletePartitions { user, stream_id, topic_id, partitions_count } =>
            e.1 matches EntryCommand::DeletePartitions(c) && e.0 == user && c.stream_id == stream_id && c.topic_id == topic_id
                && c.partitions_count == partitions_count,
        Op::CreateConsumerGroup { user, stream_id, topic_id, requested, name, assigned } =>
            e.1 matches EntryCommand::CreateConsumerGroup(c) && e.0 == user && c.stream_id == stream_id && c.topic_id == topic_id
                && c.group_id == Some(assigned) && c.name == name,
        Op::DeleteConsumerGroup { user, stream_id, topic_id, group_id } =>
            e.1 matches EntryCommand::DeleteConsumerGroup(c) && e.0 == user && c.stream_id == stream_id && c.topic_id == topic_id
                && c.group_id == group_id,
        Op::CreateUser { user, username, password, status, permissions } =>
            e.1 matches EntryCommand::CreateUser(c) && e.0 == user && c.username == username && c.password == pw_hash(password)
                && c.status == status && c.permissions == permissions,
        Op::UpdateUser { user, user_id, username, status } =>
            e.1 matches EntryCommand::UpdateUser(c) && e.0 == user && c.user_id == user_id && c.username == username && c.status == status,
        Op::DeleteUser { user, user_id } =>
            e.1 matches EntryCommand::DeleteUser(c) && e.0 == user && c.user_id == user_id,
        Op::UpdatePermissions { user, user_id, permissions } =>
            e.1 matches EntryCommand::UpdatePermissions(c) && e.0 == user && c.user_id == user_id && c.permissions == permissions,
        Op::ChangePassword { user, user_id, current_password, new_password } =>
            e.1 matches EntryCommand::ChangePassword(c) && e.0 == user && c.user_id == user_id && c.new_password == pw_hash(new_password)
                // C10: the previous password is never written to the journal (the handlers blank the field)
                && c.current_password == name_of_str(""),
        Op::CreateToken { user, name, expiry, token } =>
            e.1 matches EntryCommand::CreatePersonalAccessToken(c) && e.0 == user && c.command.name == name && c.command.expiry == expiry
                && c.hash == token_digest(token),
        Op::DeleteToken { user, name } =>
            e.1 matches EntryCommand::DeletePersonalAccessToken(c) && e.0 == user && c.name == name,
    }
}
pub open spec fn one_more<T>(a: Seq<T>, b: Seq<T>) -> bool { b.len() == a.len() + 1 && b.drop_last() =~= a }
// an acknowledged request: exactly one operation ran, exactly one entry was journalled, and the entry denotes the operation
pub open spec fn acked(pre: &System, post: &System) -> bool {
    &&& one_more(pre.ops(), post.ops())
    &&& one_more(pre.state.log(), post.state.log())
    &&& entry_denotes(post.state.log().last(), post.ops().last())
}
// on EVERY path: at most one operation, at most one entry, and an entry only after the operation it stands for succeeded
pub open spec fn ordered(pre: &System, post: &System) -> bool {
    &&& post.ops() == pre.ops() || one_more(pre.ops(), post.ops())
    &&& post.state.log() == pre.state.log()
        || (one_more(pre.state.log(), post.state.log()) && one_more(pre.ops(), post.ops()) && entry_denotes(post.state.log().last(), post.ops().last()))
}
// a read-only request: neither log moves
pub open spec fn untouched(pre: &System, post: &System) -> bool {
    post.ops() == pre.ops() && post.state.log() == pre.state.log()
}

// ================================================================================================================
// second part: the runtime wrapper `System::update_topic` (streaming/systems/topics.rs), extracted as
// `System::update_topic_exec`, with its callees as stubs. Their contracts are the ones PROVED in other units (cited).
// ================================================================================================================
// Identifier payload (sdk): abstracted to two uninterpreted projections; `kind` / `length` are the real (extracted) fields
impl Identifier {
    pub uninterp spec fn num(&self) -> u32;
    pub uninterp spec fn text(&self) -> Name;
    // Identifier::numeric: 0 is refused, any other value yields the 4-byte numeric identifier (sdk/src/identifier.rs)
    #[verifier::external_body]
    pub fn numeric(value: u32) -> (r: Result<Identifier, IggyError>)
        ensures value == 0 ==> r is Err,
            value != 0 ==> (r matches Ok(i) && i.kind == IdKind::Numeric && i.length == 4 && i.num() == value),
    { unimplemented!() }
}
// `TryFrom<u32> for Identifier` (= Identifier::numeric)
pub trait TryIntoIdentifier { fn try_into_identifier(self) -> Result<Identifier, IggyError>; }
impl TryIntoIdentifier for u32 {
    #[verifier::external_body]
    fn try_into_identifier(self) -> (r: Result<Identifier, IggyError>)
        ensures self == 0 ==> r is Err,
            self != 0 ==> (r matches Ok(i) && i.kind == IdKind::Numeric && i.length == 4 && i.num() == self),
    { unimplemented!() }
}
// what an Identifier denotes in a catalogue (None: malformed identifier or unknown name) - as in units catalogue_maps / alloc_runtime
pub open spec fn denotes(ident: &Identifier, idx: Map<Name, u32>) -> Option<u32> {
    if ident.kind == IdKind::Numeric {
        if ident.length == 4 { Some(ident.num()) } else { None }
    } else {
        if idx.contains_key(ident.text()) { Some(idx[ident.text()]) } else { None }
    }
}
pub open spec fn stream_wf(s: &Stream) -> bool {
    &&& forall|id: u32| #[trigger] s.topics@.contains_key(id) ==> s.topics@[id].topic_id == id
            && s.topics_ids@.contains_key(s.topics@[id].name) && s.topics_ids@[s.topics@[id].name] == id
    &&& forall|n: Name| #[trigger] s.topics_ids@.contains_key(n) ==> s.topics@.contains_key(s.topics_ids@[n]) && s.topics@[s.topics_ids@[n]].name == n
}
pub open spec fn topic_of(s: &Stream, ident: &Identifier) -> Option<u32> {
    match denotes(ident, s.topics_ids@) {
        Some(id) => if s.topics@.contains_key(id) { Some(id) } else { None },
        None => None,
    }
}
pub open spec fn stream_of(s: &System, ident: &Identifier) -> Option<u32> {
    match denotes(ident, s.streams_ids@) {
        Some(id) => if s.streams@.contains_key(id) { Some(id) } else { None },
        None => None,
    }
}
pub open spec fn system_only_streams(a: &System, b: &System) -> bool {
    *b == (System { streams: b.streams, ..*a })
}
pub open spec fn stream_only_catalogue(a: &Stream, b: &Stream) -> bool {
    *b == (Stream { topics: b.topics, topics_ids: b.topics_ids, ..*a })
}
// every stream is well-formed, keyed by its own id, and no topic has id 0 (ids are assigned from 1; 0 is refused by validate())
pub open spec fn exec_wf(s: &System) -> bool {
    &&& forall|sid: u32| #[trigger] s.streams@.contains_key(sid) ==> stream_wf(&s.streams@[sid]) && s.streams@[sid].stream_id == sid
    &&& forall|sid: u32| #[trigger] s.streams@.contains_key(sid) ==> !s.streams@[sid].topics@.contains_key(0)
}
// the catalogue as C05 sees it: which streams, under which names, holding which topics (id, name, settings), found under which names
pub open spec fn catalogue_same(a: &System, b: &System) -> bool {
    &&& b.streams_ids@ =~= a.streams_ids@
    &&& b.streams@.dom() =~= a.streams@.dom()
    &&& forall|sid: u32| #[trigger] a.streams@.contains_key(sid) ==> b.streams@[sid].stream_id == a.streams@[sid].stream_id
            && b.streams@[sid].name == a.streams@[sid].name
            && b.streams@[sid].topics@ =~= a.streams@[sid].topics@ && b.streams@[sid].topics_ids@ =~= a.streams@[sid].topics_ids@
}

impl System {
    // authentication reads the session only (units credentials / authn_gate)
    #[verifier::external_body]
    pub fn ensure_authenticated(&self, session: &Session) -> (r: Result<(), IggyError>) { unimplemented!() }
    // unit alloc_runtime [C05.shape.stream.get] (= catalogue_maps [C06.byname.stream.get])
    // LINKED: units/catalogue_maps/lemmas.rs, harness [C05.link.journal_sinks.get_stream] (mirror edits there)
    #[verifier::external_body]
    pub fn get_stream(&self, identifier: &Identifier) -> (r: Result<&Stream, IggyError>)
        ensures match r {
            Ok(s) => stream_of(self, identifier) is Some && *s == self.streams@[stream_of(self, identifier)->0],
            Err(_) => stream_of(self, identifier) is None },
    { unimplemented!() }
    // unit alloc_runtime [C05.shape.stream.get_mut]
    // LINKED: units/catalogue_maps/lemmas.rs, harness [C05.link.journal_sinks.get_stream_mut] (mirror edits there)
    #[verifier::external_body]
    pub fn get_stream_mut(&mut self, identifier: &Identifier) -> (r: Result<&mut Stream, IggyError>)
        ensures match r {
            Ok(s) => stream_of(old(self), identifier) is Some && *s == old(self).streams@[stream_of(old(self), identifier)->0]
                && final(self).streams@ == old(self).streams@.insert(stream_of(old(self), identifier)->0, *final(s)) && system_only_streams(old(self), final(self)),
            Err(_) => stream_of(old(self), identifier) is None && final(self).streams@ =~= old(self).streams@ && system_only_streams(old(self), final(self)) },
    { unimplemented!() }
}
impl Stream {
    // unit alloc_runtime [C05.shape.topic.get] (= catalogue_maps [C06.byname.topic.get])
    // LINKED: units/catalogue_maps/lemmas.rs, harness [C05.link.journal_sinks.get_topic] (mirror edits there)
    #[verifier::external_body]
    pub fn get_topic(&self, identifier: &Identifier) -> (r: Result<&Topic, IggyError>)
        ensures match r {
            Ok(t) => topic_of(self, identifier) is Some && *t == self.topics@[topic_of(self, identifier)->0],
            Err(_) => topic_of(self, identifier) is None },
    { unimplemented!() }
    // unit catalogue_maps [C06.fail.update_topic], [C06.update.topic.maps], [C06.bij.update_topic] (proved there against the real text)
    // LINKED: units/catalogue_maps/lemmas.rs, harness [C05.link.journal_sinks.update_topic] (mirror edits there)
    #[verifier::external_body]
    pub fn update_topic(&mut self, id: &Identifier, name: &Name, message_expiry: IggyExpiry, compression_algorithm: CompressionAlgorithm,
        max_topic_size: MaxTopicSize, replication_factor: u8) -> (r: Result<(), IggyError>)
        requires stream_wf(old(self)),
        ensures
            r is Err ==> final(self).topics@ =~= old(self).topics@ && final(self).topics_ids@ =~= old(self).topics_ids@ && stream_only_catalogue(old(self), final(self)),
            r is Ok ==> (topic_of(old(self), id) matches Some(tid)
                && final(self).topics_ids@ =~= old(self).topics_ids@.remove(old(self).topics@[tid].name).insert(*name, tid)
                && map_frame_except(old(self).topics@, final(self).topics@, tid)
                && final(self).topics@[tid].name == *name && final(self).topics@[tid].topic_id == tid
                && stream_only_catalogue(old(self), final(self))),
            stream_wf(final(self)),
    { unimplemented!() }
}
// permission checks read the permission tables only (unit permissioner / authn_gate, C09)
#[verifier::external_body]
pub struct Permissioner { x: u8 }
impl Permissioner {
    #[verifier::external_body]
    pub fn get_stream(&self, user_id: u32, stream_id: u32) -> (r: Result<(), IggyError>) { unimplemented!() }
    #[verifier::external_body]
    pub fn get_topic(&self, user_id: u32, stream_id: u32, topic_id: u32) -> (r: Result<(), IggyError>) { unimplemented!() }
    #[verifier::external_body]
    pub fn update_topic(&self, user_id: u32, stream_id: u32, topic_id: u32) -> (r: Result<(), IggyError>) { unimplemented!() }
}
