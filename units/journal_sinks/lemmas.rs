// unit journal_sinks has no lemmas: every clause is discharged on the extracted handler text directly.
