// ---- unit prelude: log_sinks (C10, clause "neither passwords nor raw tokens are ever written to the server's data files") -------
// The server's log files live under the data directory; rules R2-log-sink / R3-errctx-sink / R10-fmt-sink (vx/README.md) turn every
// log event, error context and `write!` of the extracted functions into calls of the stubs below, one per VALUE the text is built
// from. The precondition of `log_arg` is the property clause; it is a named obligation at every call site.
// Nothing here re-states a function body of /repo.

// --- strings: opaque; the only observable is whether the text contains a raw secret (a password or a raw token) -----------------
#[verifier::external_body]
#[derive(Debug)]
pub struct Name { s: String }
pub uninterp spec fn secret(n: Name) -> bool;
impl Loggable for Name {
    open spec fn carries_secret(&self) -> bool { secret(*self) }
    open spec fn dbg_carries_secret(&self) -> bool { secret(*self) }
}
impl Name {
    // the empty string
    #[verifier::external_body] pub fn new() -> (r: Name) ensures !secret(r) { unimplemented!() }
    // A-std: to_owned / to_string / clone / into / as_bytes hand the same text on
    #[verifier::external_body] pub fn to_owned(&self) -> (r: Name) ensures r == *self { unimplemented!() }
    #[verifier::external_body] pub fn to_string(&self) -> (r: Name) ensures r == *self { unimplemented!() }
    #[verifier::external_body] pub fn as_bytes(&self) -> (r: &Name) ensures *r == *self { unimplemented!() }
}
impl Clone for Name { #[verifier::external_body] fn clone(&self) -> (r: Name) ensures r == *self { unimplemented!() } }
impl<'a> From<&'a Name> for Name { #[verifier::external_body] fn from(v: &'a Name) -> (r: Name) ensures r == *v { unimplemented!() } }
impl<'a> vstd::std_specs::convert::FromSpecImpl<&'a Name> for Name {
    open spec fn obeys_from_spec() -> bool { true }
    open spec fn from_spec(v: &'a Name) -> Name { *v }
}
// A-std: `ToOwned::to_owned` of a `Clone` type is `clone` (std's blanket impl)
pub assume_specification<T: Clone> [ <T as std::borrow::ToOwned>::to_owned ](x: &T) -> (r: T)
    ensures vstd::pervasive::cloned::<T>(*x, r);
// a string LITERAL of the program is not a secret
pub uninterp spec fn name_of_str(v: &str) -> Name;
#[verifier::external_body]
pub broadcast proof fn axiom_literal_not_secret(v: &str) ensures !secret(#[trigger] name_of_str(v)) {}
impl<'a> From<&'a str> for Name { #[verifier::external_body] fn from(v: &'a str) -> (r: Name) ensures r == name_of_str(v), !secret(r) { unimplemented!() } }
impl<'a> vstd::std_specs::convert::FromSpecImpl<&'a str> for Name {
    open spec fn obeys_from_spec() -> bool { true }
    open spec fn from_spec(v: &'a str) -> Name { name_of_str(v) }
}
// R10-fmt-sink: the string a `format!` builds carries a secret iff a part does (A-fmt)
#[verifier::external_body]
pub fn fmt_string(f: Formatter) -> (r: Name) ensures secret(r) == f.tainted() { unimplemented!() }

// --- THE SINK. `log_arg(level, &v)`: the Display text of v becomes part of an event of that level; `log_arg_dbg`: the Debug text.
// The level is carried for the record only: it is configuration, the clause says "never".
#[verifier::external_body]
pub fn log_arg<T: Loggable + ?Sized>(level: u8, x: &T)
    requires
        !x.carries_secret(), //@requires [C10.log.nosecret]
{ }
#[verifier::external_body]
pub fn log_arg_dbg<T: Loggable + ?Sized>(level: u8, x: &T)
    requires
        !x.dbg_carries_secret(), //@requires [C10.log.nosecret.dbg]
{ }

// --- errors (sdk/src/error.rs, thiserror): Display prints exactly the fields the `#[error("..")]` attribute names. The variants the
// extracted text names are listed; `Other` stands for every other variant (code, and the text of its String field if it has one)
#[derive(Debug)]
pub enum IggyError {
    InvalidIdentifier,
    InvalidCommand,
    StaleClient,
    Unauthenticated,
    Unauthorized,
    ConnectionClosed,
    ResourceNotFound(Name),
    UserAlreadyExists,
    UsersLimitReached,
    InvalidCredentials,
    UserInactive,
    ClientNotFound(u32),
    PersonalAccessTokensLimitReached(u32, u32),
    PersonalAccessTokenAlreadyExists(Name, u32),
    PersonalAccessTokenExpired(Name, u32),
    CommandLengthError(Name),
    Other(u32, Name),
}
pub open spec fn err_secret(e: IggyError) -> bool {
    match e {
        IggyError::ResourceNotFound(n) => secret(n),
        IggyError::PersonalAccessTokenAlreadyExists(n, _) => secret(n),
        IggyError::PersonalAccessTokenExpired(n, _) => secret(n),
        IggyError::CommandLengthError(n) => secret(n),
        IggyError::Other(_, n) => secret(n),
        _ => false,
    }
}
impl Loggable for IggyError {
    open spec fn carries_secret(&self) -> bool { err_secret(*self) }
    open spec fn dbg_carries_secret(&self) -> bool { err_secret(*self) }
}
impl IggyError {
    #[verifier::external_body] pub fn as_code(&self) -> (r: u32) { unimplemented!() }
}
// HTTP: `#[error(transparent)] Error(#[from] IggyError)` (thiserror derives this From; Display delegates)
#[derive(Debug)]
pub enum CustomError { Error(IggyError), ResourceNotFound }
impl From<IggyError> for CustomError {
    fn from(e: IggyError) -> (r: CustomError) ensures r == CustomError::Error(e) { CustomError::Error(e) }
}
impl vstd::std_specs::convert::FromSpecImpl<IggyError> for CustomError {
    open spec fn obeys_from_spec() -> bool { true }
    open spec fn from_spec(v: IggyError) -> CustomError { CustomError::Error(v) }
}
pub open spec fn cerr_secret(e: CustomError) -> bool { e matches CustomError::Error(x) && err_secret(x) }
// TCP: `ConnectionError::SdkError(#[from] IggyError)`
#[derive(Debug)]
pub enum ConnectionError { IoError, SdkError(IggyError) }
impl From<IggyError> for ConnectionError {
    fn from(e: IggyError) -> (r: ConnectionError) ensures r == ConnectionError::SdkError(e) { ConnectionError::SdkError(e) }
}
impl vstd::std_specs::convert::FromSpecImpl<IggyError> for ConnectionError {
    open spec fn obeys_from_spec() -> bool { true }
    open spec fn from_spec(v: IggyError) -> ConnectionError { ConnectionError::SdkError(v) }
}
pub enum LoopStep { Continue, EndOfBody }
// A-std(`?`): the `?` operator converts the error with the `From` impl of the function's error type. vstd knows the converted value
// only up to the uninterpreted relation `spec_from(source, target)`; the two axioms tie it to the `From` impls above.
pub mod fromlem {
    use vstd::prelude::*;
    use super::*;
    #[verifier::external_body]
    pub broadcast proof fn axiom_from_custom(e: IggyError, c: CustomError)
        requires #[trigger] vstd::std_specs::control_flow::spec_from(e, c)
        ensures c == CustomError::Error(e) {}
    #[verifier::external_body]
    pub broadcast proof fn axiom_from_connection(e: IggyError, c: ConnectionError)
        requires #[trigger] vstd::std_specs::control_flow::spec_from(e, c)
        ensures c == ConnectionError::SdkError(e) {}
}
broadcast use fromlem::axiom_from_custom, fromlem::axiom_from_connection;

// --- values that are printed but are no credentials: integers are in vx/prelude/logsink.rs ---------------------------------------
#[derive(Clone, Copy, Debug)]
pub struct SocketAddr(pub u64);
impl Loggable for SocketAddr { open spec fn carries_secret(&self) -> bool { false } open spec fn dbg_carries_secret(&self) -> bool { false } }
#[derive(Clone, Copy, Debug)]
pub struct UserStatus(pub u8);
impl Loggable for UserStatus { open spec fn carries_secret(&self) -> bool { false } open spec fn dbg_carries_secret(&self) -> bool { false } }
#[derive(Clone, Copy, Debug)]
pub struct IggyExpiry(pub u64);
impl Loggable for IggyExpiry { open spec fn carries_secret(&self) -> bool { false } open spec fn dbg_carries_secret(&self) -> bool { false } }
#[derive(Clone, Copy, Debug)]
pub struct IggyTimestamp(pub u64);
impl Loggable for IggyTimestamp { open spec fn carries_secret(&self) -> bool { false } open spec fn dbg_carries_secret(&self) -> bool { false } }
impl IggyTimestamp { #[verifier::external_body] pub fn now() -> (r: IggyTimestamp) { unimplemented!() } }
// the permission table of a user: flags and stream/topic ids (sdk/src/models/permissions.rs)
#[verifier::external_body]
#[derive(Debug)]
pub struct Permissions { x: u8 }
impl Clone for Permissions { #[verifier::external_body] fn clone(&self) -> (r: Self) ensures r == *self { unimplemented!() } }
impl Loggable for Permissions { open spec fn carries_secret(&self) -> bool { false } open spec fn dbg_carries_secret(&self) -> bool { false } }
impl Permissions { #[verifier::external_body] pub fn to_string(&self) -> (r: Name) ensures !secret(r) { unimplemented!() } }
impl UserStatus { #[verifier::external_body] pub fn to_string(&self) -> (r: Name) ensures !secret(r) { unimplemented!() } }

// R6: the session's atomics are plain cells
pub struct Cell32 { pub v: u32 }
pub struct CellBool { pub v: bool }
impl Session {
    #[verifier::external_body] pub fn get_user_id(&self) -> (r: u32) { unimplemented!() }
    #[verifier::external_body] pub fn is_authenticated(&self) -> (r: bool) { unimplemented!() }
    #[verifier::external_body] pub fn set_user_id(&self, user_id: u32) { unimplemented!() }
    #[verifier::external_body] pub fn stateless(user_id: u32, ip_address: SocketAddr) -> (r: Session) { unimplemented!() }
}
// `{session}`: what the REAL `impl Display for Session` writes is under contract here ([C10.log.display.Session]: client id, user id,
// IP address - no credential); its derived Debug prints the same fields
impl Loggable for Session { open spec fn carries_secret(&self) -> bool { false } open spec fn dbg_carries_secret(&self) -> bool { false } }

// --- Identifier (sdk): opaque; its Display prints the number or the text it was made of (sdk/src/identifier.rs:273) ----------------
#[verifier::external_body]
#[derive(Debug)]
pub struct Identifier { x: u8 }
pub uninterp spec fn ident_secret(i: Identifier) -> bool;
impl Loggable for Identifier {
    open spec fn carries_secret(&self) -> bool { ident_secret(*self) }
    open spec fn dbg_carries_secret(&self) -> bool { ident_secret(*self) }
}
impl Clone for Identifier { #[verifier::external_body] fn clone(&self) -> (r: Identifier) ensures r == *self { unimplemented!() } }
impl Identifier {
    #[verifier::external_body]
    pub fn named(value: &Name) -> (r: Result<Identifier, IggyError>)
        ensures match r { Ok(i) => ident_secret(i) == secret(*value), Err(e) => e == IggyError::InvalidIdentifier },
    { unimplemented!() }
    #[verifier::external_body]
    pub fn numeric(value: u32) -> (r: Result<Identifier, IggyError>)
        ensures match r { Ok(i) => !ident_secret(i), Err(e) => e == IggyError::InvalidIdentifier },
    { unimplemented!() }
    #[verifier::external_body]
    pub fn from_str_value(value: &Name) -> (r: Result<Identifier, IggyError>)
        ensures match r { Ok(i) => ident_secret(i) == secret(*value), Err(e) => e == IggyError::InvalidIdentifier },
    { unimplemented!() }
    #[verifier::external_body]
    pub fn to_string(&self) -> (r: Name) ensures secret(r) == ident_secret(*self) { unimplemented!() }
    #[verifier::external_body]
    pub fn to_owned(&self) -> (r: Identifier) ensures r == *self { unimplemented!() }
}
// sdk: `impl TryFrom<u32> for Identifier { fn try_from(value) { Identifier::numeric(value) } }`
impl TryFrom<u32> for Identifier {
    type Error = IggyError;
    #[verifier::external_body]
    fn try_from(value: u32) -> (r: Result<Self, IggyError>)
        ensures match r { Ok(i) => !ident_secret(i), Err(e) => e == IggyError::InvalidIdentifier },
    { unimplemented!() }
}

// --- A-dep(one-way): hashes and digests are not raw secrets -----------------------------------------------------------------------
pub mod crypto {
    use super::*;
    #[verifier::external_body]
    pub fn hash_password(password: &Name) -> (r: Name) ensures !secret(r) { unimplemented!() }
    #[verifier::external_body]
    pub fn verify_password(password: &Name, hash: &Name) -> (r: bool) { unimplemented!() }
}
pub mod hash {
    use super::*;
    #[verifier::external_body]
    pub fn calculate_256(data: &Name) -> (r: Name) ensures !secret(r) { unimplemented!() }
}
// token material: ring's system RNG + base64. The text `as_base64` makes of fresh random bytes IS a raw token
pub mod ring { pub mod rand {
    use vstd::prelude::*;
    #[derive(Debug)]
    pub struct Unspecified { pub k: u8 }
    #[verifier::external_body]
    pub struct SystemRandom { x: u8 }
    impl SystemRandom {
        #[verifier::external_body] pub fn new() -> (r: SystemRandom) { unimplemented!() }
        #[verifier::external_body] pub fn fill(&self, dest: &mut [u8; 50]) -> (r: Result<(), Unspecified>) ensures r is Ok { unimplemented!() }
    }
} }
#[verifier::external_body]
pub fn as_base64(value: &[u8; 50]) -> (r: Name) ensures secret(r) { unimplemented!() }
impl User { #[verifier::external_body] pub fn is_active(&self) -> (r: bool) { unimplemented!() } }
impl PersonalAccessToken {
    #[verifier::external_body] pub fn is_expired(&self, now: IggyTimestamp) -> (r: bool) { unimplemented!() }
    #[verifier::external_body] pub fn calculate_expiry_at(now: IggyTimestamp, expiry: IggyExpiry) -> (r: Option<IggyTimestamp>) { unimplemented!() }
}

// --- the user table as this unit sees it: WHAT IS STORED CARRIES NO RAW SECRET (only hashes, digests and names) --------------------
pub open spec fn pat_clean(p: PersonalAccessToken) -> bool { !secret(p.name) && !secret(p.token) }
pub open spec fn user_clean(u: User) -> bool {
    &&& !secret(u.username)
    &&& !secret(u.password)
    &&& forall|h: Name| #[trigger] u.personal_access_tokens@.contains_key(h) ==> !secret(h) && pat_clean(u.personal_access_tokens@[h])
}
pub open spec fn users_clean(s: &System) -> bool {
    forall|k: u32| #[trigger] s.users@.contains_key(k) ==> user_clean(s.users@[k])
}
pub open spec fn stored(s: &System, u: User) -> bool {
    exists|k: u32| #[trigger] s.users@.contains_key(k) && s.users@[k] == u
}
pub open spec fn only_users(a: &System, b: &System) -> bool {
    *b == (System { users: b.users, permissioner: b.permissioner, ..*a })
}
// a session is a client id, a user id and an address: every Session value is printable

// --- collaborators that are not extracted here (unit credentials has the look-ups under contract) -----------------------------------
#[verifier::external_body]
pub struct Counter32 { v: std::sync::atomic::AtomicU32 }
impl Counter32 {
    #[verifier::external_body] pub const fn new(v: u32) -> (r: Counter32) { Counter32 { v: std::sync::atomic::AtomicU32::new(v) } }
    #[verifier::external_body] pub fn fetch_add(&self, n: u32) -> (r: u32) { unimplemented!() }
}
exec static USER_ID: Counter32 ensures true { Counter32::new(1) }
pub const COMPONENT: &'static str = "COMPONENT";
#[verifier::external_body]
pub struct Permissioner { x: u8 }
impl Permissioner {
    // authorisation errors are `Unauthorized` (unit permissioner, C09)
    #[verifier::external_body] pub fn create_user(&self, user_id: u32) -> (r: Result<(), IggyError>) ensures r matches Err(e) ==> !err_secret(e) { unimplemented!() }
    #[verifier::external_body] pub fn update_user(&self, user_id: u32) -> (r: Result<(), IggyError>) ensures r matches Err(e) ==> !err_secret(e) { unimplemented!() }
    #[verifier::external_body] pub fn change_password(&self, user_id: u32) -> (r: Result<(), IggyError>) ensures r matches Err(e) ==> !err_secret(e) { unimplemented!() }
    #[verifier::external_body] pub fn init_permissions_for_user(&mut self, user_id: u32, permissions: Option<Permissions>) { unimplemented!() }
}
#[verifier::external_body]
pub struct ClientManager { x: u8 }
impl ClientManager {
    // ClientNotFound(client id)
    #[verifier::external_body] pub fn set_user_id(&self, client_id: u32, user_id: u32) -> (r: Result<(), IggyError>) ensures r matches Err(e) ==> !err_secret(e) { unimplemented!() }
}
#[verifier::external_body]
pub struct Metrics { x: u8 }
impl Metrics { #[verifier::external_body] pub fn increment_users(&self, n: u32) { unimplemented!() } }
#[verifier::external_body]
pub struct JwtManager { x: u8 }
#[verifier::external_body]
pub struct GeneratedToken { x: u8 }
impl JwtManager {
    // unit http_gate owns the JWT side; its errors are payload-free (InvalidAccessToken, CannotGenerateJwt ..)
    #[verifier::external_body] pub fn generate(&self, user_id: u32) -> (r: Result<GeneratedToken, IggyError>) ensures r matches Err(e) ==> !err_secret(e) { unimplemented!() }
}
impl System {
    // Unauthenticated / StaleClient
    #[verifier::external_body]
    pub fn ensure_authenticated(&self, session: &Session) -> (r: Result<(), IggyError>) ensures r matches Err(e) ==> !err_secret(e) { unimplemented!() }
    // unit credentials [C10.shape.get_user]: Ok(u) is a STORED user; Err is ResourceNotFound(user_id.to_string()) or InvalidIdentifier
    #[verifier::external_body]
    pub fn get_user(&self, user_id: &Identifier) -> (r: Result<&User, IggyError>)
        ensures match r { Ok(u) => stored(self, *u), Err(e) => err_secret(e) ==> ident_secret(*user_id) },
    { unimplemented!() }
    // unit credentials [C10.shape.get_user_mut]: the borrow is a stored record and is written back under its key; nothing else moves
    #[verifier::external_body]
    pub fn get_user_mut(&mut self, user_id: &Identifier) -> (r: Result<&mut User, IggyError>)
        ensures match r {
            Ok(u) => (exists|k: u32| #[trigger] old(self).users@.contains_key(k) && old(self).users@[k] == *u && final(self).users@ == old(self).users@.insert(k, *final(u)))
                && only_users(old(self), final(self)) && final(self).permissioner == old(self).permissioner,
            Err(e) => *final(self) == *old(self) && (err_secret(e) ==> ident_secret(*user_id)) },
    { unimplemented!() }
    // logs user name and id of a stored user; fails with Unauthenticated / ResourceNotFound(numeric id) / ClientNotFound
    #[verifier::external_body]
    pub fn logout_user(&self, session: &Session) -> (r: Result<(), IggyError>) ensures r matches Err(e) ==> !err_secret(e) { unimplemented!() }
}
// R8 closure schemas over maps (documented std semantics; same stubs as unit credentials)
#[verifier::external_body]
pub fn std_map_any<K, V>(m: &HashMap<K, V>, Ghost(f): Ghost<spec_fn(K, V) -> bool>) -> (r: bool)
    ensures r == (exists|k: K| #[trigger] m@.contains_key(k) && f(k, m@[k])),
{ unimplemented!() }
#[verifier::external_body]
pub fn std_map_find_entry<'a, K, V>(m: &'a HashMap<K, V>, Ghost(f): Ghost<spec_fn(K, V) -> bool>) -> (r: Option<(&'a K, &'a V)>)
    ensures match r {
        Some(e) => m@.contains_key(*e.0) && m@[*e.0] == *e.1 && f(*e.0, *e.1),
        None => forall|k: K| #[trigger] m@.contains_key(k) ==> !f(k, m@[k]),
    },
{ unimplemented!() }

// --- the journal (units journal / journal_sinks / credentials own WHAT is journalled): its errors are I/O errors --------------------
pub enum EntryCommand {
    CreateUser(CreateUser),
    ChangePassword(ChangePassword),
    CreatePersonalAccessToken(CreatePersonalAccessTokenWithHash),
    DeletePersonalAccessToken(DeletePersonalAccessToken),
}
#[verifier::external_body]
pub struct StateKind { x: u8 }
impl StateKind {
    #[verifier::external_body]
    pub fn apply(&mut self, user_id: u32, command: EntryCommand) -> (r: Result<(), IggyError>) ensures r matches Err(e) ==> !err_secret(e) { unimplemented!() }
}

// --- transport side: the socket is not a data file; its errors are I/O errors ---------------------------------------------------------
#[verifier::external_body]
pub struct ResponseBytes { x: u8 }
pub mod mapper {            // crate::binary::mapper
    use super::*;
    #[verifier::external_body] pub fn map_user(user: &User) -> (r: ResponseBytes) { unimplemented!() }
    #[verifier::external_body] pub fn map_raw_pat(token: &Name) -> (r: ResponseBytes) { unimplemented!() }
    #[verifier::external_body] pub fn map_identity_info(user_id: u32) -> (r: ResponseBytes) { unimplemented!() }
}
#[verifier::external_body]
pub struct SenderKind { x: u8 }
impl SenderKind {
    #[verifier::external_body] pub fn send_ok_response(&mut self, payload: &ResponseBytes) -> (r: Result<(), IggyError>) ensures r matches Err(e) ==> !err_secret(e) { unimplemented!() }
    #[verifier::external_body] pub fn send_empty_ok_response(&mut self) -> (r: Result<(), IggyError>) ensures r matches Err(e) ==> !err_secret(e) { unimplemented!() }
    #[verifier::external_body] pub fn send_error_response(&mut self, error: IggyError) -> (r: Result<(), IggyError>) ensures r matches Err(e) ==> !err_secret(e) { unimplemented!() }
}
pub struct StatusCode(pub u16);
impl StatusCode {
    pub const CREATED: StatusCode = StatusCode(201);
    pub const NO_CONTENT: StatusCode = StatusCode(204);
}
pub struct Json<T>(pub T);
#[verifier::external_body] pub struct UserInfoDetails { x: u8 }
#[verifier::external_body] pub struct IdentityInfo { x: u8 }
pub mod http_mapper {       // crate::http::mapper
    use super::*;
    #[verifier::external_body] pub fn map_user(user: &User) -> (r: UserInfoDetails) { unimplemented!() }
}
#[verifier::external_body] pub fn map_generated_access_token_to_identity_info(token: GeneratedToken) -> (r: IdentityInfo) { unimplemented!() }

// --- request validation (sdk Validatable): refuses with payload-free errors (InvalidUsername, InvalidPassword, InvalidCommand ..) -----
impl CreateUser { #[verifier::external_body] pub fn validate(&self) -> (r: Result<(), IggyError>) ensures r matches Err(e) ==> !err_secret(e) { unimplemented!() } }
impl ChangePassword { #[verifier::external_body] pub fn validate(&self) -> (r: Result<(), IggyError>) ensures r matches Err(e) ==> !err_secret(e) { unimplemented!() } }
impl LoginUser { #[verifier::external_body] pub fn validate(&self) -> (r: Result<(), IggyError>) ensures r matches Err(e) ==> !err_secret(e) { unimplemented!() } }
impl CreatePersonalAccessToken { #[verifier::external_body] pub fn validate(&self) -> (r: Result<(), IggyError>) ensures r matches Err(e) ==> !err_secret(e) { unimplemented!() } }
impl LoginWithPersonalAccessToken { #[verifier::external_body] pub fn validate(&self) -> (r: Result<(), IggyError>) ensures r matches Err(e) ==> !err_secret(e) { unimplemented!() } }
impl ServerCommand { #[verifier::external_body] pub fn validate(&self) -> (r: Result<(), IggyError>) ensures r matches Err(e) ==> !err_secret(e) { unimplemented!() } }

// --- the credential-carrying command types. Input marking: the password / token fields ARE the secrets; names, ids are not ---------
pub open spec fn marked_login_user(c: LoginUser) -> bool { secret(c.password) && !secret(c.username) }
pub open spec fn marked_change_password(c: ChangePassword) -> bool { secret(c.current_password) && secret(c.new_password) && !ident_secret(c.user_id) }
pub open spec fn marked_create_user(c: CreateUser) -> bool { secret(c.password) && !secret(c.username) }
pub open spec fn marked_update_user(c: UpdateUser) -> bool { !ident_secret(c.user_id) && (c.username matches Some(n) ==> !secret(n)) }
pub open spec fn marked_login_pat(c: LoginWithPersonalAccessToken) -> bool { secret(c.token) }
pub open spec fn marked_create_pat(c: CreatePersonalAccessToken) -> bool { !secret(c.name) }
pub open spec fn marked_delete_pat(c: DeletePersonalAccessToken) -> bool { !secret(c.name) }
// `{command}`: the obligation that the text the REAL `impl Display for <T>` writes carries none of the command's secrets is the
// Display contract [C10.log.display.<T>] of this unit (extracted `fmt` bodies); here it is what a call site may rely on
// (assume-guarantee: a red [C10.log.display.<T>] makes every `{command}` of that type a leak).
// `{command:?}`: derive(Debug) prints EVERY field
impl Loggable for LoginUser {
    open spec fn carries_secret(&self) -> bool { false }
    open spec fn dbg_carries_secret(&self) -> bool { secret(self.username) || secret(self.password) }
}
impl Loggable for ChangePassword {
    open spec fn carries_secret(&self) -> bool { false }
    open spec fn dbg_carries_secret(&self) -> bool { ident_secret(self.user_id) || secret(self.current_password) || secret(self.new_password) }
}
impl Loggable for CreateUser {
    open spec fn carries_secret(&self) -> bool { false }
    open spec fn dbg_carries_secret(&self) -> bool { secret(self.username) || secret(self.password) }
}
impl Loggable for UpdateUser {
    open spec fn carries_secret(&self) -> bool { false }
    open spec fn dbg_carries_secret(&self) -> bool { ident_secret(self.user_id) || (self.username matches Some(n) && secret(n)) }
}
impl Loggable for LoginWithPersonalAccessToken {
    open spec fn carries_secret(&self) -> bool { false }
    open spec fn dbg_carries_secret(&self) -> bool { secret(self.token) }
}
impl Loggable for CreatePersonalAccessToken {
    open spec fn carries_secret(&self) -> bool { false }
    open spec fn dbg_carries_secret(&self) -> bool { secret(self.name) }
}
impl Loggable for DeletePersonalAccessToken {
    open spec fn carries_secret(&self) -> bool { false }
    open spec fn dbg_carries_secret(&self) -> bool { secret(self.name) }
}
// `Option<String>::as_deref().unwrap_or("")` of UpdateUser's Display: the name, or the empty literal
#[verifier::external_body]
pub fn opt_name_or_empty(v: &Option<Name>) -> (r: &Name) ensures match *v { Some(n) => *r == n, None => !secret(*r) } { unimplemented!() }

// the other 38 request types carry no credential field (sdk/src/**): opaque
macro_rules! opaque_cmds { ($($t:ident),*) => { verus! { $(
    #[verifier::external_body] #[derive(Debug)] pub struct $t { x: u8 }
    impl Loggable for $t { open spec fn carries_secret(&self) -> bool { false } open spec fn dbg_carries_secret(&self) -> bool { false } }
)* } } }
opaque_cmds!(Ping, GetStats, GetMe, GetClient, GetClients, GetUser, GetUsers, DeleteUser, UpdatePermissions, LogoutUser, GetPersonalAccessTokens,
    SendMessages, PollMessages, FlushUnsavedBuffer, GetConsumerOffset, StoreConsumerOffset, DeleteConsumerOffset, GetStream, GetStreams, CreateStream,
    DeleteStream, UpdateStream, PurgeStream, GetTopic, GetTopics, CreateTopic, DeleteTopic, UpdateTopic, PurgeTopic, CreatePartitions, DeletePartitions,
    GetConsumerGroup, GetConsumerGroups, CreateConsumerGroup, DeleteConsumerGroup, JoinConsumerGroup, LeaveConsumerGroup, GetSnapshot);
// the command names (sdk/src/command.rs `pub const PING: &str = "ping"` ..): program constants
macro_rules! cmd_names { ($($c:ident),*) => { verus! { $( pub const $c: &'static str = "cmd"; )* } } }
cmd_names!(CHANGE_PASSWORD, CREATE_CONSUMER_GROUP, CREATE_PARTITIONS, CREATE_PERSONAL_ACCESS_TOKEN, CREATE_STREAM, CREATE_TOPIC, CREATE_USER,
    DELETE_CONSUMER_GROUP, DELETE_CONSUMER_OFFSET, DELETE_PARTITIONS, DELETE_PERSONAL_ACCESS_TOKEN, DELETE_STREAM, DELETE_TOPIC, DELETE_USER,
    FLUSH_UNSAVED_BUFFER, GET_CLIENTS, GET_CLIENT, GET_CONSUMER_GROUPS, GET_CONSUMER_GROUP, GET_CONSUMER_OFFSET, GET_ME, GET_PERSONAL_ACCESS_TOKENS,
    GET_SNAPSHOT_FILE, GET_STATS, GET_STREAMS, GET_STREAM, GET_TOPICS, GET_TOPIC, GET_USERS, GET_USER, JOIN_CONSUMER_GROUP, LEAVE_CONSUMER_GROUP,
    LOGIN_USER, LOGIN_WITH_PERSONAL_ACCESS_TOKEN, LOGOUT_USER, PING, POLL_MESSAGES, PURGE_STREAM, PURGE_TOPIC, SEND_MESSAGES, STORE_CONSUMER_OFFSET,
    UPDATE_PERMISSIONS, UPDATE_STREAM, UPDATE_TOPIC, UPDATE_USER);
// a ServerCommand is marked when its credential payload is
pub open spec fn marked_command(c: ServerCommand) -> bool {
    match c {
        ServerCommand::LoginUser(p) => marked_login_user(p),
        ServerCommand::ChangePassword(p) => marked_change_password(p),
        ServerCommand::CreateUser(p) => marked_create_user(p),
        ServerCommand::UpdateUser(p) => marked_update_user(p),
        ServerCommand::LoginWithPersonalAccessToken(p) => marked_login_pat(p),
        ServerCommand::CreatePersonalAccessToken(p) => marked_create_pat(p),
        ServerCommand::DeletePersonalAccessToken(p) => marked_delete_pat(p),
        _ => true,
    }
}
// `{command}` of a ServerCommand: relies on [C10.log.display.ServerCommand] (the real `impl Display for ServerCommand` delegates to the payload)
impl Loggable for ServerCommand {
    open spec fn carries_secret(&self) -> bool { false }
    open spec fn dbg_carries_secret(&self) -> bool {
        match *self {
            ServerCommand::LoginUser(p) => p.dbg_carries_secret(),
            ServerCommand::ChangePassword(p) => p.dbg_carries_secret(),
            ServerCommand::CreateUser(p) => p.dbg_carries_secret(),
            ServerCommand::UpdateUser(p) => p.dbg_carries_secret(),
            ServerCommand::LoginWithPersonalAccessToken(p) => p.dbg_carries_secret(),
            ServerCommand::CreatePersonalAccessToken(p) => p.dbg_carries_secret(),
            ServerCommand::DeletePersonalAccessToken(p) => p.dbg_carries_secret(),
            _ => false,
        }
    }
}
// binary::command::try_handle dispatches to the 45 handlers. The five credential handlers are under contract here
// ([C10.log.err.bin.*]: the error they return carries no secret); for the other 40 this is assumed
#[verifier::external_body]
pub fn try_handle(command: ServerCommand, sender: &mut SenderKind, session: &Session, system: &System) -> (r: Result<(), IggyError>)
    ensures r matches Err(e) ==> !err_secret(e),
{ unimplemented!() }
// `command::handle(..)` in the connection loop IS the extracted binary::command::handle of this unit (no stub in between)
pub mod command { pub use super::command_handle as handle; }
impl Clone for System { #[verifier::external_body] fn clone(&self) -> (r: System) ensures r == *self { unimplemented!() } }
