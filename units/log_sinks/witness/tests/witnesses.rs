//! Unit log_sinks (C10): "neither passwords nor raw tokens are ever written to the server's data files". The server's log files
//! live under the data directory (`system.logging.path = "logs"`); server/src/log/logger.rs writes every tracing event at or above
//! the configured level (default `info`; `debug`/`trace` are documented options) to them. These tests run the REAL server
//! (`System` + the in-process TCP server + the real binary handlers) against the REAL SDK client, capture every tracing event the
//! process emits (level, target, formatted text: what the file layer would write) and look for the secrets in the captured text.
//!   f200_* : raw token in ERROR-level events on failed token logins (visible with the DEFAULT log level)
//!   f201_* : raw token in DEBUG-level events on every token login, also a successful one (`impl Display for LoginWithPersonalAccessToken`)
//!   masked_* / created_* : positive results (pass on the unrepaired tree as well)
use iggy::client::{Client, PersonalAccessTokenClient, UserClient};
use iggy::identifier::Identifier;
use iggy::models::user_status::UserStatus;
use iggy::tcp::client::TcpClient;
use iggy::tcp::config::TcpClientConfig;
use iggy::utils::duration::IggyDuration;
use iggy::utils::expiry::IggyExpiry;
use server::configs::server::{DataMaintenanceConfig, PersonalAccessTokenConfig};
use server::configs::system::SystemConfig;
use server::configs::tcp::TcpConfig;
use server::streaming::systems::system::{SharedSystem, System};
use server::tcp::tcp_server;
use std::fmt::Write as _;
use std::net::SocketAddr;
use std::sync::{Arc, Mutex, OnceLock};
use tracing::field::{Field, Visit};
use tracing::{Event, Level, Subscriber};
use tracing_subscriber::layer::{Context, SubscriberExt};
use tracing_subscriber::Layer;

#[derive(Clone, Debug)]
struct Captured {
    level: Level,
    target: String,
    text: String,
}
static EVENTS: OnceLock<Arc<Mutex<Vec<Captured>>>> = OnceLock::new();

struct Capture(Arc<Mutex<Vec<Captured>>>);
struct TextVisitor(String);
impl Visit for TextVisitor {
    fn record_debug(&mut self, field: &Field, value: &dyn std::fmt::Debug) {
        // `message` is the formatted text of the event; every other field is rendered as the fmt layer renders it
        if field.name() == "message" {
            let _ = write!(self.0, "{value:?} ");
        } else {
            let _ = write!(self.0, "{}={value:?} ", field.name());
        }
    }
}
impl<S: Subscriber> Layer<S> for Capture {
    fn on_event(&self, event: &Event<'_>, _ctx: Context<'_, S>) {
        let mut v = TextVisitor(String::new());
        event.record(&mut v);
        self.0.lock().unwrap().push(Captured { level: *event.metadata().level(), target: event.metadata().target().to_string(), text: v.0 });
    }
}

/// one process-wide subscriber that lets EVERY level through (the level filter of the real logger is applied when reading)
fn events() -> Arc<Mutex<Vec<Captured>>> {
    EVENTS
        .get_or_init(|| {
            let buf = Arc::new(Mutex::new(Vec::new()));
            let subscriber = tracing_subscriber::registry().with(Capture(buf.clone()));
            tracing::subscriber::set_global_default(subscriber).expect("global subscriber");
            buf
        })
        .clone()
}

/// events a server configured with `level` would write: tracing levels order ERROR < WARN < INFO < DEBUG < TRACE.
/// Events of the SDK *client* transport (same process here, another process in production) are not the server's.
fn server_events_at(level: Level, from: usize) -> Vec<Captured> {
    events().lock().unwrap()[from..]
        .iter()
        .filter(|e| e.level <= level)
        .filter(|e| !(e.target.starts_with("iggy::tcp") || e.target.starts_with("iggy::clients") || e.target.starts_with("iggy::binary")))
        .cloned()
        .collect()
}
fn mark() -> usize {
    events().lock().unwrap().len()
}
fn leaks(level: Level, from: usize, secret: &str) -> Vec<String> {
    server_events_at(level, from)
        .into_iter()
        .filter(|e| e.text.contains(secret))
        .map(|e| format!("[{} {}] {}", e.level, e.target, e.text.replace(secret, "<<RAW SECRET>>")))
        .collect()
}

async fn start_server(path: &str) -> (SharedSystem, SocketAddr) {
    let config = Arc::new(SystemConfig { path: path.to_string(), ..Default::default() });
    let mut system = System::new(config, DataMaintenanceConfig::default(), PersonalAccessTokenConfig::default());
    system.init().await.unwrap();
    let system = SharedSystem::new(system);
    let tcp_config = TcpConfig { address: "127.0.0.1:0".to_string(), ..Default::default() };
    let addr = tcp_server::start(tcp_config, system.clone()).await;
    (system, addr)
}
async fn connect(addr: SocketAddr) -> TcpClient {
    let client = TcpClient::create(Arc::new(TcpClientConfig { server_address: addr.to_string(), ..Default::default() })).unwrap();
    client.connect().await.unwrap();
    client
}
const USER_PASSWORD: &str = "pw-Kq7vXz-original-0001";

/// root creates user `name`; the user logs in and creates a token; returns (root client, raw token)
async fn user_with_token(addr: SocketAddr, name: &str, expiry: IggyExpiry) -> (TcpClient, String) {
    let root = connect(addr).await;
    root.login_user("iggy", "iggy").await.unwrap();
    root.create_user(name, USER_PASSWORD, UserStatus::Active, None).await.unwrap();
    let user = connect(addr).await;
    user.login_user(name, USER_PASSWORD).await.unwrap();
    let raw = user.create_personal_access_token("ci-token", expiry).await.unwrap().token;
    assert!(raw.len() > 20);
    (root, raw)
}

/// F200 (a): a VALID token of a user that was deactivated (the token works again as soon as the user is reactivated).
/// The binary handler formats `command.token` into its ERROR-level error context.
#[tokio::test(flavor = "multi_thread")]
async fn f200_inactive_user_valid_token_in_error_log() {
    let _ = events();
    let dir = tempfile::TempDir::new().unwrap();
    let (_system, addr) = start_server(dir.path().to_str().unwrap()).await;
    let (root, raw) = user_with_token(addr, "alice", IggyExpiry::NeverExpire).await;
    root.update_user(&Identifier::named("alice").unwrap(), None, Some(UserStatus::Inactive)).await.unwrap();
    let from = mark();
    let client = connect(addr).await;
    assert!(client.login_with_personal_access_token(&raw).await.is_err(), "an inactive user must not log in");
    tokio::time::sleep(std::time::Duration::from_millis(100)).await;
    let found = leaks(Level::INFO, from, &raw);
    // the token is still valid: reactivate the user and it logs in
    root.update_user(&Identifier::named("alice").unwrap(), None, Some(UserStatus::Active)).await.unwrap();
    connect(addr).await.login_with_personal_access_token(&raw).await.expect("the token logged above is a working credential");
    assert!(found.is_empty(), "F200: with the DEFAULT log level (info) the server wrote the raw token of a deactivated user {} time(s):\n{}", found.len(), found.join("\n"));
}

/// F200 (b): an EXPIRED token (handler error context again; System logs the token NAME only).
#[tokio::test(flavor = "multi_thread")]
async fn f200_expired_token_in_error_log() {
    let _ = events();
    let dir = tempfile::TempDir::new().unwrap();
    let (_system, addr) = start_server(dir.path().to_str().unwrap()).await;
    let (_root, raw) = user_with_token(addr, "bob", IggyExpiry::ExpireDuration(IggyDuration::from(1_000_000u64))).await;
    tokio::time::sleep(std::time::Duration::from_millis(1300)).await;
    let from = mark();
    let client = connect(addr).await;
    assert!(client.login_with_personal_access_token(&raw).await.is_err(), "an expired token must not log in");
    tokio::time::sleep(std::time::Duration::from_millis(100)).await;
    let found = leaks(Level::INFO, from, &raw);
    assert!(found.is_empty(), "F200: with the DEFAULT log level (info) the server wrote the raw (expired) token {} time(s):\n{}", found.len(), found.join("\n"));
}

/// F200 (c): a token the server does not know (here: a deleted one; a mistyped one takes the same path and differs from a valid
/// token in one character). `System::login_with_personal_access_token` logs it and returns it inside the error, which the
/// handler and binary::command::handle log again.
#[tokio::test(flavor = "multi_thread")]
async fn f200_unknown_token_in_error_log() {
    let _ = events();
    let dir = tempfile::TempDir::new().unwrap();
    let (_system, addr) = start_server(dir.path().to_str().unwrap()).await;
    let (_root, raw) = user_with_token(addr, "carol", IggyExpiry::NeverExpire).await;
    let mistyped = format!("{}X", &raw[..raw.len() - 1]);
    let from = mark();
    let client = connect(addr).await;
    assert!(client.login_with_personal_access_token(&mistyped).await.is_err());
    tokio::time::sleep(std::time::Duration::from_millis(100)).await;
    // all but the last character of the VALID token
    let found = leaks(Level::INFO, from, &raw[..raw.len() - 1]);
    assert!(found.is_empty(), "F200: with the DEFAULT log level (info) the server wrote a presented token (a valid token with its last character mistyped) {} time(s):\n{}", found.len(), found.join("\n"));
}

/// F201: a SUCCESSFUL token login with `level = "debug"`: `debug!("Received a TCP command: {command} ..")` (tcp/connection_handler.rs),
/// `debug!("Handling command '{command}' ..")` (binary/command.rs) and `debug!("session: {session}, command: {command}")` (handler)
/// go through `impl Display for LoginWithPersonalAccessToken`, which writes the raw token.
#[tokio::test(flavor = "multi_thread")]
async fn f201_successful_token_login_in_debug_log() {
    let _ = events();
    let dir = tempfile::TempDir::new().unwrap();
    let (_system, addr) = start_server(dir.path().to_str().unwrap()).await;
    let (_root, raw) = user_with_token(addr, "dave", IggyExpiry::NeverExpire).await;
    let from = mark();
    let client = connect(addr).await;
    client.login_with_personal_access_token(&raw).await.expect("valid token");
    tokio::time::sleep(std::time::Duration::from_millis(100)).await;
    let at_info = leaks(Level::INFO, from, &raw);
    assert!(at_info.is_empty(), "a successful login wrote the raw token at the default level:\n{}", at_info.join("\n"));
    let found = leaks(Level::DEBUG, from, &raw);
    assert!(found.is_empty(), "F201: with `level = \"debug\"` the server wrote the raw token of a successful login {} time(s):\n{}", found.len(), found.join("\n"));
}

/// positive: creating a token never logs the raw token it returns (any level)
#[tokio::test(flavor = "multi_thread")]
async fn created_token_is_not_logged() {
    let _ = events();
    let dir = tempfile::TempDir::new().unwrap();
    let (_system, addr) = start_server(dir.path().to_str().unwrap()).await;
    let from = mark();
    let (_root, raw) = user_with_token(addr, "erin", IggyExpiry::NeverExpire).await;
    tokio::time::sleep(std::time::Duration::from_millis(100)).await;
    let found = leaks(Level::TRACE, from, &raw);
    assert!(found.is_empty(), "creating a token logged it:\n{}", found.join("\n"));
}

/// positive: passwords are masked everywhere (any level): create_user, successful login, login with a WRONG password,
/// change_password with a wrong current password, a successful change, login with the stale password.
#[tokio::test(flavor = "multi_thread")]
async fn masked_passwords_everywhere() {
    let _ = events();
    let dir = tempfile::TempDir::new().unwrap();
    let (_system, addr) = start_server(dir.path().to_str().unwrap()).await;
    let from = mark();
    let root = connect(addr).await;
    root.login_user("iggy", "iggy").await.unwrap();
    let wrong = "pw-Wr0ng-guess-0002";
    let new = "pw-N3w-password-0003";
    root.create_user("frank", USER_PASSWORD, UserStatus::Active, None).await.unwrap();
    let user = connect(addr).await;
    assert!(user.login_user("frank", wrong).await.is_err());
    user.login_user("frank", USER_PASSWORD).await.unwrap();
    let frank = Identifier::named("frank").unwrap();
    assert!(user.change_password(&frank, wrong, new).await.is_err());
    user.change_password(&frank, USER_PASSWORD, new).await.unwrap();
    let again = connect(addr).await;
    assert!(again.login_user("frank", USER_PASSWORD).await.is_err(), "the old password stops working");
    again.login_user("frank", new).await.unwrap();
    // an inactive user presenting the right password
    root.update_user(&frank, None, Some(UserStatus::Inactive)).await.unwrap();
    assert!(connect(addr).await.login_user("frank", new).await.is_err());
    tokio::time::sleep(std::time::Duration::from_millis(100)).await;
    let n = server_events_at(Level::TRACE, from).len();
    assert!(n > 20, "the capture layer sees the server's events ({n})");
    for (what, secret) in [("initial password", USER_PASSWORD), ("wrong password", wrong), ("new password", new)] {
        let found = leaks(Level::TRACE, from, secret);
        assert!(found.is_empty(), "the {what} was logged:\n{}", found.join("\n"));
    }
}
