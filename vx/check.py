#!/usr/bin/env python3
"""vx check driver:  python3 vx/check.py <Cxx> [--tier quick|thorough]  |  --replay <file>  |  --explain <unit>

Exit codes: 0 every obligation of the property discharged (known findings printed as KNOWN-FINDING);
            1 at least one refuted obligation not listed in known_findings.json (VIOLATION line printed);
            2 undecided (lost anchor, unsupported construct, rlimit, unstable failure, tool error) — never an alarm.
"""
import argparse
import concurrent.futures as cf
import difflib
import glob
import json
import os
import re
import subprocess
import sys
import time
import tomllib

HERE = os.path.dirname(os.path.abspath(__file__))
sys.path.insert(0, HERE)
import extract as X  # noqa: E402
from unit import Unit, VERIF  # noqa: E402

BUILD = os.path.join(VERIF, "build")
# where the generated Verus files of THIS run go: a property check writes into its own sub-directory build/<prop>_<tier>/ so
# that checks of different properties (which share units) can run at the same time without overwriting each other's files
RUN_DIR = BUILD
EVID = os.path.join(VERIF, "evidence")
VERUS = os.environ.get("VERUS", "verus")
DEFINITE = (
    "postcondition not satisfied", "precondition not satisfied", "assertion failed",
    "invariant not satisfied", "possible arithmetic underflow/overflow", "possible division by zero",
    "index out of bounds", "possible bit shift underflow/overflow", "decreases not satisfied",
    "loop invariant not satisfied", "could not prove termination", "unreachable", "possible truncation",
    "failed to satisfy", "recommendation not met", "possible overflow", "possible underflow",
)
UNDECIDED_MARKERS = ("rlimit", "resource limit", "timeout", "timed out", "could not be proved", "while loop: Resource")


def enabled_units():
    p = os.path.join(VERIF, "units", "ENABLED")
    if not os.path.exists(p):
        return None
    return {l.strip() for l in open(p) if l.strip() and not l.startswith("#")}


def all_units():
    res = {}
    en = enabled_units()
    for p in sorted(glob.glob(os.path.join(VERIF, "units", "*", "unit.toml"))):
        if en is not None and os.path.basename(os.path.dirname(p)) not in en:
            continue
        with open(p, "rb") as f:
            cfg = tomllib.load(f)
        res[os.path.basename(os.path.dirname(p))] = cfg
    return res


def label_in_prop(label, prop, extra):
    """a label belongs to the property of its prefix and to the properties the unit lists for it under [label_props]"""
    return label.startswith(prop + ".") or prop in extra.get(label, [])


def units_for(prop):
    return [n for n, c in all_units().items() if prop in c.get("unit", {}).get("properties", [])]


# --------------------------------------------------------------------------------------
def run_verus(path, seed, rlimit, only_fn=None, threads=None):
    cmd = [VERUS, os.path.basename(path), "--output-json", "--time", "--error-format=json",
           "--triggers-mode", "silent", "--multiple-errors", "50", "--rlimit", str(rlimit),
           "--smt-option", f"smt.random_seed={seed % 1000}", "--no-report-long-running"]
    cmd += ["--num-threads", str(threads or int(os.environ.get("VX_THREADS", "8")))]
    if only_fn:
        cmd += ["--verify-root", "--verify-function", only_fn]
    t0 = time.time()
    # the verifier process itself occasionally dies under load ("thread caused non-unwinding panic", no result json):
    # that says nothing about the code — retry before reporting the run as undecided
    for attempt in range(3):
        p = subprocess.run(cmd, cwd=os.path.dirname(path), capture_output=True, text=True)
        if '"verification-results"' in p.stdout:
            break
        time.sleep(1 + attempt)
    wall = time.time() - t0
    diags = []
    for line in p.stderr.split("\n"):
        line = line.strip()
        if line.startswith("{"):
            try:
                diags.append(json.loads(line))
            except Exception:
                pass
    try:
        out = json.loads(p.stdout[p.stdout.index("{"):])
    except Exception:
        out = {}
    return dict(cmd=" ".join(cmd), rc=p.returncode, diags=diags, out=out, wall=wall, stderr=p.stderr, stdout=p.stdout)


def classify(unit, g, res):
    """-> (refuted: list of dict, undecided: list of str, failed_fns: set)"""
    refuted, undecided = [], []
    fname = None
    for d in res["diags"]:
        if d.get("level") != "error":
            continue
        msg = d.get("message", "")
        if msg.startswith("aborting due to"):
            continue
        spans = d.get("spans", [])
        ours = [s for s in spans if s["file_name"].endswith(".rs") and not s["file_name"].startswith("std_specs")
                and "/" not in s["file_name"]]
        low = msg.lower()
        if any(m in low for m in UNDECIDED_MARKERS):
            fn = unit.fn_of_line(ours[0]["line_start"])[2] if ours else "?"
            undecided.append(f"{msg} in {fn}")
            continue
        if not any(m in low for m in DEFINITE):
            loc = f"{ours[0]['file_name']}:{ours[0]['line_start']}" if ours else "?"
            src = g.origin[ours[0]["line_start"] - 1] if ours else {}
            undecided.append(f"tool error (unsupported construct or type error): {msg} at {loc} origin={src}")
            continue
        # definite verification failure: find label and function
        label, clause_text, site, fn, kind = "", "", "", None, None
        clause_hit = False
        prim = next((s for s in ours if s.get("is_primary")), ours[0] if ours else None)
        for s in ours:
            o = g.origin[s["line_start"] - 1]
            if o.get("kind") == "clause" and (s.get("label") or "").startswith("failed") or \
                    (o.get("kind") == "clause" and s.get("is_primary") and "invariant" in low):
                label = o.get("label", "")
                clause_text = o.get("text", "")
                kind = o.get("clause")
                clause_hit = True
        for s in ours:
            o = g.origin[s["line_start"] - 1]
            if o.get("kind") == "hint":
                # a spliced proof hint failed: labelled hints carry a property step, unlabelled ones are undecided
                r = unit.fn_of_line(s["line_start"])
                if r:
                    fn = r
                if o.get("label") and not label:
                    label = o["label"]; kind = "hint"
                clause_hit = True
                site = " ".join(" ".join(t["text"] for t in s.get("text", [])).split())[:200]
        for s in ours:
            o = g.origin[s["line_start"] - 1]
            if o.get("kind") in ("src",) or (o.get("kind") in ("lemma", "prelude") and not label):
                r = unit.fn_of_line(s["line_start"])
                if r and (fn is None or o.get("kind") == "src"):
                    fn = r
                if o.get("kind") == "src":
                    site = " ".join(" ".join(t["text"] for t in s.get("text", [])).split())[:200]
                    src_loc = f"{o.get('file')}:{o.get('line')}"
                    # a long generated line (log-sink rules put all sink calls of one event on one line): name the highlighted call too
                    tx = s.get("text", [])
                    if len(tx) == 1 and len(tx[0]["text"]) > 200 and tx[0].get("highlight_end", 0) - tx[0].get("highlight_start", 0) < 160:
                        site += " [at: " + tx[0]["text"][tx[0]["highlight_start"] - 1:tx[0]["highlight_end"] - 1] + "]"
                    if o.get("kind") == "src" and "log_arg" in site:
                        site += f" [{src_loc}]"
        if not label and "decreases not satisfied" in low and prim is not None:
            # termination of a loop: Verus points at the loop header, not at the clause. If the unit gave the loop's `decreases`
            # a label (termination is part of the property there), the failure carries it (clauses follow the header line).
            k = prim["line_start"]
            while k < len(g.origin) and g.origin[k].get("kind") in ("clause", "gen"):
                o = g.origin[k]
                if o.get("kind") == "clause" and str(o.get("clause", "")).endswith(".decreases") and o.get("label"):
                    label, clause_text, kind, clause_hit = o["label"], o.get("text", ""), o.get("clause"), True
                    break
                k += 1
        if fn is None and prim is not None:
            fn = unit.fn_of_line(prim["line_start"])
        if fn is None and label:
            # a clause failed with no body span (e.g. invariant): function from the clause's origin
            for s in ours:
                o = g.origin[s["line_start"] - 1]
                if o.get("kind") == "clause":
                    fn = [0, 0, o.get("fn"), "extracted", None, "exec"]
        fnname = fn[2] if fn else "?"
        if not label and fn is not None and not clause_hit:
            if fn[3] == "lemma" and fn[4]:
                label = fn[4]
                kind = "lemma"
            elif fn[3] == "extracted" and fn[4]:
                label = fn[4]
                kind = "implicit"
        if fn is not None and fn[3] == "prelude":
            undecided.append(f"prelude obligation failed: {msg} in {fnname}")
            continue
        if not site and prim is not None:
            site = " ".join(" ".join(t["text"] for t in prim.get("text", [])).split())[:200]
        refuted.append(dict(label=label, fn=fnname, message=msg, clause=clause_text, kind=kind or "unlabelled",
                            site=site, rendered=d.get("rendered", "")))
    vr = res["out"].get("verification-results", {})
    if not vr:
        undecided.append("verus produced no result json: " + res["stderr"][-400:])
    elif vr.get("encountered-vir-error") or (vr.get("encountered-error") and not refuted and not undecided):
        if not undecided:
            undecided.append("verus error: " + res["stderr"][-600:])
    return refuted, undecided


def function_times(res):
    t = {}
    try:
        for m in res["out"]["times-ms"]["smt"]["smt-run-module-times"]:
            for f in m.get("function-breakdown", []):
                t[f["function"]] = t.get(f["function"], 0) + f.get("time-micros", 0) / 1e6
    except Exception:
        pass
    return t


def run_unit(name, seed, tier):
    """generate + verify one unit; returns a result dict."""
    os.makedirs(RUN_DIR, exist_ok=True)
    r = dict(unit=name, undecided=[], refuted=[], labels={}, functions=[], rewrites=[], assumptions=[],
             verified=0, errors=0, wall=0.0, smoke=None, cmd="", times={})
    try:
        u = Unit(name)
        g = u.generate()
    except X.Undecided as e:
        r["undecided"].append(str(e))
        return r
    path = os.path.join(RUN_DIR, name + os.environ.get("VX_BUILD_SUFFIX", "") + ".rs")
    open(path, "w").write(g.text_parallel())
    rlimit = u.cfg.get("unit", {}).get("rlimit", 20)
    res = run_verus(path, seed, rlimit)
    r["cmd"] = res["cmd"]
    r["wall"] = res["wall"]
    refuted, undecided = classify(u, g, res)
    # stability: a refutation must survive a re-run with another seed and 4x rlimit
    if refuted:
        res2 = run_verus(path, seed + 17, rlimit * 4)
        r["wall"] += res2["wall"]
        ref2, und2 = classify(u, g, res2)
        keys2 = {(x["label"], x["fn"], x["message"]) for x in ref2}
        stable = [x for x in refuted if (x["label"], x["fn"], x["message"]) in keys2]
        for x in refuted:
            if x not in stable:
                undecided.append(f"unstable failure (not reproduced with another seed / 4x rlimit): {x['label'] or x['message']} in {x['fn']}")
        refuted = stable
    # forbid assume/admit in contracts and lemmas
    for f in ("contracts.vspec", "lemmas.rs"):
        p = os.path.join(u.dir, f)
        if os.path.exists(p):
            for k, l in enumerate(open(p).read().split("\n"), 1):
                if re.search(r"\bassume\s*\(|\badmit\s*\(", l) and not l.strip().startswith("//"):
                    undecided.append(f"forbidden assume/admit in {f}:{k}")
    vr = res["out"].get("verification-results", {})
    r.update(refuted=refuted, undecided=undecided, labels=u.labels, functions=u.functions, rewrites=u.rewrites,
             assumptions=u.assumptions, verified=vr.get("verified", 0), errors=vr.get("errors", 0),
             times=function_times(res), dropped=u.dropped, label_props=u.cfg.get("label_props", {}),
             unit_props=u.cfg.get("unit", {}).get("properties", []),
             lemmas=[dict(fn=x[2], label=x[4]) for x in u.fn_ranges if x[3] == "lemma" and x[5] == "proof"],
             std_assumed=u.cfg.get("unit", {}).get("assumes", []))
    # vacuity smoke: every contracted function with `ensures false` appended must FAIL
    if not undecided and os.environ.get("VX_NO_SMOKE") != "1" and (tier == "thorough" or u.cfg.get("unit", {}).get("smoke_in_quick", True)):
        try:
            us = Unit(name)
            gs = us.generate(smoke=True)
            spath = os.path.join(RUN_DIR, name + os.environ.get("VX_BUILD_SUFFIX", "") + "_smoke.rs")
            open(spath, "w").write(gs.text_parallel())
            sres = run_verus(spath, seed, rlimit)
            r["wall"] += sres["wall"]
            svr = sres["out"].get("verification-results", {})
            if not svr or svr.get("encountered-vir-error") or (svr.get("encountered-error") and "verified" not in svr):
                raise X.Undecided("smoke run did not complete: " + sres["stderr"][-300:])
            failed_fns = set()
            for d in sres["diags"]:
                if d.get("level") == "error":
                    for s in d.get("spans", []):
                        if "/" in s["file_name"] or s["file_name"].startswith("std_specs"):
                            continue
                        o = gs.origin[s["line_start"] - 1]
                        if o.get("fn"):
                            failed_fns.add(o["fn"])
                        fr = us.fn_of_line(s["line_start"])
                        if fr:
                            failed_fns.add(fr[2])
            expect = [(sp.rename or re.sub(r"^(server|sdk):(?!:)", "", sp.key)) + "__smoke" for sp in us.specs if not sp.no_smoke]
            vac = [f for f in expect if f not in failed_fns]
            r["smoke"] = dict(functions=len(expect), vacuous=vac)
            if vac:
                r["undecided"].append("vacuity: `ensures false` verified for " + ", ".join(vac))
        except X.Undecided as e:
            r["undecided"].append(str(e))
    return r


# --------------------------------------------------------------------------------------
# thorough tier: sensitivity self-test. Every `units/<u>/mutants/*.patch` (the unit author's realistic property-breaking
# edits M*/break* and harmless edits H*/harmless*) and every confirmed seeded change under seeded/<id>/ for this
# property is applied to a scratch copy of /repo's sources (outside /repo and /verif, removed afterwards) and the
# unit is re-run on it. A breaking edit must yield a REFUTED labelled obligation; a harmless one must not.
# The result goes into evidence; it never turns into a VIOLATION (it says something about the check, not the code).
def _selftest_one(job):
    import shutil, tempfile
    unit, name, patch, breaking, base_labels = job
    scratch = tempfile.mkdtemp(prefix="vx_selftest_", dir="/var/tmp")
    try:
        for sub in ("server/src", "sdk/src"):
            shutil.copytree(os.path.join(X.REPO, sub), os.path.join(scratch, sub))
        pr = subprocess.run(["patch", "-p1", "-s", "-f", "-d", scratch, "-i", patch], capture_output=True, text=True)
        if pr.returncode != 0:
            return dict(unit=unit, mutant=name, breaking=breaking, outcome="skipped (patch does not apply to the current tree)")
        env = dict(os.environ, VERIF_REPO=scratch, VX_NO_SMOKE="1", VX_BUILD_SUFFIX="_st_" + re.sub(r"[^A-Za-z0-9]", "_", name))
        r = subprocess.run([sys.executable, os.path.join(HERE, "check.py"), "--unit", unit], capture_output=True, text=True, env=env)
        # labels already refuted on the unmodified tree (known findings) say nothing about this edit
        # (compared as (label, function) pairs: an edit refuted under the label of a known finding but in ANOTHER function is a detection)
        pairs = set(re.findall(r"REFUTED label=(\S+) fn=(\S+)", r.stdout))
        labels = sorted({l for (l, f) in pairs if l != "-" and (l, f) not in set(base_labels) and l not in set(base_labels)})
        if breaking:
            outcome = "detected" if labels else ("undecided (exit 2)" if r.returncode == 2 or "label=-" in r.stdout else "MISSED")
        else:
            outcome = "FALSE ALARM" if labels else "quiet"
        return dict(unit=unit, mutant=name, breaking=breaking, outcome=outcome, labels=labels[:6])
    finally:
        shutil.rmtree(scratch, ignore_errors=True)
        # (exact suffix: a prefix glob `*_st_<unit>_M1*` would also delete the files of the concurrently running M10..M19)
        sfx = "*_st_" + re.sub(r"[^A-Za-z0-9]", "_", name)
        for fpath in glob.glob(os.path.join(BUILD, sfx + ".*")) + glob.glob(os.path.join(BUILD, sfx + "_smoke.*")):
            try:
                os.remove(fpath)
            except OSError:
                pass


def mutation_selftest(prop, units, base_refuted):
    jobs = []
    for u in units:
        for pth in sorted(glob.glob(os.path.join(VERIF, "units", u, "mutants", "*.patch"))):
            n = os.path.basename(pth)[:-6]
            breaking = not (n.lower().startswith("h"))
            jobs.append((u, f"{u}/{n}", pth, breaking, base_refuted.get(u, [])))
    for meta in sorted(glob.glob(os.path.join(VERIF, "seeded", "*", "meta.json"))):
        try:
            m = json.load(open(meta))
        except Exception:
            continue
        if m.get("property") != prop:
            continue
        d = os.path.dirname(meta)
        for u in units:
            jobs.append((u, f"seeded/{os.path.basename(d)}@{u}", os.path.join(d, "patch.diff"), True, base_refuted.get(u, [])))
    if not jobs:
        return None
    with cf.ThreadPoolExecutor(max_workers=6) as ex:
        res = list(ex.map(_selftest_one, jobs))
    # a seeded change counts as detected if any unit of the property detects it
    seeded = {}
    for r in res:
        if r["mutant"].startswith("seeded/"):
            k = r["mutant"].split("@")[0]
            seeded.setdefault(k, []).append(r)
    # (a seed is one change to one or two functions: in the units that do not extract those functions nothing can fail. Such rows
    # are not misses of the check - say so, and by which unit the seed is refuted)
    for k, v in seeded.items():
        by = sorted({x["unit"] for x in v if x["outcome"] == "detected"})
        if by:
            for x in v:
                if x["outcome"] == "MISSED":
                    x["outcome"] = "untouched by this unit (seed refuted in unit " + ", ".join(by) + ")"
    summary = dict(
        breaking_total=len([r for r in res if r["breaking"] and not r["mutant"].startswith("seeded/") and not r["outcome"].startswith("skipped")]),
        breaking_detected=len([r for r in res if r["breaking"] and not r["mutant"].startswith("seeded/") and r["outcome"] == "detected"]),
        harmless_total=len([r for r in res if not r["breaking"] and not r["outcome"].startswith("skipped")]),
        harmless_quiet=len([r for r in res if not r["breaking"] and r["outcome"] == "quiet"]),
        seeded_total=len(seeded),
        seeded_detected=len([k for k, v in seeded.items() if any(x["outcome"] == "detected" for x in v)]),
        skipped=len([r for r in res if r["outcome"].startswith("skipped")]))
    return dict(summary=summary, results=res)


# --------------------------------------------------------------------------------------
def load_known():
    p = os.path.join(VERIF, "known_findings.json")
    if os.path.exists(p):
        return json.load(open(p))
    return {"findings": [], "fixed": []}


def match_known(prop, x, known):
    for f in known.get("findings", []):
        if f["property"] != prop or f["obligation"] != x["label"] or f["function"] != x["fn"]:
            continue
        sites = f.get("sites")
        if sites and not any(s in x["site"] for s in sites):
            continue
        return f
    return None


def check_property(prop, tier, seed, quiet=False):
    t0 = time.time()
    units = units_for(prop)
    if not units:
        print(f"no unit serves {prop}")
        return 2
    with cf.ThreadPoolExecutor(max_workers=min(8, len(units))) as ex:
        results = list(ex.map(lambda n: run_unit(n, seed, tier), units))
    known = load_known()
    undecided, violations, kf, helper_fail = [], [], [], []
    obligations, discharged = [], []
    fns, rewrites, assumptions, times, samples, lemmas = [], [], [], {}, [], []
    bounded = []
    for r in results:
        undecided += [f"[{r['unit']}] {u}" for u in r["undecided"]]
        failed_labels = {x["label"] for x in r["refuted"] if x["label"]}
        failed_fns = {x["fn"] for x in r["refuted"]}
        # the body obligation of a function (implicit side conditions) fails only through an implicit/unlabelled failure
        failed_body_fns = {x["fn"] for x in r["refuted"] if not x["label"] or x["kind"] in ("implicit", "unlabelled")}
        extra = r.get("label_props", {})
        for lab, info in r["labels"].items():
            if not label_in_prop(lab, prop, extra):
                continue
            obligations.append(lab)
            if lab not in failed_labels and not (info["fn"] in failed_fns and info["kind"] == "lemma") and not r["undecided"]:
                discharged.append(lab)
        fns_with_prop_label = {info["fn"] for lab, info in r["labels"].items() if label_in_prop(lab, prop, extra)}
        primary = (r.get("unit_props") or [prop])[0] == prop
        for f in r["functions"]:
            if not primary and f["fn"] not in fns_with_prop_label:
                continue   # a secondary property of this unit only counts the functions that carry one of its labels
            ob = f"{f['fn']}#body" if not f.get("implicit_label") else f["implicit_label"]
            if f.get("implicit_label") and not f["implicit_label"].startswith(prop + "."):
                ob = f"{f['fn']}#body"
            obligations.append(ob)
            if f["fn"] not in failed_body_fns and not r["undecided"]:
                discharged.append(ob)
        for x in r["refuted"]:
            if x["label"] and not label_in_prop(x["label"], prop, extra):
                continue   # belongs to another property served by the same unit
            if not x["label"]:
                undecided.append(f"[{r['unit']}] unlabelled obligation failed in {x['fn']}: {x['message']} @ {x['site']}")
                continue
            k = match_known(prop, x, known)
            if k:
                kf.append((k, x))
            elif ".shape." in x["label"] or x["label"].endswith(".helper"):
                helper_fail.append((r["unit"], x))
            elif not any(v[1]["label"] == x["label"] and v[1]["fn"] == x["fn"] for v in violations):
                violations.append((r["unit"], x))
        fns += [dict(unit=r["unit"], **f) for f in r["functions"]]
        rewrites += [dict(unit=r["unit"], **w) for w in r["rewrites"]]
        assumptions += [f"{a['file']}:{a['line']}: {a['text']}" for a in r["assumptions"]]
        times.update(r["times"])
        lemmas += r.get("lemmas", [])
    for unit, x in helper_fail:
        # a helper (transcript) clause no longer matches the code: the relational lemmas that rest on it
        # (monotonicity) are no longer connected to the code => undecided, never an alarm by itself
        msg = f"[{unit}] helper clause {x['label']} no longer matches {x['fn']} (lemmas resting on it are undecided)"
        if msg not in undecided:
            undecided.append(msg)
    # obligations matched by a known finding are reported separately (coverage.known_findings) and are not part of
    # the obligations this run claims to discharge
    kf_labels = {x["label"] for _, x in kf}
    obligations = sorted(set(obligations) - kf_labels)
    discharged = sorted(set(discharged) - kf_labels)
    # kani harnesses (complete proofs on the compiled crate) registered for this property
    kani = run_kani(prop, tier) if tier == "thorough" or os.environ.get("VX_KANI") == "1" else None
    if kani:
        for h in kani["harnesses"]:
            lab = f"{prop}.kani.{h['name']}"
            if h.get("bounded"):
                bounded.append(dict(harness=h["name"], bound=h["bounded"], result=h["result"]))
                continue
            obligations.append(lab)
            if h["result"] == "SUCCESS":
                discharged.append(lab)
            elif h["result"] == "FAILURE":
                x = dict(label=lab, fn=h["name"], message="kani: FAILURE", clause="", kind="kani", site="", rendered=h.get("log", "")[-3000:])
                k = match_known(prop, x, known)
                (kf.append((k, x)) if k else violations.append(("kani", x)))
            else:
                undecided.append(f"[kani] {h['name']}: {h['result']}")
    selftest = None
    seed_sweep = None
    if tier == "thorough" and not violations:
        # stability sweep: the same units under two more SMT seeds (a proof that flips with the seed is reported undecided)
        seed_sweep = []
        for extra_seed in (seed + 101, seed + 202):
            for n in units:
                rr = run_unit(n, extra_seed, "quick")
                seed_sweep.append(dict(unit=n, seed=extra_seed, refuted=[x["label"] or x["message"] for x in rr["refuted"]
                                                                       if not match_known(prop, x, known) and (not x["label"] or label_in_prop(x["label"], prop, rr.get("label_props", {})))],
                                       undecided=rr["undecided"][:3]))
                if rr["undecided"]:
                    undecided.append(f"[{n}] seed {extra_seed}: " + rr["undecided"][0][:200])
        selftest = mutation_selftest(prop, units, {r["unit"]: [(x["label"], x["fn"]) for x in r["refuted"] if x["label"]] for r in results})
        if selftest:
            sm = selftest["summary"]
            print(f"SELFTEST property={prop} breaking {sm['breaking_detected']}/{sm['breaking_total']} detected, harmless {sm['harmless_quiet']}/{sm['harmless_total']} quiet, "
                  f"seeded {sm['seeded_detected']}/{sm['seeded_total']} detected, skipped {sm['skipped']}")
    wall = time.time() - t0
    for k, x in kf:
        print(f"KNOWN-FINDING: property={prop} {k['what']} [obligation {x['label']} in {x['fn']}]")
    rc = 0
    if violations:
        rc = 1
        os.makedirs(os.path.join(BUILD, "replay"), exist_ok=True)
        for unit, x in violations:
            rp = os.path.join(BUILD, "replay", f"{prop}-{re.sub(r'[^A-Za-z0-9_.-]', '_', x['label'])}.json")
            witness = find_witness(prop, x)
            json.dump(dict(property=prop, obligation=x["label"], function=x["fn"], unit=unit, kind=x["kind"],
                           clause=x["clause"], verifier_message=x["message"], site=x["site"],
                           verifier_output=x["rendered"], witness=witness,
                           note="Verus yields no counterexample; see witness for a concrete replay on the real code if one is registered"),
                      open(rp, "w"), indent=1)
            tail = "" if witness and witness.get("outcome") == "fails-on-real-code" else " no-failing-input-found"
            print(f"VIOLATION property={prop} replay={rp} obligation={x['label']} function={x['fn']}{tail}")
    elif undecided:
        rc = 2
        for u in undecided[:20]:
            print(f"UNDECIDED property={prop} reason={u}")
    # evidence
    for lab in discharged[:6]:
        for r in results:
            if lab in r["labels"]:
                i = r["labels"][lab]
                samples.append(dict(obligation=lab, function=i["fn"], kind=i["kind"], clause=i.get("text", "")))
    ev = dict(
        property_id=prop, tier=tier, seed=seed, level="proof",
        coverage=dict(
            obligations=len(obligations), discharged=len(discharged),
            checker_cmd="; ".join(r["cmd"] for r in results if r["cmd"]),
            trusted_base=sorted(set(assumptions))[:400] + [f"unit-declared: {a}" for r in results for a in r.get("std_assumed", [])],
            functions_under_contract=fns, obligation_names=obligations,
            undischarged=sorted(set(obligations) - set(discharged)),
            by_backend={"verus-z3": len([o for o in discharged if ".kani." not in o]),
                        "kani-cbmc": len([o for o in discharged if ".kani." in o])},
            verus_functions_verified=sum(r["verified"] for r in results),
            solver_time_s={k: round(v, 3) for k, v in sorted(times.items(), key=lambda kv: -kv[1])[:60]},
            solver_time_total_s=round(sum(times.values()), 3),
            rewrites=rewrites, lemmas=lemmas, bounded=bounded,
            vacuity_smoke=[dict(unit=r["unit"], **(r["smoke"] or {})) for r in results],
            known_findings=[dict(obligation=x["label"], function=x["fn"], what=k["what"]) for k, x in kf],
            undecided=undecided, samples=samples or [dict(note="no obligation discharged")],
            explanation="Obligations = labelled contract clauses and lemmas of this property plus one body obligation per "
                        "extracted function (all unlabelled side conditions: callee preconditions, overflow, bounds, "
                        "helper clauses). Text of every function is re-extracted from /repo on this run.",
            kani=kani and dict(cmd=kani.get("cmd"), wall_s=kani.get("wall")),
            mutation_selftest=selftest, seed_sweep=seed_sweep,
        ),
        assumptions=assumption_summary(results),
        wall_s=round(wall, 2), violations=len(violations),
    )
    # evidence/<id>.json describes runs against /repo itself; runs against a scratch tree (VERIF_REPO) go elsewhere
    evdir = EVID if os.path.realpath(X.REPO) == "/repo" else os.path.join(BUILD, "evidence_scratch")
    os.makedirs(evdir, exist_ok=True)
    json.dump(ev, open(os.path.join(evdir, prop + ".json"), "w"), indent=1)
    if not quiet:
        print(f"{prop}: obligations={len(obligations)} discharged={len(discharged)} known-findings={len(kf)} "
              f"violations={len(violations)} undecided={len(undecided)} wall={wall:.1f}s exit={rc}")
    return rc


def assumption_summary(results):
    s = set()
    for r in results:
        for w in r["rewrites"]:
            if w["rule"].startswith("R1"):
                s.add(f"A-seq({w['fn']}): async body sequentialised; no interference at await points assumed")
            if w["rule"].startswith("R5"):
                s.add(f"A-lock({w['fn']}): lock acquisition dropped; mutual exclusion assumed")
            if w["rule"].startswith("R6"):
                s.add(f"A-atomic({w['fn']}): atomics/interior mutability treated as plain sequential data")
            if w["rule"].startswith("R9"):
                s.add(f"A-diverge({w['fn']}): listed unwrap/expect on I/O results treated as divergence")
    s.add("machine integers are checked (Verus overflow obligations); spec integers are mathematical")
    s.add("trusted: Verus 0.2026.09.13 + bundled Z3, rustc; external_body stubs listed in coverage.trusted_base")
    return sorted(s)


def find_witness(prop, x):
    p = os.path.join(VERIF, "replay", "witnesses.json")
    if not os.path.exists(p):
        return None
    for w in json.load(open(p)):
        if w["obligation"] == x["label"]:
            return w
    return None


# --------------------------------------------------------------------------------------
def run_kani(prop, tier):
    reg = os.path.join(VERIF, "kani", "harnesses.json")
    if not os.path.exists(reg):
        return None
    hs = [h for h in json.load(open(reg)) if prop in h["properties"]]
    if not hs:
        return None
    import kani_run
    return kani_run.run(hs)


def explain(unitname):
    u = Unit(unitname)
    g = u.generate()
    print(g.text())


def replay(path):
    d = json.load(open(path))
    print(json.dumps({k: d[k] for k in ("property", "obligation", "function", "verifier_message", "site")}, indent=1))
    print(d.get("verifier_output", ""))
    rc = check_property(d["property"], "quick", int(os.environ.get("VERIF_SEED", "0")))
    return rc


def main():
    ap = argparse.ArgumentParser()
    ap.add_argument("prop", nargs="?")
    ap.add_argument("--tier", default=os.environ.get("VERIF_TIER", "quick"))
    ap.add_argument("--replay")
    ap.add_argument("--explain")
    ap.add_argument("--unit", help="run one unit and print every failure (authoring aid; writes no evidence)")
    a = ap.parse_args()
    seed = int(os.environ.get("VERIF_SEED", "0") or 0)
    if a.explain:
        explain(a.explain); return 0
    if a.replay:
        return replay(a.replay)
    if a.unit:
        r = run_unit(a.unit, seed, a.tier)
        for x in r["refuted"]:
            print(f"REFUTED label={x['label'] or '-'} fn={x['fn']} kind={x['kind']} msg={x['message']}\n   site: {x['site']}\n   clause: {x['clause']}")
        for u in r["undecided"]:
            print("UNDECIDED", u[:1500])
        print(f"unit {a.unit}: verus verified={r['verified']} errors={r['errors']} labels={len(r['labels'])} "
              f"functions={len(r['functions'])} smoke={r['smoke']} wall={r['wall']:.1f}s")
        return 1 if r["refuted"] else (2 if r["undecided"] else 0)
    global RUN_DIR
    RUN_DIR = os.path.join(BUILD, f"{a.prop}_{a.tier}")
    return check_property(a.prop, a.tier, seed)


if __name__ == "__main__":
    sys.exit(main())
