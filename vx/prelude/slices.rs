// ---- shared prelude: offset slices of a log, stored batches and their file positions, index records (C02 disk tier) ----
// Generic spec functions and PROVED lemmas only (no stub, no assumption). The definitions are the ones of
// units/read_segment/prelude.rs (seq_keep / off_in / slice_of / lemma_keep_* / idx_strict / is_first_ge / none_ge /
// batch_last / lemma_batch_lasts_increase) and units/read_log/prelude.rs (views / bsize / pos / lemma_pos_mono / pos_injective),
// copied verbatim so that a unit built on storage.rs + segview.rs can compose the contracts of those two units.
// Needs: storage.rs (RetainedMessage, contig, total_size), segview.rs (BatchV, batch_view, batch_wf, flat) and the extracted
// types `Index`, `RetainedMessageBatch`.

// ---- the oracle of C02 (from the statement): the retained messages whose offsets lie in [lo, hi], in log order ----
pub open spec fn seq_keep(s: Seq<RetainedMessage>, f: spec_fn(RetainedMessage) -> bool) -> Seq<RetainedMessage>
    decreases s.len(),
{
    if s.len() == 0 { Seq::empty() }
    else if f(s.last()) { seq_keep(s.drop_last(), f).push(s.last()) }
    else { seq_keep(s.drop_last(), f) }
}
pub open spec fn off_in(lo: int, hi: int) -> spec_fn(RetainedMessage) -> bool { |m: RetainedMessage| lo <= m.offset <= hi }
pub open spec fn slice_of(log: Seq<RetainedMessage>, lo: int, hi: int) -> Seq<RetainedMessage> { seq_keep(log, off_in(lo, hi)) }

// ---- technical lemmas about seq_keep (proved) ----
pub proof fn lemma_keep_add(a: Seq<RetainedMessage>, b: Seq<RetainedMessage>, f: spec_fn(RetainedMessage) -> bool)
    ensures seq_keep(a + b, f) == seq_keep(a, f) + seq_keep(b, f),
    decreases b.len(),
{
    if b.len() == 0 {
        assert(a + b =~= a);
        assert(seq_keep(a, f) + seq_keep(b, f) =~= seq_keep(a, f));
    } else {
        lemma_keep_add(a, b.drop_last(), f);
        assert((a + b).drop_last() =~= a + b.drop_last());
        assert((a + b).last() == b.last());
        if f(b.last()) {
            assert(seq_keep(a, f) + seq_keep(b.drop_last(), f).push(b.last()) =~= (seq_keep(a, f) + seq_keep(b.drop_last(), f)).push(b.last()));
        }
    }
}
// the kept elements are exactly those of the index window [a, b)
pub proof fn lemma_keep_window(s: Seq<RetainedMessage>, f: spec_fn(RetainedMessage) -> bool, a: int, b: int)
    requires
        0 <= a <= b <= s.len(),
        forall|i: int| 0 <= i < s.len() ==> (f(#[trigger] s[i]) <==> a <= i < b),
    ensures seq_keep(s, f) == s.subrange(a, b),
    decreases s.len(),
{
    if s.len() == 0 {
        assert(s.subrange(a, b) =~= Seq::<RetainedMessage>::empty());
    } else {
        let n = s.len() - 1;
        let t = s.drop_last();
        assert(forall|i: int| 0 <= i < t.len() ==> t[i] == s[i]);
        if b == s.len() {
            if a == b {
                lemma_keep_window(t, f, n, n);
                assert(!f(s[n]));
                assert(s.subrange(a, b) =~= t.subrange(n, n));
            } else {
                lemma_keep_window(t, f, a, n);
                assert(f(s[n]));
                assert(s.subrange(a, b) =~= t.subrange(a, n).push(s.last()));
            }
        } else {
            lemma_keep_window(t, f, a, b);
            assert(!f(s[n]));
            assert(s.subrange(a, b) =~= t.subrange(a, b));
        }
    }
}
pub proof fn lemma_keep_none(s: Seq<RetainedMessage>, f: spec_fn(RetainedMessage) -> bool)
    requires forall|i: int| 0 <= i < s.len() ==> !f(#[trigger] s[i]),
    ensures seq_keep(s, f) == Seq::<RetainedMessage>::empty(),
{
    lemma_keep_window(s, f, 0, 0);
    assert(s.subrange(0, 0) =~= Seq::<RetainedMessage>::empty());
}
pub proof fn lemma_keep_ext(s: Seq<RetainedMessage>, f: spec_fn(RetainedMessage) -> bool, g: spec_fn(RetainedMessage) -> bool)
    requires forall|i: int| 0 <= i < s.len() ==> (f(#[trigger] s[i]) <==> g(s[i])),
    ensures seq_keep(s, f) == seq_keep(s, g),
    decreases s.len(),
{
    if s.len() > 0 {
        let t = s.drop_last();
        assert(forall|i: int| 0 <= i < t.len() ==> t[i] == s[i]);
        lemma_keep_ext(t, f, g);
        assert(f(s[s.len() - 1]) <==> g(s[s.len() - 1]));
    }
}

// ---- stored batches: view of a loaded vector, sizes and file positions (definitions of unit read_log) ----
pub open spec fn views(v: Seq<RetainedMessageBatch>) -> Seq<BatchV> { v.map(|i: int, b: RetainedMessageBatch| batch_view(&b)) }
// bytes a stored batch occupies: 24-byte header + encoded messages
pub open spec fn bsize(b: BatchV) -> nat { (24 + total_size(b.msgs)) as nat }
// file position at which batch k starts (k == len: end of file)
pub open spec fn pos(f: Seq<BatchV>, k: int) -> nat
    decreases k,
{
    if k <= 0 { 0 } else { pos(f, k - 1) + bsize(f[k - 1]) }
}
pub proof fn lemma_pos_mono(f: Seq<BatchV>, i: int, j: int)
    requires 0 <= i <= j,
    ensures pos(f, i) <= pos(f, j), i < j ==> pos(f, i) + 24 <= pos(f, j),
    decreases j - i,
{
    if i < j { lemma_pos_mono(f, i, j - 1); }
}
pub open spec fn pos_injective(f: Seq<BatchV>) -> bool {
    forall|i: int, j: int| 0 <= i <= f.len() && 0 <= j <= f.len() && #[trigger] pos(f, i) == #[trigger] pos(f, j) ==> i == j
}
pub proof fn lemma_pos_inj_all(f: Seq<BatchV>)
    ensures pos_injective(f),
{
    assert forall|i: int, j: int| 0 <= i <= f.len() && 0 <= j <= f.len() && #[trigger] pos(f, i) == #[trigger] pos(f, j) implies i == j by {
        if i < j { lemma_pos_mono(f, i, j); }
        if j < i { lemma_pos_mono(f, j, i); }
    }
}

// ---- flat over concatenation ----
pub proof fn lemma_flat_add(a: Seq<BatchV>, b: Seq<BatchV>)
    ensures flat(a + b) == flat(a) + flat(b),
    decreases b.len(),
{
    if b.len() == 0 {
        assert(a + b =~= a);
        assert(flat(a) + flat(b) =~= flat(a));
    } else {
        lemma_flat_add(a, b.drop_last());
        assert((a + b).drop_last() =~= a + b.drop_last());
        assert((a + b).last() == b.last());
        assert((flat(a) + flat(b.drop_last())) + b.last().msgs =~= flat(a) + (flat(b.drop_last()) + b.last().msgs));
    }
}

// ---- the last offset of a stored batch; batches of a contiguous log have strictly increasing last offsets ----
pub open spec fn batch_last(f: Seq<BatchV>, i: int) -> int { f[i].base + f[i].delta }
pub proof fn lemma_batch_lasts_increase(f: Seq<BatchV>, first: int)
    requires
        forall|i: int| 0 <= i < f.len() ==> batch_wf(#[trigger] f[i]),
        contig(flat(f), first),
    ensures
        forall|i: int, j: int| 0 <= i < j < f.len() ==> #[trigger] batch_last(f, i) < #[trigger] batch_last(f, j),
        forall|i: int| 0 <= i < f.len() ==> #[trigger] batch_last(f, i) <= first + flat(f).len() - 1,
        f.len() > 0 ==> batch_last(f, f.len() - 1) == first + flat(f).len() - 1,
    decreases f.len(),
{
    if f.len() > 0 {
        let t = f.drop_last();
        let b = f.last();
        assert(flat(f) == flat(t) + b.msgs);
        assert(forall|i: int| 0 <= i < t.len() ==> t[i] == f[i]);
        assert forall|i: int| 0 <= i < flat(t).len() implies (#[trigger] flat(t)[i]).offset == first + i by {
            assert(flat(t)[i] == flat(f)[i]);
        }
        lemma_batch_lasts_increase(t, first);
        assert(batch_wf(f[f.len() - 1]));
        let n = b.msgs.len() as int;
        assert(b.msgs[n - 1] == flat(f)[flat(t).len() + n - 1]);
        assert(batch_last(f, f.len() - 1) == first + flat(f).len() - 1);
        assert forall|i: int, j: int| 0 <= i < j < f.len() implies #[trigger] batch_last(f, i) < #[trigger] batch_last(f, j) by {
            if j < t.len() {
                assert(batch_last(t, i) < batch_last(t, j));
            } else {
                assert(batch_last(t, i) <= first + flat(t).len() - 1);
            }
        }
        assert forall|i: int| 0 <= i < f.len() implies #[trigger] batch_last(f, i) <= first + flat(f).len() - 1 by {
            if i < t.len() { assert(batch_last(t, i) <= first + flat(t).len() - 1); }
        }
    }
}

// ---- the window lemma of the disk tier -------------------------------------------------------------------------------
// Reading the stored batches [a, m) of a contiguous log and keeping the messages with lo <= offset <= hi gives the same
// messages as filtering the WHOLE log, provided the batches before `a` end below lo and the batch m-1 ends at or above hi
// (or m is the end of the file): batches before the window lie entirely below the range, batches after it entirely above.
// Holds for every split of the messages into stored batches.
pub proof fn lemma_window_slice(f: Seq<BatchV>, first: int, a: int, m: int, lo: int, hi: int)
    requires
        forall|i: int| 0 <= i < f.len() ==> batch_wf(#[trigger] f[i]),
        contig(flat(f), first),
        0 <= a <= m <= f.len(),
        a == 0 || batch_last(f, a - 1) < lo,
        m == f.len() || (m >= 1 && batch_last(f, m - 1) >= hi),
    ensures
        seq_keep(flat(f.subrange(a, m)), off_in(lo, hi)) == seq_keep(flat(f), off_in(lo, hi)),
{
    let n = f.len() as int;
    let p = f.subrange(0, a); let w = f.subrange(a, m); let q = f.subrange(m, n);
    assert(f =~= (p + w) + q);
    lemma_flat_add(p + w, q);
    lemma_flat_add(p, w);
    let fp = flat(p); let fw = flat(w); let fq = flat(q);
    assert(flat(f) == (fp + fw) + fq);
    let g = off_in(lo, hi);
    lemma_keep_add(fp + fw, fq, g);
    lemma_keep_add(fp, fw, g);
    // the part before the window lies below lo
    assert forall|i: int| 0 <= i < fp.len() implies !g(#[trigger] fp[i]) by {
        assert(fp[i] == flat(f)[i]);
        assert(forall|k: int| 0 <= k < p.len() ==> p[k] == f[k]);
        assert forall|k: int| 0 <= k < fp.len() implies (#[trigger] fp[k]).offset == first + k by { assert(fp[k] == flat(f)[k]); }
        lemma_batch_lasts_increase(p, first);
        assert(batch_last(p, a - 1) == batch_last(f, a - 1));
    }
    lemma_keep_none(fp, g);
    // the part after the window lies above hi
    assert forall|i: int| 0 <= i < fq.len() implies !g(#[trigger] fq[i]) by {
        let pw = f.subrange(0, m);
        assert(pw =~= p + w);
        assert(fq[i] == flat(f)[(fp + fw).len() + i]);
        assert(forall|k: int| 0 <= k < pw.len() ==> pw[k] == f[k]);
        assert forall|k: int| 0 <= k < flat(pw).len() implies (#[trigger] flat(pw)[k]).offset == first + k by { assert(flat(pw)[k] == flat(f)[k]); }
        lemma_batch_lasts_increase(pw, first);
        assert(batch_last(pw, m - 1) == batch_last(f, m - 1));
    }
    lemma_keep_none(fq, g);
    assert((Seq::<RetainedMessage>::empty() + seq_keep(fw, g)) + Seq::<RetainedMessage>::empty() =~= seq_keep(fw, g));
}

// ---- index vocabulary ([C02.idx] of unit read_segment) ----------------------------------------------------------------
// index records of a segment carry the last relative offset of their batch: strictly increasing
pub open spec fn idx_strict(s: Seq<Index>) -> bool {
    forall|i: int, j: int| 0 <= i < j < s.len() ==> (#[trigger] s[i]).offset < (#[trigger] s[j]).offset
}
// k is the position of the first record whose offset is >= o
pub open spec fn is_first_ge(s: Seq<Index>, k: int, o: int) -> bool {
    &&& 0 <= k < s.len()
    &&& s[k].offset >= o
    &&& forall|j: int| 0 <= j < k ==> (#[trigger] s[j]).offset < o
}
// no record has an offset >= o
pub open spec fn none_ge(s: Seq<Index>, o: int) -> bool {
    forall|j: int| 0 <= j < s.len() ==> (#[trigger] s[j]).offset < o
}

// the window lemma for every end of the window at once: the loaded run starts at batch ks and ends with the first batch
// starting at or after the position of batch ke (or with the file) — the shape of [C02.range.reach]
pub proof fn lemma_window_all(f: Seq<BatchV>, first: int, ks: int, ke: int, lo: int, hi: int)
    requires
        forall|i: int| 0 <= i < f.len() ==> batch_wf(#[trigger] f[i]),
        contig(flat(f), first),
        0 <= ks < f.len(), 0 <= ke < f.len(),
        ks == 0 || batch_last(f, ks - 1) < lo,
        batch_last(f, ke) >= hi || ke == f.len() - 1,
    ensures
        forall|m: int| ks < m <= f.len() && (m == f.len() || pos(f, m - 1) >= pos(f, ke))
            ==> seq_keep(flat(#[trigger] f.subrange(ks, m)), off_in(lo, hi)) == seq_keep(flat(f), off_in(lo, hi)),
{
    assert forall|m: int| ks < m <= f.len() && (m == f.len() || pos(f, m - 1) >= pos(f, ke))
        implies seq_keep(flat(#[trigger] f.subrange(ks, m)), off_in(lo, hi)) == seq_keep(flat(f), off_in(lo, hi)) by {
        if m < f.len() {
            if m - 1 < ke { lemma_pos_mono(f, m - 1, ke); }
            lemma_batch_lasts_increase(f, first);
            if m - 1 > ke { assert(batch_last(f, ke) < batch_last(f, m - 1)); }
        }
        lemma_window_slice(f, first, ks, m, lo, hi);
    }
}
// a predicate that is pointwise `lo <= offset <= hi` keeps what off_in(lo, hi) keeps (two closure literals are different
// terms: extensionality has to be said)
pub proof fn lemma_keep_ext_all(lo: int, hi: int)
    ensures
        forall|s: Seq<RetainedMessage>, g: spec_fn(RetainedMessage) -> bool|
            (forall|m: RetainedMessage| #[trigger] g(m) == (lo <= m.offset <= hi)) ==> #[trigger] seq_keep(s, g) == seq_keep(s, off_in(lo, hi)),
{
    assert forall|s: Seq<RetainedMessage>, g: spec_fn(RetainedMessage) -> bool|
        (forall|m: RetainedMessage| #[trigger] g(m) == (lo <= m.offset <= hi)) implies #[trigger] seq_keep(s, g) == seq_keep(s, off_in(lo, hi)) by {
        lemma_keep_ext(s, g, off_in(lo, hi));
    }
}
