// ---- wire_perm prelude (C13): the Permissions codec (sdk/src/models/permissions.rs) - mathematical view, wire format, and the
// lemmas the contracts of units/codec_requests2/permissions.vspec use. Self-contained: requires vx/prelude/{bytes,common,mapiter}.rs,
// the extracted types GlobalPermissions, TopicPermissions, StreamPermissions, Permissions (typemap AHashMap -> HashMap) and the R8
// map-iteration rewrites of units/codec_requests2/unit.toml. No body of /repo is re-typed here.

// ---- Permissions (sdk/src/models/permissions.rs): mathematical view and wire format ------------------------------------------------------
// Requires vx/prelude/{common,mapiter}.rs (HashMap stand-in; iteration order = `key_order()`, an uninterpreted attribute of the map
// object) and the extracted types Permissions, GlobalPermissions, StreamPermissions, TopicPermissions.
// View: the nested hash maps as mathematical maps; an ABSENT map and an EMPTY map are the same view (no entries).
pub ghost struct StreamV {
    pub manage_stream: bool, pub read_stream: bool, pub manage_topics: bool, pub read_topics: bool, pub poll_messages: bool, pub send_messages: bool,
    pub topics: Map<u32, TopicPermissions>,
}
pub ghost struct PermV { pub global: GlobalPermissions, pub streams: Map<u32, StreamV> }
pub open spec fn topics_view(o: Option<HashMap<u32, TopicPermissions>>) -> Map<u32, TopicPermissions> { match o { None => Map::empty(), Some(m) => m@ } }
pub open spec fn stream_view(s: StreamPermissions) -> StreamV {
    StreamV { manage_stream: s.manage_stream, read_stream: s.read_stream, manage_topics: s.manage_topics, read_topics: s.read_topics,
              poll_messages: s.poll_messages, send_messages: s.send_messages, topics: topics_view(s.topics) }
}
pub open spec fn streams_view(o: Option<HashMap<u32, StreamPermissions>>) -> Map<u32, StreamV> {
    match o { None => Map::empty(), Some(m) => Map::new(m@.dom(), |k: u32| stream_view(m@[k])) }
}
pub open spec fn perm_view(p: Permissions) -> PermV { PermV { global: p.global, streams: streams_view(p.streams) } }
// equality of two Permissions values "as maps": equal global permissions, equal stream/topic maps with equal entries
pub open spec fn perm_eq(a: Permissions, b: Permissions) -> bool { perm_view(a) =~~= perm_view(b) }

// wire format. One byte per flag (1 = set).
//   Permissions:  10 global flags | has_streams:u8 [| stream entry (| 1 | stream entry)* | 0]
//   stream entry: stream_id:u32 | 6 flags | has_topics:u8 [| topic entry (| 1 | topic entry)* | 0]
//   topic entry:  topic_id:u32 | 4 flags
// i.e. every entry is followed by a continuation byte (1 = another entry follows); `has_* = 1` promises at least one entry, so a
// map without entries is encoded as has_* = 0. The entry order is not part of the format: `os` / `ot[k]` name the order used.
pub open spec fn flag(b: bool) -> u8 { if b { 1 } else { 0 } }
// (written as successive one-byte appends: `s.push(x)` is "s followed by the byte x")
pub open spec fn enc_global(g: GlobalPermissions) -> Seq<u8> {
    Seq::<u8>::empty().push(flag(g.manage_servers)).push(flag(g.read_servers)).push(flag(g.manage_users)).push(flag(g.read_users))
        .push(flag(g.manage_streams)).push(flag(g.read_streams)).push(flag(g.manage_topics)).push(flag(g.read_topics))
        .push(flag(g.poll_messages)).push(flag(g.send_messages))
}
pub open spec fn enc_topic_entry(k: u32, t: TopicPermissions, more: bool) -> Seq<u8> {
    le32(k).push(flag(t.manage_topic)).push(flag(t.read_topic)).push(flag(t.poll_messages)).push(flag(t.send_messages)).push(flag(more))
}
pub open spec fn enc_topics_from(m: Map<u32, TopicPermissions>, ord: Seq<u32>, i: int) -> Seq<u8>
    decreases ord.len() - i
{
    if i < 0 || i >= ord.len() { Seq::<u8>::empty() }
    else { enc_topic_entry(ord[i], m[ord[i]], i + 1 < ord.len()) + enc_topics_from(m, ord, i + 1) }
}
pub open spec fn enc_topics(m: Map<u32, TopicPermissions>, ord: Seq<u32>) -> Seq<u8> {
    if ord.len() == 0 { seq![0u8] } else { seq![1u8] + enc_topics_from(m, ord, 0) }
}
pub open spec fn enc_stream_head(k: u32, s: StreamV) -> Seq<u8> {
    le32(k).push(flag(s.manage_stream)).push(flag(s.read_stream)).push(flag(s.manage_topics)).push(flag(s.read_topics))
        .push(flag(s.poll_messages)).push(flag(s.send_messages))
}
pub open spec fn enc_stream_entry(k: u32, s: StreamV, ord_t: Seq<u32>, more: bool) -> Seq<u8> {
    (enc_stream_head(k, s) + enc_topics(s.topics, ord_t)).push(flag(more))
}
pub open spec fn enc_streams_from(m: Map<u32, StreamV>, os: Seq<u32>, ot: Map<u32, Seq<u32>>, i: int) -> Seq<u8>
    decreases os.len() - i
{
    if i < 0 || i >= os.len() { Seq::<u8>::empty() }
    else { enc_stream_entry(os[i], m[os[i]], ot[os[i]], i + 1 < os.len()) + enc_streams_from(m, os, ot, i + 1) }
}
pub open spec fn enc_streams(m: Map<u32, StreamV>, os: Seq<u32>, ot: Map<u32, Seq<u32>>) -> Seq<u8> {
    if os.len() == 0 { seq![0u8] } else { seq![1u8] + enc_streams_from(m, os, ot, 0) }
}
pub open spec fn enc_permv(v: PermV, os: Seq<u32>, ot: Map<u32, Seq<u32>>) -> Seq<u8> { enc_global(v.global) + enc_streams(v.streams, os, ot) }
// `os` lists every stream id exactly once, `ot[k]` every topic id of stream k exactly once
pub open spec fn orders_ok(v: PermV, os: Seq<u32>, ot: Map<u32, Seq<u32>>) -> bool {
    &&& keys_exactly(v.streams, os)
    &&& forall|k: u32| #[trigger] v.streams.contains_key(k) ==> ot.contains_key(k) && keys_exactly(v.streams[k].topics, ot[k])
}
// "bytes is an encoding of p" (for SOME entry order)
pub open spec fn enc_permissions_rel(p: Permissions, bytes: Seq<u8>) -> bool {
    exists|os: Seq<u32>, ot: Map<u32, Seq<u32>>| orders_ok(perm_view(p), os, ot) && bytes == enc_permv(perm_view(p), os, ot)
}
// the order the SDK encoder uses: the iteration order of the hash maps of this very value
// (an empty map is not iterated: it has no entries to order)
pub open spec fn topics_order(o: Option<HashMap<u32, TopicPermissions>>) -> Seq<u32> {
    match o { None => Seq::<u32>::empty(), Some(m) => if m@.len() == 0 { Seq::<u32>::empty() } else { m.key_order() } }
}
pub open spec fn perm_order_s(p: Permissions) -> Seq<u32> {
    match p.streams { None => Seq::<u32>::empty(), Some(m) => if m@.len() == 0 { Seq::<u32>::empty() } else { m.key_order() } }
}
pub open spec fn perm_order_t(p: Permissions) -> Map<u32, Seq<u32>> {
    match p.streams { None => Map::empty(), Some(m) => Map::new(m@.dom(), |k: u32| topics_order(m@[k].topics)) }
}
pub open spec fn enc_permissions(p: Permissions) -> Seq<u8> { enc_permv(perm_view(p), perm_order_s(p), perm_order_t(p)) }

// A-std: the iteration order of a hash map lists every key exactly once - the very fact the iteration stubs of vx/prelude/mapiter.rs
// (`iter_vec`, `values_vec`, ..) state in their `ensures`, here for a map that is only talked ABOUT (the orders of a Permissions value)
#[verifier::external_body]
pub proof fn axiom_key_order<K, V>(m: HashMap<K, V>)
    ensures keys_exactly(m@, m.key_order()),
{}
// the orders the SDK encoder uses are orders (every stream id / topic id exactly once)
pub proof fn lemma_perm_orders_ok(p: Permissions)
    ensures orders_ok(perm_view(p), perm_order_s(p), perm_order_t(p)),
{
    let v = perm_view(p);
    let os = perm_order_s(p);
    let ot = perm_order_t(p);
    match p.streams {
        None => {},
        Some(m) => {
            axiom_key_order(m);
            if m@.len() == 0 {
                m@.dom().lemma_len0_is_empty();
                assert(v.streams.dom() =~= Set::<u32>::empty());
            }
            assert(keys_exactly(v.streams, os));
            assert forall|k: u32| #[trigger] v.streams.contains_key(k) implies ot.contains_key(k) && keys_exactly(v.streams[k].topics, ot[k]) by {
                match m@[k].topics {
                    None => {},
                    Some(tm) => {
                        axiom_key_order(tm);
                        if tm@.len() == 0 { tm@.dom().lemma_len0_is_empty(); }
                    },
                }
            }
        },
    }
}

// ---- Permissions: proof artefacts (lemmas about the specification above; re-proved in every unit) --------------------------------------
// typed views of the local maps (a `HashMap::new()` local has no inferable type inside an invariant)
pub open spec fn tmap(m: &HashMap<u32, TopicPermissions>) -> Map<u32, TopicPermissions> { m@ }
pub open spec fn smap(m: &HashMap<u32, StreamPermissions>) -> Map<u32, StreamPermissions> { m@ }

// the entries 0..i in the order they are appended (encoder side); equal to the specification's suffix form at i = |ord|
pub open spec fn enc_topics_upto(m: Map<u32, TopicPermissions>, ord: Seq<u32>, i: int) -> Seq<u8>
    decreases i
{
    if i <= 0 { Seq::<u8>::empty() }
    else { enc_topics_upto(m, ord, i - 1) + enc_topic_entry(ord[i - 1], m[ord[i - 1]], i < ord.len()) }
}
pub proof fn lemma_topics_upto_from(m: Map<u32, TopicPermissions>, ord: Seq<u32>, i: int)
    requires 0 <= i <= ord.len(),
    ensures
        enc_topics_upto(m, ord, i) + enc_topics_from(m, ord, i) == enc_topics_from(m, ord, 0),
        i == ord.len() ==> enc_topics_upto(m, ord, i) == enc_topics_from(m, ord, 0),
    decreases i
{
    if i == ord.len() { assert(enc_topics_upto(m, ord, i) + enc_topics_from(m, ord, i) =~= enc_topics_upto(m, ord, i)); }
    if i == 0 {
        assert(enc_topics_upto(m, ord, 0) + enc_topics_from(m, ord, 0) =~= enc_topics_from(m, ord, 0));
    } else {
        lemma_topics_upto_from(m, ord, i - 1);
        let e = enc_topic_entry(ord[i - 1], m[ord[i - 1]], i < ord.len());
        assert(enc_topics_from(m, ord, i - 1) == e + enc_topics_from(m, ord, i));
        assert(enc_topics_upto(m, ord, i) + enc_topics_from(m, ord, i) =~= enc_topics_upto(m, ord, i - 1) + (e + enc_topics_from(m, ord, i)));
    }
}
pub open spec fn enc_streams_upto(m: Map<u32, StreamV>, os: Seq<u32>, ot: Map<u32, Seq<u32>>, i: int) -> Seq<u8>
    decreases i
{
    if i <= 0 { Seq::<u8>::empty() }
    else { enc_streams_upto(m, os, ot, i - 1) + enc_stream_entry(os[i - 1], m[os[i - 1]], ot[os[i - 1]], i < os.len()) }
}
pub proof fn lemma_streams_upto_from(m: Map<u32, StreamV>, os: Seq<u32>, ot: Map<u32, Seq<u32>>, i: int)
    requires 0 <= i <= os.len(),
    ensures
        enc_streams_upto(m, os, ot, i) + enc_streams_from(m, os, ot, i) == enc_streams_from(m, os, ot, 0),
        i == os.len() ==> enc_streams_upto(m, os, ot, i) == enc_streams_from(m, os, ot, 0),
    decreases i
{
    if i == os.len() { assert(enc_streams_upto(m, os, ot, i) + enc_streams_from(m, os, ot, i) =~= enc_streams_upto(m, os, ot, i)); }
    if i == 0 {
        assert(enc_streams_upto(m, os, ot, 0) + enc_streams_from(m, os, ot, 0) =~= enc_streams_from(m, os, ot, 0));
    } else {
        lemma_streams_upto_from(m, os, ot, i - 1);
        let e = enc_stream_entry(os[i - 1], m[os[i - 1]], ot[os[i - 1]], i < os.len());
        assert(enc_streams_from(m, os, ot, i - 1) == e + enc_streams_from(m, os, ot, i));
        assert(enc_streams_upto(m, os, ot, i) + enc_streams_from(m, os, ot, i) =~= enc_streams_upto(m, os, ot, i - 1) + (e + enc_streams_from(m, os, ot, i)));
    }
}
// a duplicate-free key sequence that covers a map has as many elements as the map
pub proof fn lemma_keys_exactly_len<K, V>(m: Map<K, V>, ks: Seq<K>)
    requires keys_exactly(m, ks),
    ensures ks.len() == m.len(),
{
    ks.unique_seq_to_set();
    assert(ks.to_set() =~= m.dom());
}

pub proof fn lemma_perm_rel_intro(p: Permissions, bytes: Seq<u8>)
    requires orders_ok(perm_view(p), perm_order_s(p), perm_order_t(p)), bytes == enc_permissions(p),
    ensures enc_permissions_rel(p, bytes),
{}

// what the encoder BUILDS (appends, in the order of the statements) is what the layout SAYS: pure sequence algebra. The loop
// invariants speak about the prefixes below as OPAQUE terms (hidden in the function body) and every loop step is one lemma here, so
// that the function body needs no reasoning about concatenations at all.
pub open spec fn sprefix(g0: Seq<u8>, m: Map<u32, StreamV>, os: Seq<u32>, ot: Map<u32, Seq<u32>>, i: int) -> Seq<u8> { g0 + enc_streams_upto(m, os, ot, i) }
pub open spec fn tprefix(pre: Seq<u8>, m: Map<u32, TopicPermissions>, ord: Seq<u32>, j: int) -> Seq<u8> { pre + enc_topics_upto(m, ord, j) }
pub proof fn lemma_global_built(g: GlobalPermissions)
    ensures
        Seq::<u8>::empty().push(flag(g.manage_servers)).push(flag(g.read_servers)).push(flag(g.manage_users)).push(flag(g.read_users))
            .push(flag(g.manage_streams)).push(flag(g.read_streams)).push(flag(g.manage_topics)).push(flag(g.read_topics))
            .push(flag(g.poll_messages)).push(flag(g.send_messages)) == enc_global(g),
{}
// generic sequence algebra (no codec terms): appending after a concatenation is appending to its right part
pub proof fn lemma_alg_push(x: Seq<u8>, y: Seq<u8>, a: u8)
    ensures (x + y).push(a) == x + y.push(a),
{ assert((x + y).push(a) =~= x + y.push(a)); }
pub proof fn lemma_alg_assoc(x: Seq<u8>, y: Seq<u8>, z: Seq<u8>)
    ensures (x + y) + z == x + (y + z),
{ assert((x + y) + z =~= x + (y + z)); }
pub proof fn lemma_alg_push4(x: Seq<u8>, y: Seq<u8>, a: u8, b: u8, c: u8, d: u8)
    ensures (x + y).push(a).push(b).push(c).push(d) == x + y.push(a).push(b).push(c).push(d),
{
    lemma_alg_push(x, y, a);
    lemma_alg_push(x, y.push(a), b);
    lemma_alg_push(x, y.push(a).push(b), c);
    lemma_alg_push(x, y.push(a).push(b).push(c), d);
}
pub proof fn lemma_alg_push6(x: Seq<u8>, y: Seq<u8>, a: u8, b: u8, c: u8, d: u8, e: u8, f: u8)
    ensures (x + y).push(a).push(b).push(c).push(d).push(e).push(f) == x + y.push(a).push(b).push(c).push(d).push(e).push(f),
{
    lemma_alg_push4(x, y, a, b, c, d);
    lemma_alg_push(x, y.push(a).push(b).push(c).push(d), e);
    lemma_alg_push(x, y.push(a).push(b).push(c).push(d).push(e), f);
}
// a flag byte after a concatenation, followed by more bytes
pub proof fn lemma_alg_flag_then(x: Seq<u8>, h: Seq<u8>, t: Seq<u8>)
    ensures (x + h).push(1u8) + t == x + (h + (seq![1u8] + t)), (x + h).push(0u8) == x + (h + seq![0u8]),
{
    assert((x + h).push(1u8) + t =~= x + (h + (seq![1u8] + t)));
    assert((x + h).push(0u8) =~= x + (h + seq![0u8]));
}
pub proof fn lemma_prefix_zero(g0: Seq<u8>, m: Map<u32, StreamV>, os: Seq<u32>, ot: Map<u32, Seq<u32>>, pre: Seq<u8>, tm: Map<u32, TopicPermissions>, ord: Seq<u32>)
    ensures sprefix(g0, m, os, ot, 0) == g0, tprefix(pre, tm, ord, 0) == pre,
{
    assert(enc_streams_upto(m, os, ot, 0) == Seq::<u8>::empty());
    assert(enc_topics_upto(tm, ord, 0) == Seq::<u8>::empty());
    assert(g0 + Seq::<u8>::empty() =~= g0);
    assert(pre + Seq::<u8>::empty() =~= pre);
}
pub proof fn lemma_tprefix_step(pre: Seq<u8>, m: Map<u32, TopicPermissions>, ord: Seq<u32>, j: int)
    requires 0 <= j < ord.len(),
    ensures
        ({
            let t = m[ord[j]];
            (tprefix(pre, m, ord, j) + le32(ord[j])).push(flag(t.manage_topic)).push(flag(t.read_topic)).push(flag(t.poll_messages)).push(flag(t.send_messages))
                .push(flag(j + 1 < ord.len())) == tprefix(pre, m, ord, j + 1)
        }),
{
    let t = m[ord[j]];
    let up = enc_topics_upto(m, ord, j);
    let l = le32(ord[j]);
    let (a, b, c, d, e) = (flag(t.manage_topic), flag(t.read_topic), flag(t.poll_messages), flag(t.send_messages), flag(j + 1 < ord.len()));
    let x = pre + up;
    assert(tprefix(pre, m, ord, j) == x);
    assert(enc_topic_entry(ord[j], t, j + 1 < ord.len()) == l.push(a).push(b).push(c).push(d).push(e));
    assert(enc_topics_upto(m, ord, j + 1) == up + l.push(a).push(b).push(c).push(d).push(e));
    lemma_alg_push4(x, l, a, b, c, d);
    lemma_alg_push(x, l.push(a).push(b).push(c).push(d), e);
    lemma_alg_assoc(pre, up, l.push(a).push(b).push(c).push(d).push(e));
}
pub proof fn lemma_sprefix_step_topics(g0: Seq<u8>, m: Map<u32, StreamV>, os: Seq<u32>, ot: Map<u32, Seq<u32>>, i: int)
    requires 0 <= i < os.len(), ot[os[i]].len() > 0,
    ensures
        ({
            let sv = m[os[i]];
            let ord = ot[os[i]];
            let pre_t = (sprefix(g0, m, os, ot, i) + le32(os[i])).push(flag(sv.manage_stream)).push(flag(sv.read_stream)).push(flag(sv.manage_topics))
                .push(flag(sv.read_topics)).push(flag(sv.poll_messages)).push(flag(sv.send_messages)).push(1u8);
            tprefix(pre_t, sv.topics, ord, ord.len() as int).push(flag(i + 1 < os.len())) == sprefix(g0, m, os, ot, i + 1)
        }),
{
    let sv = m[os[i]];
    let ord = ot[os[i]];
    let up = enc_streams_upto(m, os, ot, i);
    let l = le32(os[i]);
    let (a, b, c, d, e, f) = (flag(sv.manage_stream), flag(sv.read_stream), flag(sv.manage_topics), flag(sv.read_topics), flag(sv.poll_messages), flag(sv.send_messages));
    let fl = flag(i + 1 < os.len());
    let x = g0 + up;
    let h = l.push(a).push(b).push(c).push(d).push(e).push(f);
    let tu = enc_topics_upto(sv.topics, ord, ord.len() as int);
    let tf = enc_topics_from(sv.topics, ord, 0);
    assert(sprefix(g0, m, os, ot, i) == x);
    assert(enc_stream_head(os[i], sv) == h);
    lemma_topics_upto_from(sv.topics, ord, ord.len() as int);
    assert(tu == tf);
    assert(enc_topics(sv.topics, ord) == seq![1u8] + tf);
    assert(enc_stream_entry(os[i], sv, ord, i + 1 < os.len()) == (h + (seq![1u8] + tf)).push(fl));
    assert(enc_streams_upto(m, os, ot, i + 1) == up + (h + (seq![1u8] + tf)).push(fl));
    lemma_alg_push6(x, l, a, b, c, d, e, f);          // (x + l).push(a..f) == x + h
    lemma_alg_flag_then(x, h, tf);                    // (x + h).push(1) + tf == x + (h + ([1] + tf))
    lemma_alg_push(x, h + (seq![1u8] + tf), fl);      // (x + y).push(fl) == x + y.push(fl)
    lemma_alg_assoc(g0, up, (h + (seq![1u8] + tf)).push(fl));
}
pub proof fn lemma_sprefix_step_none(g0: Seq<u8>, m: Map<u32, StreamV>, os: Seq<u32>, ot: Map<u32, Seq<u32>>, i: int)
    requires 0 <= i < os.len(), ot[os[i]].len() == 0,
    ensures
        ({
            let sv = m[os[i]];
            (sprefix(g0, m, os, ot, i) + le32(os[i])).push(flag(sv.manage_stream)).push(flag(sv.read_stream)).push(flag(sv.manage_topics))
                .push(flag(sv.read_topics)).push(flag(sv.poll_messages)).push(flag(sv.send_messages)).push(0u8).push(flag(i + 1 < os.len()))
                == sprefix(g0, m, os, ot, i + 1)
        }),
{
    let sv = m[os[i]];
    let ord = ot[os[i]];
    let up = enc_streams_upto(m, os, ot, i);
    let l = le32(os[i]);
    let (a, b, c, d, e, f) = (flag(sv.manage_stream), flag(sv.read_stream), flag(sv.manage_topics), flag(sv.read_topics), flag(sv.poll_messages), flag(sv.send_messages));
    let fl = flag(i + 1 < os.len());
    let x = g0 + up;
    let h = l.push(a).push(b).push(c).push(d).push(e).push(f);
    assert(sprefix(g0, m, os, ot, i) == x);
    assert(enc_stream_head(os[i], sv) == h);
    assert(enc_topics(sv.topics, ord) == seq![0u8]);
    assert(enc_stream_entry(os[i], sv, ord, i + 1 < os.len()) == (h + seq![0u8]).push(fl));
    assert(enc_streams_upto(m, os, ot, i + 1) == up + (h + seq![0u8]).push(fl));
    lemma_alg_push6(x, l, a, b, c, d, e, f);
    lemma_alg_flag_then(x, h, Seq::<u8>::empty());
    lemma_alg_push(x, h + seq![0u8], fl);
    lemma_alg_assoc(g0, up, (h + seq![0u8]).push(fl));
}
// the finished buffer is the encoding
pub proof fn lemma_sprefix_final(g: Seq<u8>, m: Map<u32, StreamV>, os: Seq<u32>, ot: Map<u32, Seq<u32>>)
    ensures
        os.len() > 0 ==> sprefix(g.push(1u8), m, os, ot, os.len() as int) == g + enc_streams(m, os, ot),
        os.len() == 0 ==> g.push(0u8) == g + enc_streams(m, os, ot),
{
    if os.len() > 0 {
        lemma_streams_upto_from(m, os, ot, os.len() as int);
        assert(sprefix(g.push(1u8), m, os, ot, os.len() as int) =~= g + (seq![1u8] + enc_streams_from(m, os, ot, 0)));
    } else {
        assert(g.push(0u8) =~= g + seq![0u8]);
    }
}
pub proof fn lemma_perm_built(g: Seq<u8>, f: Seq<u8>)
    ensures g.push(1u8) + f == g + (seq![1u8] + f), g.push(0u8) == g + seq![0u8], g + Seq::<u8>::empty() == g,
{
    assert(g.push(1u8) + f =~= g + (seq![1u8] + f));
    assert(g.push(0u8) =~= g + seq![0u8]);
    assert(g + Seq::<u8>::empty() =~= g);
}

// ---- Permissions, decoder side: where the fields of the next entry sit in a buffer that starts with a suffix of the encoding ------------
pub proof fn lemma_global_layout(g: GlobalPermissions)
    ensures
        ({
            let e = enc_global(g);
            &&& e.len() == 10
            &&& e[0] == flag(g.manage_servers) && e[1] == flag(g.read_servers) && e[2] == flag(g.manage_users) && e[3] == flag(g.read_users)
            &&& e[4] == flag(g.manage_streams) && e[5] == flag(g.read_streams) && e[6] == flag(g.manage_topics) && e[7] == flag(g.read_topics)
            &&& e[8] == flag(g.poll_messages) && e[9] == flag(g.send_messages)
        }),
{}
pub proof fn lemma_global_injective(g1: GlobalPermissions, g0: GlobalPermissions)
    requires enc_global(g1) == enc_global(g0),
    ensures g1 == g0,
{
    hide(enc_global);
    lemma_global_layout(g1);
    lemma_global_layout(g0);
    let e = enc_global(g1);
    assert(g1.manage_servers == g0.manage_servers) by { assert(e[0] == e[0]); }
    assert(g1.read_servers == g0.read_servers && g1.manage_users == g0.manage_users && g1.read_users == g0.read_users);
    assert(g1.manage_streams == g0.manage_streams && g1.read_streams == g0.read_streams && g1.manage_topics == g0.manage_topics);
    assert(g1.read_topics == g0.read_topics && g1.poll_messages == g0.poll_messages && g1.send_messages == g0.send_messages);
}
pub proof fn lemma_permv_layout(v: PermV, os: Seq<u32>, ot: Map<u32, Seq<u32>>)
    ensures
        ({
            let b = enc_permv(v, os, ot);
            let g = v.global;
            &&& b.len() >= 11
            &&& b.subrange(0, 10) == enc_global(g)
            &&& b[0] == flag(g.manage_servers) && b[1] == flag(g.read_servers) && b[2] == flag(g.manage_users) && b[3] == flag(g.read_users)
            &&& b[4] == flag(g.manage_streams) && b[5] == flag(g.read_streams) && b[6] == flag(g.manage_topics) && b[7] == flag(g.read_topics)
            &&& b[8] == flag(g.poll_messages) && b[9] == flag(g.send_messages)
            &&& (os.len() == 0 ==> b[10] == 0 && b.len() == 11)
            &&& (os.len() > 0 ==> b[10] == 1 && b.subrange(11, b.len() as int) == enc_streams_from(v.streams, os, ot, 0))
        }),
{
    hide(enc_global);
    let e = enc_global(v.global);
    let s = enc_streams(v.streams, os, ot);
    let b = enc_permv(v, os, ot);
    lemma_global_layout(v.global);
    lemma_cat_index(e, s);
    assert(b == e + s);
    assert(b[0] == e[0] && b[1] == e[1] && b[2] == e[2] && b[3] == e[3] && b[4] == e[4]);
    assert(b[5] == e[5] && b[6] == e[6] && b[7] == e[7] && b[8] == e[8] && b[9] == e[9]);
    assert(b[10] == s[0]);
    if os.len() > 0 { assert(b.subrange(11, b.len() as int) =~= enc_streams_from(v.streams, os, ot, 0)); }
}
// s = (stream entries from i) + rest
pub proof fn lemma_streams_from_layout(m: Map<u32, StreamV>, os: Seq<u32>, ot: Map<u32, Seq<u32>>, i: int, rest: Seq<u8>)
    requires 0 <= i < os.len(),
    ensures
        ({
            let s = enc_streams_from(m, os, ot, i) + rest;
            let sv = m[os[i]];
            &&& s.len() >= 10
            &&& s.subrange(0, 4) == le32(os[i])
            &&& s[4] == flag(sv.manage_stream) && s[5] == flag(sv.read_stream) && s[6] == flag(sv.manage_topics) && s[7] == flag(sv.read_topics)
            &&& s[8] == flag(sv.poll_messages) && s[9] == flag(sv.send_messages)
            &&& s.subrange(10, s.len() as int) == enc_topics(sv.topics, ot[os[i]]) + (seq![flag(i + 1 < os.len())] + (enc_streams_from(m, os, ot, i + 1) + rest))
            &&& (i + 1 == os.len() ==> enc_streams_from(m, os, ot, i + 1) + rest == rest)
        }),
{
    lemma_le_facts();
    if i + 1 == os.len() { assert(enc_streams_from(m, os, ot, i + 1) + rest =~= rest); }
    let s = enc_streams_from(m, os, ot, i) + rest;
    let sv = m[os[i]];
    assert(s.subrange(0, 4) =~= le32(os[i]));
    assert(s.subrange(10, s.len() as int) =~= enc_topics(sv.topics, ot[os[i]]) + (seq![flag(i + 1 < os.len())] + (enc_streams_from(m, os, ot, i + 1) + rest)));
}
// t = (topics part of a stream entry) + rest
pub proof fn lemma_topics_layout(m: Map<u32, TopicPermissions>, ord: Seq<u32>, rest: Seq<u8>)
    ensures
        ({
            let t = enc_topics(m, ord) + rest;
            &&& t.len() >= 1
            &&& (ord.len() == 0 ==> t[0] == 0 && t.subrange(1, t.len() as int) == rest)
            &&& (ord.len() > 0 ==> t[0] == 1 && t.subrange(1, t.len() as int) == enc_topics_from(m, ord, 0) + rest)
        }),
{
    let t = enc_topics(m, ord) + rest;
    if ord.len() == 0 { assert(t.subrange(1, t.len() as int) =~= rest); }
    else { assert(t.subrange(1, t.len() as int) =~= enc_topics_from(m, ord, 0) + rest); }
}
// s = (topic entries from j) + rest
pub proof fn lemma_topics_from_layout(m: Map<u32, TopicPermissions>, ord: Seq<u32>, j: int, rest: Seq<u8>)
    requires 0 <= j < ord.len(),
    ensures
        ({
            let s = enc_topics_from(m, ord, j) + rest;
            let t = m[ord[j]];
            &&& s.len() >= 9
            &&& s.subrange(0, 4) == le32(ord[j])
            &&& s[4] == flag(t.manage_topic) && s[5] == flag(t.read_topic) && s[6] == flag(t.poll_messages) && s[7] == flag(t.send_messages)
            &&& s[8] == flag(j + 1 < ord.len())
            &&& s.subrange(9, s.len() as int) == enc_topics_from(m, ord, j + 1) + rest
            &&& (j + 1 == ord.len() ==> enc_topics_from(m, ord, j + 1) + rest == rest)
        }),
{
    lemma_le_facts();
    if j + 1 == ord.len() { assert(enc_topics_from(m, ord, j + 1) + rest =~= rest); }
    let s = enc_topics_from(m, ord, j) + rest;
    assert(s.subrange(0, 4) =~= le32(ord[j]));
    assert(s.subrange(9, s.len() as int) =~= enc_topics_from(m, ord, j + 1) + rest);
}

// ---- Permissions: the encoding determines the value (whatever entry orders were used) ---------------------------------------------------
pub proof fn lemma_topics_from_inj(m1: Map<u32, TopicPermissions>, o1: Seq<u32>, m0: Map<u32, TopicPermissions>, o0: Seq<u32>, j: int, r1: Seq<u8>, r0: Seq<u8>)
    requires 0 <= j < o1.len(), j < o0.len(), enc_topics_from(m1, o1, j) + r1 == enc_topics_from(m0, o0, j) + r0,
    ensures o1.len() == o0.len(), r1 == r0, forall|k: int| j <= k < o1.len() ==> o1[k] == o0[k] && m1[#[trigger] o1[k]] == m0[o0[k]],
    decreases o1.len() - j
{
    lemma_le_facts();
    lemma_topics_from_layout(m1, o1, j, r1);
    lemma_topics_from_layout(m0, o0, j, r0);
    assert(un_le32(le32(o1[j])) == un_le32(le32(o0[j])));
    let a = m1[o1[j]];
    let b = m0[o0[j]];
    assert(a.manage_topic == b.manage_topic && a.read_topic == b.read_topic && a.poll_messages == b.poll_messages && a.send_messages == b.send_messages);
    assert(a == b);
    if j + 1 < o1.len() {
        assert(j + 1 < o0.len());
        lemma_topics_from_inj(m1, o1, m0, o0, j + 1, r1, r0);
    } else {
        assert(j + 1 == o0.len());
    }
}
pub open spec fn topics_same(m1: Map<u32, TopicPermissions>, o1: Seq<u32>, m0: Map<u32, TopicPermissions>, o0: Seq<u32>) -> bool {
    o1.len() == o0.len() && forall|k: int| 0 <= k < o1.len() ==> o1[k] == o0[k] && m1[#[trigger] o1[k]] == m0[o0[k]]
}
pub proof fn lemma_topics_inj(m1: Map<u32, TopicPermissions>, o1: Seq<u32>, m0: Map<u32, TopicPermissions>, o0: Seq<u32>, r1: Seq<u8>, r0: Seq<u8>)
    requires enc_topics(m1, o1) + r1 == enc_topics(m0, o0) + r0,
    ensures topics_same(m1, o1, m0, o0), r1 == r0,
{
    lemma_topics_layout(m1, o1, r1);
    lemma_topics_layout(m0, o0, r0);
    if o1.len() > 0 {
        lemma_topics_from_inj(m1, o1, m0, o0, 0, r1, r0);
    }
}
pub open spec fn stream_same(s1: StreamV, o1: Seq<u32>, s0: StreamV, o0: Seq<u32>) -> bool {
    &&& s1.manage_stream == s0.manage_stream && s1.read_stream == s0.read_stream && s1.manage_topics == s0.manage_topics
    &&& s1.read_topics == s0.read_topics && s1.poll_messages == s0.poll_messages && s1.send_messages == s0.send_messages
    &&& topics_same(s1.topics, o1, s0.topics, o0)
}
pub proof fn lemma_streams_from_inj(m1: Map<u32, StreamV>, os1: Seq<u32>, ot1: Map<u32, Seq<u32>>, m0: Map<u32, StreamV>, os0: Seq<u32>, ot0: Map<u32, Seq<u32>>,
                                    i: int, r1: Seq<u8>, r0: Seq<u8>)
    requires 0 <= i < os1.len(), i < os0.len(), enc_streams_from(m1, os1, ot1, i) + r1 == enc_streams_from(m0, os0, ot0, i) + r0,
    ensures
        os1.len() == os0.len(), r1 == r0,
        forall|k: int| i <= k < os1.len() ==> os1[k] == os0[k] && stream_same(m1[#[trigger] os1[k]], ot1[os1[k]], m0[os0[k]], ot0[os0[k]]),
    decreases os1.len() - i
{
    lemma_le_facts();
    lemma_streams_from_layout(m1, os1, ot1, i, r1);
    lemma_streams_from_layout(m0, os0, ot0, i, r0);
    assert(un_le32(le32(os1[i])) == un_le32(le32(os0[i])));
    let s1 = m1[os1[i]];
    let s0 = m0[os0[i]];
    let x1 = seq![flag(i + 1 < os1.len())] + (enc_streams_from(m1, os1, ot1, i + 1) + r1);
    let x0 = seq![flag(i + 1 < os0.len())] + (enc_streams_from(m0, os0, ot0, i + 1) + r0);
    lemma_topics_inj(s1.topics, ot1[os1[i]], s0.topics, ot0[os0[i]], x1, x0);
    assert(x1[0] == x0[0]);
    assert(x1.subrange(1, x1.len() as int) =~= enc_streams_from(m1, os1, ot1, i + 1) + r1);
    assert(x0.subrange(1, x0.len() as int) =~= enc_streams_from(m0, os0, ot0, i + 1) + r0);
    assert(stream_same(s1, ot1[os1[i]], s0, ot0[os0[i]]));
    if i + 1 < os1.len() {
        assert(i + 1 < os0.len());
        lemma_streams_from_inj(m1, os1, ot1, m0, os0, ot0, i + 1, r1, r0);
    } else {
        assert(i + 1 == os0.len());
    }
}
// two stream views that were encoded alike are equal (their topic orders list exactly the keys of the topic maps)
pub proof fn lemma_stream_same_eq(s1: StreamV, o1: Seq<u32>, s0: StreamV, o0: Seq<u32>)
    requires stream_same(s1, o1, s0, o0), keys_exactly(s1.topics, o1), keys_exactly(s0.topics, o0),
    ensures s1 == s0,
{
    assert forall|k: u32| s1.topics.contains_key(k) implies s0.topics.contains_key(k) && s0.topics[k] == s1.topics[k] by {
        let j = choose|j: int| 0 <= j < o1.len() && o1[j] == k;
        assert(s0.topics.contains_key(o0[j]) && s1.topics[o1[j]] == s0.topics[o0[j]]);
    }
    assert forall|k: u32| s0.topics.contains_key(k) implies s1.topics.contains_key(k) by {
        let j = choose|j: int| 0 <= j < o0.len() && o0[j] == k;
        assert(s1.topics.contains_key(o1[j]));
    }
    assert(s1.topics =~= s0.topics);
}
// (labelled wrapper: lemmas.rs c13_inj_permissions)
pub proof fn lemma_permv_injective(v1: PermV, os1: Seq<u32>, ot1: Map<u32, Seq<u32>>, v0: PermV, os0: Seq<u32>, ot0: Map<u32, Seq<u32>>)
    requires orders_ok(v1, os1, ot1), orders_ok(v0, os0, ot0), enc_permv(v1, os1, ot1) == enc_permv(v0, os0, ot0),
    ensures v1 =~~= v0,
{
    hide(enc_global);
    lemma_permv_layout(v1, os1, ot1);
    lemma_permv_layout(v0, os0, ot0);
    lemma_global_injective(v1.global, v0.global);
    if os1.len() == 0 {
        assert(os0.len() == 0);
        assert forall|k: u32| !v1.streams.contains_key(k) && !v0.streams.contains_key(k) by {
            if v1.streams.contains_key(k) { let j = choose|j: int| 0 <= j < os1.len() && os1[j] == k; }
            if v0.streams.contains_key(k) { let j = choose|j: int| 0 <= j < os0.len() && os0[j] == k; }
        }
        assert(v1.streams =~= v0.streams);
    } else {
        assert(os0.len() > 0);
        lemma_perm_built(enc_streams_from(v1.streams, os1, ot1, 0), Seq::<u8>::empty());
        lemma_perm_built(enc_streams_from(v0.streams, os0, ot0, 0), Seq::<u8>::empty());
        lemma_streams_from_inj(v1.streams, os1, ot1, v0.streams, os0, ot0, 0, Seq::<u8>::empty(), Seq::<u8>::empty());
        assert forall|k: u32| v1.streams.contains_key(k) implies v0.streams.contains_key(k) && v0.streams[k] == v1.streams[k] by {
            let j = choose|j: int| 0 <= j < os1.len() && os1[j] == k;
            assert(v0.streams.contains_key(os0[j]));
            assert(stream_same(v1.streams[os1[j]], ot1[os1[j]], v0.streams[os0[j]], ot0[os0[j]]));
            lemma_stream_same_eq(v1.streams[k], ot1[k], v0.streams[k], ot0[k]);
        }
        assert forall|k: u32| v0.streams.contains_key(k) implies v1.streams.contains_key(k) by {
            let j = choose|j: int| 0 <= j < os0.len() && os0[j] == k;
            assert(v1.streams.contains_key(os1[j]));
        }
        assert(v1.streams =~= v0.streams);
    }
}
