// ---- wire_list prelude: list framing of the binary protocol (C13 codec units) -------------------------------------------------------
// `Wire` = anything with a wire layout `enc`; `enc_seq` = the framing of a list: the entries back to back, no count, no separator.
// Facts about this SPECIFICATION only (no executable code is mentioned): a decoder that walks a buffer front to back, entry by
// entry, is described by `list_progress`; the lemmas give the position of entry k and what is known when the cursor reaches the end.
// Requires vx/prelude/bytes.rs. Shared by codec_responses and codec_headers: extend additively.
// anything with a wire layout; `enc_seq` is the framing of a list: the entries back to back, no count, no separator
pub trait Wire: Sized {
    spec fn enc(self) -> Seq<u8>;
}
pub open spec fn enc_seq<V: Wire>(s: Seq<V>) -> Seq<u8>
    decreases s.len(),
{
    if s.len() == 0 { Seq::<u8>::empty() } else { enc_seq(s.drop_last()) + s.last().enc() }
}
// `e` sits in `buf` at position `pos`
pub open spec fn at_pos(buf: Seq<u8>, pos: int, e: Seq<u8>) -> bool {
    0 <= pos && pos + e.len() <= buf.len() && buf.subrange(pos, pos + e.len()) == e
}

// ---- list framing: facts about `enc_seq` (specification only) ------------------------------------------------------------------------
pub proof fn lemma_enc_seq_push<V: Wire>(s: Seq<V>, x: V)
    ensures enc_seq(s.push(x)) == enc_seq(s) + x.enc(),
{
    assert(s.push(x).drop_last() =~= s);
}
pub proof fn lemma_enc_seq_empty<V: Wire>()
    ensures enc_seq(Seq::<V>::empty()) == Seq::<u8>::empty(),
{}
// the encoding of the first k entries is a prefix of the encoding of the list, and entry k follows it
pub proof fn lemma_enc_seq_take<V: Wire>(ws: Seq<V>, k: int)
    requires 0 <= k <= ws.len(),
    ensures
        enc_seq(ws.take(k)).len() <= enc_seq(ws).len(),
        enc_seq(ws).subrange(0, enc_seq(ws.take(k)).len() as int) == enc_seq(ws.take(k)),
        k < ws.len() ==> enc_seq(ws.take(k + 1)) == enc_seq(ws.take(k)) + ws[k].enc(),
    decreases ws.len() - k,
{
    if k == ws.len() {
        assert(ws.take(k) =~= ws);
        assert(enc_seq(ws).subrange(0, enc_seq(ws).len() as int) =~= enc_seq(ws));
    } else {
        lemma_enc_seq_take(ws, k + 1);
        assert(ws.take(k + 1).drop_last() =~= ws.take(k));
        assert(ws.take(k + 1).last() == ws[k]);
        let a = enc_seq(ws.take(k));
        let b = enc_seq(ws.take(k + 1));
        assert(b == a + ws[k].enc());
        assert(enc_seq(ws).subrange(0, a.len() as int) =~= b.subrange(0, a.len() as int));
        assert(b.subrange(0, a.len() as int) =~= a);
    }
}
// decoding a list front to back: after k entries the cursor stands at the end of the first k encodings and `got` are their views
pub open spec fn list_progress<V: Wire>(ws: Seq<V>, k: int, pos: int, got: Seq<V>) -> bool {
    0 <= k <= ws.len() && pos == enc_seq(ws.take(k)).len() && got == ws.take(k)
}
pub open spec fn all_nonempty<V: Wire>(ws: Seq<V>) -> bool { forall|i: int| 0 <= i < ws.len() ==> (#[trigger] ws[i]).enc().len() > 0 }
pub proof fn lemma_list_start<V: Wire>(ws: Seq<V>)
    ensures list_progress(ws, 0, 0, Seq::<V>::empty()),
{
    assert(ws.take(0) =~= Seq::<V>::empty());
}
pub proof fn lemma_list_step<V: Wire>(buf: Seq<u8>, ws: Seq<V>, k: int, pos: int, got: Seq<V>)
    requires buf == enc_seq(ws), list_progress(ws, k, pos, got), pos < buf.len(),
    ensures
        k < ws.len(),
        at_pos(buf, pos, ws[k].enc()),
        list_progress(ws, k + 1, pos + ws[k].enc().len(), got.push(ws[k])),
{
    lemma_enc_seq_take(ws, k);
    if k == ws.len() { assert(ws.take(k) =~= ws); }
    lemma_enc_seq_take(ws, k + 1);
    let a = enc_seq(ws.take(k));
    let b = enc_seq(ws.take(k + 1));
    assert(buf.subrange(pos, pos + ws[k].enc().len()) =~= b.subrange(pos, b.len() as int));
    assert(b.subrange(pos, b.len() as int) =~= ws[k].enc());
    assert(got.push(ws[k]) =~= ws.take(k + 1));
}
pub proof fn lemma_list_done<V: Wire>(buf: Seq<u8>, ws: Seq<V>, k: int, pos: int, got: Seq<V>)
    requires buf == enc_seq(ws), list_progress(ws, k, pos, got), pos >= buf.len(), all_nonempty(ws),
    ensures k == ws.len(), got == ws,
{
    lemma_enc_seq_take(ws, k);
    if k < ws.len() {
        lemma_enc_seq_take(ws, k + 1);
        assert(ws[k].enc().len() > 0);
    }
    assert(ws.take(k) =~= ws);
}
pub proof fn lemma_list_empty<V: Wire>(ws: Seq<V>)
    requires enc_seq(ws).len() == 0, all_nonempty(ws),
    ensures ws.len() == 0,
{
    if ws.len() > 0 {
        lemma_enc_seq_take(ws, 0);
        lemma_enc_seq_take(ws, 1);
        assert(ws.take(0) =~= Seq::<V>::empty());
        assert(ws[0].enc().len() > 0);
    }
}
// ---- list framing after a head: the list starts at `base` and runs to the end of the buffer -------------------------------------
pub proof fn lemma_at_pos_shift(buf: Seq<u8>, base: int, pos: int, e: Seq<u8>)
    requires 0 <= base <= buf.len(), at_pos(buf.subrange(base, buf.len() as int), pos, e),
    ensures at_pos(buf, base + pos, e),
{
    assert(buf.subrange(base + pos, base + pos + e.len()) =~= buf.subrange(base, buf.len() as int).subrange(pos, pos + e.len()));
}
pub proof fn lemma_list_step_at<V: Wire>(buf: Seq<u8>, base: int, ws: Seq<V>, k: int, pos: int, got: Seq<V>)
    requires 0 <= base <= buf.len(), buf.subrange(base, buf.len() as int) == enc_seq(ws), list_progress(ws, k, pos - base, got), pos < buf.len(),
    ensures
        k < ws.len(),
        at_pos(buf, pos, ws[k].enc()),
        list_progress(ws, k + 1, pos + ws[k].enc().len() - base, got.push(ws[k])),
{
    let tail = buf.subrange(base, buf.len() as int);
    lemma_list_step(tail, ws, k, pos - base, got);
    lemma_at_pos_shift(buf, base, pos - base, ws[k].enc());
}
pub proof fn lemma_list_done_at<V: Wire>(buf: Seq<u8>, base: int, ws: Seq<V>, k: int, pos: int, got: Seq<V>)
    requires 0 <= base <= buf.len(), buf.subrange(base, buf.len() as int) == enc_seq(ws), list_progress(ws, k, pos - base, got), pos >= buf.len(), all_nonempty(ws),
    ensures k == ws.len(), got == ws,
{
    lemma_list_done(buf.subrange(base, buf.len() as int), ws, k, pos - base, got);
}
// a head followed by a tail
pub proof fn lemma_head_tail(a: Seq<u8>, b: Seq<u8>)
    ensures at_pos(a + b, 0, a), (a + b).subrange(a.len() as int, (a + b).len() as int) == b, (a + b).len() == a.len() + b.len(),
{
    assert((a + b).subrange(0, a.len() as int) =~= a);
    assert((a + b).subrange(a.len() as int, (a + b).len() as int) =~= b);
}

// the same step when the index (not the cursor) is known to be inside the list
pub proof fn lemma_list_entry_at<V: Wire>(buf: Seq<u8>, base: int, ws: Seq<V>, k: int, pos: int, got: Seq<V>)
    requires 0 <= base <= buf.len(), buf.subrange(base, buf.len() as int) == enc_seq(ws), list_progress(ws, k, pos - base, got), k < ws.len(),
    ensures
        at_pos(buf, pos, ws[k].enc()),
        list_progress(ws, k + 1, pos + ws[k].enc().len() - base, got.push(ws[k])),
{
    let tail = buf.subrange(base, buf.len() as int);
    lemma_enc_seq_take(ws, k);
    lemma_enc_seq_take(ws, k + 1);
    let b = enc_seq(ws.take(k + 1));
    let p = pos - base;
    assert(tail.subrange(p, p + ws[k].enc().len()) =~= b.subrange(p, b.len() as int));
    assert(b.subrange(p, b.len() as int) =~= ws[k].enc());
    assert(got.push(ws[k]) =~= ws.take(k + 1));
    lemma_at_pos_shift(buf, base, p, ws[k].enc());
}

