// ---- wire_headers prelude: the user-headers map `HashMap<HeaderKey, HeaderValue>` on the wire (C13) ------------------------------------
// (sdk/src/models/header.rs; used inside SendMessages requests and poll responses)
//   entry:  key_length:u32 | key[key_length] | kind:u8 | value_length:u32 | value[value_length]        entries back to back, in the
//   encoder's map-iteration order; an empty map is the empty byte string.
// Requires vx/prelude/{common,mapiter,bytes,text,wire_list}.rs, the extracted types HeaderKind and HeaderValue and an `IggyError` enum
// with the variants the extracted text builds. Shared by codec_headers (which proves the codec pair) and codec_responses (poll response).

// `pub struct HeaderKey(String);` (a tuple struct: written here with the String stand-in, R4)
pub struct HeaderKey(pub Text);

// A-std(str): a string IS its bytes - two strings with the same UTF-8 bytes are the same value (String's Eq/Hash compare bytes)
#[verifier::external_body]
pub proof fn axiom_text_ext(a: Text, b: Text)
    ensures a@ == b@ ==> a == b,
{}
// String::from_utf8(Vec<u8>): Ok(the same bytes as a String) iff the bytes are valid UTF-8
#[derive(Debug)]
pub struct FromUtf8Error { pub p: u8 }
impl Text {
    #[verifier::external_body]
    pub fn from_utf8(v: Vec<u8>) -> (r: Result<Text, FromUtf8Error>)
        ensures
            utf8(v@) ==> (r matches Ok(t) && t@ == v@),
            !utf8(v@) ==> r is Err,
    { unimplemented!() }
}

impl vstd::std_specs::cmp::PartialEqSpecImpl for HeaderKind {
    open spec fn obeys_eq_spec() -> bool { true }
    open spec fn eq_spec(&self, other: &HeaderKind) -> bool { *self == *other }
}
pub open spec fn headerkind_code(k: HeaderKind) -> u8 {
    match k {
        HeaderKind::Raw => 1, HeaderKind::String => 2, HeaderKind::Bool => 3, HeaderKind::Int8 => 4, HeaderKind::Int16 => 5, HeaderKind::Int32 => 6,
        HeaderKind::Int64 => 7, HeaderKind::Int128 => 8, HeaderKind::Uint8 => 9, HeaderKind::Uint16 => 10, HeaderKind::Uint32 => 11,
        HeaderKind::Uint64 => 12, HeaderKind::Uint128 => 13, HeaderKind::Float32 => 14, HeaderKind::Float64 => 15,
    }
}

// ---- the abstract content of a header map and its wire encodings ---------------------------------------------------------------------------
pub ghost struct HdrEntry { pub key: Seq<u8>, pub kind: HeaderKind, pub value: Seq<u8> }
pub open spec fn enc_entry(e: HdrEntry) -> Seq<u8> {
    le32(e.key.len() as u32) + e.key + seq![headerkind_code(e.kind)] + le32(e.value.len() as u32) + e.value
}
impl Wire for HdrEntry {
    open spec fn enc(self) -> Seq<u8> { enc_entry(self) }
}
pub open spec fn enc_entries(es: Seq<HdrEntry>) -> Seq<u8> { enc_seq(es) }
// what HeaderKey::new / HeaderValue::from (and the decoder) enforce: keys 1..=255 bytes of UTF-8, values 1..=255 bytes
pub open spec fn entry_valid(e: HdrEntry) -> bool { 1 <= e.key.len() <= 255 && utf8(e.key) && 1 <= e.value.len() <= 255 }
pub type HdrMap = Map<Seq<u8>, (HeaderKind, Seq<u8>)>;
// the map a list of entries builds (later entries win - for distinct keys the order is irrelevant)
pub open spec fn map_of(es: Seq<HdrEntry>) -> HdrMap
    decreases es.len(),
{
    if es.len() == 0 { Map::empty() } else { map_of(es.drop_last()).insert(es.last().key, (es.last().kind, es.last().value)) }
}
pub open spec fn keys_distinct(es: Seq<HdrEntry>) -> bool { forall|i: int, j: int| 0 <= i < j < es.len() ==> es[i].key != es[j].key }
pub open spec fn entries_valid(es: Seq<HdrEntry>) -> bool { forall|i: int| 0 <= i < es.len() ==> entry_valid(#[trigger] es[i]) }
// `es` lists the content of the map `a`, every key exactly once, in SOME order
pub open spec fn lists(es: Seq<HdrEntry>, a: HdrMap) -> bool { keys_distinct(es) && entries_valid(es) && map_of(es) == a }
// b is an encoding of the map a: its entries in some order
pub open spec fn hdr_enc_ok(a: HdrMap, b: Seq<u8>) -> bool { exists|es: Seq<HdrEntry>| lists(es, a) && b == enc_entries(es) }

// the content of the Rust value: keyed by the key's bytes
pub open spec fn hmap_has(m: Map<HeaderKey, HeaderValue>, kb: Seq<u8>) -> bool { exists|k: HeaderKey| m.contains_key(k) && k.0@ == kb }
pub open spec fn hmap_key(m: Map<HeaderKey, HeaderValue>, kb: Seq<u8>) -> HeaderKey { choose|k: HeaderKey| m.contains_key(k) && k.0@ == kb }
pub open spec fn hmap_view(m: Map<HeaderKey, HeaderValue>) -> HdrMap {
    Map::new(m.dom().map(|k: HeaderKey| k.0@), |kb: Seq<u8>| (m[hmap_key(m, kb)].kind, m[hmap_key(m, kb)].value@))
}
pub open spec fn hmap_valid(m: Map<HeaderKey, HeaderValue>) -> bool {
    forall|k: HeaderKey| #[trigger] m.contains_key(k) ==> 1 <= k.0@.len() <= 255 && 1 <= m[k].value@.len() <= 255
}
pub open spec fn entry_of(k: HeaderKey, v: HeaderValue) -> HdrEntry { HdrEntry { key: k.0@, kind: v.kind, value: v.value@ } }

pub proof fn lemma_key_ext(a: HeaderKey, b: HeaderKey)
    ensures a.0@ == b.0@ ==> a == b,
{
    axiom_text_ext(a.0, b.0);
}
pub proof fn lemma_enc_entries_push(es: Seq<HdrEntry>, e: HdrEntry)
    ensures enc_entries(es.push(e)) == enc_entries(es) + enc_entry(e), map_of(es.push(e)) == map_of(es).insert(e.key, (e.kind, e.value)),
{
    lemma_enc_seq_push(es, e);
    assert(es.push(e).drop_last() =~= es);
}
// the domain of map_of is the key set of the list
pub proof fn lemma_map_of_dom(es: Seq<HdrEntry>)
    ensures
        forall|kb: Seq<u8>| #[trigger] map_of(es).contains_key(kb) <==> exists|i: int| 0 <= i < es.len() && es[i].key == kb,
    decreases es.len(),
{
    if es.len() > 0 {
        let p = es.drop_last();
        lemma_map_of_dom(p);
        assert forall|kb: Seq<u8>| #[trigger] map_of(es).contains_key(kb) <==> exists|i: int| 0 <= i < es.len() && es[i].key == kb by {
            if map_of(es).contains_key(kb) {
                if kb == es.last().key {
                    assert(es[es.len() - 1].key == kb);
                } else {
                    assert(map_of(p).contains_key(kb));
                    let i = choose|i: int| 0 <= i < p.len() && p[i].key == kb;
                    assert(es[i].key == kb);
                }
            }
            if exists|i: int| 0 <= i < es.len() && es[i].key == kb {
                let i = choose|i: int| 0 <= i < es.len() && es[i].key == kb;
                if i < es.len() - 1 { assert(p[i].key == kb); assert(map_of(p).contains_key(kb)); }
            }
        }
    }
}
// with distinct keys every entry keeps its value
pub proof fn lemma_map_of_at(es: Seq<HdrEntry>, i: int)
    requires keys_distinct(es), 0 <= i < es.len(),
    ensures map_of(es).contains_key(es[i].key), map_of(es)[es[i].key] == (es[i].kind, es[i].value),
    decreases es.len(),
{
    if i < es.len() - 1 {
        let p = es.drop_last();
        assert(keys_distinct(p)) by { assert forall|a: int, b: int| 0 <= a < b < p.len() implies p[a].key != p[b].key by { assert(es[a].key != es[b].key); } }
        lemma_map_of_at(p, i);
        assert(es[i].key != es[es.len() - 1].key);
    }
}

// the entries of a map in its iteration order
pub open spec fn es_of(m: HashMap<HeaderKey, HeaderValue>) -> Seq<HdrEntry> {
    Seq::new(m.key_order().len(), |i: int| entry_of(m.key_order()[i], m@[m.key_order()[i]]))
}
// membership in the domain of the content map
pub proof fn lemma_hmap_view_dom(m: Map<HeaderKey, HeaderValue>)
    ensures forall|kb: Seq<u8>| #[trigger] hmap_view(m).contains_key(kb) <==> hmap_has(m, kb),
{
    assert forall|kb: Seq<u8>| #[trigger] hmap_view(m).contains_key(kb) <==> hmap_has(m, kb) by {
        let f = |k: HeaderKey| k.0@;
        if hmap_has(m, kb) {
            let k = choose|k: HeaderKey| m.contains_key(k) && k.0@ == kb;
            assert(m.dom().contains(k) && f(k) == kb);
            assert(m.dom().map(f).contains(kb));
        }
        if m.dom().map(f).contains(kb) {
            let k = choose|k: HeaderKey| m.dom().contains(k) && f(k) == kb;
            assert(m.contains_key(k) && k.0@ == kb);
        }
    }
}
pub proof fn lemma_hmap_view_at(m: Map<HeaderKey, HeaderValue>, k: HeaderKey)
    requires m.contains_key(k),
    ensures hmap_view(m).contains_key(k.0@), hmap_view(m)[k.0@] == (m[k].kind, m[k].value@),
{
    lemma_hmap_view_dom(m);
    assert(hmap_has(m, k.0@));
    lemma_key_ext(hmap_key(m, k.0@), k);
}
// the entries of a valid map, in its iteration order, list its content
pub proof fn lemma_es_of_lists(m: HashMap<HeaderKey, HeaderValue>)
    requires keys_exactly(m@, m.key_order()), hmap_valid(m@),
    ensures lists(es_of(m), hmap_view(m@)),
{
    let es = es_of(m);
    let ko = m.key_order();
    assert forall|i: int, j: int| 0 <= i < j < es.len() implies es[i].key != es[j].key by {
        lemma_key_ext(ko[i], ko[j]);
        assert(ko[i] != ko[j]);
    }
    assert forall|i: int| 0 <= i < es.len() implies entry_valid(#[trigger] es[i]) by {
        assert(m@.contains_key(ko[i]));
        axiom_text_utf8(ko[i].0);
    }
    lemma_map_of_dom(es);
    lemma_hmap_view_dom(m@);
    assert forall|kb: Seq<u8>| map_of(es).contains_key(kb) <==> #[trigger] hmap_view(m@).contains_key(kb) by {
        if map_of(es).contains_key(kb) {
            let i = choose|i: int| 0 <= i < es.len() && es[i].key == kb;
            assert(m@.contains_key(ko[i]) && ko[i].0@ == kb);
        }
        if hmap_has(m@, kb) {
            let k = choose|k: HeaderKey| m@.contains_key(k) && k.0@ == kb;
            let i = choose|i: int| 0 <= i < ko.len() && ko[i] == k;
            assert(es[i].key == kb);
        }
    }
    assert forall|kb: Seq<u8>| #[trigger] map_of(es).contains_key(kb) implies map_of(es)[kb] == hmap_view(m@)[kb] by {
        let i = choose|i: int| 0 <= i < es.len() && es[i].key == kb;
        lemma_map_of_at(es, i);
        assert(m@.contains_key(ko[i]));
        lemma_hmap_view_at(m@, ko[i]);
    }
    assert(map_of(es) =~= hmap_view(m@));
}

// where the fields of an entry sit
pub proof fn lemma_entry_at(buf: Seq<u8>, pos: int, e: HdrEntry)
    requires at_pos(buf, pos, enc_entry(e)),
    ensures
        ({
            let kl = e.key.len() as int;
            let vl = e.value.len() as int;
            &&& enc_entry(e).len() == 9 + kl + vl
            &&& pos + 9 + kl + vl <= buf.len()
            &&& buf.subrange(pos, pos + 4) == le32(e.key.len() as u32)
            &&& buf.subrange(pos + 4, pos + 4 + kl) == e.key
            &&& buf[pos + 4 + kl] == headerkind_code(e.kind)
            &&& buf.subrange(pos + 5 + kl, pos + 9 + kl) == le32(e.value.len() as u32)
            &&& buf.subrange(pos + 9 + kl, pos + 9 + kl + vl) == e.value
        }),
{
    lemma_le_facts();
    let x = enc_entry(e);
    let kl = e.key.len() as int;
    let vl = e.value.len() as int;
    let s = buf.subrange(pos, pos + x.len());
    assert(buf.subrange(pos, pos + 4) =~= s.subrange(0, 4));
    assert(x.subrange(0, 4) =~= le32(e.key.len() as u32));
    assert(buf.subrange(pos + 4, pos + 4 + kl) =~= s.subrange(4, 4 + kl));
    assert(x.subrange(4, 4 + kl) =~= e.key);
    assert(buf[pos + 4 + kl] == s[4 + kl]);
    assert(buf.subrange(pos + 5 + kl, pos + 9 + kl) =~= s.subrange(5 + kl, 9 + kl));
    assert(x.subrange(5 + kl, 9 + kl) =~= le32(e.value.len() as u32));
    assert(buf.subrange(pos + 9 + kl, pos + 9 + kl + vl) =~= s.subrange(9 + kl, 9 + kl + vl));
    assert(x.subrange(9 + kl, 9 + kl + vl) =~= e.value);
}
pub proof fn lemma_entries_nonempty(es: Seq<HdrEntry>)
    ensures all_nonempty(es),
{
    assert forall|i: int| 0 <= i < es.len() implies (#[trigger] es[i]).enc().len() > 0 by { lemma_le_facts(); }
}
// inserting into the Rust map inserts into its content (keys are compared by their bytes)
pub proof fn lemma_hmap_view_insert(m: Map<HeaderKey, HeaderValue>, k: HeaderKey, v: HeaderValue)
    ensures hmap_view(m.insert(k, v)) == hmap_view(m).insert(k.0@, (v.kind, v.value@)),
{
    let m2 = m.insert(k, v);
    lemma_hmap_view_dom(m);
    lemma_hmap_view_dom(m2);
    assert forall|kb: Seq<u8>| #[trigger] hmap_view(m2).contains_key(kb) <==> hmap_view(m).insert(k.0@, (v.kind, v.value@)).contains_key(kb) by {
        if hmap_has(m2, kb) {
            let k2 = choose|k2: HeaderKey| m2.contains_key(k2) && k2.0@ == kb;
            if k2 != k { assert(m.contains_key(k2)); assert(hmap_has(m, kb)); }
        }
        if hmap_has(m, kb) {
            let k2 = choose|k2: HeaderKey| m.contains_key(k2) && k2.0@ == kb;
            assert(m2.contains_key(k2));
        }
        if kb == k.0@ { assert(m2.contains_key(k)); assert(hmap_has(m2, kb)); }
    }
    assert forall|kb: Seq<u8>| #[trigger] hmap_view(m2).contains_key(kb) implies hmap_view(m2)[kb] == hmap_view(m).insert(k.0@, (v.kind, v.value@))[kb] by {
        let k2 = hmap_key(m2, kb);
        assert(hmap_has(m2, kb));
        assert(m2.contains_key(k2) && k2.0@ == kb);
        if kb == k.0@ {
            lemma_key_ext(k2, k);
        } else {
            assert(k2 != k);
            assert(m.contains_key(k2));
            lemma_hmap_view_at(m, k2);
        }
    }
    assert(hmap_view(m2) =~= hmap_view(m).insert(k.0@, (v.kind, v.value@)));
}

// what `to_bytes` emits for THIS map object: its entries in its iteration order ([C13.enc.Headers.order])
pub open spec fn hdr_bytes(m: HashMap<HeaderKey, HeaderValue>) -> Seq<u8> { enc_entries(es_of(m)) }
// A-std(HashMap): the iteration order of a map visits every key exactly once (the statement `iter_vec`/`values_vec` of
// vx/prelude/mapiter.rs make about their result, as a fact about the map object)
#[verifier::external_body]
pub proof fn axiom_hdr_key_order(m: HashMap<HeaderKey, HeaderValue>)
    ensures keys_exactly(m@, m.key_order()),
{}
