// ---- prelude topic_send: stand-ins shared by the units `partitioning` (C17) and `topic_limit` (C15) ----
// Everything here is either spec vocabulary (no trust) or a stand-in / external_body stub with an ASSUMED
// contract (listed in evidence). The extracted text (Topic::append_messages and its callees, the maintenance
// functions) is verified against these.

// --- errors (stand-in for iggy::error::IggyError: only the variants the extracted text builds, plus one
//     variant standing for every error of the partition/segment layer) ---
pub enum IggyError {
    NoPartitions(u32, u32),
    TopicFull(u32, u32),
    InvalidNumberEncoding,
    PartitionNotFound(u32, u32, u32),
    InvalidTopicSize(MaxTopicSize, IggyByteSize),
    SegmentNotFound,
    TooManyPartitions,
    CannotAppendMessage,
    CannotDeleteSegment,
}

// --- R4: IggyByteSize is a u64 newtype (byte_unit::Byte inside); only the accessor is used ---
#[derive(Clone, Copy)]
pub struct IggyByteSize { pub v: u64 }
impl IggyByteSize {
    pub fn as_bytes_u64(&self) -> (r: u64)
        ensures r == self.v,
    { self.v }
}

// --- R6: atomics as plain integers; the memory ordering argument is accepted and ignored ---
pub enum Ordering { Relaxed, Release, Acquire, AcqRel, SeqCst }

pub struct AtomicU32 { pub v: u32 }
impl AtomicU32 {
    pub fn load(&self, order: Ordering) -> (r: u32)
        ensures r == self.v,
    { self.v }

    // std: fetch_add wraps around on overflow
    #[verifier::external_body]
    pub fn fetch_add(&mut self, val: u32, order: Ordering) -> (r: u32)
        ensures r == old(self).v,
            final(self).v as int == (if old(self).v + val > u32::MAX { old(self).v + val - 0x1_0000_0000 } else { old(self).v + val }),
    { unimplemented!() }

    pub fn swap(&mut self, val: u32, order: Ordering) -> (r: u32)
        ensures r == old(self).v, final(self).v == val,
    { let o = self.v; self.v = val; o }
}

pub struct AtomicU64 { pub v: u64 }
impl AtomicU64 {
    pub fn load(&self, order: Ordering) -> (r: u64)
        ensures r == self.v,
    { self.v }
}

// --- R4 + R5: `AHashMap<u32, IggySharedMut<Partition>>` -> `LockMap<u32, Partition>`. The value behind the
//     lock is reached through the map (`get` hands out the `&mut` that `.write()` would, R5 makes
//     `.read()`/`.write()` the identity); functions that write through it are `recv mut` (R6).
#[verifier::external_body]
#[verifier::reject_recursive_types(K)]
#[verifier::accept_recursive_types(V)]
pub struct LockMap<K, V> { m: std::collections::HashMap<K, V> }

impl<K, V> View for LockMap<K, V> {
    type V = Map<K, V>;
    uninterp spec fn view(&self) -> Map<K, V>;
}

// `vals` enumerates the values of `m` exactly once each (by key), in an unspecified order
pub open spec fn values_of<K, V>(m: Map<K, V>, vals: Seq<&V>, keys: Seq<K>) -> bool {
    &&& keys.len() == vals.len()
    &&& forall|i: int, j: int| 0 <= i < j < keys.len() ==> keys[i] != keys[j]
    &&& forall|i: int| 0 <= i < keys.len() ==> m.contains_key(#[trigger] keys[i]) && *vals[i] == m[keys[i]]
    &&& forall|k: K| #[trigger] m.contains_key(k) ==> exists|i: int| 0 <= i < keys.len() && keys[i] == k
}

impl<K, V> LockMap<K, V> {
    #[verifier::external_body]
    pub fn get(&mut self, k: &K) -> (r: Option<&mut V>)
        ensures match r {
            Some(v) => old(self)@.contains_key(*k) && *v == old(self)@[*k] && final(self)@ == old(self)@.insert(*k, *final(v)),
            None => !old(self)@.contains_key(*k) && final(self)@ == old(self)@,
        },
    { unimplemented!() }

    #[verifier::external_body]
    pub fn len(&self) -> (r: usize)
        ensures r == self@.len(), self@.dom().finite(),
    { unimplemented!() }

    #[verifier::external_body]
    pub fn is_empty(&self) -> (r: bool)
        ensures r == (self@.len() == 0), r == (self@ == Map::<K, V>::empty()), self@.dom().finite(),
    { unimplemented!() }

    // R8 map-iteration schema: `m.values()` yields each value exactly once, order unspecified
    #[verifier::external_body]
    pub fn values(&self) -> (r: Vec<&V>)
        ensures exists|keys: Seq<K>| values_of(self@, r@, keys), r@.len() == self@.len(), self@.dom().finite(),
    { unimplemented!() }
}

// --- opaque payload types ---
#[verifier::external_body]
pub struct Message { _p: () }
#[verifier::external_body]
pub struct Confirmation { _p: () }

// --- ghost record of what a partition has been asked to store (DESIGN 4.3: the stand-in of R4 carries an
//     uninterpreted spec fn). One entry per invocation of Partition::append_messages. ---
pub ghost struct AppendCall { pub partition_id: u32, pub messages: Seq<Message>, pub ok: bool }

#[verifier::external_body]
pub struct SystemStorage { _p: () }
impl SystemStorage {
    pub uninterp spec fn appends(&self) -> Seq<AppendCall>;
}

impl Partition {
    // STUB for the partition layer (C01's subject). Assumed: it records exactly one append of exactly the given
    // batch under the given batch info, keeps its own id, and never answers with a topic-level refusal.
    #[verifier::external_body]
    pub fn append_messages(&mut self, appendable_batch_info: AppendableBatchInfo, messages: Vec<Message>, confirmation: Option<Confirmation>) -> (r: Result<(), IggyError>)
        ensures
            final(self).partition_id == old(self).partition_id,
            final(self).storage.appends() == old(self).storage.appends().push(
                AppendCall { partition_id: appendable_batch_info.partition_id, messages: messages@, ok: r is Ok }),
            !(r matches Err(IggyError::TopicFull(..))),
            !(r matches Err(IggyError::NoPartitions(..))),
    { unimplemented!() }
}

// --- A-dep(xxhash32): XxHash32::oneshot is a function of (seed, bytes); the key hash is that function with the FIXED seed 0
// (proved of the real streaming::utils::hash::calculate_32 in unit partitioning, [C17.key.hash.fixed]: a per-process seed would
// send the same key to different partitions after a restart) ---
pub uninterp spec fn xxh32(seed: u32, data: Seq<u8>) -> u32;
pub open spec fn hash32(key: Seq<u8>) -> u32 { xxh32(0, key) }
pub struct XxHash32;
impl XxHash32 {
    #[verifier::external_body]
    pub fn oneshot(seed: u32, data: &[u8]) -> (r: u32)
        ensures r == xxh32(seed, data@),
    { unimplemented!() }
}
pub mod hash {
    use vstd::prelude::*;
    // LINKED: units/partitioning/lemmas.rs, harness [C17.link.topic_send.calculate_32], proves this contract from the real function (mirror edits there)
    #[verifier::external_body]
    pub fn calculate_32(data: &[u8]) -> (r: u32)
        ensures r == super::hash32(data@),
    { unimplemented!() }
}

// --- A-std: `<[u8; 4]>::try_from(&[u8])` + `Result::map_err(|_| E)` (R8 schema, E lifted verbatim) and
//     `u32::from_le_bytes` (vstd cannot attach a specification to it: const-generic array length) ---
pub open spec fn le32(s: Seq<u8>) -> u32 {
    (s[0] as u32 + s[1] as u32 * 256 + s[2] as u32 * 65536 + s[3] as u32 * 16777216) as u32
}
pub open spec fn u32_le_bytes(x: u32) -> Seq<u8> {
    seq![(x % 256) as u8, ((x / 256) % 256) as u8, ((x / 65536) % 256) as u8, ((x / 16777216) % 256) as u8]
}
#[verifier::external_body]
pub fn std_slice_try_into_array4_map_err(s: &[u8], e: IggyError) -> (r: Result<[u8; 4], IggyError>)
    ensures s@.len() == 4 ==> r is Ok && r->Ok_0@ == s@,
        s@.len() != 4 ==> r == Err::<[u8; 4], IggyError>(e),
{ unimplemented!() }
#[verifier::external_body]
pub fn std_u32_from_le_bytes(a: [u8; 4]) -> (r: u32)
    ensures r == le32(a@),
{ unimplemented!() }

// ================================ spec vocabulary ================================================

// partitions are numbered exactly 1..=n (established by Topic::add_partitions / delete_persisted_partitions,
// n <= MAX_PARTITIONS_COUNT, the server's constant, extracted) and each knows its own number
pub open spec fn pwf(t: &Topic) -> bool {
    &&& t.partitions@.dom().finite()
    &&& t.partitions@.len() <= MAX_PARTITIONS_COUNT
    &&& forall|id: u32| #[trigger] t.partitions@.contains_key(id) <==> 1 <= id <= t.partitions@.len()
    &&& forall|id: u32| #[trigger] t.partitions@.contains_key(id) ==> t.partitions@[id].partition_id == id
}

// the send `msgs` was handed, as one batch, to partition `pid` and to no other; every other partition is identical
// (o, f: the partitions map before and after)
pub open spec fn stored_in(o: Map<u32, Partition>, f: Map<u32, Partition>, pid: u32, msgs: Seq<Message>, ok: bool) -> bool {
    &&& o.contains_key(pid)
    &&& f.dom() =~= o.dom()
    &&& f[pid].partition_id == o[pid].partition_id
    &&& f[pid].storage.appends() =~= o[pid].storage.appends().push(AppendCall { partition_id: pid, messages: msgs, ok })
    &&& forall|k: u32| k != pid && #[trigger] o.contains_key(k) ==> f[k] == o[k]
}

// no partition was touched
pub open spec fn nothing_stored(o: Map<u32, Partition>, f: Map<u32, Partition>) -> bool {
    f =~= o
}

// the limit of the property statement: "a topic with a size limit is at or above that limit"
pub open spec fn topic_full(t: &Topic) -> bool {
    t.max_topic_size is Custom && t.size_bytes.v >= t.max_topic_size->Custom_0.v
}

// a send that NAMES partition p (what Partitioning::partition_id(p) builds and the wire decoder yields)
pub open spec fn names_partition(p: &Partitioning, id: u32) -> bool {
    p.kind is PartitionId && p.length == 4 && p.value@ == u32_le_bytes(id)
}

// exact transcripts (helper shapes) of the two server-side selection rules
pub open spec fn key_pid(h: u32, count: u32) -> u32 {
    if h % count == 0 { count } else { h % count }
}
// (returned id, new cursor) of one round-robin step from cursor c over `count` partitions
pub open spec fn rr_step(c: u32, count: u32) -> (u32, u32) {
    if c > count { (1u32, 2u32) } else { (c, (c + 1) as u32) }
}
