// ---- common prelude: stand-ins for std/ahash collections (A-std) ------------------------------
// `HashMap<K,V>` / `HashSet<K>` stand for ahash::AHashMap / AHashSet / std HashMap / DashMap (rule R4).
// Their bodies are external (trusted); the contracts are the documented std semantics over a
// mathematical Map / Set view. Hashing scheme and iteration order are abstracted.

#[verifier::external_body]
#[verifier::reject_recursive_types(K)]
#[verifier::accept_recursive_types(V)]
pub struct HashMap<K, V> { m: std::collections::HashMap<K, V> }

impl<K, V> View for HashMap<K, V> {
    type V = Map<K, V>;
    uninterp spec fn view(&self) -> Map<K, V>;
}

impl<K, V> HashMap<K, V> {
    #[verifier::external_body]
    pub fn new() -> (r: Self)
        ensures r@ == Map::<K, V>::empty(),
    { unimplemented!() }

    #[verifier::external_body]
    pub fn get(&self, k: &K) -> (r: Option<&V>)
        ensures match r { Some(v) => self@.contains_key(*k) && *v == self@[*k], None => !self@.contains_key(*k) },
    { unimplemented!() }

    #[verifier::external_body]
    pub fn contains_key(&self, k: &K) -> (r: bool)
        ensures r == self@.contains_key(*k),
    { unimplemented!() }

    #[verifier::external_body]
    pub fn insert(&mut self, k: K, v: V) -> (r: Option<V>)
        ensures final(self)@ == old(self)@.insert(k, v),
            match r { Some(o) => old(self)@.contains_key(k) && o == old(self)@[k], None => !old(self)@.contains_key(k) },
    { unimplemented!() }

    #[verifier::external_body]
    pub fn remove(&mut self, k: &K) -> (r: Option<V>)
        ensures final(self)@ == old(self)@.remove(*k),
            match r { Some(o) => old(self)@.contains_key(*k) && o == old(self)@[*k], None => !old(self)@.contains_key(*k) },
    { unimplemented!() }

    #[verifier::external_body]
    pub fn len(&self) -> (r: usize)
        ensures r == self@.len(),
    { unimplemented!() }

    #[verifier::external_body]
    pub fn is_empty(&self) -> (r: bool)
        ensures r == (self@.len() == 0), r == (self@ == Map::<K, V>::empty()),
    { unimplemented!() }

    #[verifier::external_body]
    pub fn clear(&mut self)
        ensures final(self)@ == Map::<K, V>::empty(),
    { unimplemented!() }

    // R8 closure schema: `m.retain(|k, v| P)`  ->  `m.retain_spec(Ghost(|k, v| P))`
    #[verifier::external_body]
    pub fn retain_spec(&mut self, Ghost(f): Ghost<spec_fn(K, V) -> bool>)
        ensures
            forall|k: K| #![trigger final(self)@.contains_key(k)] #![trigger old(self)@.contains_key(k)]
                final(self)@.contains_key(k) <==> (old(self)@.contains_key(k) && f(k, old(self)@[k])),
            forall|k: K| #![trigger final(self)@[k]] final(self)@.contains_key(k) ==> final(self)@[k] == old(self)@[k],
    { unimplemented!() }
}

#[verifier::external_body]
#[verifier::reject_recursive_types(K)]
pub struct HashSet<K> { m: std::collections::HashSet<K> }

impl<K> View for HashSet<K> {
    type V = Set<K>;
    uninterp spec fn view(&self) -> Set<K>;
}

impl<K> HashSet<K> {
    #[verifier::external_body]
    pub fn new() -> (r: Self)
        ensures r@ == Set::<K>::empty(),
    { unimplemented!() }

    #[verifier::external_body]
    pub fn contains(&self, k: &K) -> (r: bool)
        ensures r == self@.contains(*k),
    { unimplemented!() }

    #[verifier::external_body]
    pub fn insert(&mut self, k: K) -> (r: bool)
        ensures final(self)@ == old(self)@.insert(k), r == !old(self)@.contains(k),
    { unimplemented!() }

    #[verifier::external_body]
    pub fn remove(&mut self, k: &K) -> (r: bool)
        ensures final(self)@ == old(self)@.remove(*k), r == old(self)@.contains(*k),
    { unimplemented!() }

    #[verifier::external_body]
    pub fn retain_spec(&mut self, Ghost(f): Ghost<spec_fn(K) -> bool>)
        ensures
            forall|k: K| #![trigger final(self)@.contains(k)] #![trigger old(self)@.contains(k)]
                final(self)@.contains(k) <==> (old(self)@.contains(k) && f(k)),
    { unimplemented!() }
}

// R8 map-iteration schema: consuming a map yields each entry exactly once, in an unspecified order.
pub open spec fn entries_of<K, V>(m: Map<K, V>, e: Seq<(K, V)>) -> bool {
    &&& forall|i: int, j: int| 0 <= i < j < e.len() ==> e[i].0 != e[j].0
    &&& forall|i: int| 0 <= i < e.len() ==> m.contains_key(#[trigger] e[i].0) && m[e[i].0] == e[i].1
    &&& forall|k: K| #[trigger] m.contains_key(k) ==> exists|i: int| 0 <= i < e.len() && e[i].0 == k
}

impl<K, V> HashMap<K, V> {
    #[verifier::external_body]
    pub fn into_entries(self) -> (r: Vec<(K, V)>)
        ensures entries_of(self@, r@),
    { unimplemented!() }
}

// A-std: documented semantics of `Option::map_or` (vstd ships no specification for it; `map`, `and_then`, `unwrap_or`, ... it
// does). Listed as an assumption wherever extracted code uses it. Present so that a rewrite of an `if let`/`match` into the
// combinator stays decidable instead of "unsupported construct".
pub assume_specification<T, U, F: FnOnce(T) -> U>[Option::<T>::map_or](o: Option<T>, default: U, f: F) -> (r: U)
    requires o matches Some(x) ==> f.requires((x,)),
    ensures match o { Some(x) => f.ensures((x,), r), None => r == default };
