// ---- wire_core prelude: shared by the codec units (C13): core wire types of the binary protocol ------------------------
// Requires the extracted types IdKind, Identifier, ConsumerKind, Consumer, PartitioningKind, Partitioning, PollingKind,
// PollingStrategy ([[types]] of the unit) and vx/prelude/bytes.rs.
// Stand-ins (R4), the wire-format specification (`enc_*`, `*_code`, `*_valid`) and nothing else. No body of /repo is
// re-typed here: the `enc_*` functions are the wire layout as the protocol documents it (kind code, length, payload;
// integers little-endian) and BOTH directions of every pair are checked against them.

global size_of usize == 8;   // 64-bit target (u8/u32 lengths widen losslessly to usize)

// the error variants the extracted text builds
pub enum IggyError {
    InvalidIdentifier, InvalidCommand, InvalidNumberEncoding, InvalidUtf8, EmptyMessagePayload, InvalidMessagePayloadLength, Other,
    // (added for unit codec_send: the variants built by the header-map codec and by SendMessages::validate)
    InvalidHeaderKey, InvalidHeaderValue, InvalidMessagesCount, InvalidKeyValueLength, TooBigHeadersPayload, TooBigMessagePayload,
    QuicError, EmptyResponse, NotConnected,
}

// IggyByteSize: a byte count (byte_unit::Byte inside). From<u64> / as_bytes_u64 / as_bytes_usize are mutually inverse
// conversions of the same number (sdk/src/utils/byte_size.rs).
#[derive(Clone, Copy)]
pub struct IggyByteSize(pub u64);
impl From<u64> for IggyByteSize {
    fn from(byte_size: u64) -> (r: Self) { IggyByteSize(byte_size) }
}
impl vstd::std_specs::convert::FromSpecImpl<u64> for IggyByteSize {
    open spec fn obeys_from_spec() -> bool { true }
    open spec fn from_spec(v: u64) -> Self { IggyByteSize(v) }
}
impl IggyByteSize {
    pub fn as_bytes_u64(&self) -> (r: u64) ensures r == self.0, { self.0 }
    pub fn as_bytes_usize(&self) -> (r: usize) ensures r == self.0, { self.0 as usize }
}

// derived PartialEq on field-less enums is structural equality (A-std)
impl vstd::std_specs::cmp::PartialEqSpecImpl for IdKind {
    open spec fn obeys_eq_spec() -> bool { true }
    open spec fn eq_spec(&self, other: &IdKind) -> bool { *self == *other }
}
impl vstd::std_specs::cmp::PartialEqSpecImpl for ConsumerKind {
    open spec fn obeys_eq_spec() -> bool { true }
    open spec fn eq_spec(&self, other: &ConsumerKind) -> bool { *self == *other }
}
impl vstd::std_specs::cmp::PartialEqSpecImpl for PartitioningKind {
    open spec fn obeys_eq_spec() -> bool { true }
    open spec fn eq_spec(&self, other: &PartitioningKind) -> bool { *self == *other }
}
impl vstd::std_specs::cmp::PartialEqSpecImpl for PollingKind {
    open spec fn obeys_eq_spec() -> bool { true }
    open spec fn eq_spec(&self, other: &PollingKind) -> bool { *self == *other }
}

// ---- the wire format (specification) ----------------------------------------------------------------------------------
// code tables of the binary protocol (one byte each)
pub open spec fn idkind_code(k: IdKind) -> u8 { match k { IdKind::Numeric => 1, IdKind::String => 2 } }
pub open spec fn consumerkind_code(k: ConsumerKind) -> u8 { match k { ConsumerKind::Consumer => 1, ConsumerKind::ConsumerGroup => 2 } }
pub open spec fn partitioningkind_code(k: PartitioningKind) -> u8 {
    match k { PartitioningKind::Balanced => 1, PartitioningKind::PartitionId => 2, PartitioningKind::MessagesKey => 3 }
}
pub open spec fn pollingkind_code(k: PollingKind) -> u8 {
    match k { PollingKind::Offset => 1, PollingKind::Timestamp => 2, PollingKind::First => 3, PollingKind::Last => 4, PollingKind::Next => 5 }
}

// Identifier:  kind:u8 | length:u8 | value[length]          (length 1..=255; numeric identifiers carry 4 bytes)
pub open spec fn enc_identifier(i: Identifier) -> Seq<u8> { seq![idkind_code(i.kind), i.length] + i.value@ }
pub open spec fn id_valid(i: Identifier) -> bool {
    i.length >= 1 && i.value@.len() == i.length && (i.kind == IdKind::Numeric ==> i.length == 4)
}
// equality of the Rust values (derived PartialEq compares the Vec contents)
pub open spec fn id_eq(a: Identifier, b: Identifier) -> bool { a.kind == b.kind && a.length == b.length && a.value@ == b.value@ }

// Consumer:  kind:u8 | Identifier
pub open spec fn enc_consumer(c: Consumer) -> Seq<u8> { seq![consumerkind_code(c.kind)] + enc_identifier(c.id) }
pub open spec fn consumer_valid(c: Consumer) -> bool { id_valid(c.id) }
pub open spec fn consumer_eq(a: Consumer, b: Consumer) -> bool { a.kind == b.kind && id_eq(a.id, b.id) }

// Partitioning:  kind:u8 | length:u8 | value[length]        (length 0 for Balanced, 4 for PartitionId, 1..=255 for MessagesKey)
pub open spec fn enc_partitioning(p: Partitioning) -> Seq<u8> { seq![partitioningkind_code(p.kind), p.length] + p.value@ }
pub open spec fn part_valid(p: Partitioning) -> bool { p.value@.len() == p.length }
pub open spec fn part_eq(a: Partitioning, b: Partitioning) -> bool { a.kind == b.kind && a.length == b.length && a.value@ == b.value@ }

// PollingStrategy:  kind:u8 | value:u64 LE
pub open spec fn enc_strategy(s: PollingStrategy) -> Seq<u8> { seq![pollingkind_code(s.kind)] + le64(s.value) }

// ---- lemmas about the wire-format SPECIFICATION only (no executable code is mentioned); re-proved in every unit ---------

pub proof fn lemma_idkind_code_injective()
    ensures forall|a: IdKind, b: IdKind| idkind_code(a) == idkind_code(b) ==> a == b,
{}
pub proof fn lemma_consumerkind_code_injective()
    ensures forall|a: ConsumerKind, b: ConsumerKind| consumerkind_code(a) == consumerkind_code(b) ==> a == b,
{}
pub proof fn lemma_partitioningkind_code_injective()
    ensures forall|a: PartitioningKind, b: PartitioningKind| partitioningkind_code(a) == partitioningkind_code(b) ==> a == b,
{}
pub proof fn lemma_pollingkind_code_injective()
    ensures forall|a: PollingKind, b: PollingKind| pollingkind_code(a) == pollingkind_code(b) ==> a == b,
{}

// where the fields of an identifier sit in any buffer that starts with its encoding
pub proof fn lemma_identifier_layout(v: Identifier, rest: Seq<u8>)
    ensures
        ({
            let b = enc_identifier(v) + rest;
            &&& enc_identifier(v).len() == 2 + v.value@.len()
            &&& b.len() == 2 + v.value@.len() + rest.len()
            &&& b[0] == idkind_code(v.kind)
            &&& b[1] == v.length
            &&& b.subrange(2, 2 + v.value@.len() as int) == v.value@
            &&& b.subrange(2 + v.value@.len() as int, b.len() as int) == rest
        }),
{
    let b = enc_identifier(v) + rest;
    assert(b.subrange(2, 2 + v.value@.len() as int) =~= v.value@);
    assert(b.subrange(2 + v.value@.len() as int, b.len() as int) =~= rest);
}

// the encoding is injective on valid identifiers, even when followed by arbitrary bytes (prefix-freeness): two valid
// identifiers whose encodings start the same buffer are equal
pub proof fn lemma_identifier_prefix_free(a: Identifier, ra: Seq<u8>, b: Identifier, rb: Seq<u8>)
    requires id_valid(a), id_valid(b), enc_identifier(a) + ra == enc_identifier(b) + rb,
    ensures id_eq(a, b), ra == rb,
{
    lemma_identifier_layout(a, ra);
    lemma_identifier_layout(b, rb);
    lemma_idkind_code_injective();
}

pub proof fn lemma_consumer_layout(v: Consumer, rest: Seq<u8>)
    ensures
        ({
            let b = enc_consumer(v) + rest;
            &&& enc_consumer(v).len() == 3 + v.id.value@.len()
            &&& b.len() == 3 + v.id.value@.len() + rest.len()
            &&& b[0] == consumerkind_code(v.kind)
            &&& b.subrange(1, b.len() as int) == enc_identifier(v.id) + rest
        }),
{
    let b = enc_consumer(v) + rest;
    assert(b.subrange(1, b.len() as int) =~= enc_identifier(v.id) + rest);
}

pub proof fn lemma_partitioning_layout(v: Partitioning, rest: Seq<u8>)
    ensures
        ({
            let b = enc_partitioning(v) + rest;
            &&& enc_partitioning(v).len() == 2 + v.value@.len()
            &&& b.len() == 2 + v.value@.len() + rest.len()
            &&& b[0] == partitioningkind_code(v.kind)
            &&& b[1] == v.length
            &&& b.subrange(2, 2 + v.value@.len() as int) == v.value@
            &&& b.subrange(2 + v.value@.len() as int, b.len() as int) == rest
        }),
{
    let b = enc_partitioning(v) + rest;
    assert(b.subrange(2, 2 + v.value@.len() as int) =~= v.value@);
    assert(b.subrange(2 + v.value@.len() as int, b.len() as int) =~= rest);
}

pub proof fn lemma_strategy_layout(v: PollingStrategy)
    ensures
        enc_strategy(v).len() == 9,
        enc_strategy(v)[0] == pollingkind_code(v.kind),
        enc_strategy(v).subrange(1, 9) == le64(v.value),
{
    lemma_le_facts();
    assert(enc_strategy(v).subrange(1, 9) =~= le64(v.value));
}

pub proof fn lemma_consumer_prefix_free(a: Consumer, ra: Seq<u8>, b: Consumer, rb: Seq<u8>)
    requires consumer_valid(a), consumer_valid(b), enc_consumer(a) + ra == enc_consumer(b) + rb,
    ensures consumer_eq(a, b), ra == rb,
{
    lemma_consumer_layout(a, ra);
    lemma_consumer_layout(b, rb);
    lemma_consumerkind_code_injective();
    lemma_identifier_prefix_free(a.id, ra, b.id, rb);
}

pub proof fn lemma_partitioning_prefix_free(a: Partitioning, ra: Seq<u8>, b: Partitioning, rb: Seq<u8>)
    requires part_valid(a), part_valid(b), enc_partitioning(a) + ra == enc_partitioning(b) + rb,
    ensures part_eq(a, b), ra == rb,
{
    lemma_partitioning_layout(a, ra);
    lemma_partitioning_layout(b, rb);
    lemma_partitioningkind_code_injective();
}

pub proof fn lemma_strategy_injective(a: PollingStrategy, b: PollingStrategy)
    requires enc_strategy(a) == enc_strategy(b),
    ensures a == b,
{
    lemma_strategy_layout(a);
    lemma_strategy_layout(b);
    lemma_pollingkind_code_injective();
    lemma_le_facts();
}
