// ---- text prelude: `String` / `str` as their UTF-8 bytes (rule R4, assumption class A-std(str)) --------------------------
// `Text` stands for String AND str (typemap `String` -> `Text`, `str` -> `Text`; a `&str` is a `&Text`). Its view is the byte
// sequence of the UTF-8 encoding, which is what `len()`, `as_bytes()` and the wire formats talk about.
//   * every Rust string is valid UTF-8 (type invariant of str/String): `axiom_text_utf8`
//   * `std::str::from_utf8(b)` is Ok(the same bytes) iff `utf8(b)`; `utf8` itself is uninterpreted (nothing about the
//     shape of UTF-8 is needed: a name that went out of a String comes back as that String)
#[verifier::external_body]
pub struct Text { b: Vec<u8> }

impl View for Text {
    type V = Seq<u8>;
    uninterp spec fn view(&self) -> Seq<u8>;
}
pub uninterp spec fn utf8(s: Seq<u8>) -> bool;

// the str/String type invariant
#[verifier::external_body]
pub proof fn axiom_text_utf8(t: Text)
    ensures utf8(t@),
{}

pub struct Utf8Error { pub p: u8 }

// std::str::from_utf8 (imported under this name by the SDK files)
#[verifier::external_body]
pub fn from_utf8<'a>(v: &'a [u8]) -> (r: Result<&'a Text, Utf8Error>)
    ensures
        utf8(v@) ==> (r matches Ok(t) && t@ == v@),
        !utf8(v@) ==> r is Err,
{ unimplemented!() }

impl Text {
    #[verifier::external_body]
    pub fn len(&self) -> (r: usize)
        ensures r == self@.len(),
    { unimplemented!() }

    #[verifier::external_body]
    pub fn is_empty(&self) -> (r: bool)
        ensures r == (self@.len() == 0),
    { unimplemented!() }

    #[verifier::external_body]
    pub fn as_bytes(&self) -> (r: &[u8])
        ensures r@ == self@,
    { unimplemented!() }

    // str::to_string / String::clone: an owned copy of the same text
    #[verifier::external_body]
    pub fn to_string(&self) -> (r: Text)
        ensures r@ == self@,
    { unimplemented!() }

    #[verifier::external_body]
    pub fn clone(&self) -> (r: Text)
        ensures r@ == self@,
    { unimplemented!() }
}
