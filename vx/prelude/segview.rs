// ---- shared view of segments and partitions (storage units) ----

pub open spec fn acc_wf(a: &BatchAccumulator) -> bool {
    a.messages@.len() > 0 ==> {
        &&& contig(a.messages@, a.base_offset as int)
        &&& a.current_offset == a.messages@.last().offset
        &&& a.current_timestamp == a.messages@.last().timestamp
    }
}

// --- configuration (only the fields the extracted functions read; all symbolic) ---
// (PartitionConfig / SegmentConfig / SystemConfig are extracted from server/src/configs/system.rs with keep-lists, R12)
#[derive(Clone, Copy)]
pub enum IggyExpiry { ServerDefault, ExpireDuration(u64), NeverExpire }

// --- one stored batch as the log file holds it (header + messages) ---
pub struct BatchV { pub base: int, pub delta: int, pub max_ts: int, pub msgs: Seq<RetainedMessage> }
pub open spec fn batch_view(b: &RetainedMessageBatch) -> BatchV {
    BatchV { base: b.base_offset as int, delta: b.last_offset_delta as int, max_ts: b.max_timestamp as int, msgs: b.bytes.msgs() }
}
pub open spec fn batch_wf(b: BatchV) -> bool {
    b.msgs.len() > 0 && contig(b.msgs, b.base) && b.base + b.delta == b.msgs.last().offset
}
pub open spec fn flat(f: Seq<BatchV>) -> Seq<RetainedMessage>
    decreases f.len(),
{
    if f.len() == 0 { Seq::empty() } else { flat(f.drop_last()) + f.last().msgs }
}

pub proof fn lemma_flat_push(f: Seq<BatchV>, b: BatchV)
    ensures flat(f.push(b)) == flat(f) + b.msgs,
{
    assert(f.push(b).drop_last() =~= f);
}

// --- file handles (A-io): the log file is an append-only sequence of batches, the index file of records ---
#[verifier::external_body]
pub struct SegmentLogWriter { x: u8 }
impl SegmentLogWriter {
    pub uninterp spec fn file(&self) -> Seq<BatchV>;
    // SegmentLogWriter::save_batches — Ok: exactly this batch appended (Wait: written; NoWait: queued to the
    // persister task, assumed drained in order — A-io); Err: nothing appended.
    // The Ok clause (Wait) is PROVED in unit log_writer on the real `save_batches` / `write_batch` / `write_all_vectored`, relative to
    // the true contract of ONE file write (a write may take only a prefix): [C04.publish] (file grew by exactly header ++ bytes, published
    // size and returned size grew by exactly that), harness [C04.publish.stub] + lemma [C04.publish.seq] (the same statement in the
    // record-level shape used here). Err there is byte-level: old content ++ a PREFIX of this record, published size unchanged
    // ([C04.publish.err]) — "nothing appended" here means: no complete record. NoWait: [C04.nowait.queue], persister [C04.persist.*].
    #[verifier::external_body]
    pub fn save_batches(&mut self, batch: RetainedMessageBatch, confirmation: Confirmation) -> (r: Result<u64, IggyError>)
        ensures
            r is Ok ==> final(self).file() == old(self).file().push(batch_view(&batch)) && r->Ok_0 == batch.length + RETAINED_BATCH_HEADER_LEN,
            r is Err ==> final(self).file() == old(self).file(),
    { unimplemented!() }
}
#[verifier::external_body]
pub struct SegmentLogReader { x: u8 }
impl SegmentLogReader {
    pub uninterp spec fn file(&self) -> Seq<BatchV>;
}
#[verifier::external_body]
pub struct SegmentIndexWriter { x: u8 }
impl SegmentIndexWriter {
    pub uninterp spec fn idx(&self) -> Seq<Index>;
    #[verifier::external_body]
    pub fn save_index(&mut self, index: Index) -> (r: Result<(), IggyError>)
        ensures
            r is Ok ==> final(self).idx() == old(self).idx().push(index),
            r is Err ==> final(self).idx() == old(self).idx(),
    { unimplemented!() }
}

// --- segment view ---
pub open spec fn seg_buf(s: &Segment) -> Seq<RetainedMessage> {
    match s.unsaved_messages { Some(a) => a.messages@, None => Seq::empty() }
}
// A-io: reader and writer of a segment are handles on the same file. While the segment is open the file is viewed
// through the writer; when the writer is handed to the closing task (shutdown_writing) the reader is what is left.
pub open spec fn seg_disk(s: &Segment) -> Seq<BatchV> {
    if s.log_writer is Some { s.log_writer->0.file() } else { s.log_reader->0.file() }
}
pub open spec fn seg_msgs(s: &Segment) -> Seq<RetainedMessage> { flat(seg_disk(s)) + seg_buf(s) }

// open (writable) segment invariant
pub open spec fn seg_wf(s: &Segment) -> bool {
    &&& !s.is_closed
    &&& s.log_writer is Some && s.index_writer is Some && s.log_reader is Some
    &&& s.unsaved_messages is Some ==> acc_wf(&s.unsaved_messages->0)
    &&& contig(seg_msgs(s), s.start_offset as int)
    &&& s.start_offset + seg_msgs(s).len() <= u64::MAX + 1
    &&& seg_msgs(s).len() > 0 ==> s.current_offset == seg_msgs(s).last().offset
    &&& seg_msgs(s).len() == 0 ==> s.current_offset == s.start_offset
    &&& forall|i: int| 0 <= i < seg_disk(s).len() ==> batch_wf(#[trigger] seg_disk(s)[i])
    &&& s.index_writer->0.idx().len() == seg_disk(s).len()
    &&& forall|i: int| 0 <= i < seg_disk(s).len() ==>
            (#[trigger] s.index_writer->0.idx()[i]).offset == seg_disk(s)[i].base + seg_disk(s)[i].delta - s.start_offset
}


// --- moka cache of seen message ids (A-dep moka): a set, within the configured capacity and TTL ---
#[verifier::external_body]
pub struct MokaCache { x: u8 }
impl MokaCache {
    pub uninterp spec fn seen(&self) -> Set<u128>;
    #[verifier::external_body]
    pub fn contains_key(&self, id: &u128) -> (r: bool) ensures r == self.seen().contains(*id), { unimplemented!() }
    #[verifier::external_body]
    pub fn insert(&mut self, id: u128, v: bool) ensures final(self).seen() == old(self).seen().insert(id), { unimplemented!() }
}
// in-memory message cache of the partition (C02's business): opaque here
#[verifier::external_body]
pub struct SmartCache { x: u8 }
impl SmartCache {
    #[verifier::external_body]
    pub fn extend(&mut self, msgs: Vec<RetainedMessage>) { unimplemented!() }
}

// --- partition view ---
pub open spec fn next_offset(p: &Partition) -> int {
    if p.should_increment_offset { p.current_offset + 1 } else { 0 }
}
pub open spec fn last_seg(p: &Partition) -> &Segment { &p.segments@[p.segments@.len() - 1] }

// What the send path needs of the partition: the last segment is where the next offset goes.
//  - open last segment: well-formed, and the offset after its last message is next_offset(p)
//  - closed last segment: next_offset(p) follows its end_offset (roll-over creates the successor there)
pub open spec fn part_wf(p: &Partition) -> bool {
    &&& p.segments@.len() >= 1
    &&& !last_seg(p).is_closed ==> seg_wf(last_seg(p)) && last_seg(p).start_offset + seg_msgs(last_seg(p)).len() == next_offset(p)
    &&& last_seg(p).is_closed ==> last_seg(p).end_offset + 1 == next_offset(p) && last_seg(p).start_offset <= last_seg(p).end_offset
            && last_seg(p).unsaved_messages is None && last_seg(p).end_offset == last_seg(p).current_offset
    &&& forall|i: int| 0 <= i < p.segments@.len() - 1 ==> (#[trigger] p.segments@[i]).start_offset < next_offset(p)
    &&& last_seg(p).start_offset <= next_offset(p)
    // segments are kept sorted by start offset (add_persisted_segment sorts the whole vector: [C14.off.add.last] of unit
    // retention proves "the new segment lands last with the prefix unchanged" only for a sorted vector)
    &&& segs_sorted_strict(p.segments@)
    // the unsaved-messages counter is zero only when nothing is buffered (flush relies on it)
    &&& (!last_seg(p).is_closed && p.unsaved_messages_count == 0) ==> seg_buf(last_seg(p)).len() == 0
}
pub open spec fn segs_sorted_strict(s: Seq<Segment>) -> bool {
    forall|i: int, j: int| 0 <= i < j < s.len() ==> (#[trigger] s[i]).start_offset < (#[trigger] s[j]).start_offset
}
pub open spec fn flush_measure(s: &Segment) -> nat {
    if s.unsaved_messages is None { 0 } else if seg_buf(s).len() == 0 { 1 } else { 2 }
}

// every message of a segment, wherever it lives
pub open spec fn seg_all(s: &Segment) -> Seq<RetainedMessage> { flat(seg_disk(s)) + seg_buf(s) }

// the six shared counter cells of a segment keep their identity (no operation re-wires them)
pub open spec fn same_cells(a: &Segment, b: &Segment) -> bool {
    a.size_of_parent_stream.cid == b.size_of_parent_stream.cid && a.size_of_parent_topic.cid == b.size_of_parent_topic.cid
    && a.size_of_parent_partition.cid == b.size_of_parent_partition.cid
    && a.messages_count_of_parent_stream.cid == b.messages_count_of_parent_stream.cid
    && a.messages_count_of_parent_topic.cid == b.messages_count_of_parent_topic.cid
    && a.messages_count_of_parent_partition.cid == b.messages_count_of_parent_partition.cid
}
