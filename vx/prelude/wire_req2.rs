// ---- wire_req2 prelude (C13, unit codec_requests2): stand-ins and wire specification shared by the second batch of
// request codecs. Requires vx/prelude/{bytes,text,wire_core}.rs. No body of /repo is re-typed here.
// (The Permissions codec specification is in vx/prelude/wire_perm.rs so that other units can include it alone.)

// ---- IggyDuration (sdk/src/utils/duration.rs: a wrapper of std::time::Duration) ---------------------------------------------------
// A std Duration is a whole number of nanoseconds (secs: u64, subsec nanos < 10^9; derived Eq compares both, i.e. the total).
// Stand-in: that total. Assumed (documented std semantics, A-std): Duration::from_micros(m) is m*1000 ns; as_micros() is the
// total divided by 1000, rounded down (u128); the SDK's `as u64` keeps the low 64 bits.
#[derive(Clone, Copy)]
pub struct IggyDuration { pub nanos: u128 }
pub open spec fn dur_from_micros(m: u64) -> IggyDuration { IggyDuration { nanos: (m as int * 1000) as u128 } }
pub open spec fn dur_micros(d: IggyDuration) -> u64 { ((d.nanos as int / 1000) % 0x1_0000_0000_0000_0000) as u64 }
// a duration the wire can carry exactly: a whole number of microseconds that fits into 64 bits
pub open spec fn dur_whole_micros(d: IggyDuration) -> bool { d.nanos as int % 1000 == 0 && d.nanos as int / 1000 <= u64::MAX as int }
impl IggyDuration {
    #[verifier::external_body]
    pub fn as_micros(&self) -> (r: u64)
        ensures r == dur_micros(*self),
    { unimplemented!() }
}
impl From<u64> for IggyDuration {
    #[verifier::external_body]
    fn from(value: u64) -> (r: Self)
        ensures r == dur_from_micros(value),
    { unimplemented!() }
}
impl vstd::std_specs::convert::FromSpecImpl<u64> for IggyDuration {
    open spec fn obeys_from_spec() -> bool { true }
    open spec fn from_spec(v: u64) -> Self { dur_from_micros(v) }
}
pub proof fn lemma_dur_roundtrip(d: IggyDuration)
    ensures
        dur_whole_micros(d) ==> dur_from_micros(dur_micros(d)) == d,
        forall|m: u64| dur_micros(#[trigger] dur_from_micros(m)) == m && dur_whole_micros(dur_from_micros(m)),
{
}

// derived PartialEq on field-less enums is structural equality (A-std)
impl vstd::std_specs::cmp::PartialEqSpecImpl for CompressionAlgorithm {
    open spec fn obeys_eq_spec() -> bool { true }
    open spec fn eq_spec(&self, other: &CompressionAlgorithm) -> bool { *self == *other }
}

// ---- wire values of the topic configuration fields (specification) ------------------------------------------------------------------
// compression algorithm: one byte, 1 = none, 2 = gzip
pub open spec fn compression_code(c: CompressionAlgorithm) -> u8 { match c { CompressionAlgorithm::None => 1, CompressionAlgorithm::Gzip => 2 } }
// message expiry: u64 microseconds; 0 = "server default", u64::MAX = "never expire"
pub open spec fn expiry_wire(e: IggyExpiry) -> u64 {
    match e { IggyExpiry::ServerDefault => 0, IggyExpiry::NeverExpire => u64::MAX, IggyExpiry::ExpireDuration(d) => dur_micros(d) }
}
pub open spec fn expiry_of_wire(w: u64) -> IggyExpiry {
    if w == u64::MAX { IggyExpiry::NeverExpire } else if w == 0 { IggyExpiry::ServerDefault } else { IggyExpiry::ExpireDuration(dur_from_micros(w)) }
}
// representable expiries: a duration must be a whole number of microseconds and must not collide with the two sentinels
pub open spec fn expiry_valid(e: IggyExpiry) -> bool {
    e matches IggyExpiry::ExpireDuration(d) ==> dur_whole_micros(d) && 0 < dur_micros(d) < u64::MAX
}
// max topic size: u64 bytes; 0 = "server default", u64::MAX = "unlimited"
pub open spec fn size_wire(s: MaxTopicSize) -> u64 {
    match s { MaxTopicSize::ServerDefault => 0, MaxTopicSize::Unlimited => u64::MAX, MaxTopicSize::Custom(b) => b.0 }
}
pub open spec fn size_of_wire(w: u64) -> MaxTopicSize {
    if w == 0 { MaxTopicSize::ServerDefault } else if w == u64::MAX { MaxTopicSize::Unlimited } else { MaxTopicSize::Custom(IggyByteSize(w)) }
}
pub open spec fn size_valid(s: MaxTopicSize) -> bool { s matches MaxTopicSize::Custom(b) ==> 0 < b.0 < u64::MAX }

// trait glue: `x.into()` / `T::from(x)` in extracted code resolve to the EXTRACTED conversion functions (contracts.vspec)
impl From<u64> for IggyExpiry {
    fn from(value: u64) -> (r: Self) ensures r == expiry_of_wire(value), { IggyExpiry::from_u64(value) }
}
impl vstd::std_specs::convert::FromSpecImpl<u64> for IggyExpiry {
    open spec fn obeys_from_spec() -> bool { true }
    open spec fn from_spec(v: u64) -> Self { expiry_of_wire(v) }
}
impl From<IggyExpiry> for u64 {
    fn from(val: IggyExpiry) -> (r: u64) ensures r == expiry_wire(val), { u64_from_expiry(val) }
}
impl vstd::std_specs::convert::FromSpecImpl<IggyExpiry> for u64 {
    open spec fn obeys_from_spec() -> bool { true }
    open spec fn from_spec(v: IggyExpiry) -> u64 { expiry_wire(v) }
}
impl From<u64> for MaxTopicSize {
    fn from(value: u64) -> (r: Self) ensures r == size_of_wire(value), { MaxTopicSize::from_u64(value) }
}
impl vstd::std_specs::convert::FromSpecImpl<u64> for MaxTopicSize {
    open spec fn obeys_from_spec() -> bool { true }
    open spec fn from_spec(v: u64) -> Self { size_of_wire(v) }
}
impl From<MaxTopicSize> for u64 {
    fn from(value: MaxTopicSize) -> (r: u64) ensures r == size_wire(value), { u64_from_max_topic_size(value) }
}
impl vstd::std_specs::convert::FromSpecImpl<MaxTopicSize> for u64 {
    open spec fn obeys_from_spec() -> bool { true }
    open spec fn from_spec(v: MaxTopicSize) -> u64 { size_wire(v) }
}

// ---- additions to the byte model needed by the user/token codecs (additive; vx/prelude/bytes.rs itself is unchanged) ---------------
// `&bytes[a..=b]` (RangeInclusive): panics unless a <= b + 1 and b < len; yields the sub-sequence a..b+1
impl vstd::std_specs::core::IndexSpecImpl<core::ops::RangeInclusive<usize>> for ByteSeq {
    open spec fn index_req(&self, i: &core::ops::RangeInclusive<usize>) -> bool { !i@.exhausted && i@.start <= i@.end + 1 && i@.end < self@.len() }
}
impl core::ops::Index<core::ops::RangeInclusive<usize>> for ByteSeq {
    type Output = [u8];
    #[verifier::external_body]
    fn index(&self, i: core::ops::RangeInclusive<usize>) -> (r: &[u8])
        ensures r@ == self@.subrange(i@.start as int, i@.end as int + 1),
    { unimplemented!() }
}
// `Bytes: Deref<Target = [u8]>`: a `&Bytes` is accepted where a `&[u8]` is expected (e.g. `from_utf8(&bytes.slice(a..b))`)
impl core::ops::Deref for ByteSeq {
    type Target = [u8];
    #[verifier::external_body]
    fn deref(&self) -> (r: &[u8])
        ensures r@ == self@,
    { unimplemented!() }
}

impl vstd::std_specs::cmp::PartialEqSpecImpl for UserStatus {
    open spec fn obeys_eq_spec() -> bool { true }
    open spec fn eq_spec(&self, other: &UserStatus) -> bool { *self == *other }
}
// user status: one byte, 1 = active, 2 = inactive
pub open spec fn status_code(s: UserStatus) -> u8 { match s { UserStatus::Active => 1, UserStatus::Inactive => 2 } }

// `SLICE.try_into().unwrap()` (UpdatePermissions::from_bytes): Result::unwrap needs `E: Debug` (formatting only, no run-time meaning here)
#[verifier::external]
impl core::fmt::Debug for TryFromSliceError {
    fn fmt(&self, f: &mut core::fmt::Formatter<'_>) -> core::fmt::Result { Ok(()) }
}

// `bytes.as_ref()` (Bytes: AsRef<[u8]>): the content as a slice
impl ByteSeq {
    #[verifier::external_body]
    pub fn as_ref(&self) -> (r: &[u8])
        ensures r@ == self@,
    { unimplemented!() }
}

// ---- Message framing (sdk/src/messages/send_messages.rs `Message`): stand-ins -------------------------------------------------------------
// The user-headers map `HashMap<HeaderKey, HeaderValue>` is OPAQUE here (typemap -> `Headers`); its codec pair is under contract in
// unit codec_headers (spec vx/prelude/wire_headers.rs). What this unit ASSUMES about it is exactly what codec_headers proves
// ([C13.enc.Headers], [C13.enc.Headers.order], [C13.rt.Headers], "an empty map is the empty byte string", "every entry has at
// least 9 bytes"), restated over an abstract content `HdrAbs`:
#[verifier::external_body]
pub struct Headers { p: u8 }
#[verifier::external_body]
pub struct HdrAbs { p: u8 }
pub uninterp spec fn hdr_view(h: Headers) -> HdrAbs;                 // the map's content (codec_headers: hmap_view)
pub uninterp spec fn hdr_valid(h: Headers) -> bool;                  // keys/values 1..=255 bytes (codec_headers: hmap_valid)
pub uninterp spec fn hdr_enc_ok(a: HdrAbs, b: Seq<u8>) -> bool;      // "b is an encoding of a" for SOME entry order
pub uninterp spec fn hdr_bytes(h: Headers) -> Seq<u8>;               // the encoding in this map object's iteration order
pub uninterp spec fn hdr_none() -> HdrAbs;                           // the content without entries
impl Headers {
    #[verifier::external_body]
    pub fn to_bytes(&self) -> (r: ByteSeq)
        ensures r@ == hdr_bytes(*self), hdr_valid(*self) ==> hdr_enc_ok(hdr_view(*self), r@),
    { unimplemented!() }
    #[verifier::external_body]
    pub fn from_bytes(bytes: ByteSeq) -> (r: Result<Headers, IggyError>)
        requires exists|a: HdrAbs| hdr_enc_ok(a, bytes@),
        ensures forall|a: HdrAbs| hdr_enc_ok(a, bytes@) ==> (r matches Ok(m) && hdr_view(m) == a),
    { unimplemented!() }
}
// the empty byte string is the encoding of the empty content and of nothing else; nothing else encodes to it
#[verifier::external_body]
pub proof fn axiom_hdr_empty()
    ensures
        hdr_enc_ok(hdr_none(), Seq::<u8>::empty()),
        forall|a: HdrAbs, b: Seq<u8>| #[trigger] hdr_enc_ok(a, b) ==> (b.len() == 0 <==> a == hdr_none()),
{}
// uuid::Uuid::now_v7().to_u128_le(): some fresh id (nothing is known about it)
pub struct Uuid { pub p: u8 }
impl Uuid {
    #[verifier::external_body]
    pub fn now_v7() -> (r: Uuid) { unimplemented!() }
    #[verifier::external_body]
    pub fn to_u128_le(&self) -> (r: u128) { unimplemented!() }
}
