// ---- wire_req2 prelude (C13, unit codec_requests2): stand-ins and wire specification shared by the second batch of
// request codecs. Requires vx/prelude/{bytes,text,wire_core}.rs. No body of /repo is re-typed here.

// ---- IggyDuration (sdk/src/utils/duration.rs: a wrapper of std::time::Duration) ---------------------------------------------------
// A std Duration is a whole number of nanoseconds (secs: u64, subsec nanos < 10^9; derived Eq compares both, i.e. the total).
// Stand-in: that total. Assumed (documented std semantics, A-std): Duration::from_micros(m) is m*1000 ns; as_micros() is the
// total divided by 1000, rounded down (u128); the SDK's `as u64` keeps the low 64 bits.
#[derive(Clone, Copy)]
pub struct IggyDuration { pub nanos: u128 }
pub open spec fn dur_from_micros(m: u64) -> IggyDuration { IggyDuration { nanos: (m as int * 1000) as u128 } }
pub open spec fn dur_micros(d: IggyDuration) -> u64 { ((d.nanos as int / 1000) % 0x1_0000_0000_0000_0000) as u64 }
// a duration the wire can carry exactly: a whole number of microseconds that fits into 64 bits
pub open spec fn dur_whole_micros(d: IggyDuration) -> bool { d.nanos as int % 1000 == 0 && d.nanos as int / 1000 <= u64::MAX as int }
impl IggyDuration {
    #[verifier::external_body]
    pub fn as_micros(&self) -> (r: u64)
        ensures r == dur_micros(*self),
    { unimplemented!() }
}
impl From<u64> for IggyDuration {
    #[verifier::external_body]
    fn from(value: u64) -> (r: Self)
        ensures r == dur_from_micros(value),
    { unimplemented!() }
}
impl vstd::std_specs::convert::FromSpecImpl<u64> for IggyDuration {
    open spec fn obeys_from_spec() -> bool { true }
    open spec fn from_spec(v: u64) -> Self { dur_from_micros(v) }
}
pub proof fn lemma_dur_roundtrip(d: IggyDuration)
    ensures
        dur_whole_micros(d) ==> dur_from_micros(dur_micros(d)) == d,
        forall|m: u64| dur_micros(#[trigger] dur_from_micros(m)) == m && dur_whole_micros(dur_from_micros(m)),
{
}

// derived PartialEq on field-less enums is structural equality (A-std)
impl vstd::std_specs::cmp::PartialEqSpecImpl for CompressionAlgorithm {
    open spec fn obeys_eq_spec() -> bool { true }
    open spec fn eq_spec(&self, other: &CompressionAlgorithm) -> bool { *self == *other }
}

// ---- wire values of the topic configuration fields (specification) ------------------------------------------------------------------
// compression algorithm: one byte, 1 = none, 2 = gzip
pub open spec fn compression_code(c: CompressionAlgorithm) -> u8 { match c { CompressionAlgorithm::None => 1, CompressionAlgorithm::Gzip => 2 } }
// message expiry: u64 microseconds; 0 = "server default", u64::MAX = "never expire"
pub open spec fn expiry_wire(e: IggyExpiry) -> u64 {
    match e { IggyExpiry::ServerDefault => 0, IggyExpiry::NeverExpire => u64::MAX, IggyExpiry::ExpireDuration(d) => dur_micros(d) }
}
pub open spec fn expiry_of_wire(w: u64) -> IggyExpiry {
    if w == u64::MAX { IggyExpiry::NeverExpire } else if w == 0 { IggyExpiry::ServerDefault } else { IggyExpiry::ExpireDuration(dur_from_micros(w)) }
}
// representable expiries: a duration must be a whole number of microseconds and must not collide with the two sentinels
pub open spec fn expiry_valid(e: IggyExpiry) -> bool {
    e matches IggyExpiry::ExpireDuration(d) ==> dur_whole_micros(d) && 0 < dur_micros(d) < u64::MAX
}
// max topic size: u64 bytes; 0 = "server default", u64::MAX = "unlimited"
pub open spec fn size_wire(s: MaxTopicSize) -> u64 {
    match s { MaxTopicSize::ServerDefault => 0, MaxTopicSize::Unlimited => u64::MAX, MaxTopicSize::Custom(b) => b.0 }
}
pub open spec fn size_of_wire(w: u64) -> MaxTopicSize {
    if w == 0 { MaxTopicSize::ServerDefault } else if w == u64::MAX { MaxTopicSize::Unlimited } else { MaxTopicSize::Custom(IggyByteSize(w)) }
}
pub open spec fn size_valid(s: MaxTopicSize) -> bool { s matches MaxTopicSize::Custom(b) ==> 0 < b.0 < u64::MAX }

// trait glue: `x.into()` / `T::from(x)` in extracted code resolve to the EXTRACTED conversion functions (contracts.vspec)
impl From<u64> for IggyExpiry {
    fn from(value: u64) -> (r: Self) ensures r == expiry_of_wire(value), { IggyExpiry::from_u64(value) }
}
impl vstd::std_specs::convert::FromSpecImpl<u64> for IggyExpiry {
    open spec fn obeys_from_spec() -> bool { true }
    open spec fn from_spec(v: u64) -> Self { expiry_of_wire(v) }
}
impl From<IggyExpiry> for u64 {
    fn from(val: IggyExpiry) -> (r: u64) ensures r == expiry_wire(val), { u64_from_expiry(val) }
}
impl vstd::std_specs::convert::FromSpecImpl<IggyExpiry> for u64 {
    open spec fn obeys_from_spec() -> bool { true }
    open spec fn from_spec(v: IggyExpiry) -> u64 { expiry_wire(v) }
}
impl From<u64> for MaxTopicSize {
    fn from(value: u64) -> (r: Self) ensures r == size_of_wire(value), { MaxTopicSize::from_u64(value) }
}
impl vstd::std_specs::convert::FromSpecImpl<u64> for MaxTopicSize {
    open spec fn obeys_from_spec() -> bool { true }
    open spec fn from_spec(v: u64) -> Self { size_of_wire(v) }
}
impl From<MaxTopicSize> for u64 {
    fn from(value: MaxTopicSize) -> (r: u64) ensures r == size_wire(value), { u64_from_max_topic_size(value) }
}
impl vstd::std_specs::convert::FromSpecImpl<MaxTopicSize> for u64 {
    open spec fn obeys_from_spec() -> bool { true }
    open spec fn from_spec(v: MaxTopicSize) -> u64 { size_wire(v) }
}

// ---- additions to the byte model needed by the user/token codecs (additive; vx/prelude/bytes.rs itself is unchanged) ---------------
// `&bytes[a..=b]` (RangeInclusive): panics unless a <= b + 1 and b < len; yields the sub-sequence a..b+1
impl vstd::std_specs::core::IndexSpecImpl<core::ops::RangeInclusive<usize>> for ByteSeq {
    open spec fn index_req(&self, i: &core::ops::RangeInclusive<usize>) -> bool { !i@.exhausted && i@.start <= i@.end + 1 && i@.end < self@.len() }
}
impl core::ops::Index<core::ops::RangeInclusive<usize>> for ByteSeq {
    type Output = [u8];
    #[verifier::external_body]
    fn index(&self, i: core::ops::RangeInclusive<usize>) -> (r: &[u8])
        ensures r@ == self@.subrange(i@.start as int, i@.end as int + 1),
    { unimplemented!() }
}
// `Bytes: Deref<Target = [u8]>`: a `&Bytes` is accepted where a `&[u8]` is expected (e.g. `from_utf8(&bytes.slice(a..b))`)
impl core::ops::Deref for ByteSeq {
    type Target = [u8];
    #[verifier::external_body]
    fn deref(&self) -> (r: &[u8])
        ensures r@ == self@,
    { unimplemented!() }
}

impl vstd::std_specs::cmp::PartialEqSpecImpl for UserStatus {
    open spec fn obeys_eq_spec() -> bool { true }
    open spec fn eq_spec(&self, other: &UserStatus) -> bool { *self == *other }
}
// user status: one byte, 1 = active, 2 = inactive
pub open spec fn status_code(s: UserStatus) -> u8 { match s { UserStatus::Active => 1, UserStatus::Inactive => 2 } }

// ---- Permissions (sdk/src/models/permissions.rs): mathematical view and wire format ------------------------------------------------------
// Requires vx/prelude/{common,mapiter}.rs (HashMap stand-in; iteration order = `key_order()`, an uninterpreted attribute of the map
// object) and the extracted types Permissions, GlobalPermissions, StreamPermissions, TopicPermissions.
// View: the nested hash maps as mathematical maps; an ABSENT map and an EMPTY map are the same view (no entries).
pub ghost struct StreamV {
    pub manage_stream: bool, pub read_stream: bool, pub manage_topics: bool, pub read_topics: bool, pub poll_messages: bool, pub send_messages: bool,
    pub topics: Map<u32, TopicPermissions>,
}
pub ghost struct PermV { pub global: GlobalPermissions, pub streams: Map<u32, StreamV> }
pub open spec fn topics_view(o: Option<HashMap<u32, TopicPermissions>>) -> Map<u32, TopicPermissions> { match o { None => Map::empty(), Some(m) => m@ } }
pub open spec fn stream_view(s: StreamPermissions) -> StreamV {
    StreamV { manage_stream: s.manage_stream, read_stream: s.read_stream, manage_topics: s.manage_topics, read_topics: s.read_topics,
              poll_messages: s.poll_messages, send_messages: s.send_messages, topics: topics_view(s.topics) }
}
pub open spec fn streams_view(o: Option<HashMap<u32, StreamPermissions>>) -> Map<u32, StreamV> {
    match o { None => Map::empty(), Some(m) => Map::new(m@.dom(), |k: u32| stream_view(m@[k])) }
}
pub open spec fn perm_view(p: Permissions) -> PermV { PermV { global: p.global, streams: streams_view(p.streams) } }
// equality of two Permissions values "as maps": equal global permissions, equal stream/topic maps with equal entries
pub open spec fn perm_eq(a: Permissions, b: Permissions) -> bool { perm_view(a) =~~= perm_view(b) }

// wire format. One byte per flag (1 = set).
//   Permissions:  10 global flags | has_streams:u8 [| stream entry (| 1 | stream entry)* | 0]
//   stream entry: stream_id:u32 | 6 flags | has_topics:u8 [| topic entry (| 1 | topic entry)* | 0]
//   topic entry:  topic_id:u32 | 4 flags
// i.e. every entry is followed by a continuation byte (1 = another entry follows); `has_* = 1` promises at least one entry, so a
// map without entries is encoded as has_* = 0. The entry order is not part of the format: `os` / `ot[k]` name the order used.
pub open spec fn flag(b: bool) -> u8 { if b { 1 } else { 0 } }
// (written as successive one-byte appends: `s.push(x)` is "s followed by the byte x")
pub open spec fn enc_global(g: GlobalPermissions) -> Seq<u8> {
    Seq::<u8>::empty().push(flag(g.manage_servers)).push(flag(g.read_servers)).push(flag(g.manage_users)).push(flag(g.read_users))
        .push(flag(g.manage_streams)).push(flag(g.read_streams)).push(flag(g.manage_topics)).push(flag(g.read_topics))
        .push(flag(g.poll_messages)).push(flag(g.send_messages))
}
pub open spec fn enc_topic_entry(k: u32, t: TopicPermissions, more: bool) -> Seq<u8> {
    le32(k).push(flag(t.manage_topic)).push(flag(t.read_topic)).push(flag(t.poll_messages)).push(flag(t.send_messages)).push(flag(more))
}
pub open spec fn enc_topics_from(m: Map<u32, TopicPermissions>, ord: Seq<u32>, i: int) -> Seq<u8>
    decreases ord.len() - i
{
    if i < 0 || i >= ord.len() { Seq::<u8>::empty() }
    else { enc_topic_entry(ord[i], m[ord[i]], i + 1 < ord.len()) + enc_topics_from(m, ord, i + 1) }
}
pub open spec fn enc_topics(m: Map<u32, TopicPermissions>, ord: Seq<u32>) -> Seq<u8> {
    if ord.len() == 0 { seq![0u8] } else { seq![1u8] + enc_topics_from(m, ord, 0) }
}
pub open spec fn enc_stream_head(k: u32, s: StreamV) -> Seq<u8> {
    le32(k).push(flag(s.manage_stream)).push(flag(s.read_stream)).push(flag(s.manage_topics)).push(flag(s.read_topics))
        .push(flag(s.poll_messages)).push(flag(s.send_messages))
}
pub open spec fn enc_stream_entry(k: u32, s: StreamV, ord_t: Seq<u32>, more: bool) -> Seq<u8> {
    (enc_stream_head(k, s) + enc_topics(s.topics, ord_t)).push(flag(more))
}
pub open spec fn enc_streams_from(m: Map<u32, StreamV>, os: Seq<u32>, ot: Map<u32, Seq<u32>>, i: int) -> Seq<u8>
    decreases os.len() - i
{
    if i < 0 || i >= os.len() { Seq::<u8>::empty() }
    else { enc_stream_entry(os[i], m[os[i]], ot[os[i]], i + 1 < os.len()) + enc_streams_from(m, os, ot, i + 1) }
}
pub open spec fn enc_streams(m: Map<u32, StreamV>, os: Seq<u32>, ot: Map<u32, Seq<u32>>) -> Seq<u8> {
    if os.len() == 0 { seq![0u8] } else { seq![1u8] + enc_streams_from(m, os, ot, 0) }
}
pub open spec fn enc_permv(v: PermV, os: Seq<u32>, ot: Map<u32, Seq<u32>>) -> Seq<u8> { enc_global(v.global) + enc_streams(v.streams, os, ot) }
// `os` lists every stream id exactly once, `ot[k]` every topic id of stream k exactly once
pub open spec fn orders_ok(v: PermV, os: Seq<u32>, ot: Map<u32, Seq<u32>>) -> bool {
    &&& keys_exactly(v.streams, os)
    &&& forall|k: u32| #[trigger] v.streams.contains_key(k) ==> ot.contains_key(k) && keys_exactly(v.streams[k].topics, ot[k])
}
// "bytes is an encoding of p" (for SOME entry order)
pub open spec fn enc_permissions_rel(p: Permissions, bytes: Seq<u8>) -> bool {
    exists|os: Seq<u32>, ot: Map<u32, Seq<u32>>| orders_ok(perm_view(p), os, ot) && bytes == enc_permv(perm_view(p), os, ot)
}
// the order the SDK encoder uses: the iteration order of the hash maps of this very value
// (an empty map is not iterated: it has no entries to order)
pub open spec fn topics_order(o: Option<HashMap<u32, TopicPermissions>>) -> Seq<u32> {
    match o { None => Seq::<u32>::empty(), Some(m) => if m@.len() == 0 { Seq::<u32>::empty() } else { m.key_order() } }
}
pub open spec fn perm_order_s(p: Permissions) -> Seq<u32> {
    match p.streams { None => Seq::<u32>::empty(), Some(m) => if m@.len() == 0 { Seq::<u32>::empty() } else { m.key_order() } }
}
pub open spec fn perm_order_t(p: Permissions) -> Map<u32, Seq<u32>> {
    match p.streams { None => Map::empty(), Some(m) => Map::new(m@.dom(), |k: u32| topics_order(m@[k].topics)) }
}
pub open spec fn enc_permissions(p: Permissions) -> Seq<u8> { enc_permv(perm_view(p), perm_order_s(p), perm_order_t(p)) }

// `SLICE.try_into().unwrap()` (UpdatePermissions::from_bytes): Result::unwrap needs `E: Debug` (formatting only, no run-time meaning here)
#[verifier::external]
impl core::fmt::Debug for TryFromSliceError {
    fn fmt(&self, f: &mut core::fmt::Formatter<'_>) -> core::fmt::Result { Ok(()) }
}
