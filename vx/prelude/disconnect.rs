// ---- shared prelude of units client_disconnect / user_disconnect (C06, C08 [C08.leave]) -----------------------------------
// A disconnecting client leaves every consumer group it had joined. Stand-ins (R4), assumed contracts of callees that are
// under contract in OTHER units (cited), and the spec vocabulary. Nothing here re-states a function body of /repo.

// --- names: opaque strings; only equality is observable ----
#[verifier::external_body]
#[derive(Debug)]
pub struct Name { s: String }
impl Name {
    #[verifier::external_body]
    pub fn to_owned(&self) -> (r: Name) ensures r == *self { unimplemented!() }
    #[verifier::external_body]
    pub fn to_string(&self) -> (r: Name) ensures r == *self { unimplemented!() }
}
impl Clone for Name {
    #[verifier::external_body]
    fn clone(&self) -> (r: Name) ensures r == *self { unimplemented!() }
}

#[derive(Debug)]
pub enum IggyError {
    InvalidIdentifier,
    StaleClient,
    Unauthenticated,
    Unauthorized,
    ClientNotFound(u32),
    StreamIdNotFound(u32),
    StreamNameNotFound(Name),
    TopicIdNotFound(u32, u32),
    TopicNameNotFound(Name, Name),
    ConsumerGroupIdNotFound(u32, u32),
    ConsumerGroupNameNotFound(Name, Name),
}

// --- Identifier (sdk): the payload is abstracted to two uninterpreted projections; `kind`/`length` are real fields --
impl Identifier {
    pub uninterp spec fn num(&self) -> u32;
    pub uninterp spec fn text(&self) -> Name;
    #[verifier::external_body]
    pub fn get_u32_value(&self) -> (r: Result<u32, IggyError>)
        ensures r == (if self.kind == IdKind::Numeric && self.length == 4 { Ok::<u32, IggyError>(self.num()) } else { Err::<u32, IggyError>(IggyError::InvalidIdentifier) }),
    { unimplemented!() }
    #[verifier::external_body]
    pub fn get_cow_str_value(&self) -> (r: Result<Name, IggyError>)
        ensures r == (if self.kind == IdKind::Name { Ok::<Name, IggyError>(self.text()) } else { Err::<Name, IggyError>(IggyError::InvalidIdentifier) }),
    { unimplemented!() }
    // Identifier::numeric: 0 is rejected, otherwise a 4-byte numeric identifier carrying the value
    #[verifier::external_body]
    pub fn numeric(value: u32) -> (r: Result<Identifier, IggyError>)
        ensures match r { Ok(i) => value != 0 && i.kind == IdKind::Numeric && i.length == 4 && i.num() == value, Err(_) => value == 0 },
    { unimplemented!() }
}
// identifiers are validated when decoded (sdk Identifier::from_bytes / validate): a numeric identifier is 4 bytes long
pub open spec fn ident_valid(ident: &Identifier) -> bool {
    ident.kind == IdKind::Numeric ==> ident.length == 4
}

// --- metrics: interior-mutable gauges, not part of any view ---
#[verifier::external_body]
pub struct Metrics { x: u8 }
impl Metrics {
    #[verifier::external_body] pub fn decrement_clients(&self, n: u32) { unimplemented!() }
}
// Session: extracted struct (kept field: client_id); its user-id cell is an atomic outside the view
impl Session {
    #[verifier::external_body]
    pub fn clear_user_id(&self) { unimplemented!() }
    #[verifier::external_body]
    pub fn get_user_id(&self) -> (r: u32) { unimplemented!() }
}
// authentication / authorisation (C09, units authn_gate / permissioner): arbitrary answers, no effect on any view here
#[verifier::external_body]
pub struct Permissioner { x: u8 }
impl Permissioner {
    #[verifier::external_body] pub fn get_stream(&self, user_id: u32, stream_id: u32) -> (r: Result<(), IggyError>) { unimplemented!() }
    #[verifier::external_body] pub fn get_topic(&self, user_id: u32, stream_id: u32, topic_id: u32) -> (r: Result<(), IggyError>) { unimplemented!() }
    #[verifier::external_body] pub fn join_consumer_group(&self, user_id: u32, stream_id: u32, topic_id: u32) -> (r: Result<(), IggyError>) { unimplemented!() }
    #[verifier::external_body] pub fn leave_consumer_group(&self, user_id: u32, stream_id: u32, topic_id: u32) -> (r: Result<(), IggyError>) { unimplemented!() }
}
impl System {
    #[verifier::external_body]
    pub fn ensure_authenticated(&self, session: &Session) -> (r: Result<(), IggyError>) { unimplemented!() }
}

// --- R8 closure / iteration schemas (documented std semantics) ---
// v.iter().map(|x| F(x)).collect::<Vec<_>>()
#[verifier::external_body]
pub fn std_iter_map_collect<T, U>(v: &Vec<T>, Ghost(f): Ghost<spec_fn(T) -> U>) -> (r: Vec<U>)
    ensures r@.len() == v@.len(), forall|i: int| 0 <= i < r@.len() ==> #[trigger] r@[i] == f(v@[i]),
{ unimplemented!() }
// `m.values().cloned().collect()` on a map of lock-wrapped values: one HANDLE per entry, in key_order. With the lock
// wrapper dropped (R4) a handle is the value it denotes at the time of the call.
impl<K, V> HashMap<K, V> {
    #[verifier::external_body]
    pub fn values_cloned_vec(&self) -> (r: Vec<V>)
        ensures
            keys_exactly(self@, self.key_order()),
            r@.len() == self.key_order().len(),
            forall|i: int| 0 <= i < r@.len() ==> #[trigger] r@[i] == self@[self.key_order()[i]],
    { unimplemented!() }
}

// --- the client table (unit client_memberships): real structs (R12); methods cited with the contracts proved there ----
pub open spec fn same_membership(g: ConsumerGroup, stream_id: u32, topic_id: u32, group_id: u32) -> bool {
    g.stream_id == stream_id && g.topic_id == topic_id && g.group_id == group_id
}
// a client holds each membership at most once (client_memberships [C06.member.join.unique])
pub open spec fn no_dup_memberships(gs: Seq<ConsumerGroup>) -> bool {
    forall|i: int, j: int| 0 <= i < j < gs.len() ==> gs[i] != gs[j]
}
pub open spec fn members_wf(cm: &ClientManager) -> bool {
    forall|k: u32| #[trigger] cm.clients@.contains_key(k) ==> no_dup_memberships(cm.clients@[k].consumer_groups@)
}
// a client is filed under its own session's client id (established by add_client)
pub open spec fn cm_keys_wf(cm: &ClientManager) -> bool {
    forall|k: u32| #[trigger] cm.clients@.contains_key(k) ==> cm.clients@[k].session.client_id == k
}
// recorded memberships carry the RESOLVED ids of existing entities, and catalogue ids are never 0 (CreateStream /
// CreateTopic / CreateConsumerGroup reject an explicit id 0, the allocators start at 1)
pub open spec fn cm_ids_nonzero(cm: &ClientManager) -> bool {
    forall|k: u32, i: int| #![trigger cm.clients@[k].consumer_groups@[i]] cm.clients@.contains_key(k) && 0 <= i < cm.clients@[k].consumer_groups@.len()
        ==> cm.clients@[k].consumer_groups@[i].stream_id != 0 && cm.clients@[k].consumer_groups@[i].topic_id != 0 && cm.clients@[k].consumer_groups@[i].group_id != 0
}
pub open spec fn is_member(gs: Seq<ConsumerGroup>, stream_id: u32, topic_id: u32, group_id: u32) -> bool {
    exists|i: int| 0 <= i < gs.len() && same_membership(#[trigger] gs[i], stream_id, topic_id, group_id)
}
// the memberships of a client after it joined (sid, tid, gid): recorded once
pub open spec fn with_membership(gs: Seq<ConsumerGroup>, sid: u32, tid: u32, gid: u32) -> Seq<ConsumerGroup> {
    if is_member(gs, sid, tid, gid) { gs } else { gs.push(ConsumerGroup { stream_id: sid, topic_id: tid, group_id: gid }) }
}
// the memberships of a client after it left (sid, tid, gid)
pub open spec fn without_membership(gs: Seq<ConsumerGroup>, sid: u32, tid: u32, gid: u32) -> Seq<ConsumerGroup> {
    gs.filter(|g: ConsumerGroup| !same_membership(g, sid, tid, gid))
}
impl ClientManager {
    // client_memberships [C06.sibling.delete_client], [C06.sibling.delete_client.ret]
    // LINKED: units/client_memberships/lemmas.rs, harness [C06.link.disconnect.delete_client] (mirror edits there)
    #[verifier::external_body]
    pub fn delete_client(&mut self, client_id: u32) -> (r: Option<Client>)
        ensures
            final(self).clients@ == old(self).clients@.remove(client_id),
            match r { Some(c) => old(self).clients@.contains_key(client_id) && c == old(self).clients@[client_id], None => !old(self).clients@.contains_key(client_id) },
    { unimplemented!() }
    // client_memberships [C06.fail.join], [C06.member.join.ok], [C06.member.join.frame], [C06.member.join.list], [C06.member.join.unique]
    // LINKED: units/client_memberships/lemmas.rs, harness [C06.link.disconnect.join_consumer_group] (mirror edits there)
    #[verifier::external_body]
    pub fn join_consumer_group(&mut self, client_id: u32, stream_id: u32, topic_id: u32, group_id: u32) -> (r: Result<(), IggyError>)
        requires members_wf(old(self)),
        ensures
            r is Err ==> final(self).clients@ == old(self).clients@,
            r is Ok <==> old(self).clients@.contains_key(client_id),
            map_frame_except(old(self).clients@, final(self).clients@, client_id),
            r is Ok ==> final(self).clients@[client_id].user_id == old(self).clients@[client_id].user_id && final(self).clients@[client_id].session == old(self).clients@[client_id].session
                && final(self).clients@[client_id].consumer_groups@ == with_membership(old(self).clients@[client_id].consumer_groups@, stream_id, topic_id, group_id),
            members_wf(final(self)),
    { unimplemented!() }
    // client_memberships [C06.fail.leave], [C06.member.leave.ok], [C06.member.leave.frame], [C06.member.leave.list], [C06.member.leave.unique]
    // LINKED: units/client_memberships/lemmas.rs, harness [C06.link.disconnect.leave_consumer_group] (mirror edits there)
    #[verifier::external_body]
    pub fn leave_consumer_group(&mut self, client_id: u32, stream_id: u32, topic_id: u32, consumer_group_id: u32) -> (r: Result<(), IggyError>)
        requires members_wf(old(self)),
        ensures
            r is Err ==> final(self).clients@ == old(self).clients@,
            r is Ok <==> old(self).clients@.contains_key(client_id),
            map_frame_except(old(self).clients@, final(self).clients@, client_id),
            r is Ok ==> final(self).clients@[client_id].user_id == old(self).clients@[client_id].user_id && final(self).clients@[client_id].session == old(self).clients@[client_id].session
                && final(self).clients@[client_id].consumer_groups@ == without_membership(old(self).clients@[client_id].consumer_groups@, stream_id, topic_id, consumer_group_id),
            members_wf(final(self)),
    { unimplemented!() }
}

// --- the consumer group behind its lock (topic side; emitted as `TopicGroup`, the client table owns the name ConsumerGroup) ---
// ConsumerGroup::delete_member (unit consumer_group: [C08.leave.members], [C08.excl.leave], [C08.even.leave], [C08.inv.leave])
// drops the member and re-deals the partitions. It is reached through `RwLock::write(&self)`; with the lock object dropped
// (R5) the mutation is observed as the ghost event `member_left(group, member)`. The event predicate is established ONLY
// here, so a postcondition stating it proves that delete_member was called on exactly this group with exactly this id.
pub uninterp spec fn member_left(g: TopicGroup, member_id: u32) -> bool;
// likewise ConsumerGroup::add_member ([C08.join.members], [C08.excl.join], [C08.even.join], [C08.inv.join]): event `member_joined`
pub uninterp spec fn member_joined(g: TopicGroup, member_id: u32) -> bool;
// STATED, NOT LINKED (link pass 2): event abstraction. TopicGroup keeps no `members` and the receiver is `&self`, so neither the
// preconditions of the real functions (delete_member: group_inv + at most 2^32-1 members; add_member: group_wf + members_bound) nor
// their postconditions can be stated here. The two predicates are uninterpreted and established only by these stubs, so nothing is
// assumed about any state; what IS assumed is that the call returns (no panic) on every group — unit consumer_group proves that
// ([C08.leave.total], [C08.join.total]) under the invariant of every group history ([C08.history]) and the member bound.
impl TopicGroup {
    #[verifier::external_body]
    pub fn add_member(&self, member_id: u32)
        ensures member_joined(*self, member_id),
    { unimplemented!() }
    #[verifier::external_body]
    pub fn delete_member(&self, member_id: u32)
        ensures member_left(*self, member_id),
    { unimplemented!() }
}

// ---- catalogue vocabulary (as in unit catalogue_maps) -----------------------------------------------------------------------
pub open spec fn denotes(ident: &Identifier, idx: Map<Name, u32>) -> Option<u32> {
    if ident.kind == IdKind::Numeric {
        if ident.length == 4 { Some(ident.num()) } else { None }
    } else {
        if idx.contains_key(ident.text()) { Some(idx[ident.text()]) } else { None }
    }
}
pub open spec fn stream_of(s: &System, ident: &Identifier) -> Option<u32> {
    match denotes(ident, s.streams_ids@) {
        Some(id) => if s.streams@.contains_key(id) { Some(id) } else { None },
        None => None,
    }
}
pub open spec fn topic_of(s: &Stream, ident: &Identifier) -> Option<u32> {
    match denotes(ident, s.topics_ids@) {
        Some(id) => if s.topics@.contains_key(id) { Some(id) } else { None },
        None => None,
    }
}
pub open spec fn group_of(t: &Topic, ident: &Identifier) -> Option<u32> {
    match denotes(ident, t.consumer_groups_ids@) {
        Some(id) => if t.consumer_groups@.contains_key(id) { Some(id) } else { None },
        None => None,
    }
}
// the three identifiers resolve to a group of a topic of a stream
pub open spec fn resolves(s: &System, stream_id: &Identifier, topic_id: &Identifier, group_id: &Identifier) -> bool {
    &&& stream_of(s, stream_id) is Some
    &&& topic_of(&s.streams@[stream_of(s, stream_id)->0], topic_id) is Some
    &&& group_of(&s.streams@[stream_of(s, stream_id)->0].topics@[topic_of(&s.streams@[stream_of(s, stream_id)->0], topic_id)->0], group_id) is Some
}
pub open spec fn resolved_topic(s: &System, stream_id: &Identifier, topic_id: &Identifier) -> Topic {
    s.streams@[stream_of(s, stream_id)->0].topics@[topic_of(&s.streams@[stream_of(s, stream_id)->0], topic_id)->0]
}
pub open spec fn resolved_group(s: &System, stream_id: &Identifier, topic_id: &Identifier, group_id: &Identifier) -> TopicGroup {
    resolved_topic(s, stream_id, topic_id).consumer_groups@[group_of(&resolved_topic(s, stream_id, topic_id), group_id)->0]
}
// a recorded membership still denotes an existing group of an existing topic of an existing stream
pub open spec fn membership_live(streams: Map<u32, Stream>, m: ConsumerGroup) -> bool {
    &&& streams.contains_key(m.stream_id)
    &&& streams[m.stream_id].topics@.contains_key(m.topic_id)
    &&& streams[m.stream_id].topics@[m.topic_id].consumer_groups@.contains_key(m.group_id)
}
// [C08.leave]: the group the membership denotes dropped the member (and was re-dealt)
pub open spec fn left_evt(streams: Map<u32, Stream>, m: ConsumerGroup, client_id: u32) -> bool {
    member_left(streams[m.stream_id].topics@[m.topic_id].consumer_groups@[m.group_id], client_id)
}
// the client `k` has left every live group recorded in `gs`
pub open spec fn client_left_all(streams: Map<u32, Stream>, gs: Seq<ConsumerGroup>, k: u32) -> bool {
    forall|i: int| 0 <= i < gs.len() && membership_live(streams, #[trigger] gs[i]) ==> left_evt(streams, gs[i], k)
}
// every client of table `cm` that is logged in as `uid` has left every (live) group it had joined
pub open spec fn user_clients_left(streams: Map<u32, Stream>, cm: &ClientManager, uid: u32) -> bool {
    forall|k: u32| #[trigger] cm.clients@.contains_key(k) && cm.clients@[k].user_id == Some(uid)
        ==> client_left_all(streams, cm.clients@[k].consumer_groups@, k)
}
// catalogue representation invariant (unit catalogue_maps, [C06.bij.*] + create stubs): every entity is filed under its own
// id and carries its parent's id
pub open spec fn sys_ids_wf(s: &System) -> bool {
    forall|k: u32| #[trigger] s.streams@.contains_key(k) ==> s.streams@[k].stream_id == k
        && (forall|t: u32| #[trigger] s.streams@[k].topics@.contains_key(t) ==> s.streams@[k].topics@[t].topic_id == t && s.streams@[k].topics@[t].stream_id == k
            && (forall|g: u32| #[trigger] s.streams@[k].topics@[t].consumer_groups@.contains_key(g) ==> s.streams@[k].topics@[t].consumer_groups@[g].group_id == g))
}
pub open spec fn only_clients(a: &System, b: &System) -> bool {
    *b == (System { client_manager: b.client_manager, ..*a })
}
// proved (not assumed) fact about vstd's Seq::push, broadcast so that no proof hint has to be anchored in extracted text
pub mod dseqlem {
    use vstd::prelude::*;
    pub broadcast proof fn lemma_push_contains<A>(s: Seq<A>, a: A, v: A)
        ensures #[trigger] s.push(a).contains(v) <==> (s.contains(v) || a == v),
    {
        if s.contains(v) {
            let i = choose|i: int| 0 <= i < s.len() && s[i] == v;
            assert(s.push(a)[i] == v);
        }
        if a == v {
            assert(s.push(a)[s.len() as int] == v);
        }
        if s.push(a).contains(v) {
            let i = choose|i: int| 0 <= i < s.push(a).len() && s.push(a)[i] == v;
            if i < s.len() { assert(s[i] == v); }
        }
    }
}
broadcast use dseqlem::lemma_push_contains;
