// ---- shared prelude of the storage units (offsets, recovery, reads, counters) ---------------------
// Stand-ins (rule R4) for types whose internals are irrelevant to the properties. All trusted.

pub enum IggyError {
    SegmentNotFound,
    SegmentClosed(u64, u32),
    InvalidOffset(u64),
    CannotReadFile,
    CannotSaveMessagesToSegment,
    CannotSaveIndexToSegment,
    CannotReadMessage,
    CannotReadBatchBaseOffset, CannotReadBatchLength, CannotReadLastOffsetDelta, CannotReadMaxTimestamp,
    CannotReadBatchPayload, InvalidBatchBaseOffsetFormat, InvalidBatchLengthFormat,
    InvalidLastOffsetDeltaFormat, InvalidMaxTimestampFormat, MissingIndex(u64),
    EmptyMessagePayload, InvalidMessagePayloadLength, InvalidMessageChecksum(u32, u32, u64),
    Other,
}

pub enum Ordering { Relaxed, Release, Acquire, AcqRel, SeqCst }
#[derive(Clone, Copy)]
pub enum Confirmation { Wait, NoWait }

// Arc<AtomicU64> / Arc<AtomicU32> (R4 + R6): a plain integer with wrapping fetch_add/fetch_sub, plus the ghost
// identity `cid` of the shared cell (clone preserves it) so that wiring of shared counters can be stated.
pub struct Counter { pub v: u64, pub cid: Ghost<int> }
impl Counter {
    #[verifier::external_body]
    pub fn fetch_add(&mut self, n: u64, ord: Ordering) -> (r: u64)
        ensures r == old(self).v, final(self).v as int == (old(self).v + n) % 0x1_0000_0000_0000_0000, final(self).cid == old(self).cid,
    { unimplemented!() }
    #[verifier::external_body]
    pub fn fetch_sub(&mut self, n: u64, ord: Ordering) -> (r: u64)
        ensures r == old(self).v, final(self).v as int == (old(self).v - n) % 0x1_0000_0000_0000_0000, final(self).cid == old(self).cid,
    { unimplemented!() }
    #[verifier::external_body]
    pub fn load(&self, ord: Ordering) -> (r: u64) ensures r == self.v, { unimplemented!() }
    #[verifier::external_body]
    pub fn store(&mut self, n: u64, ord: Ordering) ensures final(self).v == n, final(self).cid == old(self).cid, { unimplemented!() }
    #[verifier::external_body]
    pub fn clone(&self) -> (r: Counter) ensures r.v == self.v, r.cid == self.cid, { unimplemented!() }
}
pub struct Counter32 { pub v: u32, pub cid: Ghost<int> }
impl Counter32 {
    #[verifier::external_body]
    pub fn fetch_add(&mut self, n: u32, ord: Ordering) -> (r: u32)
        ensures r == old(self).v, final(self).v as int == (old(self).v + n) % 0x1_0000_0000, final(self).cid == old(self).cid,
    { unimplemented!() }
    #[verifier::external_body]
    pub fn fetch_sub(&mut self, n: u32, ord: Ordering) -> (r: u32)
        ensures r == old(self).v, final(self).v as int == (old(self).v - n) % 0x1_0000_0000, final(self).cid == old(self).cid,
    { unimplemented!() }
    #[verifier::external_body]
    pub fn load(&self, ord: Ordering) -> (r: u32) ensures r == self.v, { unimplemented!() }
    #[verifier::external_body]
    pub fn clone(&self) -> (r: Counter32) ensures r.v == self.v, r.cid == self.cid, { unimplemented!() }
}

// IggyByteSize is a u64 newtype whose +, +=, -, comparisons are the plain u64 ones (sdk/src/utils/byte_size.rs);
// R4 maps the type to u64; the conversions become these identities.
pub fn bs_from(x: u64) -> (r: u64) ensures r == x, { x }
pub trait ByteSizeExt { fn as_bytes_u64(&self) -> u64; fn bs_into(self) -> u64; }
impl ByteSizeExt for u64 {
    fn as_bytes_u64(&self) -> (r: u64) ensures r == *self, { *self }
    fn bs_into(self) -> (r: u64) ensures r == self, { self }
}

// Arc::new(x) -> x   (reference counting dropped)
pub fn arc_new<T>(x: T) -> (r: T) ensures r == x, { x }

// IggyTimestamp::now().as_micros(): an arbitrary u64 (A-clock)
#[verifier::external_body]
pub fn now_micros() -> (r: u64) { unimplemented!() }

// One retained message, as far as offsets/ids/timestamps are concerned. `content` stands for payload, headers,
// checksum and state together (their byte layout is the business of the codec units).
#[derive(Clone, Copy)]
pub struct RetainedMessage { pub id: u128, pub offset: u64, pub timestamp: u64, pub content: Ghost<int> }

// the client's message (sdk::messages::send_messages::Message)
pub struct Message { pub id: u128, pub content: Ghost<int> }

impl RetainedMessage {
    // server/src/streaming/models/messages.rs RetainedMessage::new — field-for-field constructor (+ checksum)
    #[verifier::external_body]
    pub fn new(offset: u64, timestamp: u64, message: Message) -> (r: RetainedMessage)
        ensures r.offset == offset, r.timestamp == timestamp, r.id == message.id, r.content == message.content,
    { unimplemented!() }
    pub fn clone(&self) -> (r: RetainedMessage) ensures r == *self, { *self }
    // RetainedMessage::extend(&self, &mut BytesMut): appends this message's encoding
    #[verifier::external_body]
    pub fn extend(&self, bytes: &mut ByteSeq)
        ensures final(bytes).msgs() == old(bytes).msgs().push(*self), final(bytes).blen() == old(bytes).blen() + msg_size(*self),
    { unimplemented!() }
}

// bytes::Bytes / BytesMut holding encoded messages: viewed as the sequence of messages it encodes.
#[verifier::external_body]
pub struct ByteSeq { b: Vec<u8> }
impl ByteSeq {
    pub uninterp spec fn msgs(&self) -> Seq<RetainedMessage>;
    pub uninterp spec fn blen(&self) -> nat;
    #[verifier::external_body]
    pub fn with_capacity(n: usize) -> (r: ByteSeq) ensures r.msgs() == Seq::<RetainedMessage>::empty(), r.blen() == 0, { unimplemented!() }
    #[verifier::external_body]
    pub fn freeze(self) -> (r: ByteSeq) ensures r.msgs() == self.msgs(), r.blen() == self.blen(), { unimplemented!() }
    #[verifier::external_body]
    pub fn len(&self) -> (r: usize) ensures r == self.blen(), { unimplemented!() }
}

// encoded length of one message on disk (4-byte length prefix + fields + headers + payload): a function of the message
pub uninterp spec fn msg_size(m: RetainedMessage) -> nat;
pub open spec fn total_size(s: Seq<RetainedMessage>) -> nat
    decreases s.len(),
{
    if s.len() == 0 { 0 } else { total_size(s.drop_last()) + msg_size(s.last()) }
}
pub proof fn lemma_total_size_push(s: Seq<RetainedMessage>, m: RetainedMessage)
    ensures total_size(s.push(m)) == total_size(s) + msg_size(m),
{
    assert(s.push(m).drop_last() =~= s);
}

pub open spec fn contig(s: Seq<RetainedMessage>, first: int) -> bool {
    forall|i: int| 0 <= i < s.len() ==> (#[trigger] s[i]).offset == first + i
}

// Vec::extend(items.iter().cloned())  (R8 schema)
#[verifier::external_body]
pub fn vec_extend_cloned(v: &mut Vec<RetainedMessage>, items: &[RetainedMessage])
    ensures final(v)@ == old(v)@ + items@,
{ unimplemented!() }

// std::mem::take(&mut Vec)
#[verifier::external_body]
pub fn mem_take_vec(v: &mut Vec<RetainedMessage>) -> (r: Vec<RetainedMessage>)
    ensures r@ == old(v)@, final(v)@ == Seq::<RetainedMessage>::empty(),
{ unimplemented!() }

// R9 (panic as precondition): `assert!(c)` in exec code becomes a call whose precondition is c.
pub fn runtime_assert(c: bool) requires c, {}
// R9 (panic as divergence) for the listed I/O unwraps: a value that is Err makes the call not return.
#[verifier::external_body]
pub fn unwrap_or_diverge<T>(r: Result<T, IggyError>) -> (v: T)
    ensures r is Ok, v == r->Ok_0,
{ unimplemented!() }

// iggy::utils::timestamp::IggyTimestamp — microseconds since the epoch; now() is arbitrary (A-clock)
#[derive(Clone, Copy)]
pub struct IggyTimestamp(pub u64);
impl IggyTimestamp {
    #[verifier::external_body]
    pub fn now() -> (r: IggyTimestamp) { unimplemented!() }
    pub fn as_micros(&self) -> (r: u64) ensures r == self.0, { self.0 }
}

// std::cmp::max / min instantiated at the integer type of the call site (verified, not trusted)
pub fn max_usize(a: usize, b: usize) -> (r: usize) ensures r == (if a >= b { a } else { b }), { if a >= b { a } else { b } }
pub fn min_usize(a: usize, b: usize) -> (r: usize) ensures r == (if a <= b { a } else { b }), { if a <= b { a } else { b } }
pub fn max_u64(a: u64, b: u64) -> (r: u64) ensures r == (if a >= b { a } else { b }), { if a >= b { a } else { b } }
pub fn min_u64(a: u64, b: u64) -> (r: u64) ensures r == (if a <= b { a } else { b }), { if a <= b { a } else { b } }

// `.map_err(|_| E)`: constant error mapping (the closure ignores its argument)
pub trait MapErrConst<T> { fn map_err_const(self, e: IggyError) -> Result<T, IggyError>; }
impl<T> MapErrConst<T> for Result<T, IggyError> {
    fn map_err_const(self, e: IggyError) -> (r: Result<T, IggyError>)
        ensures self is Ok ==> r == self, self is Err ==> r is Err,
    { match self { Ok(v) => Ok(v), Err(_) => Err(e) } }
}

// counters are shared atomic cells updated with wrapping arithmetic
pub open spec fn wadd(a: u64, b: int) -> int { (a + b) % 0x1_0000_0000_0000_0000 }
pub open spec fn wsub(a: u64, b: int) -> int { (a - b) % 0x1_0000_0000_0000_0000 }
