// ---- shared prelude: map access through a dropped lock, and map iteration schemas (A-std) ------------
// Used where the values of a map are lock-wrapped (`IggySharedMut<T>` mapped to `T` by R4) and the code
// reaches them through `&self` (R5/R6): shared access paths become exclusive ones.
//   m.get(k)  + `.write()`      ->  m.get_mut(k)
//   for v in m.values() + `.write()`  ->  for v in m.values_mut_vec()
//   for v in m.values() + `.read()`   ->  for v in m.values_vec()
// Iteration order is an uninterpreted attribute of the concrete map object (`key_order`): every key exactly
// once, nothing else is known about it.

pub open spec fn keys_exactly<K, V>(m: Map<K, V>, ks: Seq<K>) -> bool {
    &&& ks.no_duplicates()
    &&& forall|i: int| 0 <= i < ks.len() ==> m.contains_key(#[trigger] ks[i])
    &&& forall|k: K| #[trigger] m.contains_key(k) ==> exists|i: int| 0 <= i < ks.len() && ks[i] == k
}

impl<K, V> HashMap<K, V> {
    pub uninterp spec fn key_order(&self) -> Seq<K>;

    // documented std semantics of HashMap::get_mut; the map after the borrow ends is the old map with the
    // final value of the borrow written at k
    #[verifier::external_body]
    pub fn get_mut(&mut self, k: &K) -> (r: Option<&mut V>)
        ensures
            match r {
                Some(v) => old(self)@.contains_key(*k) && *v == old(self)@[*k]
                    && final(self)@ == old(self)@.insert(*k, *final(v))
                    && (*final(v) == *v ==> *final(self) == *old(self)),
                None => !old(self)@.contains_key(*k) && *final(self) == *old(self),
            },
    { unimplemented!() }

    // `m.values()` collected: one shared reference per entry, in key_order
    #[verifier::external_body]
    pub fn values_vec(&self) -> (r: Vec<&V>)
        ensures
            keys_exactly(self@, self.key_order()),
            r@.len() == self.key_order().len(),
            forall|i: int| 0 <= i < r@.len() ==> *#[trigger] r@[i] == self@[self.key_order()[i]],
    { unimplemented!() }

    // `m.values_mut()` collected: one exclusive reference per entry, in key_order; the map after the borrows
    // end has the same keys and, at each key, the final value of that key's borrow
    #[verifier::external_body]
    pub fn values_mut_vec(&mut self) -> (r: Vec<&mut V>)
        ensures
            keys_exactly(old(self)@, old(self).key_order()),
            final(self)@.dom() == old(self)@.dom(),
            r@.len() == old(self).key_order().len(),
            forall|i: int| 0 <= i < r@.len() ==> *#[trigger] r@[i] == old(self)@[old(self).key_order()[i]],
            forall|i: int| 0 <= i < r@.len() ==> *final(#[trigger] r@[i]) == final(self)@[old(self).key_order()[i]],
    { unimplemented!() }
}

// frame of a single-key operation: same key set, every other key maps to the same value
pub open spec fn map_frame_except<K, V>(a: Map<K, V>, b: Map<K, V>, k0: K) -> bool {
    &&& forall|k: K| a.contains_key(k) <==> #[trigger] b.contains_key(k)
    &&& forall|k: K| k != k0 && #[trigger] a.contains_key(k) ==> b[k] == a[k]
}

impl<K, V> HashMap<K, V> {
    // `m.iter()` collected: one (key, value) pair of shared references per entry, in key_order
    #[verifier::external_body]
    pub fn iter_vec(&self) -> (r: Vec<(&K, &V)>)
        ensures
            keys_exactly(self@, self.key_order()),
            r@.len() == self.key_order().len(),
            forall|i: int| 0 <= i < r@.len() ==> *(#[trigger] r@[i]).0 == self.key_order()[i] && *r@[i].1 == self@[self.key_order()[i]],
    { unimplemented!() }
}
