// ---- bytes prelude: byte-level stand-in for the `bytes` crate (rule R4, assumption class A-dep(bytes)) ----------
// `ByteSeq` stands for bytes::Bytes AND bytes::BytesMut (typemap: Bytes -> ByteSeq, BytesMut -> ByteSeq). Its view is
// the mathematical byte sequence. Every method below is an external_body stub whose contract is the documented
// behaviour of the `bytes` API on that sequence (little-endian layout = vstd::bytes::spec_uN_to_le_bytes).
// Reference counting, capacity and cursor sharing are abstracted (a `Bytes` view/`slice` is a fresh ByteSeq).
// Shared by the journal unit (C11) and the codec units: EXTEND ADDITIVELY, never change an existing contract.
// Do not include together with vx/prelude/storage.rs (which has its own message-level ByteSeq).

pub open spec fn le16(x: u16) -> Seq<u8> { vstd::bytes::spec_u16_to_le_bytes(x) }
pub open spec fn le32(x: u32) -> Seq<u8> { vstd::bytes::spec_u32_to_le_bytes(x) }
pub open spec fn le64(x: u64) -> Seq<u8> { vstd::bytes::spec_u64_to_le_bytes(x) }
pub open spec fn le128(x: u128) -> Seq<u8> { vstd::bytes::spec_u128_to_le_bytes(x) }
pub open spec fn un_le16(s: Seq<u8>) -> u16 { vstd::bytes::spec_u16_from_le_bytes(s) }
pub open spec fn un_le32(s: Seq<u8>) -> u32 { vstd::bytes::spec_u32_from_le_bytes(s) }
pub open spec fn un_le64(s: Seq<u8>) -> u64 { vstd::bytes::spec_u64_from_le_bytes(s) }

// widths and bijectivity of the little-endian encodings (proved from vstd::bytes, nothing assumed)
pub proof fn lemma_le_facts()
    ensures
        forall|x: u16| #![trigger le16(x)] le16(x).len() == 2 && un_le16(le16(x)) == x,
        forall|x: u32| #![trigger le32(x)] le32(x).len() == 4 && un_le32(le32(x)) == x,
        forall|x: u64| #![trigger le64(x)] le64(x).len() == 8 && un_le64(le64(x)) == x,
        forall|x: u128| #![trigger le128(x)] le128(x).len() == 16,
        forall|s: Seq<u8>| #![trigger un_le16(s)] s.len() == 2 ==> le16(un_le16(s)) == s,
        forall|s: Seq<u8>| #![trigger un_le32(s)] s.len() == 4 ==> le32(un_le32(s)) == s,
        forall|s: Seq<u8>| #![trigger un_le64(s)] s.len() == 8 ==> le64(un_le64(s)) == s,
{
    // (contract unchanged; the proof goes through per-value lemmas because instantiating vstd's quantified lemmas under
    // the wrapper triggers `leN(x)` depends on Z3's term order and failed in units with a different context)
    assert forall|x: u16| #![trigger le16(x)] le16(x).len() == 2 && un_le16(le16(x)) == x by { lemma_le16_at(x); }
    assert forall|x: u32| #![trigger le32(x)] le32(x).len() == 4 && un_le32(le32(x)) == x by { lemma_le32_at(x); }
    assert forall|x: u64| #![trigger le64(x)] le64(x).len() == 8 && un_le64(le64(x)) == x by { lemma_le64_at(x); }
    assert forall|x: u128| #![trigger le128(x)] le128(x).len() == 16 by { lemma_le128_at(x); }
    assert forall|s: Seq<u8>| #![trigger un_le16(s)] s.len() == 2 implies le16(un_le16(s)) == s by { lemma_un_le16_at(s); }
    assert forall|s: Seq<u8>| #![trigger un_le32(s)] s.len() == 4 implies le32(un_le32(s)) == s by { lemma_un_le32_at(s); }
    assert forall|s: Seq<u8>| #![trigger un_le64(s)] s.len() == 8 implies le64(un_le64(s)) == s by { lemma_un_le64_at(s); }
}
pub proof fn lemma_le16_at(x: u16) ensures le16(x).len() == 2 && un_le16(le16(x)) == x { vstd::bytes::lemma_auto_spec_u16_to_from_le_bytes(); }
pub proof fn lemma_le32_at(x: u32) ensures le32(x).len() == 4 && un_le32(le32(x)) == x { vstd::bytes::lemma_auto_spec_u32_to_from_le_bytes(); }
pub proof fn lemma_le64_at(x: u64) ensures le64(x).len() == 8 && un_le64(le64(x)) == x { vstd::bytes::lemma_auto_spec_u64_to_from_le_bytes(); }
pub proof fn lemma_un_le16_at(s: Seq<u8>) requires s.len() == 2 ensures le16(un_le16(s)) == s { vstd::bytes::lemma_auto_spec_u16_to_from_le_bytes(); }
pub proof fn lemma_un_le32_at(s: Seq<u8>) requires s.len() == 4 ensures le32(un_le32(s)) == s { vstd::bytes::lemma_auto_spec_u32_to_from_le_bytes(); }
pub proof fn lemma_un_le64_at(s: Seq<u8>) requires s.len() == 8 ensures le64(un_le64(s)) == s { vstd::bytes::lemma_auto_spec_u64_to_from_le_bytes(); }

pub struct ByteSeq { pub v: Vec<u8> }

impl View for ByteSeq {
    type V = Seq<u8>;
    open spec fn view(&self) -> Seq<u8> { self.v@ }
}

// anything that can be appended to a buffer: `extend(x)` / `put_slice(x)` / `put(x)` take Bytes, &Bytes, Vec<u8>, &[u8]
pub trait ByteSource {
    spec fn bytes(&self) -> Seq<u8>;
}
impl ByteSource for ByteSeq { open spec fn bytes(&self) -> Seq<u8> { self@ } }
impl<'a> ByteSource for &'a ByteSeq { open spec fn bytes(&self) -> Seq<u8> { (**self)@ } }
impl ByteSource for Vec<u8> { open spec fn bytes(&self) -> Seq<u8> { self@ } }
impl<'a> ByteSource for &'a Vec<u8> { open spec fn bytes(&self) -> Seq<u8> { (**self)@ } }
impl<'a> ByteSource for &'a [u8] { open spec fn bytes(&self) -> Seq<u8> { (**self)@ } }

// the range argument of `Bytes::slice`: `a..b` and `a..`
pub trait SliceRange {
    spec fn lo(&self) -> int;
    spec fn hi(&self, len: int) -> int;
}
impl SliceRange for core::ops::Range<usize> {
    open spec fn lo(&self) -> int { self.start as int }
    open spec fn hi(&self, len: int) -> int { self.end as int }
}
impl SliceRange for core::ops::RangeFrom<usize> {
    open spec fn lo(&self) -> int { self.start as int }
    open spec fn hi(&self, len: int) -> int { len }
}
impl SliceRange for core::ops::RangeTo<usize> {
    open spec fn lo(&self) -> int { 0 }
    open spec fn hi(&self, len: int) -> int { self.end as int }
}

impl From<Vec<u8>> for ByteSeq {
    fn from(v: Vec<u8>) -> (r: ByteSeq) { ByteSeq { v } }
}
impl vstd::std_specs::convert::FromSpecImpl<Vec<u8>> for ByteSeq {
    open spec fn obeys_from_spec() -> bool { true }
    open spec fn from_spec(v: Vec<u8>) -> ByteSeq { ByteSeq { v } }
}

impl ByteSeq {
    pub open spec fn spec_len(&self) -> usize { self@.len() as usize }

    // ---- construction -------------------------------------------------------------------------------------------
    #[verifier::external_body]
    pub fn new() -> (r: ByteSeq)
        ensures r@ == Seq::<u8>::empty(),
    { unimplemented!() }

    // BytesMut::with_capacity: panics on capacity overflow (> isize::MAX) like Vec::with_capacity
    #[verifier::external_body]
    pub fn with_capacity(n: usize) -> (r: ByteSeq)
        requires n <= isize::MAX,
        ensures r@ == Seq::<u8>::empty(),
    { unimplemented!() }

    #[verifier::external_body]
    pub fn clone(&self) -> (r: ByteSeq)
        ensures r@ == self@,
    { unimplemented!() }

    #[verifier::external_body]
    pub fn freeze(self) -> (r: ByteSeq)
        ensures r@ == self@,
    { unimplemented!() }

    // a live allocation never exceeds isize::MAX bytes
    // (`when_used_as_spec`: `b.len()` inside a lifted closure body (R8) reads as the length of the view)
    #[verifier::external_body]
    #[verifier::when_used_as_spec(spec_len)]
    pub fn len(&self) -> (r: usize)
        ensures r == self@.len(), r <= isize::MAX,
    { unimplemented!() }

    #[verifier::external_body]
    pub fn is_empty(&self) -> (r: bool)
        ensures r == (self@.len() == 0),
    { unimplemented!() }

    // ---- BufMut: append at the end ---------------------------------------------------------------------------------
    #[verifier::external_body]
    pub fn put_u8(&mut self, x: u8)
        ensures final(self)@ == old(self)@.push(x),
    { unimplemented!() }

    #[verifier::external_body]
    pub fn put_u16_le(&mut self, x: u16)
        ensures final(self)@ == old(self)@ + le16(x),
    { unimplemented!() }

    #[verifier::external_body]
    pub fn put_u32_le(&mut self, x: u32)
        ensures final(self)@ == old(self)@ + le32(x),
    { unimplemented!() }

    #[verifier::external_body]
    pub fn put_u64_le(&mut self, x: u64)
        ensures final(self)@ == old(self)@ + le64(x),
    { unimplemented!() }

    #[verifier::external_body]
    pub fn put_u128_le(&mut self, x: u128)
        ensures final(self)@ == old(self)@ + le128(x),
    { unimplemented!() }

    // put_bytes(val, cnt): cnt copies of val
    #[verifier::external_body]
    pub fn put_bytes(&mut self, val: u8, cnt: usize)
        ensures final(self)@ == old(self)@ + Seq::new(cnt as nat, |i: int| val),
    { unimplemented!() }

    #[verifier::external_body]
    pub fn put_slice<T: ByteSource>(&mut self, src: T)
        ensures final(self)@ == old(self)@ + src.bytes(),
    { unimplemented!() }

    #[verifier::external_body]
    pub fn put<T: ByteSource>(&mut self, src: T)
        ensures final(self)@ == old(self)@ + src.bytes(),
    { unimplemented!() }

    #[verifier::external_body]
    pub fn extend<T: ByteSource>(&mut self, src: T)
        ensures final(self)@ == old(self)@ + src.bytes(),
    { unimplemented!() }

    // ---- Bytes::slice(range): panics when the range is out of bounds ------------------------------------------------
    #[verifier::external_body]
    pub fn slice<R: SliceRange>(&self, r: R) -> (s: ByteSeq)
        requires 0 <= r.lo() <= r.hi(self@.len() as int) <= self@.len(),
        ensures s@ == self@.subrange(r.lo(), r.hi(self@.len() as int)),
    { unimplemented!() }

    // ---- Buf: read at the front and advance; panics when not enough bytes remain -------------------------------------
    #[verifier::external_body]
    pub fn get_u8(&mut self) -> (x: u8)
        requires old(self)@.len() >= 1,
        ensures x == old(self)@[0], final(self)@ == old(self)@.subrange(1, old(self)@.len() as int),
    { unimplemented!() }

    #[verifier::external_body]
    pub fn get_u16_le(&mut self) -> (x: u16)
        requires old(self)@.len() >= 2,
        ensures le16(x) == old(self)@.subrange(0, 2), final(self)@ == old(self)@.subrange(2, old(self)@.len() as int),
    { unimplemented!() }

    #[verifier::external_body]
    pub fn get_u32_le(&mut self) -> (x: u32)
        requires old(self)@.len() >= 4,
        ensures le32(x) == old(self)@.subrange(0, 4), final(self)@ == old(self)@.subrange(4, old(self)@.len() as int),
    { unimplemented!() }

    #[verifier::external_body]
    pub fn get_u64_le(&mut self) -> (x: u64)
        requires old(self)@.len() >= 8,
        ensures le64(x) == old(self)@.subrange(0, 8), final(self)@ == old(self)@.subrange(8, old(self)@.len() as int),
    { unimplemented!() }

    #[verifier::external_body]
    pub fn remaining(&self) -> (r: usize)
        ensures r == self@.len(),
    { unimplemented!() }
}

// ==== additions for the codec units (C13) — additive only; nothing above this line is changed =========================
// `Bytes`/`BytesMut` deref to `[u8]`, so the codecs index them directly: `bytes[i]`, `bytes[a..b]`, `bytes[a..]`,
// `bytes[..b]`. Out-of-range indexing panics in Rust; here it is the precondition `index_req` (checked at every site).
// A range index yields a plain `[u8]` whose view is the sub-sequence.
impl vstd::std_specs::core::IndexSpecImpl<usize> for ByteSeq {
    open spec fn index_req(&self, i: &usize) -> bool { *i < self@.len() }
}
impl core::ops::Index<usize> for ByteSeq {
    type Output = u8;
    #[verifier::external_body]
    fn index(&self, i: usize) -> (r: &u8)
        ensures *r == self@[i as int],
    { unimplemented!() }
}
impl vstd::std_specs::core::IndexSpecImpl<core::ops::Range<usize>> for ByteSeq {
    open spec fn index_req(&self, i: &core::ops::Range<usize>) -> bool { i.start <= i.end && i.end <= self@.len() }
}
impl core::ops::Index<core::ops::Range<usize>> for ByteSeq {
    type Output = [u8];
    #[verifier::external_body]
    fn index(&self, i: core::ops::Range<usize>) -> (r: &[u8])
        ensures r@ == self@.subrange(i.start as int, i.end as int),
    { unimplemented!() }
}
impl vstd::std_specs::core::IndexSpecImpl<core::ops::RangeFrom<usize>> for ByteSeq {
    open spec fn index_req(&self, i: &core::ops::RangeFrom<usize>) -> bool { i.start <= self@.len() }
}
impl core::ops::Index<core::ops::RangeFrom<usize>> for ByteSeq {
    type Output = [u8];
    #[verifier::external_body]
    fn index(&self, i: core::ops::RangeFrom<usize>) -> (r: &[u8])
        ensures r@ == self@.subrange(i.start as int, self@.len() as int),
    { unimplemented!() }
}
impl vstd::std_specs::core::IndexSpecImpl<core::ops::RangeTo<usize>> for ByteSeq {
    open spec fn index_req(&self, i: &core::ops::RangeTo<usize>) -> bool { i.end <= self@.len() }
}
impl core::ops::Index<core::ops::RangeTo<usize>> for ByteSeq {
    type Output = [u8];
    #[verifier::external_body]
    fn index(&self, i: core::ops::RangeTo<usize>) -> (r: &[u8])
        ensures r@ == self@.subrange(0, i.end as int),
    { unimplemented!() }
}

// BytesMut::from(&[u8]) / Bytes::from(&[u8]): a copy of the slice
impl<'a> From<&'a [u8]> for ByteSeq {
    #[verifier::external_body]
    fn from(s: &'a [u8]) -> (r: ByteSeq)
        ensures r@ == s@,
    { unimplemented!() }
}

// <[T]>::to_vec: an element-wise clone (A-std)
pub assume_specification<T: Clone> [<[T]>::to_vec] (s: &[T]) -> (r: Vec<T>)
    ensures
        r@.len() == s@.len(),
        forall|i: int| 0 <= i < s@.len() ==> cloned::<T>(#[trigger] s@[i], r@[i]),
        s@ =~= r@ ==> s@ == r@;      // (a tautology: puts the extensionality term in reach, as vstd does for Vec::clone)

impl ByteSeq {
    // Bytes::to_vec (through Deref<[u8]>): a copy of the content
    #[verifier::external_body]
    pub fn to_vec(&self) -> (r: Vec<u8>)
        ensures r@ == self@,
    { unimplemented!() }

    #[verifier::external_body]
    pub fn extend_from_slice<T: ByteSource>(&mut self, src: T)
        ensures final(self)@ == old(self)@ + src.bytes(),
    { unimplemented!() }
}

// `uN::from_le_bytes(SLICE.try_into().map_err(F)?)`: Verus cannot name the std items involved (the array length of
// `from_le_bytes` is an anonymous constant, `TryInto` is a blanket impl). R4 instances map the two CALL TARGETS to the
// stand-ins below and keep everything else (slice expression with its indices, `.map_err(F)`, `?`) verbatim:
//   `SLICE.try_into()`        -> `slice_try_into(&SLICE)`   <&[u8] as TryInto<[u8; N]>>: Ok(copy) iff the length is N
//   `uN::from_le_bytes(`      -> `uN_from_le_bytes(`        little-endian value of the array
pub struct TryFromSliceError { pub p: u8 }
#[verifier::external_body]
pub fn slice_try_into<const N: usize>(s: &[u8]) -> (r: Result<[u8; N], TryFromSliceError>)
    ensures
        s@.len() == N ==> (r matches Ok(a) && a@ == s@),
        s@.len() != N ==> r is Err,
{ unimplemented!() }

//   `VEC.try_into()`          -> `vec_try_into(VEC)`        <Vec<u8> as TryInto<[u8; N]>>: Ok(content) iff the length is N, else Err(the vec)
#[verifier::external_body]
pub fn vec_try_into<const N: usize>(v: Vec<u8>) -> (r: Result<[u8; N], Vec<u8>>)
    ensures
        v@.len() == N ==> (r matches Ok(a) && a@ == v@),
        v@.len() != N ==> r is Err,
{ unimplemented!() }

pub open spec fn un_le128(s: Seq<u8>) -> u128 { vstd::bytes::spec_u128_from_le_bytes(s) }

#[verifier::external_body]
pub fn u16_from_le_bytes(a: [u8; 2]) -> (r: u16)
    ensures r == un_le16(a@),
{ unimplemented!() }
#[verifier::external_body]
pub fn u32_from_le_bytes(a: [u8; 4]) -> (r: u32)
    ensures r == un_le32(a@),
{ unimplemented!() }
#[verifier::external_body]
pub fn u64_from_le_bytes(a: [u8; 8]) -> (r: u64)
    ensures r == un_le64(a@),
{ unimplemented!() }
#[verifier::external_body]
pub fn u128_from_le_bytes(a: [u8; 16]) -> (r: u128)
    ensures r == un_le128(a@),
{ unimplemented!() }

// fixed-size record buffers: `buf[A..B].copy_from_slice(&X.to_le_bytes())` on a `[u8; N]` array. R4 instances map the two call
// targets and keep receiver, indices and argument verbatim:
//   `X.to_le_bytes()`                     -> `X.to_le_seq()`                          little-endian bytes of X (u16/u32/u64/u128)
//   `BUF[A..B].copy_from_slice(SRC)`      -> `arr_copy_from_slice(&mut BUF, A, B, SRC)` panics unless A <= B <= N and |SRC| == B - A
pub trait LeBytes {
    spec fn le_spec(&self) -> Seq<u8>;
    fn to_le_seq(&self) -> (r: Vec<u8>)
        ensures r@ == self.le_spec();
}
impl LeBytes for u16 {
    open spec fn le_spec(&self) -> Seq<u8> { le16(*self) }
    #[verifier::external_body]
    fn to_le_seq(&self) -> (r: Vec<u8>) { unimplemented!() }
}
impl LeBytes for u32 {
    open spec fn le_spec(&self) -> Seq<u8> { le32(*self) }
    #[verifier::external_body]
    fn to_le_seq(&self) -> (r: Vec<u8>) { unimplemented!() }
}
impl LeBytes for u64 {
    open spec fn le_spec(&self) -> Seq<u8> { le64(*self) }
    #[verifier::external_body]
    fn to_le_seq(&self) -> (r: Vec<u8>) { unimplemented!() }
}
impl LeBytes for u128 {
    open spec fn le_spec(&self) -> Seq<u8> { le128(*self) }
    #[verifier::external_body]
    fn to_le_seq(&self) -> (r: Vec<u8>) { unimplemented!() }
}
#[verifier::external_body]
pub fn arr_copy_from_slice<const N: usize>(a: &mut [u8; N], lo: usize, hi: usize, src: &Vec<u8>)
    requires
        lo <= hi <= N,
        src@.len() == hi - lo,
    ensures
        final(a)@ == old(a)@.subrange(0, lo as int) + src@ + old(a)@.subrange(hi as int, N as int),
{ unimplemented!() }

// a live allocation never exceeds isize::MAX bytes (the same fact `len()` states), usable where the code indexes without len()
#[verifier::external_body]
pub proof fn axiom_byteseq_len(b: &ByteSeq)
    ensures b@.len() <= isize::MAX,
{}

// R8 schema for `OPT.as_ref().map(|h| BODY)` with a pure integer BODY over a buffer (Option::map, std semantics): the closure
// body is lifted verbatim as the ghost function `f`; its machine-arithmetic obligation (no overflow) is the precondition.
#[verifier::external_body]
pub fn opt_ref_map_usize(o: &Option<ByteSeq>, Ghost(f): Ghost<spec_fn(ByteSeq) -> int>) -> (r: Option<usize>)
    requires
        o matches Some(h) ==> 0 <= f(*h) <= usize::MAX,
    ensures
        o matches Some(h) ==> r == Some(f(*h) as usize),
        o is None ==> r is None,
{ unimplemented!() }

// `x.to_le_bytes().to_vec()` (R4 instance `uN_le_vec(x)`): the little-endian bytes as a Vec
#[verifier::external_body]
pub fn u32_le_vec(x: u32) -> (r: Vec<u8>)
    ensures r@ == le32(x),
{ unimplemented!() }
#[verifier::external_body]
pub fn u64_le_vec(x: u64) -> (r: Vec<u8>)
    ensures r@ == le64(x),
{ unimplemented!() }

// u128 round trip (proved from vstd::bytes, nothing assumed; vstd's u128 lemma triggers on the `.len()` term)
pub proof fn lemma_le128_at(x: u128)
    ensures le128(x).len() == 16 && un_le128(le128(x)) == x,
{
    vstd::bytes::lemma_auto_spec_u128_to_from_le_bytes();
}
pub proof fn lemma_un_le128_at(s: Seq<u8>)
    requires s.len() == 16,
    ensures le128(un_le128(s)) == s,
{
    vstd::bytes::lemma_auto_spec_u128_to_from_le_bytes();
}
pub proof fn lemma_le128_facts()
    ensures
        forall|x: u128| #![trigger le128(x)] le128(x).len() == 16 && un_le128(le128(x)) == x,
        forall|s: Seq<u8>| #![trigger un_le128(s)] s.len() == 16 ==> le128(un_le128(s)) == s,
{
    assert forall|x: u128| #![trigger le128(x)] le128(x).len() == 16 && un_le128(le128(x)) == x by { lemma_le128_at(x); }
    assert forall|s: Seq<u8>| #![trigger un_le128(s)] s.len() == 16 implies le128(un_le128(s)) == s by { lemma_un_le128_at(s); }
}

// sequence algebra used by every codec proof: splitting a concatenation
pub proof fn lemma_cat_index<A>(a: Seq<A>, b: Seq<A>)
    ensures
        (a + b).len() == a.len() + b.len(),
        forall|i: int| 0 <= i < a.len() ==> (a + b)[i] == a[i],
        forall|i: int| a.len() <= i < a.len() + b.len() ==> (a + b)[i] == b[i - a.len()],
        (a + b).subrange(0, a.len() as int) == a,
        (a + b).subrange(a.len() as int, (a + b).len() as int) == b,
{
    assert((a + b).subrange(0, a.len() as int) =~= a);
    assert((a + b).subrange(a.len() as int, (a + b).len() as int) =~= b);
}
