// ---- log-sink prelude (`[unit] log_sink = true`; rules R2-log-sink / R3-errctx-sink / R10-fmt-sink of vx/README.md) -------------
// The vocabulary of "what a formatted text is built from". A unit that switches `log_sink` on includes this file and defines, in its
// own prelude, the sink stubs `log_arg` / `log_arg_dbg` (their labelled `requires` IS the unit's property clause), the `Loggable`
// instances of its own types, and - if `format!` remains in its functions - `fmt_string(Formatter) -> <string stand-in>`.
//
// A-fmt (assumption class): `format_args!` text = the literal pieces of the format string (program constants) interleaved with the
// `Display` (`{}`) or `Debug` (`{:?}`) text of each argument; so the text carries a secret iff the text of one ARGUMENT does.
pub trait Loggable {
    // the text `Display::fmt` writes for this value contains a raw secret
    spec fn carries_secret(&self) -> bool;
    // the text `Debug::fmt` writes for this value contains a raw secret
    spec fn dbg_carries_secret(&self) -> bool;
}
// std: `impl<T: Display + ?Sized> Display for &T` (and Debug) delegate to T
impl<T: Loggable + ?Sized> Loggable for &T {
    open spec fn carries_secret(&self) -> bool { (**self).carries_secret() }
    open spec fn dbg_carries_secret(&self) -> bool { (**self).dbg_carries_secret() }
}
// numbers, booleans and string LITERALS (`str`: a unit that maps `&str` parameters to its string stand-in is left with literals only)
impl Loggable for u8 { open spec fn carries_secret(&self) -> bool { false } open spec fn dbg_carries_secret(&self) -> bool { false } }
impl Loggable for u16 { open spec fn carries_secret(&self) -> bool { false } open spec fn dbg_carries_secret(&self) -> bool { false } }
impl Loggable for u32 { open spec fn carries_secret(&self) -> bool { false } open spec fn dbg_carries_secret(&self) -> bool { false } }
impl Loggable for u64 { open spec fn carries_secret(&self) -> bool { false } open spec fn dbg_carries_secret(&self) -> bool { false } }
impl Loggable for u128 { open spec fn carries_secret(&self) -> bool { false } open spec fn dbg_carries_secret(&self) -> bool { false } }
impl Loggable for usize { open spec fn carries_secret(&self) -> bool { false } open spec fn dbg_carries_secret(&self) -> bool { false } }
impl Loggable for i32 { open spec fn carries_secret(&self) -> bool { false } open spec fn dbg_carries_secret(&self) -> bool { false } }
impl Loggable for i64 { open spec fn carries_secret(&self) -> bool { false } open spec fn dbg_carries_secret(&self) -> bool { false } }
impl Loggable for bool { open spec fn carries_secret(&self) -> bool { false } open spec fn dbg_carries_secret(&self) -> bool { false } }
impl Loggable for str { open spec fn carries_secret(&self) -> bool { false } open spec fn dbg_carries_secret(&self) -> bool { false } }
// std: `Option<T>` has no Display; its derived Debug prints the payload's Debug text
impl<T: Loggable> Loggable for Option<T> {
    open spec fn carries_secret(&self) -> bool { *self matches Some(x) && x.carries_secret() }
    open spec fn dbg_carries_secret(&self) -> bool { *self matches Some(x) && x.dbg_carries_secret() }
}

pub const LEVEL_ERROR: u8 = 1;
pub const LEVEL_WARN: u8 = 2;
pub const LEVEL_INFO: u8 = 3;
pub const LEVEL_DEBUG: u8 = 4;
pub const LEVEL_TRACE: u8 = 5;

// `std::fmt::Formatter`: the only observable is whether a secret-carrying text has been written into it
#[verifier::external_body]
pub struct Formatter { x: u8 }
#[derive(Debug)]
pub struct FmtError { pub x: u8 }
pub type FmtResult = Result<(), FmtError>;
impl Formatter {
    pub uninterp spec fn tainted(&self) -> bool;
    #[verifier::external_body]
    pub fn new() -> (r: Formatter) ensures !r.tainted() { unimplemented!() }
}
// one `{}` argument of `write!(f, ..)` (A-fmt)
#[verifier::external_body]
pub fn fmt_arg<T: Loggable + ?Sized>(f: &mut Formatter, x: &T)
    ensures final(f).tainted() == (old(f).tainted() || x.carries_secret()),
{ unimplemented!() }
// one `{:?}` argument
#[verifier::external_body]
pub fn fmt_arg_dbg<T: Loggable + ?Sized>(f: &mut Formatter, x: &T)
    ensures final(f).tainted() == (old(f).tainted() || x.dbg_carries_secret()),
{ unimplemented!() }
// the value of the `write!` expression: the sink may refuse (fmt::Error); nothing more is written
#[verifier::external_body]
pub fn fmt_done(f: &mut Formatter) -> (r: FmtResult)
    ensures final(f).tainted() == old(f).tainted(),
{ unimplemented!() }
