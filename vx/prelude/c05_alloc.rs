// ---- shared prelude: the two id allocators of C05 as spec functions ---------------------------------------
// Used by units alloc_runtime (proved against System/Stream/Topic create_*/delete_*), alloc_replay (proved against the
// match arms of SystemState::init) and by the simulation lemmas (units/alloc_replay/lemmas.rs).
// Nothing here is assumed: these are definitions; the [C05.rt.*] / [C05.rp.*] clauses tie them to the real code.

// R6: AtomicU32 (static CURRENT_STREAM_ID / USER_ID, fields current_topic_id / current_consumer_group_id) as a plain
// cell. fetch_add wraps around on overflow (documented std semantics); orderings are dropped.
pub struct Counter32 { pub v: u32 }
impl Counter32 {
    #[verifier::external_body]
    pub fn fetch_add(&mut self, n: u32) -> (r: u32)
        ensures r == old(self).v, final(self).v == wrap32(old(self).v + n),
    { unimplemented!() }
    pub fn load(&self) -> (r: u32) ensures r == self.v { self.v }
    pub fn store(&mut self, n: u32) ensures final(self).v == n { self.v = n; }
}
pub open spec fn wrap32(x: int) -> u32 { if x > u32::MAX { (x - 0x1_0000_0000) as u32 } else { x as u32 } }

// ---- runtime (streams, topics, consumer groups): "skip taken ids, move back on delete" ----
// first k >= c that is free, or u32::MAX when the scan runs out
pub open spec fn rt_scan(c: u32, taken: Set<u32>) -> u32
    decreases u32::MAX - c,
{
    if c == u32::MAX || !taken.contains(c) { c } else { rt_scan((c + 1) as u32, taken) }
}
// (assigned id or None = refused, counter afterwards)
pub open spec fn rt_alloc(c: u32, taken: Set<u32>, requested: Option<u32>) -> (Option<u32>, u32) {
    match requested {
        Some(w) => (if taken.contains(w) { None::<u32> } else { Some(w) }, c),
        None => {
            let k = rt_scan(c, taken);
            (if taken.contains(k) { None::<u32> } else { Some(k) }, wrap32(k + 1))
        }
    }
}
// counter after deleting entity `id`
pub open spec fn rt_release(c: u32, id: u32) -> u32 { if c > id { id } else { c } }

// ---- runtime (users): plain counter, re-seeded at start-up ----
pub open spec fn rt_user_alloc(c: u32) -> (u32, u32) { (c, wrap32(c + 1)) }
pub open spec fn is_max_of(ids: Set<u32>, m: u32) -> bool { ids.contains(m) && forall|k: u32| ids.contains(k) ==> k <= m }
// USER_ID after System::load_users: highest loaded id + 1 (2 when there is none)
pub open spec fn rt_user_reseed(ids: Set<u32>, c: u32) -> bool {
    if ids =~= Set::<u32>::empty() { c == 2 } else { exists|m: u32| is_max_of(ids, m) && c == m + 1 }
}

// ---- replay (SystemState::init): "count the commands that carry no id"; the set of taken ids is not consulted ----
// (id given to the entity, counter afterwards)
pub open spec fn rp_alloc(c: u32, requested: Option<u32>) -> (u32, u32) {
    match requested {
        Some(w) => (w, c),
        None => ((c + 1) as u32, (c + 1) as u32),
    }
}
