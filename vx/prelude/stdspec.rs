// ---- A-std (emitted into EVERY unit): documented semantics of std combinators for which vstd ships no specification. Present so that
// an edit that rewrites a `match`/`if let`/`unwrap_or_else` chain into the combinator is decided by the clauses instead of ending
// as "unsupported construct" (seed C17_5 used `Option::or`). Each is the std documentation's contract, nothing more.
pub assume_specification<T>[Option::<T>::or](a: Option<T>, b: Option<T>) -> (r: Option<T>)
    ensures r == (if a is Some { a } else { b });
// `Option::filter`: Some(x) if the option is Some(x) and the predicate accepts x, None otherwise (seed C18_4)
pub assume_specification<T, P: FnOnce(&T) -> bool>[Option::<T>::filter](o: Option<T>, p: P) -> (r: Option<T>)
    requires o matches Some(x) ==> p.requires((&x,)),
    ensures match o { Some(x) => (p.ensures((&x,), true) ==> r == Some(x)) && (p.ensures((&x,), false) ==> r is None) && (r is Some ==> r == o), None => r is None };
