// ---- shared prelude: stand-in for dashmap::DashMap (A-dep, rule R4/R6) --------------------------
// `DashMap<K,V>` keeps its name and the *shape* of the dashmap API that iggy uses (in particular
// `remove` returns `Option<(K, V)>`, unlike std). Sharding, hashing and the per-shard locks are dropped:
// the view is a mathematical Map. Interior mutability is made explicit (R6): the mutators take
// `&mut self`, so every extracted `&self` function that mutates through a DashMap needs `recv mut`.
// Guard objects: `get` yields `Option<&V>` for `Option<Ref<K,V>>` and `get_mut` yields `Option<&mut V>`
// for `Option<RefMut<K,V>>` — the extracted code only derefs the guards (`guard.field`, `guard.field = e`,
// `drop(guard)`), which reads/writes the same on a plain reference.

#[verifier::external_body]
#[verifier::reject_recursive_types(K)]
#[verifier::accept_recursive_types(V)]
pub struct DashMap<K, V> { m: std::collections::HashMap<K, V> }

impl<K, V> View for DashMap<K, V> {
    type V = Map<K, V>;
    uninterp spec fn view(&self) -> Map<K, V>;
}

impl<K, V> DashMap<K, V> {
    #[verifier::external_body]
    pub fn new() -> (r: Self)
        ensures r@ == Map::<K, V>::empty(),
    { unimplemented!() }

    #[verifier::external_body]
    pub fn get(&self, k: &K) -> (r: Option<&V>)
        ensures match r { Some(v) => self@.contains_key(*k) && *v == self@[*k], None => !self@.contains_key(*k) },
    { unimplemented!() }

    // the entry behind the returned reference is the only thing that can change while the guard lives
    #[verifier::external_body]
    pub fn get_mut(&mut self, k: &K) -> (r: Option<&mut V>)
        ensures match r {
            Some(v) => old(self)@.contains_key(*k) && *v == old(self)@[*k] && final(self)@ == old(self)@.insert(*k, *final(v)),
            None => !old(self)@.contains_key(*k) && final(self)@ == old(self)@,
        },
    { unimplemented!() }

    #[verifier::external_body]
    pub fn contains_key(&self, k: &K) -> (r: bool)
        ensures r == self@.contains_key(*k),
    { unimplemented!() }

    #[verifier::external_body]
    pub fn insert(&mut self, k: K, v: V) -> (r: Option<V>)
        ensures final(self)@ == old(self)@.insert(k, v),
            match r { Some(o) => old(self)@.contains_key(k) && o == old(self)@[k], None => !old(self)@.contains_key(k) },
    { unimplemented!() }

    // dashmap: `remove(&self, key) -> Option<(K, V)>`
    #[verifier::external_body]
    pub fn remove(&mut self, k: &K) -> (r: Option<(K, V)>)
        ensures final(self)@ == old(self)@.remove(*k),
            match r { Some(kv) => old(self)@.contains_key(*k) && kv.0 == *k && kv.1 == old(self)@[*k], None => !old(self)@.contains_key(*k) },
    { unimplemented!() }

    #[verifier::external_body]
    pub fn len(&self) -> (r: usize)
        ensures r == self@.len(),
    { unimplemented!() }

    #[verifier::external_body]
    pub fn is_empty(&self) -> (r: bool)
        ensures r == (self@ == Map::<K, V>::empty()),
    { unimplemented!() }

    #[verifier::external_body]
    pub fn clear(&mut self)
        ensures final(self)@ == Map::<K, V>::empty(),
    { unimplemented!() }
}
