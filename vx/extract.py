"""Item extraction from /repo and the closed list of syntactic rewrite rules.

Every rule takes source text and returns (new_text, applications). Rules never reorder
statements or change an operator/constant/condition/call target of kept code except where the
rule's row in vx/rules.md says so (R13: non-short-circuit `|` on side-effect-free bool
operands becomes `||`, which Verus requires and which is semantically identical).
"""
import os
import re
from rustlex import lex, sig, parse_items, flatten, match_close, skip_generics, OPEN, Tok

REPO = os.environ.get("VERIF_REPO", "/repo")
CRATE_DIRS = {"server": "server/src", "sdk": "sdk/src"}


class Undecided(Exception):
    """lost anchor / unsupported construct / ambiguous item: the check exits 2, never 1."""


# --------------------------------------------------------------------------------------
# crate index
# --------------------------------------------------------------------------------------
class CrateIndex:
    def __init__(self, crate):
        self.crate = crate
        self.root = os.path.join(REPO, CRATE_DIRS[crate])
        self.files = {}
        self.items = []
        for d, _, fs in sorted(os.walk(self.root)):
            for f in sorted(fs):
                if not f.endswith(".rs"):
                    continue
                p = os.path.join(d, f)
                src = open(p, encoding="utf-8").read()
                self.files[p] = src
                try:
                    its = parse_items(src, p)
                except Exception as e:  # a file we cannot tokenise only matters if an item is wanted from it
                    its = []
                for it in flatten(its):
                    if not it.is_test:
                        self.items.append(it)

    def find(self, kind, key, infile=None, trait=None):
        """kind in fn/struct/enum/const/static/type; key 'Owner::name' or 'name'."""
        if "::" in key:
            owner, name = key.rsplit("::", 1)
        else:
            owner, name = "", key
        res = [it for it in self.items
               if it.kind == kind and it.name == name and it.owner == owner
               and (infile is None or infile in it.file)
               and (trait is None or it.trait == trait or (("<" in trait) and getattr(it, "trait_full", "") == trait)
                    or (trait == "-" and not it.trait))]     # `trait -` selects the INHERENT fn when a trait impl has one of the same name
        if kind == "fn":
            res = [it for it in res if it.body_start >= 0]
        if len(res) == 0:
            raise Undecided(f"lost anchor: {kind} {key} not found in crate {self.crate}"
                            + (f" (file filter {infile})" if infile else ""))
        if len(res) > 1:
            raise Undecided(f"ambiguous anchor: {kind} {key} found {len(res)} times in crate {self.crate}: "
                            + ", ".join(os.path.relpath(i.file, REPO) for i in res))
        return res[0]

    def text(self, it, with_attrs=False):
        src = self.files[it.file]
        return src[(it.attr_start if with_attrs else it.start):it.end]

    def line_of(self, it):
        return self.files[it.file].count("\n", 0, it.start) + 1


_INDEX = {}


def crate_index(crate):
    if crate not in _INDEX:
        _INDEX[crate] = CrateIndex(crate)
    return _INDEX[crate]


# --------------------------------------------------------------------------------------
# token helpers
# --------------------------------------------------------------------------------------
def _rebuild(src, edits):
    """edits: list of (start, end, replacement) non-overlapping; returns new text."""
    out, pos = [], 0
    for s, e, r in sorted(edits):
        if s < pos:
            continue
        out.append(src[pos:s]); out.append(r); pos = e
    out.append(src[pos:])
    return "".join(out)


def _strip_comments(src):
    edits = []
    for t in lex(src):
        if t.kind == "comment":
            edits.append((t.start, t.end, ""))
    return _rebuild(src, edits)


# --------------------------------------------------------------------------------------
# rules
# --------------------------------------------------------------------------------------
def r1_async(src):
    st = sig(lex(src))
    edits = []
    for i, t in enumerate(st):
        if t.kind == "ident" and t.text == "async" and i + 1 < len(st) and st[i + 1].text in ("fn", "move", "{", "|"):
            if st[i + 1].text == "fn":
                edits.append((t.start, st[i + 1].start, ""))
        if t.kind == "ident" and t.text == "await" and i > 0 and st[i - 1].text == ".":
            edits.append((st[i - 1].start, t.end, ""))
    return _rebuild(src, edits), len(edits)


LOG_MACROS = {"trace", "debug", "info", "warn", "error"}


def r2_log(src):
    st = sig(lex(src))
    edits = []
    i = 0
    while i < len(st):
        t = st[i]
        if t.kind == "ident" and t.text in LOG_MACROS and i + 2 < len(st) and st[i + 1].text == "!" \
                and st[i + 2].text in OPEN:
            # allow tracing::info!
            s = i
            if i >= 2 and st[i - 1].text == "::" and st[i - 2].text in ("tracing", "log"):
                s = i - 2
            prev = st[s - 1].text if s > 0 else "{"
            k = match_close(st, i + 2)
            if prev in ("{", "}", ";") or prev == "=>":
                end = st[k].end
                if k + 1 < len(st) and st[k + 1].text == ";":
                    end = st[k + 1].end
                    edits.append((st[s].start, end, ""))
                elif prev == "=>":
                    edits.append((st[s].start, end, "()"))
                else:
                    edits.append((st[s].start, end, ""))
                i = k + 1
                continue
        i += 1
    return _rebuild(src, edits), len(edits)


ERRCTX = {"with_error_context", "with_info_context", "with_warn_context", "with_debug_context",
          "with_trace_context"}


def r3_errctx(src):
    st = sig(lex(src))
    edits = []
    for i, t in enumerate(st):
        if t.kind == "ident" and t.text in ERRCTX and i > 0 and st[i - 1].text == "." and st[i + 1].text == "(":
            k = match_close(st, i + 1)
            edits.append((st[i - 1].start, st[k].end, ""))
    return _rebuild(src, edits), len(edits)


def r4_typemap(src, idents, patterns):
    """idents: {name: replacement} on identifier tokens; patterns: [(regex, repl)] on text."""
    n = 0
    for pat, rep in patterns:
        src, k = re.subn(pat, rep, src)
        n += k
    st = sig(lex(src))
    edits = []
    for i, t in enumerate(st):
        if t.kind == "ident" and t.text in idents:
            # do not rename field accesses / method names: `.name`
            if i > 0 and st[i - 1].text == "." and idents[t.text] is not None:
                continue
            edits.append((t.start, t.end, idents[t.text]))
    return _rebuild(src, edits), n + len(edits)


def r7_forlabel(src, start_k=1):
    """`for PAT in EXPR {` -> `for PAT in it<k>: EXPR {` (names Verus' ghost iterator)."""
    st = sig(lex(src))
    edits = []
    k = start_k
    for i, t in enumerate(st):
        if t.kind == "ident" and t.text == "for" and i + 1 < len(st):
            # skip `impl X for Y` / `for<'a>`
            if st[i + 1].text == "<":
                continue
            # find matching `in` at depth 0
            j = i + 1
            depth = 0
            while j < len(st):
                if st[j].text in OPEN:
                    j = match_close(st, j)
                elif st[j].kind == "ident" and st[j].text == "in":
                    break
                elif st[j].text in ("{", ";"):
                    j = -1
                    break
                j += 1
            if j < 0 or j >= len(st):
                continue
            edits.append((st[j].end, st[j].end, f" it{k}:"))
            k += 1
    return _rebuild(src, edits), len(edits)


_ENUM_RE = re.compile(r"for\s*\(\s*(\w+)\s*,\s*(\w+)\s*\)\s+in\s+([^{;]+?)\.enumerate\(\)\s*\{")


def r7_enumerate(src):
    """R7 (iteration spelling), enumerate variant — the documented semantics of `Iterator::enumerate` written out:
    `for (I, X) in E.enumerate() {`  ->  `let mut __enum_I: usize = 0; for X in E /*@enum:I@*/ { let I = __enum_I; __enum_I = __enum_I + 1;`
    (a trailing `.into_iter()` of E is dropped: `for X in V` is the same iteration). The pair pattern becomes the element
    pattern plus a counter that starts at 0 and is advanced FIRST in the body, so `continue` cannot skip it. The generator adds
    the invariant `__enum_I == it<k>.index@` to that loop. Inert on text without such a loop."""
    n = 0

    def rep(m):
        nonlocal n
        n += 1
        i, x, e = m.group(1), m.group(2), m.group(3).strip()
        if e.endswith(".into_iter()"):
            e = e[: -len(".into_iter()")]
        return f"let mut __enum_{i}: usize = 0;\nfor {x} in {e} /*@enum:{i}@*/ {{\nlet {i} = __enum_{i}; __enum_{i} = __enum_{i} + 1;"
    return _ENUM_RE.sub(rep, src), n


def r8_closure_wildcard(src):
    """R8 (generic): a closure whose single parameter is the wildcard pattern `|_|` gets a named, unused parameter `|_w|` (Verus accepts
    only variables as closure parameters). Same meaning; runs after a unit's own rewrites (their `map_err(|_| ..)` schemas come first)."""
    return re.subn(r"\|\s*_\s*\|", "|_w|", src)


def r8_unwrap_or_else(src):
    """R8 (closure schema, generic): `RECV.unwrap_or_else(|| BODY)` with a parameterless closure is `Option::unwrap_or_else`, whose
    documented meaning is its defining match: `(match RECV { Some(__v) => __v, None => { BODY } })`. RECV is the postfix chain in
    front of the call (identifiers, field/method accesses, balanced argument lists), BODY is lifted verbatim. Applied innermost
    first until none is left; inert on text without such a call. Runs after a unit's own rewrites."""
    total = 0
    while True:
        st = sig(lex(src))
        edit = None
        for i in range(len(st) - 1, -1, -1):
            t = st[i]
            if t.kind == "ident" and t.text == "unwrap_or_else" and i >= 2 and st[i - 1].text == "." \
                    and i + 2 < len(st) and st[i + 1].text == "(" and st[i + 2].text == "||":
                close = match_close(st, i + 1)
                # innermost first: skip if the body contains another such call
                inner = any(st[k].kind == "ident" and st[k].text == "unwrap_or_else" and st[k + 1].text == "(" and st[k + 2].text == "||"
                            for k in range(i + 3, close - 2))
                if inner:
                    continue
                # receiver: walk back over the postfix chain
                r = i - 2
                while True:
                    if st[r].text in (")", "]"):
                        depth = 0
                        while r >= 0:
                            if st[r].text in (")", "]"):
                                depth += 1
                            elif st[r].text in ("(", "["):
                                depth -= 1
                                if depth == 0:
                                    break
                            r -= 1
                        if r > 0 and st[r - 1].kind == "ident":
                            r -= 1
                    elif st[r].kind == "ident":
                        pass
                    else:
                        r += 1
                        break
                    if r >= 2 and st[r - 1].text in (".", "::") :
                        r -= 2
                        continue
                    break
                recv = src[st[r].start:st[i - 2].end]
                body = src[st[i + 3].start:st[close - 1].end] if close - 1 >= i + 3 else ""
                edit = (st[r].start, st[close].end, f"(match {recv} {{ Some(__v) => __v, None => {{ {body} }} }})")
                break
        if edit is None:
            break
        src = _rebuild(src, [edit])
        total += 1
    return src, total


def r13_bool_bitor(src):
    """`a.b | c.d` where every operand is a plain field path and the expression is the scrutinee of a
    `match` with `true`/`false` arms (or an `if` condition): `|` -> `||`."""
    st = sig(lex(src))
    edits = []
    for i, t in enumerate(st):
        if t.kind == "ident" and t.text in ("match", "if") :
            j = i + 1
            ops = []
            xors = []
            ok = True
            while j < len(st) and st[j].text != "{":
                x = st[j]
                if x.kind == "ident" or x.text == ".":
                    pass
                elif x.text == "|":
                    ops.append(x)
                elif x.text == "^":
                    # `^` (bool xor) binds tighter than `|` and than `||`: the grouping a | (b ^ c) is kept by a || (b ^ c);
                    # it is written as the `!=` it is on bools (Verus has no `^` on bool either)
                    xors.append(x)
                else:
                    ok = False
                    break
                j += 1
            if ok and ops:
                for x in ops:
                    edits.append((x.start, x.end, "||"))
                for x in xors:
                    edits.append((x.start, x.end, "!="))
    return _rebuild(src, edits), len(edits)


def strip_attrs_and_docs(src):
    """drop #[...] attributes and doc comments in front of an item / its fields."""
    st = sig(lex(src))
    edits = []
    i = 0
    while i < len(st):
        if st[i].text == "#" and i + 1 < len(st) and st[i + 1].text == "[":
            k = match_close(st, i + 1)
            edits.append((st[i].start, st[k].end, ""))
            i = k + 1
            continue
        i += 1
    out = _rebuild(src, edits)
    return _strip_comments(out)


# --------------------------------------------------------------------------------------
# struct slicing (R12)
# --------------------------------------------------------------------------------------
def r12_struct(src, keep=None, drop=None):
    """src is `pub struct X { fields }`; keep only listed fields (None = all). Visibility is forced to pub."""
    src = strip_attrs_and_docs(src)
    st = sig(lex(src))
    # find body
    bi = next(i for i, t in enumerate(st) if t.text == "{")
    be = match_close(st, bi)
    fields = []
    i = bi + 1
    while i < be:
        s = i
        # visibility
        if st[i].text == "pub":
            i += 1
            if st[i].text == "(":
                i = match_close(st, i) + 1
        name = st[i].text
        assert st[i + 1].text == ":", (name, st[i + 1])
        j = i + 2
        while j < be:
            if st[j].text == "<":
                j = skip_generics(st, j); continue
            if st[j].text in OPEN:
                j = match_close(st, j)
            elif st[j].text == ",":
                break
            j += 1
        ty = src[st[i + 2].start:st[j - 1].end]
        fields.append((name, ty))
        i = j + 1
    dropped = []
    kept = []
    for name, ty in fields:
        if (keep is not None and name not in keep) or (drop and name in drop):
            dropped.append(name)
        else:
            kept.append((name, ty))
    head = src[st[0].start:st[bi].start]
    head = re.sub(r"^\s*pub(\([^)]*\))?\s+", "", head)
    body = "".join(f"    pub {n}: {t},\n" for n, t in kept)
    return f"pub {head.strip()} {{\n{body}}}\n", dropped


def r12_enum(src, keep=None):
    """keep: optional keep-list of VARIANT names (R12 for enums). A function that mentions a dropped variant fails to
    type-check -> exit 2, so a dropped variant can never hide an effect. Returns text (keep=None) or (text, dropped)."""
    text = "pub " + re.sub(r"^\s*pub(\([^)]*\))?\s+", "", strip_attrs_and_docs(src)).strip() + "\n"
    if keep is None:
        return text
    st = sig(lex(text))
    bi = next(i for i, t in enumerate(st) if t.text == "{")
    be = match_close(st, bi)
    kept, dropped = [], []
    for a, b in _split_top(st, bi + 1, be):
        if a >= b:
            continue
        name = st[a].text
        (kept if name in keep else dropped).append((name, text[st[a].start:st[b - 1].end]))
    body = "".join(f"    {v},\n" for _, v in kept)
    return text[:st[bi].start] + "{\n" + body + "}\n", [n for n, _ in dropped]


# --------------------------------------------------------------------------------------
# R8: closure schemas
# --------------------------------------------------------------------------------------
def _split_top(st, lo, hi, sep=","):
    parts, cur, i = [], lo, lo
    while i < hi:
        if st[i].text in OPEN:
            i = match_close(st, i)
        elif st[i].text == "<" and i > lo and st[i - 1].kind == "ident" and st[i - 1].text[0].isupper():
            i = skip_generics(st, i) - 1
        elif st[i].text == sep:
            parts.append((cur, i)); cur = i + 1
        i += 1
    if cur < hi:
        parts.append((cur, hi))
    return parts


def r8_closure(src, sites, fnkey):
    """sites: [{recv, method, to, types:[..], by_ref: bool(default true), only:[fn..]}].
    `.method(|P0, P1| BODY)` with receiver ending in `recv` becomes
    `.to(Ghost(|a0: T0, a1: T1| { let P0 = &a0; let P1 = &a1; BODY }))` — BODY is lifted verbatim."""
    total = 0
    for site in sites:
        if site.get("only") and fnkey not in site["only"]:
            continue
        while True:
            st = sig(lex(src))
            edit = None
            for i, t in enumerate(st):
                if t.kind == "ident" and t.text == site["method"] and i >= 2 and st[i - 1].text == "." \
                        and i + 2 < len(st) and st[i + 1].text == "(" and st[i + 2].text in ("|", "||"):
                    # receiver: identifier before the dot (skipping a trailing call like `.iter()`)
                    r = i - 2
                    if st[r].text == ")":
                        # e.g. x.iter().position(...)
                        op = r
                        depth = 0
                        while op >= 0:
                            if st[op].text == ")":
                                depth += 1
                            elif st[op].text == "(":
                                depth -= 1
                                if depth == 0:
                                    break
                            op -= 1
                        chain = st[op - 1].text
                        r2 = op - 3
                        recv = st[r2].text if r2 >= 0 else ""
                        if site.get("via") != chain:
                            continue
                        recv_start = r2
                    else:
                        if site.get("via"):
                            continue
                        recv = st[r].text
                        recv_start = r
                    if recv != site["recv"]:
                        continue
                    close = match_close(st, i + 1)
                    if st[i + 2].text == "||":
                        params = []
                        body_lo = i + 3
                    else:
                        j = i + 3
                        while st[j].text != "|":
                            if st[j].text in OPEN:
                                j = match_close(st, j)
                            j += 1
                        params = _split_top(st, i + 3, j)
                        body_lo = j + 1
                    body = src[st[body_lo].start:st[close - 1].end]
                    types = site.get("types", [])
                    if len(params) != len(types):
                        raise Undecided(f"unsupported construct: closure at .{site['method']} in {fnkey} has {len(params)} params, schema expects {len(types)}")
                    lets = []
                    for k, (a, b) in enumerate(params):
                        pat = src[st[a].start:st[b - 1].end]
                        amp = "&" if site.get("by_ref", True) else ""
                        lets.append(f"let {pat} = {amp}a{k};")
                    ps = ", ".join(f"a{k}: {ty}" for k, ty in enumerate(types))
                    extra = site.get("extra_args", "")
                    if site.get("via"):
                        # x.iter().position(|..| ..)  ->  std_position(&x, Ghost(..))
                        start = st[recv_start].start
                        # include leading path `self.a.b`
                        q = recv_start
                        while q >= 2 and st[q - 1].text == "." and st[q - 2].kind == "ident":
                            q -= 2
                        start = st[q].start
                        recv_txt = src[st[q].start:st[recv_start].end]
                        bor = site.get("borrow", "&")   # "&mut " for `iter_mut()` chains
                        rep = f"{site['to']}({bor}{recv_txt}, Ghost(|{ps}| {{ {' '.join(lets)} {body} }}){extra})"
                        edit = (start, st[close].end, rep)
                    else:
                        rep = f"{site['to']}(Ghost(|{ps}| {{ {' '.join(lets)} {body} }}){extra})"
                        edit = (t.start, st[close].end, rep)
                    break
            if edit is None:
                break
            src = _rebuild(src, [edit])
            total += 1
    return src, total


# --------------------------------------------------------------------------------------
# R14: `continue` in for-loops (Verus: "for-loops do not yet support continue")
# --------------------------------------------------------------------------------------
def r14_continue_to_else(src):
    """Inside a `for` body, a top-level statement `if C { S* continue; }` (no else) followed by REST becomes
    `if C { S* } else { REST }`. Control flow is identical: REST runs exactly when the branch is not taken."""
    n = 0
    while True:
        st = sig(lex(src))
        edit = None
        for i, t in enumerate(st):
            if not (t.kind == "ident" and t.text == "for") or (i + 1 < len(st) and st[i + 1].text == "<"):
                continue
            # body '{'
            j = i + 1
            while j < len(st) and st[j].text != "{":
                if st[j].text in ("(", "["):
                    j = match_close(st, j)
                j += 1
            if j >= len(st):
                continue
            be = match_close(st, j)
            k = j + 1
            while k < be:
                if st[k].kind == "ident" and st[k].text == "if":
                    # find block
                    b = k + 1
                    while b < be and st[b].text != "{":
                        if st[b].text in ("(", "["):
                            b = match_close(st, b)
                        b += 1
                    e = match_close(st, b)
                    has_else = e + 1 < be and st[e + 1].text == "else"
                    if (not has_else and e - 2 > b - 1 and st[e - 1].text == ";" and st[e - 2].text == "continue") \
                            or (not has_else and st[e - 1].text == "continue"):
                        c0 = e - 2 if st[e - 1].text == ";" else e - 1
                        # remove `continue;`, wrap REST (tokens e+1 .. be-1) in else { }
                        edit = [(st[c0].start, st[e].start, ""), (st[e].end, st[e].end, " else {"), (st[be].start, st[be].start, "}\n")]
                        break
                    if not has_else and e == be - 1:
                        # the `if`/`if let` block is the LAST statement of the region (tail position of the for body):
                        # reaching its end is reaching the end of the loop body, so the same rule applies inside it
                        k, be = b + 1, e
                        continue
                    k = e + 1
                    if has_else:
                        # skip else chain
                        tail_else = None
                        while k < be and st[k].text == "else":
                            b2 = k + 1
                            plain = st[b2].text == "{"
                            while st[b2].text != "{":
                                if st[b2].text in ("(", "["):
                                    b2 = match_close(st, b2)
                                b2 += 1
                            tail_else = (b2, match_close(st, b2), plain)
                            k = tail_else[1] + 1
                        if tail_else and tail_else[2] and tail_else[1] == be - 1:
                            # a plain `else { .. }` block that is the LAST statement of the region (e.g. the block this
                            # rule itself produced): tail position again, the same rule applies inside it
                            k, be = tail_else[0] + 1, tail_else[1]
                    continue
                if st[k].text in OPEN:
                    k = match_close(st, k)
                k += 1
            if edit:
                break
        if not edit:
            break
        src = _rebuild(src, edit)
        n += 1
    return src, n


def r14_tail_continue(src):
    """R14 (tail form): when the LAST statement of a `for` body is a `match`, a `continue;` that ends one of its
    arm blocks is deleted. Control flow is identical: leaving that arm reaches the end of the loop body, which
    is exactly what `continue` does. Nothing else is touched."""
    n = 0
    while True:
        st = sig(lex(src))
        edit = None
        for i, t in enumerate(st):
            if not (t.kind == "ident" and t.text == "for") or (i + 1 < len(st) and st[i + 1].text == "<"):
                continue
            j = i + 1
            while j < len(st) and st[j].text != "{":
                if st[j].text in ("(", "["):
                    j = match_close(st, j)
                j += 1
            if j >= len(st):
                continue
            be = match_close(st, j)
            # top-level `match` of the body whose block closes right before the body's `}`
            k = j + 1
            while k < be:
                if st[k].kind == "ident" and st[k].text == "match":
                    b = k + 1
                    while b < be and st[b].text != "{":
                        if st[b].text in ("(", "["):
                            b = match_close(st, b)
                        b += 1
                    e = match_close(st, b)
                    if e == be - 1:
                        a = b + 1
                        while a < e:
                            if st[a].text == "=>" and st[a + 1].text == "{":
                                ae = match_close(st, a + 1)
                                if st[ae - 1].text == ";" and st[ae - 2].kind == "ident" and st[ae - 2].text == "continue":
                                    edit = [(st[ae - 2].start, st[ae - 1].end, "")]
                                    break
                                a = ae + 1
                                continue
                            if st[a].text in OPEN:
                                a = match_close(st, a)
                            a += 1
                    k = e + 1
                    if edit:
                        break
                    continue
                if st[k].text in OPEN:
                    k = match_close(st, k)
                k += 1
            if edit:
                break
        if not edit:
            break
        src = _rebuild(src, edit)
        n += 1
    return src, n


# --------------------------------------------------------------------------------------
# log-sink variants of R2 / R3 / R10 (`[unit] log_sink = true`): the text a log event / error context / `write!` is built
# from is NOT dropped; every VALUE it is built from is handed to a prelude stub (vx/prelude/logsink.rs), so that
# "what reaches the log" becomes an obligation at the call site. Nothing of the kept code is changed.
# --------------------------------------------------------------------------------------
LOG_LEVEL = {"trace": "LEVEL_TRACE", "debug": "LEVEL_DEBUG", "info": "LEVEL_INFO", "warn": "LEVEL_WARN", "error": "LEVEL_ERROR"}
_EXPR_KEYWORDS = {"return", "let", "in", "if", "else", "match", "while", "for", "loop", "break", "continue", "move", "mut", "ref", "as",
                  "unsafe", "async", "await", "where", "fn", "pub", "use", "impl", "dyn", "box", "yield"}


def _match_open(st, i):
    """st[i] is a closing bracket; returns the index of its opener."""
    depth = 0
    j = i
    while j >= 0:
        t = st[j]
        if t.kind == "punct":
            if t.text in CLOSE_B:
                depth += 1
            elif t.text in OPEN:
                depth -= 1
                if depth == 0:
                    return j
        j -= 1
    raise Undecided("unsupported construct: unbalanced bracket in a log-sink receiver")


CLOSE_B = {")", "]", "}"}


def _str_body(lit):
    """the characters between the quotes of a string literal token, with escape sequences replaced by a neutral character
    (only the `{..}` structure of a format string matters here; `\\u{..}` contains braces that are not placeholders)."""
    m = re.match(r'^(?:b|c)?r(#*)"', lit)
    if m:
        return lit[m.end():len(lit) - 1 - len(m.group(1))]
    body = lit[lit.index('"') + 1:-1]
    body = re.sub(r"\\u\{[0-9a-fA-F_]*\}", "_", body)
    return re.sub(r"\\(.|\n)", "_", body, flags=re.S)


def fmt_placeholders(fmt):
    """Placeholders of a `format_args!` string in order of appearance: list of (kind, ref, debug) with kind in
    'next' (`{}`), 'index' (`{0}`), 'name' (`{ident}` - a named argument or an identifier captured from the scope); width /
    precision arguments (`{:w$}`, `{:.p$}`, `{:.*}`) are listed too. `{{` and `}}` are escapes. debug: the spec has `?`."""
    out = []
    i, n = 0, len(fmt)
    while i < n:
        c = fmt[i]
        if c == "{":
            if fmt[i + 1:i + 2] == "{":
                i += 2
                continue
            j = fmt.find("}", i)
            if j < 0:
                raise Undecided("unsupported construct: unterminated placeholder in a format string")
            inner = fmt[i + 1:j]
            arg, _, spec = inner.partition(":")
            arg = arg.strip()
            dbg = "?" in spec
            for m in re.finditer(r"([A-Za-z_]\w*|\d+)\$", spec):
                out.append(("index" if m.group(1).isdigit() else "name", m.group(1), False))
            if ".*" in spec:
                out.append(("next", None, False))
            if arg == "":
                out.append(("next", None, dbg))
            elif arg.isdigit():
                out.append(("index", arg, dbg))
            elif re.match(r"^[A-Za-z_]\w*(\.\w+)*$", arg):
                out.append(("name", arg, dbg))
            else:
                raise Undecided(f"unsupported construct: format placeholder {{{inner}}}")
            i = j + 1
        elif c == "}":
            if fmt[i + 1:i + 2] == "}":
                i += 2
                continue
            raise Undecided("unsupported construct: stray `}` in a format string")
        else:
            i += 1
    return out


def _expr_text(src, st, a, b):
    return src[st[a].start:st[b - 1].end]


def _is_path(st, a, b):
    """tokens [a,b) are `x`, `x.y.z`, `self.a.0` or `A::B`"""
    if a >= b or st[a].kind != "ident":
        return False
    k = a + 1
    while k < b:
        if st[k].text in (".", "::") and k + 1 < b and st[k + 1].kind in ("ident", "num"):
            k += 2
        else:
            return False
    return True


def fmt_values(src, st, lo, hi, tracing):
    """st[lo:hi]: the tokens between the parentheses of a formatting macro, the format string being the first literal part
    (`tracing`: event macro - `target:`/`parent:`/`name:` metadata and `key = value` / `%v` / `?v` fields may precede the
    message). Returns [(expression text, debug)]: EVERY value the text is built from - positional and named arguments,
    identifiers captured inline in the format string, structured fields - in order of first use, without duplicates."""
    parts = [(a, b) for a, b in _split_top(st, lo, hi) if a < b]
    fields, fmt, pos, named = [], None, [], {}
    for a, b in parts:
        if tracing and fmt is None and st[a].kind == "ident" and st[a].text in ("target", "parent", "name") and a + 1 < b and st[a + 1].text == ":":
            continue
        if fmt is None and b - a == 1 and st[a].kind == "str":
            fmt = _str_body(st[a].text)
            continue
        eq = None
        k = a
        while k < b:
            if st[k].text in OPEN:
                k = match_close(st, k)
            elif st[k].text == "=" :
                eq = k
                break
            k += 1
        va = eq + 1 if eq is not None else a
        dbg = False
        if tracing and va < b and st[va].text in ("%", "?"):
            dbg = st[va].text == "?"
            va += 1
        if va >= b:
            raise Undecided("unsupported construct: empty argument of a formatting macro")
        val = _expr_text(src, st, va, b)
        if not _is_path(st, va, b):
            val = "(" + val + ")"
        if fmt is None:
            if not tracing:
                raise Undecided("unsupported construct: the format string of a formatting macro is not a string literal")
            fields.append((val, dbg))
        elif eq is not None and eq == a + 1 and st[a].kind == "ident":
            named[st[a].text] = [val, dbg]
        else:
            pos.append([val, dbg])
    vals = list(fields)
    if fmt is not None:
        nxt = 0
        used = set()
        for kind, ref, dbg in fmt_placeholders(fmt):
            if kind == "next":
                idx, nxt = nxt, nxt + 1
            elif kind == "index":
                idx = int(ref)
            else:
                if ref in named:
                    vals.append((named[ref][0], dbg)); used.add(ref)
                else:
                    vals.append((ref, dbg))          # an identifier captured from the enclosing scope
                continue
            if idx >= len(pos):
                # `{0}` may also address a named argument by position; anything else is not a well-formed call
                raise Undecided("unsupported construct: format placeholder without a matching argument")
            vals.append((pos[idx][0], dbg)); used.add(idx)
        for i, p in enumerate(pos):
            if i not in used:
                vals.append((p[0], p[1]))
        for k, p in named.items():
            if k not in used:
                vals.append((p[0], p[1]))
    seen, out = set(), []
    for v in vals:
        if v not in seen:
            seen.add(v); out.append(v)
    return out


def _pad(orig, rep):
    """keep the number of lines of the replaced text (so the source line of every later statement is unchanged)"""
    return rep + "\n" * (orig.count("\n") - rep.count("\n"))


def _sink_calls(vals, fn, first):
    return " ".join(f"{fn + ('_dbg' if dbg else '')}({first}, &{v});" for v, dbg in vals)


def r2_log_sink(src):
    """R2 (log-sink variant): a statement `error!("a {x} b {}", y);` becomes `{ log_arg(LEVEL_ERROR, &x); log_arg(LEVEL_ERROR, &y); }`
    (`{:?}` values go to `log_arg_dbg`); an event without values is dropped as by R2."""
    st = sig(lex(src))
    edits = []
    i = 0
    n = 0
    while i < len(st):
        t = st[i]
        if t.kind == "ident" and t.text in LOG_MACROS and i + 2 < len(st) and st[i + 1].text == "!" and st[i + 2].text in OPEN:
            s = i
            if i >= 2 and st[i - 1].text == "::" and st[i - 2].text in ("tracing", "log"):
                s = i - 2
            prev = st[s - 1].text if s > 0 else "{"
            k = match_close(st, i + 2)
            if prev in ("{", "}", ";", "=>"):
                vals = fmt_values(src, st, i + 3, k, True)
                end = st[k].end
                semi = k + 1 < len(st) and st[k + 1].text == ";"
                if semi:
                    end = st[k + 1].end
                if vals:
                    rep = "{ " + _sink_calls(vals, "log_arg", LOG_LEVEL[t.text]) + " }"
                else:
                    rep = "()" if (prev == "=>" and not semi) else ""
                edits.append((st[s].start, end, _pad(src[st[s].start:end], rep)))
                n += 1
                i = k + 1
                continue
        i += 1
    return _rebuild(src, edits), n


ERRCTX_LEVEL = {"with_error_context": "LEVEL_ERROR", "with_warn_context": "LEVEL_WARN", "with_info_context": "LEVEL_INFO",
                "with_debug_context": "LEVEL_DEBUG", "with_trace_context": "LEVEL_TRACE"}


def _receiver_start(st, dot):
    """st[dot] is the `.` of a method call; index of the first token of its receiver (a postfix chain: path, calls, indexing,
    fields, `?`, a parenthesised expression). Anything else is outside the rule: undecided."""
    j = dot - 1
    while j >= 0:
        t = st[j]
        if t.text in (")", "]"):
            j = _match_open(st, j)
            p = st[j - 1] if j > 0 else None
            if p is not None and p.text == ">" and st[j].text == "(":
                d, q = 0, j - 1
                while q >= 0:
                    if st[q].text == ">":
                        d += 1
                    elif st[q].text == ">>":
                        d += 2
                    elif st[q].text == "<":
                        d -= 1
                        if d == 0:
                            break
                    q -= 1
                if q < 1 or st[q - 1].text != "::":
                    raise Undecided("unsupported construct: receiver of an error-context adapter")
                j = q - 2
                continue
            if p is not None and ((p.kind == "ident" and p.text not in _EXPR_KEYWORDS) or p.text in (")", "]", "?")):
                j -= 1
                continue
            return j
        if t.kind in ("ident", "num") and t.text not in _EXPR_KEYWORDS:
            if j > 0 and st[j - 1].text in (".", "::"):
                j -= 2
                continue
            return j
        if t.text == "?":
            j -= 1
            continue
        break
    raise Undecided("unsupported construct: receiver of an error-context adapter is not a postfix chain")


def r3_errctx_sink(src):
    """R3 (log-sink variant): `RECV.with_error_context(|error| format!("..{error}..{}", a))` is written out as the adapter's
    defining match (err_trail 0.8.5: on `Err(e)` the text `f(&e)` is logged at the adapter's level, the result is returned unchanged),
    with the text handed to the log stub value by value:
    `(match RECV { Ok(v) => Ok(v), Err(e) => { let error = &e; log_arg(LEVEL_ERROR, &error); log_arg(LEVEL_ERROR, &a); Err(e) } })`."""
    n = 0
    while True:
        st = sig(lex(src))
        edit = None
        for i, t in enumerate(st):
            if not (t.kind == "ident" and t.text in ERRCTX_LEVEL and i > 0 and st[i - 1].text == "." and st[i + 1].text == "("):
                continue
            close = match_close(st, i + 1)
            lvl = ERRCTX_LEVEL[t.text]
            a = i + 2
            if st[a].text == "move":
                a += 1
            if st[a].text == "||":
                pat, body_lo = None, a + 1
            elif st[a].text == "|":
                j = a + 1
                while st[j].text != "|":
                    if st[j].text in OPEN:
                        j = match_close(st, j)
                    j += 1
                pat, body_lo = src[st[a + 1].start:st[j - 1].end], j + 1
            else:
                raise Undecided(f"unsupported construct: argument of .{t.text} is not a closure literal")
            blo, bhi = body_lo, close
            while st[blo].text == "{" and match_close(st, blo) == bhi - 1:
                blo, bhi = blo + 1, bhi - 1
            if bhi - 1 > blo and st[bhi - 1].text == ";":
                raise Undecided(f"unsupported construct: closure of .{t.text} ends in a statement")
            if st[blo].kind == "ident" and st[blo].text == "format" and st[blo + 1].text == "!" and st[blo + 2].text in OPEN \
                    and match_close(st, blo + 2) == bhi - 1:
                vals = fmt_values(src, st, blo + 3, bhi - 1, False)
            else:
                vals = [("(" + _expr_text(src, st, blo, bhi) + ")", False)]
            r0 = _receiver_start(st, i - 1)
            recv = src[st[r0].start:st[i - 2].end]
            calls = _sink_calls(vals, "log_arg", lvl)
            if pat is None:
                rep = f"(match {recv} {{ Some(__ctx_v) => Some(__ctx_v), None => {{ {calls} None }} }})"
            else:
                rep = f"(match {recv} {{ Ok(__ctx_v) => Ok(__ctx_v), Err(__ctx_e) => {{ let {pat} = &__ctx_e; {calls} Err(__ctx_e) }} }})"
            edit = (st[r0].start, st[close].end, _pad(src[st[r0].start:st[close].end], rep))
            break
        if edit is None:
            break
        src = _rebuild(src, [edit])
        n += 1
    return src, n


def r10_fmt_sink(src):
    """R10 (log-sink variant): `write!(F, "..{}..", a)` / `writeln!` -> `{ fmt_arg(F, &a); fmt_done(F) }` (the formatter records whether a
    secret-carrying value was written into it); a remaining `format!("..{}..", a)` -> `{ let mut __fmt = Formatter::new(); fmt_arg(&mut __fmt, &a);
    fmt_string(__fmt) }` (the built string carries a secret iff a part does)."""
    n = 0
    while True:
        st = sig(lex(src))
        edit = None
        for i, t in enumerate(st):
            if t.kind == "ident" and t.text in ("write", "writeln", "format") and i + 2 < len(st) and st[i + 1].text == "!" \
                    and st[i + 2].text in OPEN and not (i > 0 and st[i - 1].text in (".", "::")):
                k = match_close(st, i + 2)
                if t.text == "format":
                    vals = fmt_values(src, st, i + 3, k, False)
                    rep = "{ let mut __fmt = Formatter::new(); " + _sink_calls(vals, "fmt_arg", "&mut __fmt") + " fmt_string(__fmt) }"
                else:
                    parts = _split_top(st, i + 3, k)
                    if not parts:
                        raise Undecided("unsupported construct: write! without a destination")
                    fa, fb = parts[0]
                    dest = _expr_text(src, st, fa, fb)
                    vals = fmt_values(src, st, fb + 1, k, False) if fb + 1 < k else []
                    rep = "{ " + _sink_calls(vals, "fmt_arg", dest) + f" fmt_done({dest}) }}"
                edit = (t.start, st[k].end, _pad(src[t.start:st[k].end], rep))
                break
        if edit is None:
            break
        src = _rebuild(src, [edit])
        n += 1
    return src, n
