"""runs the Kani harnesses registered in kani/harnesses.json (thorough tier): complete proofs on the compiled real crates."""
import os, re, shutil, subprocess, time

VERIF = os.path.dirname(os.path.dirname(os.path.abspath(__file__)))
KDIR = os.path.join(VERIF, "kani")


def run(harnesses):
    repo = os.environ.get("VERIF_REPO", "/repo")
    t0 = time.time()
    try:
        shutil.copy(os.path.join("/repo", "Cargo.lock"), os.path.join(KDIR, "Cargo.lock"))
    except OSError:
        pass
    cmd = ["cargo", "kani", "-j", "8", "--output-format", "terse"]
    for h in harnesses:
        cmd += ["--harness", h["name"]]
    env = dict(os.environ, CARGO_NET_OFFLINE="true")
    try:
        p = subprocess.run(cmd, cwd=KDIR, capture_output=True, text=True, env=env, timeout=3000)
        out = p.stdout + p.stderr
    except subprocess.TimeoutExpired as e:
        out = "TIMEOUT"
    res = []
    # per-harness results: with -j the output is grouped per thread ("Thread N: Checking harness X..." / "Thread N: <result block>")
    found = {}
    cur, active = {}, None
    for line in out.split("\n"):
        m = re.match(r"(?:Thread (\d+): )?Checking harness (\S+?)\.\.\.", line)
        if m:
            t = m.group(1) or "0"
            cur[t] = m.group(2).split("::")[-1]
            active = t
            continue
        m = re.match(r"Thread (\d+):\s*$", line)
        if m:
            active = m.group(1)
            continue
        if "VERIFICATION:- " in line and active in cur:
            found[cur[active]] = ("SUCCESS" if "SUCCESSFUL" in line else "FAILURE", "")
    for m in re.finditer(r"Verification failed for - (\S+)", out):
        found[m.group(1).split("::")[-1]] = ("FAILURE", out[-3000:])
    for h in harnesses:
        r, log = found.get(h["name"], ("UNDECIDED (harness did not run: " + out[-300:].replace("\n", " ") + ")", ""))
        res.append(dict(name=h["name"], result=r, bounded=h.get("bounded"), log=log[-1500:]))
    return dict(cmd=" ".join(cmd) + "  (cwd /verif/kani)", wall=round(time.time() - t0, 1), harnesses=res)
