"""Minimal Rust lexer and item finder (stdlib only).

Not a parser: it tokenises well enough to (a) match brackets while ignoring strings,
chars, lifetimes and comments, and (b) find items (fn / struct / enum / const / impl / mod)
and their byte spans in a source file. Everything the extractor does is expressed on the
token list, so text that is kept is copied verbatim from the source.
"""
import re
from dataclasses import dataclass, field

IDENT_START = set("abcdefghijklmnopqrstuvwxyzABCDEFGHIJKLMNOPQRSTUVWXYZ_")
IDENT_CONT = IDENT_START | set("0123456789")
OPEN = {"(": ")", "[": "]", "{": "}"}
CLOSE = {")": "(", "]": "[", "}": "{"}

THREE = {"<<=", ">>=", "...", "..=", }
TWO = {"::", "->", "=>", "==", "!=", "<=", ">=", "&&", "||", "+=", "-=", "*=", "/=", "%=",
       "^=", "&=", "|=", "<<", ">>", ".."}


@dataclass
class Tok:
    kind: str      # ident, punct, str, char, life, num, comment, ws
    text: str
    start: int
    end: int

    def __repr__(self):
        return f"{self.kind}:{self.text!r}"


def lex(src: str):
    toks = []
    i, n = 0, len(src)
    while i < n:
        c = src[i]
        if c.isspace():
            j = i + 1
            while j < n and src[j].isspace():
                j += 1
            toks.append(Tok("ws", src[i:j], i, j)); i = j; continue
        if c == "/" and i + 1 < n and src[i + 1] == "/":
            j = src.find("\n", i)
            if j < 0:
                j = n
            toks.append(Tok("comment", src[i:j], i, j)); i = j; continue
        if c == "/" and i + 1 < n and src[i + 1] == "*":
            depth, j = 1, i + 2
            while j < n and depth:
                if src.startswith("/*", j):
                    depth += 1; j += 2
                elif src.startswith("*/", j):
                    depth -= 1; j += 2
                else:
                    j += 1
            toks.append(Tok("comment", src[i:j], i, j)); i = j; continue
        # raw strings / byte strings
        m = re.match(r'(b|c)?r(#*)"', src[i:i + 40]) if c in "brc" else None
        if m:
            hashes = m.group(2)
            endpat = '"' + hashes
            j = src.find(endpat, i + m.end())
            j = n if j < 0 else j + len(endpat)
            toks.append(Tok("str", src[i:j], i, j)); i = j; continue
        if c == '"' or (c in "bc" and i + 1 < n and src[i + 1] == '"'):
            j = i + (2 if c != '"' else 1)
            while j < n and src[j] != '"':
                j += 2 if src[j] == "\\" else 1
            j += 1
            toks.append(Tok("str", src[i:j], i, j)); i = j; continue
        if c == "'" or (c == "b" and i + 1 < n and src[i + 1] == "'"):
            k = i + (2 if c == "b" else 1)
            # char literal or lifetime
            if k < n and src[k] == "\\":
                j = k + 2
                while j < n and src[j] != "'":
                    j += 1
                j += 1
                toks.append(Tok("char", src[i:j], i, j)); i = j; continue
            if k + 1 < n and src[k + 1] == "'":
                j = k + 2
                toks.append(Tok("char", src[i:j], i, j)); i = j; continue
            # multi-byte char literal e.g. 'é'
            if k < n and src[k] not in IDENT_START:
                j = src.find("'", k)
                j = n if j < 0 else j + 1
                toks.append(Tok("char", src[i:j], i, j)); i = j; continue
            j = k
            while j < n and src[j] in IDENT_CONT:
                j += 1
            toks.append(Tok("life", src[i:j], i, j)); i = j; continue
        if c in IDENT_START:
            j = i + 1
            while j < n and src[j] in IDENT_CONT:
                j += 1
            if src[i:j] == "r" and j < n and src[j] == "#" and j + 1 < n and src[j + 1] in IDENT_START:
                j += 1
                while j < n and src[j] in IDENT_CONT:
                    j += 1
            toks.append(Tok("ident", src[i:j], i, j)); i = j; continue
        if c.isdigit():
            j = i + 1
            while j < n and (src[j] in IDENT_CONT or (src[j] == "." and j + 1 < n and src[j + 1].isdigit()
                                                    and not src.startswith("..", j))):
                j += 1
            toks.append(Tok("num", src[i:j], i, j)); i = j; continue
        if src[i:i + 3] in THREE:
            toks.append(Tok("punct", src[i:i + 3], i, i + 3)); i += 3; continue
        if src[i:i + 2] in TWO:
            toks.append(Tok("punct", src[i:i + 2], i, i + 2)); i += 2; continue
        toks.append(Tok("punct", c, i, i + 1)); i += 1
    return toks


def sig(toks):
    """significant tokens (no ws / comments)"""
    return [t for t in toks if t.kind not in ("ws", "comment")]


def match_close(st, i):
    """st: significant tokens; st[i] is an opening bracket; returns index of its closer."""
    depth = 0
    j = i
    while j < len(st):
        t = st[j]
        if t.kind == "punct":
            if t.text in OPEN:
                depth += 1
            elif t.text in CLOSE:
                depth -= 1
                if depth == 0:
                    return j
        j += 1
    raise ValueError("unbalanced bracket at byte %d" % st[i].start)


def skip_generics(st, i):
    """st[i] is '<' opening a generic list; return index after the matching '>'."""
    depth = 0
    j = i
    while j < len(st):
        t = st[j]
        if t.kind == "punct":
            if t.text == "<":
                depth += 1
            elif t.text == ">":
                depth -= 1
                if depth == 0:
                    return j + 1
            elif t.text == ">>":
                depth -= 2
                if depth <= 0:
                    return j + 1
            elif t.text == "->":
                pass
            elif t.text in OPEN:
                j = match_close(st, j)
        j += 1
    raise ValueError("unbalanced generics at byte %d" % st[i].start)


@dataclass
class Item:
    kind: str            # fn, struct, enum, const, static, type, impl, mod, trait, use, macro, other
    name: str
    owner: str           # impl self type ('' for free items)
    trait: str           # trait name when inside `impl Trait for T`
    file: str
    start: int           # byte offset of the first token of the item (after attributes)
    attr_start: int      # byte offset including leading attributes / doc comments
    end: int             # byte offset one past the item
    body_start: int = -1  # byte offset of the '{' opening the body (fn/struct/enum/impl)
    is_test: bool = False
    module: str = ""
    quals: tuple = ()
    children: list = field(default_factory=list)
    trait_full: str = ""  # for items inside `impl Trait<Args> for T`: the trait WITH its generic arguments, blanks removed (`From<u64>`)

    @property
    def key(self):
        return f"{self.owner}::{self.name}" if self.owner else self.name


ITEM_KW = {"fn", "struct", "enum", "const", "static", "type", "impl", "mod", "trait", "use",
           "union", "extern", "macro_rules"}
QUALS = {"pub", "async", "unsafe", "default", "const", "extern"}


def _type_name(st, i, stop):
    """last path-segment identifier of the type starting at st[i] (before generic args)."""
    name = ""
    j = i
    while j < stop:
        t = st[j]
        if t.kind == "ident" and t.text not in ("dyn", "mut"):
            name = t.text
        elif t.kind == "punct" and t.text == "<":
            j = skip_generics(st, j)
            continue
        elif t.kind == "punct" and t.text in ("&", "::") or t.kind == "life":
            pass
        elif t.kind == "punct" and t.text in OPEN:
            # tuple / array type as impl target: name it by its text
            k = match_close(st, j)
            return "".join(x.text for x in st[j:k + 1])
        else:
            break
        j += 1
    return name


def parse_items(src, file="", owner="", trait="", module="", st=None, lo=0, hi=None, in_test=False):
    """Return the list of items in st[lo:hi] (item level)."""
    if st is None:
        st = sig(lex(src))
    if hi is None:
        hi = len(st)
    items = []
    i = lo
    while i < hi:
        attr_i = i
        is_test = in_test
        # attributes
        while i < hi and st[i].kind == "punct" and st[i].text == "#":
            j = i + 1
            if j < hi and st[j].text == "!":
                j += 1
            if j < hi and st[j].text == "[":
                k = match_close(st, j)
                txt = "".join(x.text for x in st[j:k + 1])
                if txt.startswith("[cfg(test") or txt == "[test]" or txt.startswith("[tokio::test") \
                        or txt.startswith("[cfg(all(test"):
                    is_test = True
                i = k + 1
            else:
                break
        if i >= hi:
            break
        item_i = i
        quals = []
        # qualifiers
        while i < hi and st[i].kind == "ident" and st[i].text in QUALS:
            # `const NAME` is an item, `const fn` is a qualifier
            if st[i].text == "const" and not (i + 1 < hi and st[i + 1].text in ("fn", "unsafe", "async", "extern")):
                break
            if st[i].text == "extern" and i + 1 < hi and st[i + 1].kind == "str":
                quals.append("extern"); i += 2; continue
            quals.append(st[i].text)
            i += 1
            if quals[-1] == "pub" and i < hi and st[i].text == "(":
                i = match_close(st, i) + 1
        if i >= hi:
            break
        t = st[i]
        kw = t.text if t.kind == "ident" else ""
        if kw == "macro_rules":
            # macro_rules! name { ... }
            j = i
            while j < hi and st[j].text not in OPEN:
                j += 1
            k = match_close(st, j)
            if k + 1 < hi and st[k + 1].text == ";":
                k += 1
            items.append(Item("macro", st[i + 2].text if i + 2 < hi else "", owner, trait, file,
                              st[item_i].start, st[attr_i].start, st[k].end, is_test=is_test, module=module))
            i = k + 1
            continue
        if kw not in ITEM_KW:
            # something else at item level (macro invocation, stray token): skip to ';' or balanced group
            j = i
            while j < hi:
                if st[j].kind == "punct" and st[j].text in OPEN:
                    j = match_close(st, j)
                    if st[j].text == "}":
                        break
                elif st[j].kind == "punct" and st[j].text == ";":
                    break
                j += 1
            j = min(j, hi - 1)
            items.append(Item("other", t.text, owner, trait, file, st[item_i].start, st[attr_i].start,
                              st[j].end, is_test=is_test, module=module))
            i = j + 1
            continue
        if kw == "fn":
            name = st[i + 1].text
            j = i + 2
            if st[j].text == "<":
                j = skip_generics(st, j)
            assert st[j].text == "(", (file, name, st[j])
            j = match_close(st, j) + 1
            # return type / where clause up to '{' or ';'
            while j < hi and not (st[j].kind == "punct" and st[j].text in ("{", ";")):
                if st[j].kind == "punct" and st[j].text == "<":
                    j = skip_generics(st, j); continue
                if st[j].kind == "punct" and st[j].text in ("(", "["):
                    j = match_close(st, j)
                j += 1
            if st[j].text == ";":
                items.append(Item("fn", name, owner, trait, file, st[item_i].start, st[attr_i].start,
                                  st[j].end, -1, is_test, module, tuple(quals)))
                i = j + 1
                continue
            k = match_close(st, j)
            items.append(Item("fn", name, owner, trait, file, st[item_i].start, st[attr_i].start,
                              st[k].end, st[j].start, is_test, module, tuple(quals)))
            i = k + 1
            continue
        if kw in ("struct", "enum", "union", "trait"):
            name = st[i + 1].text
            j = i + 2
            while j < hi and not (st[j].kind == "punct" and st[j].text in ("{", ";", "(")):
                if st[j].text == "<":
                    j = skip_generics(st, j); continue
                j += 1
            if st[j].text == ";":
                k = j; body = -1
            elif st[j].text == "(":
                k = match_close(st, j); body = st[j].start
                # tuple struct: optional where, then ';'
                while k < hi and st[k].text != ";":
                    k += 1
            else:
                k = match_close(st, j); body = st[j].start
            items.append(Item(kw, name, owner, trait, file, st[item_i].start, st[attr_i].start,
                              st[k].end, body, is_test, module, tuple(quals)))
            i = k + 1
            continue
        if kw == "impl":
            j = i + 1
            if st[j].text == "<":
                j = skip_generics(st, j)
            # find '{' at this level and optional 'for'
            k = j
            for_i = -1
            where_i = -1
            while k < hi and st[k].text != "{":
                if st[k].text == "<":
                    k = skip_generics(st, k); continue
                if st[k].kind == "ident" and st[k].text == "for" and for_i < 0:
                    for_i = k
                if st[k].kind == "ident" and st[k].text == "where" and where_i < 0:
                    where_i = k
                k += 1
            stop = where_i if where_i >= 0 else k
            if for_i >= 0:
                tr = _type_name(st, j, for_i)
                ty = _type_name(st, for_i + 1, stop)
            else:
                tr = ""
                ty = _type_name(st, j, stop)
            e = match_close(st, k)
            it = Item("impl", ty, owner, tr, file, st[item_i].start, st[attr_i].start, st[e].end,
                      st[k].start, is_test, module, tuple(quals))
            it.children = parse_items(src, file, ty, tr, module, st, k + 1, e, is_test)
            if for_i >= 0:
                # full trait text (with generic arguments) so that `impl From<u64> for T` and `impl From<Option<u64>> for T`
                # can be told apart by `fn T::from trait From<u64>` (additive: plain `trait From` keeps matching as before)
                full = re.sub(r"\s+", "", src[st[j].start:st[for_i - 1].end])
                for c in it.children:
                    c.trait_full = full
            items.append(it)
            i = e + 1
            continue
        if kw == "mod":
            name = st[i + 1].text
            if st[i + 2].text == ";":
                items.append(Item("mod", name, owner, trait, file, st[item_i].start, st[attr_i].start,
                                  st[i + 2].end, -1, is_test, module))
                i += 3
                continue
            k = i + 2
            e = match_close(st, k)
            it = Item("mod", name, owner, trait, file, st[item_i].start, st[attr_i].start, st[e].end,
                      st[k].start, is_test, module)
            it.children = parse_items(src, file, "", "", (module + "::" + name).strip(":"), st, k + 1, e,
                                      is_test or name == "tests")
            items.append(it)
            i = e + 1
            continue
        # const / static / type / use / extern: up to ';' (balanced)
        name = ""
        if kw in ("const", "static", "type"):
            nm = i + 1
            if st[nm].text == "mut":
                nm += 1
            name = st[nm].text
        j = i
        while j < hi:
            if st[j].kind == "punct" and st[j].text in OPEN:
                j = match_close(st, j)
                if kw == "extern" and st[j].text == "}":
                    break
            elif st[j].kind == "punct" and st[j].text == ";":
                break
            j += 1
        j = min(j, hi - 1)
        items.append(Item(kw, name, owner, trait, file, st[item_i].start, st[attr_i].start, st[j].end,
                          -1, is_test, module, tuple(quals)))
        i = j + 1
    return items


def flatten(items):
    for it in items:
        yield it
        if it.children:
            yield from flatten(it.children)
