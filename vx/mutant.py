#!/usr/bin/env python3
"""authoring aid: run the sensitivity self-test for single patches.
usage: mutant.py <unit> <patch> [<unit> <patch> ...]   (a patch named H*/harmless* is expected to stay quiet)"""
import os, sys, json
sys.path.insert(0, os.path.dirname(os.path.abspath(__file__)))
import check as C
import concurrent.futures as cf
jobs = []
a = sys.argv[1:]
for i in range(0, len(a), 2):
    u, p = a[i], os.path.abspath(a[i + 1])
    n = os.path.basename(p).rsplit(".", 1)[0]
    if n == "patch":
        n = os.path.basename(os.path.dirname(p))
    jobs.append((u, f"{u}/{n}", p, not n.lower().startswith("h"), []))
with cf.ThreadPoolExecutor(max_workers=6) as ex:
    for r in ex.map(C._selftest_one, jobs):
        print(json.dumps(r))
