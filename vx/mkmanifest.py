#!/usr/bin/env python3
"""Regenerates /verif/MANIFEST.json from vx/claims.json (per-property claim text) and the units on disk.
A property is listed under `checks` only if at least one unit serves it; everything else must be in
claims.json under not_applicable with a reason."""
import glob
import json
import os
import sys
import tomllib

HERE = os.path.dirname(os.path.abspath(__file__))
VERIF = os.path.dirname(HERE)


def main():
    claims = json.load(open(os.path.join(HERE, "claims.json")))
    served = {}
    enp = os.path.join(VERIF, "units", "ENABLED")
    en = {l.strip() for l in open(enp) if l.strip() and not l.startswith("#")} if os.path.exists(enp) else None
    for p in sorted(glob.glob(os.path.join(VERIF, "units", "*", "unit.toml"))):
        if en is not None and os.path.basename(os.path.dirname(p)) not in en:
            continue
        cfg = tomllib.load(open(p, "rb"))
        for pr in cfg.get("unit", {}).get("properties", []):
            served.setdefault(pr, []).append(os.path.basename(os.path.dirname(p)))
    checks = []
    na = list(claims["not_applicable"])
    na_ids = {x["property_id"] for x in na}
    for pid in [f"C{n:02d}" for n in range(1, 21)]:
        c = claims["claims"].get(pid)
        if pid in na_ids:
            continue
        if not c or pid not in served:
            na.append(dict(property_id=pid, reason=(c or {}).get("pending_reason",
                      "no verification unit for this property has been completed yet; not claimed")))
            continue
        checks.append(dict(
            property_id=pid,
            quick_cmd=f"python3 vx/check.py {pid} --tier quick",
            thorough_cmd=f"python3 vx/check.py {pid} --tier thorough",
            evidence_file=f"/verif/evidence/{pid}.json",
            replay_cmd_template="python3 vx/check.py --replay {path}",
            engine="vx (Verus 0.2026.09.13 on functions extracted from /repo on every run)"
                   + ("; kani on the compiled crate in the thorough tier" if c.get("kani") else ""),
            level_claimed=dict(category="proof", text=c["text"], design_ref=c.get("design_ref", f"DESIGN.md §6 {pid}")),
            level_note=c["note"] + " Units: " + ", ".join(served[pid]) + ".",
            technique="contract-based deductive verification (Verus requires/ensures/invariants on the real functions, re-extracted each run)",
        ))
    m = dict(
        version=1,
        setup_cmd="python3 vx/setup.py",
        hooks=dict(guard="iggy_verif",
                   enable="none needed: the Verus route reads source text from /repo; no cfg-guarded hook has been added to /repo",
                   baseline_off_cmd="cd /repo && cargo nextest run --workspace --no-fail-fast --tool-config-file pb:/w/lib/nextest.toml --profile pb --test-threads 8 --offline",
                   source_commits=[], add_only=True),
        engines=[dict(name="vx", path="/verif/vx", serves_properties=sorted(served),
                      kind_free_text="mechanical extraction of real functions + closed rewrite rules + spliced contracts, discharged by Verus/Z3; exit 0/1/2")],
        checks=checks,
        not_applicable=na,
        notes="Exit 2 (undecided) is used for lost anchors, unsupported constructs, rlimit and unlabelled failures; it is never an alarm. "
              "Fix commits in /repo are recorded in known_findings.json under `fixed`.",
    )
    json.dump(m, open(os.path.join(VERIF, "MANIFEST.json"), "w"), indent=1)
    print("checks:", [c["property_id"] for c in checks])
    print("not_applicable:", [x["property_id"] for x in na])


if __name__ == "__main__":
    main()
