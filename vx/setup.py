#!/usr/bin/env python3
"""setup after a fresh restore: nothing to build (python3 stdlib + the pre-installed verus); sanity-check the tools."""
import os, shutil, subprocess, sys
ok = True
if not shutil.which("verus"):
    print("verus not on PATH"); ok = False
else:
    print(subprocess.run(["verus", "--version"], capture_output=True, text=True).stdout.strip().split("\n")[1:2])
os.makedirs(os.path.join(os.path.dirname(os.path.dirname(os.path.abspath(__file__))), "build"), exist_ok=True)
os.makedirs(os.path.join(os.path.dirname(os.path.dirname(os.path.abspath(__file__))), "evidence"), exist_ok=True)
sys.exit(0 if ok else 1)
