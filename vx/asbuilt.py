#!/usr/bin/env python3
"""prints the as-built table (DESIGN.md 11.5) from evidence/*.json and claims.json; documentation aid only"""
import json, glob, os
V = os.path.dirname(os.path.dirname(os.path.abspath(__file__)))
claims = json.load(open(os.path.join(V, "vx", "claims.json")))
print("| Id | Level | Units | Real functions under contract | Obligations (discharged) | Lemmas | Known findings | Assumptions listed | Quick wall |")
print("|---|---|---|---|---|---|---|---|---|")
tot_f = set(); tot_o = 0
for p in sorted(glob.glob(os.path.join(V, "evidence", "C*.json"))):
    e = json.load(open(p)); c = e["coverage"]
    units = sorted({f["unit"] for f in c["functions_under_contract"]} | {v["unit"] for v in c.get("vacuity_smoke", [])})
    fns = {(f["file"], f["fn"], f.get("line")) for f in c["functions_under_contract"]}
    tot_f |= fns; tot_o += c["obligations"]
    kf = ", ".join(k["obligation"] for k in c.get("known_findings", [])) or "–"
    print(f"| {e['property_id']} | {e['level']} | {', '.join(units)} | {len(fns)} | {c['obligations']} ({c['discharged']}) | {len(c.get('lemmas', []))} | {kf} | {len(e['assumptions'])} | {e['wall_s']:.0f} s |")
print(f"\ndistinct real functions (or slices of functions) under contract over all properties: {len(tot_f)}; obligations summed over properties (a clause serving two properties counts twice): {tot_o}")
