"""Unit loader and generator: unit.toml + contracts.vspec + prelude.rs + lemmas.rs  ->  build/<unit>.rs

The generated file is `use vstd::prelude::*; verus!{ common prelude · unit prelude · extracted types ·
extracted fns (with spliced contracts) · lemmas }`. A line map records, for every generated line, where
it came from (contract clause label, /repo file:line, prelude, lemma) so Verus diagnostics can be
reported as named obligations.
"""
import hashlib
import os
import re
import tomllib
from dataclasses import dataclass, field

import extract as X
from rustlex import lex, sig, match_close, skip_generics, OPEN

VERIF = os.path.dirname(os.path.dirname(os.path.abspath(__file__)))
LABEL_RE = re.compile(r"^\s*\[([A-Za-z0-9_.\-:<>]+)\]\s*")


@dataclass
class Clause:
    label: str
    text: str


@dataclass
class LoopSpec:
    invariants: list = field(default_factory=list)
    decreases: list = field(default_factory=list)
    ensures: list = field(default_factory=list)
    raw_kw: str = "invariant"


@dataclass
class AtSpec:
    anchor: str
    nth: int
    where: str        # before | after | replace
    text: list = field(default_factory=list)
    label: str = ""


@dataclass
class FnSpec:
    key: str
    infile: str = None
    trait: str = None
    ret: str = None
    recv_mut: bool = False
    requires: list = field(default_factory=list)
    ensures: list = field(default_factory=list)
    decreases: list = field(default_factory=list)
    loops: dict = field(default_factory=dict)
    ats: list = field(default_factory=list)
    attrs: list = field(default_factory=list)
    implicit: str = None     # label for implicit body obligations (panic freedom) when the property forbids a crash
    slice_from: str = None   # R11
    slice_to: str = None
    slice_sig: str = None
    slice_tail: str = None
    slice_within: str = None  # optional: slice-from is searched after the first occurrence of this anchor (e.g. a match-arm header)
    rename: str = None
    body_only: bool = False
    no_smoke: bool = False
    returns_clause: str = None
    impl_pre: list = field(default_factory=list)   # text emitted inside the generated `impl Owner {` block, before the fn (spec twins)


def parse_vspec(path):
    specs = []
    cur = None
    section = None
    target = None
    if not os.path.exists(path):
        return specs
    for ln, raw in enumerate(open(path, encoding="utf-8").read().split("\n"), 1):
        line = raw.strip()
        if not line or line.startswith("//"):
            continue
        m = re.match(r"^include\s+(\S+)\s*$", line)
        if m and cur is None and not raw.startswith((" ", "\t")):
            # `include ../<unit>/contracts.vspec`: the blocks of another unit's contract file are emitted (and verified)
            # here as well, in place - callee contracts are shared between units as ONE text instead of being copied
            inc = os.path.normpath(os.path.join(os.path.dirname(path), m.group(1)))
            if not os.path.exists(inc):
                raise ValueError(f"{path}:{ln}: include file not found: {inc}")
            specs.extend(parse_vspec(inc))
            continue
        m = re.match(r"^fn\s+(\S+)(?:\s+in\s+(\S+))?(?:\s+trait\s+(\S+))?(?:\s+as\s+(\S+))?\s*$", line)
        if m and not raw.startswith((" ", "\t")):
            cur = FnSpec(key=m.group(1), infile=m.group(2), trait=m.group(3), rename=m.group(4))
            specs.append(cur)
            section = None
            continue
        if cur is None:
            raise ValueError(f"{path}:{ln}: text outside fn block")
        if line == "end":
            cur = None
            continue
        if line.startswith("ret "):
            cur.ret = line[4:].strip(); continue
        if line == "recv mut":
            cur.recv_mut = True; continue
        if line.startswith("impl-pre "):
            cur.impl_pre.append(line[9:]); continue
        if line == "no-smoke":
            cur.no_smoke = True; continue
        if line.startswith("implicit "):
            cur.implicit = LABEL_RE.match(line[9:]).group(1); continue
        if line.startswith("attr "):
            cur.attrs.append(line[5:].strip()); continue
        if line.startswith("slice-from "):
            cur.slice_from = line[11:].strip().strip('"'); continue
        if line.startswith("slice-to "):
            cur.slice_to = line[9:].strip().strip('"'); continue
        if line.startswith("slice-sig "):
            cur.slice_sig = line[10:].strip(); continue
        if line.startswith("slice-within "):
            cur.slice_within = line[13:].strip().strip('"'); continue
        if line.startswith("slice-tail "):
            cur.slice_tail = line[11:].strip(); continue
        m = re.match(r"^loop\s+(\d+)$", line)
        if m:
            target = cur.loops.setdefault(int(m.group(1)), LoopSpec())
            section = None
            continue
        m = re.match(r'^at\s+(end|start)(?:\s+\[([A-Za-z0-9_.\-]+)\])?$', line)
        if m:
            # proof hint placed before the closing brace of the function body (bodies ending in a statement only),
            # or (`at start`) right after the opening brace of the body: needs no source anchor, so it cannot be lost
            a = AtSpec(None, 1, m.group(1), label=m.group(2) or "")
            cur.ats.append(a)
            section = ("at", a)
            continue
        m = re.match(r'^at\s+loop\s+(\d+)\s+(after|end)(?:\s+\[([A-Za-z0-9_.\-]+)\])?$', line)
        if m:
            # proof hint right after the closing brace of the n-th loop of the body (source order, as for `loop n`): the place
            # where an inner loop's result is folded into the enclosing loop's invariant; `end`: at the end of that loop's body
            # (before its closing brace), where the invariant is re-established; no source fragment to lose
            a = AtSpec(None, int(m.group(1)), "loop-" + m.group(2), label=m.group(3) or "")
            cur.ats.append(a)
            section = ("at", a)
            continue
        m = re.match(r'^at\s+"(.*)"(?:\s+#(\d+))?\s+(before|after|replace)(?:\s+\[([A-Za-z0-9_.\-]+)\])?$', line)
        if m:
            a = AtSpec(m.group(1), int(m.group(2) or 1), m.group(3), label=m.group(4) or "")
            cur.ats.append(a)
            section = ("at", a)
            continue
        if line in ("requires", "ensures", "decreases", "invariant", "invariant_except_break", "returns"):
            if line in ("requires", "returns"):
                section = (line, cur)
            elif line == "ensures":
                section = ("ensures", target if isinstance(target, LoopSpec) and _in_loop(raw) else cur)
            elif line == "decreases":
                section = ("decreases", target if isinstance(target, LoopSpec) and _in_loop(raw) else cur)
            else:
                if not isinstance(target, LoopSpec):
                    raise ValueError(f"{path}:{ln}: invariant outside loop")
                target.raw_kw = line
                section = ("invariant", target)
            continue
        if section is None:
            raise ValueError(f"{path}:{ln}: clause outside section: {line}")
        kind, tgt = section
        if kind == "at":
            tgt.text.append(raw.rstrip())
            continue
        lst = {"requires": "requires", "ensures": "ensures", "decreases": "decreases", "invariant": "invariants"}.get(kind)
        if kind == "returns":
            tgt.returns_clause = line
            continue
        cur_list = getattr(tgt, lst)
        ind = len(raw) - len(raw.lstrip())
        if cur_list and getattr(cur_list[-1], "open", False) and ind > cur_list[-1].indent:
            # continuation of a clause that did not end with ','
            cur_list[-1].text += "\n" + line
            cur_list[-1].open = not line.endswith(",")
            continue
        m = LABEL_RE.match(line)
        label = m.group(1) if m else ""
        text = line[m.end():] if m else line
        cl = Clause(label, text)
        cl.open = not line.endswith(",")
        cl.indent = ind
        cur_list.append(cl)
    return specs


def _in_loop(raw):
    # loop-level sections are indented deeper than fn-level ones (>= 8 spaces or 2 tabs)
    ind = len(raw) - len(raw.lstrip())
    return ind >= 8


# --------------------------------------------------------------------------------------
class Gen:
    """accumulates generated text with a line map"""

    def __init__(self):
        self.lines = []
        self.origin = []     # per line: dict(kind=..., ...)
        self.hint_labels = {}

    def emit(self, text, **origin):
        for l in text.split("\n"):
            self.lines.append(l)
            self.origin.append(dict(origin))

    def emit_src(self, text, file, first_line, fn):
        k = 0
        for l in text.split("\n"):
            m = re.search(r" /\*@hint:([A-Za-z0-9_.\-]*)@\*/$", l)
            if m:
                # a proof hint spliced from contracts.vspec (not source text)
                self.lines.append(l[:m.start()])
                self.origin.append(dict(kind="hint", label=m.group(1), fn=fn))
                if m.group(1):
                    self.hint_labels.setdefault(m.group(1), dict(fn=fn, kind="hint", line=len(self.lines), text=l[:m.start()].strip()))
                continue
            self.lines.append(l)
            self.origin.append(dict(kind="src", file=file, line=first_line + k, fn=fn))
            k += 1

    def text(self):
        return "\n".join(self.lines) + "\n"

    def text_parallel(self):
        """the same text with `#[verifier::spinoff_prover]` put in front of every exec/proof `fn` that has a body, ON THE SAME LINE
        (line numbers, hence the origin table, are unchanged). Each function is then discharged by its own solver process and
        Verus runs them on all threads; nothing about what is proved changes (no function's context depends on another's)."""
        out = []
        for i, l in enumerate(self.lines):
            m = _FN_LINE.match(l)
            if m and "spec fn" not in l and not l.rstrip().endswith(";") and "spinoff_prover" not in l \
                    and not (i > 0 and ("spinoff_prover" in self.lines[i - 1] or "external_body" in self.lines[i - 1])) \
                    and "external_body" not in l and not _in_trait_decl(self.lines, i):
                l = m.group(1) + "#[verifier::spinoff_prover] " + l[len(m.group(1)):]
            out.append(l)
        return "\n".join(out) + "\n"


_FN_LINE = re.compile(r"^(\s*)(?:pub(?:\([a-z]+\))? )?(?:exec |proof )?fn \w+")


def _in_trait_decl(lines, i):
    """True if line i is a method signature inside a `trait X { .. }` declaration (bodyless: the signature ends with `;`)."""
    depth = 0
    for j in range(i, min(i + 40, len(lines))):
        t = lines[j]
        if "{" in t:
            return False
        if t.rstrip().endswith(";"):
            return True
    return False


def _find_body_open(st):
    """index (in significant tokens of a fn item) of the '{' opening the body."""
    i = 0
    while st[i].text != "fn":
        i += 1
    j = i + 2
    if st[j].text == "<":
        j = skip_generics(st, j)
    j = match_close(st, j) + 1
    arrow = -1
    while not (st[j].kind == "punct" and st[j].text == "{"):
        if st[j].text == "->":
            arrow = j
        if st[j].text == "<":
            j = skip_generics(st, j); continue
        if st[j].text in ("(", "["):
            j = match_close(st, j)
        j += 1
    return i, arrow, j


def loop_headers(st, lo, hi):
    """indices of loop keywords (for/while/loop) inside st[lo:hi] in source order, with the index of the '{'."""
    res = []
    i = lo
    while i < hi:
        t = st[i]
        if t.kind == "ident" and t.text in ("for", "while", "loop"):
            if t.text == "for" and st[i + 1].text == "<":
                i += 1
                continue
            j = i + 1
            while j < hi:
                if st[j].text == "{":
                    break
                if st[j].text in ("(", "["):
                    j = match_close(st, j)
                j += 1
            res.append((i, j))
        i += 1
    return res


class Unit:
    def __init__(self, name):
        self.name = name
        self.dir = os.path.join(VERIF, "units", name)
        with open(os.path.join(self.dir, "unit.toml"), "rb") as f:
            self.cfg = tomllib.load(f)
        self.specs = parse_vspec(os.path.join(self.dir, "contracts.vspec"))
        self.rewrites = []        # {rule, fn, count}
        self.functions = []       # info on functions under contract
        self.labels = {}          # label -> dict(fn, kind, line)
        self.fn_ranges = []       # (start_line, end_line, fnkey, kind)
        self.assumptions = []
        self.dropped = []

    # -- helpers --------------------------------------------------------------
    def _log(self, rule, fn, count, note=None):
        if count:
            d = dict(rule=rule, fn=fn, count=count)
            if note:
                d["note"] = note
            self.rewrites.append(d)

    def _typemap(self):
        tm = self.cfg.get("typemap", {})
        idents = dict(tm.get("idents", {}))
        pats = [(p["re"], p["to"]) for p in tm.get("patterns", [])]
        return idents, pats

    def rewrite_common(self, text, fnkey, spec=None):
        text = X._strip_comments(text)
        text, n = X.r1_async(text); self._log("R1-async", fnkey, n)
        if self.cfg.get("unit", {}).get("log_sink", False):
            # `[unit] log_sink = true`: log events, error contexts and `write!`/`format!` are not dropped; every value their text is
            # built from is handed to a stub of vx/prelude/logsink.rs (what reaches the log is an obligation at the call site)
            text, n = X.r2_log_sink(text); self._log("R2-log-sink", fnkey, n)
            text, n = X.r3_errctx_sink(text); self._log("R3-errctx-sink", fnkey, n)
            text, n = X.r10_fmt_sink(text); self._log("R10-fmt-sink", fnkey, n)
        else:
            text, n = X.r2_log(text); self._log("R2-log", fnkey, n)
            text, n = X.r3_errctx(text); self._log("R3-errctx", fnkey, n)
        for rw in self.cfg.get("rewrite", []):
            # unit-declared instances of the parameterised rules (R5 lock, R6 atomics, R8 closure schema,
            # R9 diverge, R10 fmt): regex -> replacement, each application logged under its rule id.
            only = rw.get("only")
            if only and fnkey not in only:
                continue
            text, n = re.subn(rw["re"], rw["to"], text, flags=re.S)
            if rw.get("must") and n == 0 and (not only or fnkey in only):
                raise X.Undecided(f"lost anchor: rewrite {rw['rule']} pattern {rw['re']!r} no longer matches in {fnkey}")
            self._log(rw["rule"], fnkey, n, rw.get("note"))
        # after the unit's own rewrites: a unit that has its own schema for an `enumerate()` loop has consumed it by now
        text, n = X.r7_enumerate(text); self._log("R7-enumerate", fnkey, n)
        text, n = X.r8_unwrap_or_else(text); self._log("R8-unwrap-or-else", fnkey, n)
        text, n = X.r8_closure_wildcard(text); self._log("R8-closure-wildcard", fnkey, n)
        text, n = X.r8_closure(text, self.cfg.get("closure", []), fnkey); self._log("R8-closure-schema", fnkey, n)
        idents, pats = self._typemap()
        text, n = X.r4_typemap(text, idents, pats); self._log("R4-typemap", fnkey, n)
        text, n = X.r13_bool_bitor(text); self._log("R13-bool-bitor", fnkey, n)
        text, n = X.r14_continue_to_else(text); self._log("R14-continue-to-else", fnkey, n)
        text, n = X.r14_tail_continue(text); self._log("R14-tail-continue", fnkey, n)
        # optional `[[unsupported]] re = '..' why = '..' only = [..]`: constructs the unit declares to be OUTSIDE its verified subset although
        # Verus accepts them (e.g. an un-annotated exec closure handed to an iterator adaptor: Verus knows nothing about its result, so a
        # failed obligation behind it would not be evidence against the code). Their presence in the rewritten text is exit 2 (undecided),
        # like a construct Verus itself rejects. Nothing is rewritten.
        for us in self.cfg.get("unsupported", []):
            only = us.get("only")
            if (only and fnkey not in only) or fnkey in us.get("except", []):
                continue
            if re.search(us["re"], text, flags=re.S):
                raise X.Undecided(f"unsupported construct in {fnkey}: {us.get('why', us['re'])}")
        return text

    # -- generation -----------------------------------------------------------
    def generate(self, smoke=False):
        g = Gen()
        g.emit("// GENERATED by vx from the current /repo working tree — do not edit.", kind="gen")
        # optional `[unit] crate_attrs = ["#![feature(pattern)]"]`: crate-level attributes a prelude stub needs (an `assume_specification`
        # whose std signature names an unstable trait); emitted on the SAME line, so line numbers are unchanged
        g.emit("#![allow(unused_imports, unused_variables, dead_code, unused_mut, unused_parens, unused_braces, non_snake_case, unreachable_code, unused_assignments)]"
               + "".join(self.cfg.get("unit", {}).get("crate_attrs", [])), kind="gen")
        g.emit("use vstd::prelude::*;", kind="gen")
        g.emit("verus! {", kind="gen")
        self._emit_file(g, os.path.join(VERIF, "vx", "prelude", "stdspec.rs"), "prelude")
        for pre in self.cfg.get("unit", {}).get("preludes", ["common"]):
            p = os.path.join(VERIF, "vx", "prelude", pre + ".rs")
            self._emit_file(g, p, "prelude")
        p = os.path.join(self.dir, "prelude.rs")
        if os.path.exists(p):
            self._emit_file(g, p, "prelude")
        # types
        for ty in self.cfg.get("types", []):
            idx = X.crate_index(ty["crate"])
            kind = ty.get("kind", "struct")
            it = idx.find(kind, ty["name"], ty.get("in"))
            src = idx.text(it)
            if kind == "struct":
                text, dropped = X.r12_struct(src, ty.get("keep"), ty.get("drop"))
                if dropped:
                    self.dropped.append(dict(struct=ty["name"], fields=dropped))
                    self._log("R12-struct-slice", ty["name"], len(dropped), "dropped fields: " + ",".join(dropped))
            elif kind in ("const", "static"):
                text = "pub " + re.sub(r"^\s*pub(\([^)]*\))?\s+", "", X._strip_comments(src)).strip() + "\n"
            elif ty.get("keep") is not None:
                text, dropped = X.r12_enum(src, ty.get("keep"))
                if dropped:
                    self.dropped.append(dict(enum=ty["name"], variants=dropped))
                    self._log("R12-struct-slice", ty["name"], len(dropped), "dropped variants: " + ",".join(dropped))
            else:
                text = X.r12_enum(src)
            # optional `as = "<Name>"`: the type is emitted under another name (two crates define a type of the same name and
            # both are needed in one unit, e.g. the server entity `Stream` and the SDK model `Stream`). Only the defining
            # identifier changes; the emitted name is also the key that `only = [..]` of [[rewrite]] entries refers to.
            tname = ty.get("as", ty["name"])
            if ty.get("as"):
                text = re.sub(r"\b(struct|enum|const|static)\s+" + re.escape(ty["name"]) + r"\b", r"\1 " + ty["as"], text, count=1)
                self._log("R4-typemap", tname, 1, f"type {ty['name']} of crate {ty['crate']} is emitted as {ty['as']} (name clash between crates)")
            text = self.rewrite_common(text, tname)
            if ty.get("derive"):
                g.emit(f"#[derive({ty['derive']})]", kind="gen")
            for a in ty.get("attrs", []):
                g.emit(a, kind="gen")
            g.emit_src(text.rstrip("\n"), os.path.relpath(it.file, X.REPO), idx.line_of(it), tname)
            g.emit("", kind="gen")
        # functions
        default_crate = self.cfg.get("unit", {}).get("crate", "server")
        for sp in self.specs:
            self._emit_fn(g, sp, default_crate, False)
            if smoke and not sp.no_smoke:
                # vacuity twin: same requires, same body, `ensures false` only; must FAIL to verify
                self._emit_fn(g, sp, default_crate, True)
        p = os.path.join(self.dir, "lemmas.rs")
        if os.path.exists(p) and (not smoke or self.cfg.get("unit", {}).get("smoke_lemmas", False)):
            # smoke_lemmas = true: proof hints of this unit call lemmas, so the smoke file needs them too
            self._emit_file(g, p, "lemma")
        g.emit("} // verus!", kind="gen")
        g.emit("fn main() {}", kind="gen")
        for lab, info in g.hint_labels.items():
            if not info["fn"].endswith("__smoke"):
                self.labels.setdefault(lab, info)
        return g

    def _emit_file(self, g, path, kind):
        txt = open(path, encoding="utf-8").read().rstrip("\n")
        if kind == "prelude":
            txt = self._complete_error_enum(txt)
        base = len(g.lines)
        rel = os.path.relpath(path, VERIF)
        label = None
        last_fn = None
        for k, l in enumerate(txt.split("\n")):
            g.lines.append(l)
            m = re.match(r"\s*//\s*label:\s*\[?([A-Za-z0-9_.\-]+)\]?", l)
            if m:
                label = m.group(1)
            o = dict(kind=kind, file=rel, line=k + 1)
            mm = re.match(r"\s*(?:pub\s+)?(?:open\s+|closed\s+|broadcast\s+|uninterp\s+)*(proof|spec|exec)?\s*fn\s+(\w+)", l)
            if mm:
                self.fn_ranges.append([base + k + 1, None, mm.group(2), kind, label, mm.group(1) or "exec"])
                if kind == "lemma" and mm.group(1) in ("proof", None) and label:
                    # a labelled `proof fn` (lemma over spec functions) or a labelled exec `fn` (composition harness: client code
                    # that calls extracted functions only, so that a property clause spanning two functions is one obligation)
                    self.labels[label] = dict(fn=mm.group(2), kind="lemma", line=base + k + 1, text=l.strip())
                label = None
                last_fn = mm.group(2)
            # a `requires` line of a prelude stub may carry a property label as a trailing comment
            # `//@requires [Cxx.name]`: like a labelled requires of contracts.vspec it is an obligation that is
            # checked (and named) at every call site of the stub in extracted code
            mr = re.search(r"//@requires\s*\[([A-Za-z0-9_.\-]+)\]\s*$", l) if kind == "prelude" else None
            if mr:
                o = dict(kind="clause", label=mr.group(1), fn=last_fn or "?", clause="requires", text=l.strip())
                self.labels.setdefault(mr.group(1), dict(fn=o["fn"], kind="requires", line=base + k + 1, text=l.strip()))
            g.origin.append(o)
            if re.search(r"external_body|assume_specification|\bassume\s*\(|\badmit\s*\(|external_type_specification|uninterp\b|#\[verifier::external", l):
                self.assumptions.append(dict(file=rel, line=k + 1, text=l.strip()[:160]))

    _ERR_FIELDLESS = None

    def _complete_error_enum(self, txt):
        """R4-error-variants: a prelude's stand-in `pub enum IggyError { .. }` lists the variants today's extracted text uses. Every
        FIELD-LESS variant of the real enum (sdk/src/error.rs) that it does not list is appended mechanically (on the line of the closing
        brace, so no line number moves): an edit that returns another plain error is then decided by the clauses instead of ending as an
        unknown name (seed C19_5). Variants with a payload are not added (their payload types are per-unit stand-ins)."""
        m = re.search(r"pub enum IggyError \{(.*?)\}", txt, re.S)
        if not m or self.cfg.get("unit", {}).get("error_variants", True) is False:
            return txt
        if Unit._ERR_FIELDLESS is None:
            try:
                src = open(os.path.join(X.REPO, "sdk", "src", "error.rs"), encoding="utf-8").read()
                e = re.search(r"pub enum IggyError \{(.*?)\n\}", src, re.S)
                Unit._ERR_FIELDLESS = re.findall(r"^\s{4}([A-Z]\w*)\s*(?:=\s*\d+)?\s*,\s*$", e.group(1), re.M) if e else []
            except OSError:
                Unit._ERR_FIELDLESS = []
        listed = set(re.findall(r"\b([A-Z]\w*)\b", m.group(1)))
        missing = [v for v in Unit._ERR_FIELDLESS if v not in listed]
        if not missing:
            return txt
        body = m.group(1)
        code = re.sub(r"//[^\n]*", "", body).rstrip()
        sep = "" if code.endswith(",") or not code else ","
        self._log("R4-error-variants", "IggyError", len(missing), "field-less variants of sdk/src/error.rs appended to the stand-in enum")
        return txt[:m.end(1)] + sep + " /*R4-error-variants*/ " + ", ".join(missing) + ", " + txt[m.end(1):]

    def _emit_fn(self, g, sp, default_crate, smoke):
        crate = default_crate
        key = sp.key
        m = re.match(r"^(server|sdk):(?!:)(.*)$", key)
        if m:
            crate, key = m.group(1), m.group(2)
        idx = X.crate_index(crate)
        it = idx.find("fn", key, sp.infile, sp.trait)
        src = idx.text(it)
        relfile = os.path.relpath(it.file, X.REPO)
        first_line = idx.line_of(it)
        fnkey = sp.rename or key
        real_fnkey = fnkey
        if smoke:
            fnkey = fnkey + "__smoke"
        sha = hashlib.sha256(src.encode()).hexdigest()[:16]
        text = self.rewrite_common(src, real_fnkey, sp)
        if sp.slice_from is not None:
            text = self._slice(text, sp, real_fnkey)
        text, nfor = X.r7_forlabel(text); self._log("R7-forlabel", fnkey, nfor)
        # 'at' insertions (proof hints) — anchors are source fragments; a lost anchor is undecided
        for a in sp.ats:
            if a.where == "start":
                st0 = sig(lex(text))
                _, _, bo0 = _find_body_open(st0)
                p0 = st0[bo0].end
                text = text[:p0] + "\n" + "\n".join(f"{tl} /*@hint:{a.label}@*/" for tl in a.text) + text[p0:]
                continue
            if a.where in ("loop-after", "loop-end"):
                st0 = sig(lex(text))
                _, _, bo0 = _find_body_open(st0)
                loops0 = loop_headers(st0, bo0 + 1, match_close(st0, bo0))
                if a.nth > len(loops0):
                    raise X.Undecided(f"lost anchor: loop {a.nth} of {fnkey} not found ({len(loops0)} loops in source)")
                ce0 = st0[match_close(st0, loops0[a.nth - 1][1])]
                p0 = ce0.end if a.where == "loop-after" else ce0.start
                text = text[:p0] + "\n" + "\n".join(f"{tl} /*@hint:{a.label}@*/" for tl in a.text) + "\n" + text[p0:]
                continue
            if a.where == "end":
                le = text.rstrip().rfind("}")
                text = text[:le].rstrip(" ") + "\n".join(f"{tl} /*@hint:{a.label}@*/" for tl in a.text) + "\n" + text[le:]
                continue
            pos = -1
            start = 0
            for _ in range(a.nth):
                pos = text.find(a.anchor, start)
                if pos < 0:
                    raise X.Undecided(f"lost anchor: proof-hint anchor {a.anchor!r} (#{a.nth}) not found in {fnkey}")
                start = pos + 1
            ins = "\n".join(f"{tl} /*@hint:{a.label}@*/" for tl in a.text)
            if a.where == "before":
                # insert at start of the line containing the anchor
                ls = text.rfind("\n", 0, pos) + 1
                text = text[:ls] + ins + "\n" + text[ls:]
            elif a.where == "after":
                le = text.find("\n", pos)
                le = len(text) if le < 0 else le
                text = text[:le] + "\n" + ins + text[le:]
            else:
                raise X.Undecided("'replace' hints are not allowed")
        st = sig(lex(text))
        fi, arrow, bo = _find_body_open(st)
        # signature pieces
        head = text[:st[bo].start].rstrip()
        body = text[st[bo].start:]
        if sp.recv_mut:
            head2, n = re.subn(r"\(\s*&\s*self\b", "(&mut self", head, count=1)
            self._log("R6-receiver", fnkey, n)
            head = head2
        newname = (sp.rename.split("::")[-1] if sp.rename else it.name) + ("__smoke" if smoke else "")
        srcname = sp.rename.split("::")[-1] if (sp.slice_from is not None and sp.rename) else it.name
        if newname != srcname:
            head = re.sub(r"\bfn\s+" + re.escape(srcname) + r"\b", "fn " + newname, head, count=1)
        # strip visibility qualifiers, force pub
        head = re.sub(r"^\s*(pub(\([^)]*\))?\s+)?", "pub ", head, count=1)
        if arrow >= 0 and sp.ret:
            a_end = st[arrow].end
            rt = text[a_end:st[bo].start].strip()
            where = ""
            mwh = re.search(r"\bwhere\b", rt)
            if mwh:
                where = " " + rt[mwh.start():]
                rt = rt[:mwh.start()].strip()
            head = text[:a_end].rstrip()
            if sp.recv_mut:
                head = re.sub(r"\(\s*&\s*self\b", "(&mut self", head, count=1)
            if newname != srcname:
                head = re.sub(r"\bfn\s+" + re.escape(srcname) + r"\b", "fn " + newname, head, count=1)
            head = re.sub(r"^\s*(pub(\([^)]*\))?\s+)?", "pub ", head, count=1)
            head = head + f" ({sp.ret}: {rt})" + where
        owner = it.owner if "::" in fnkey else ""
        # R4 (optional `[unit.impl_owner]` table): an extracted type that is emitted under a stand-in name (because a
        # shared prelude already owns the source name) gets its methods emitted into `impl <stand-in name>`
        owner = self.cfg.get("unit", {}).get("impl_owner", {}).get(owner, owner)
        start_line = len(g.lines) + 1
        if owner:
            g.emit(f"impl {owner} {{", kind="gen")
        if not smoke:
            for tl in sp.impl_pre:
                g.emit(tl, kind="gen")
        for a in sp.attrs:
            if smoke and "when_used_as_spec" in a:
                continue      # the smoke twin is never called, and its spec twin (impl-pre) belongs to the original only
            g.emit(a, kind="gen")
        # head lines map to source
        g.emit_src(head, relfile, first_line, fnkey)
        nlab = 0

        def emit_clauses(kw, clauses, kindname):
            nonlocal nlab
            if not clauses:
                return
            g.emit("    " + kw, kind="gen")
            for c in clauses:
                line_no = len(g.lines) + 1
                t = c.text if c.text.rstrip().endswith(",") else c.text + ","
                for tl in t.split("\n"):
                    g.lines.append("        " + tl)
                    g.origin.append(dict(kind="clause", label=c.label, fn=fnkey, clause=kindname, text=c.text))
                if c.label and not smoke:
                    nlab += 1
                    if c.label in self.labels and self.labels[c.label]["fn"] != fnkey:
                        raise ValueError(f"duplicate label {c.label}")
                    self.labels[c.label] = dict(fn=fnkey, kind=kindname, line=line_no, text=c.text)
        emit_clauses("requires", sp.requires, "requires")
        ens = list(sp.ensures)
        if smoke:
            ens = [Clause("", "false")]
        emit_clauses("ensures", ens, "ensures")
        if sp.returns_clause:
            g.emit("    returns " + sp.returns_clause, kind="gen")
        emit_clauses("decreases", sp.decreases, "decreases")
        # body with loop invariants
        st2 = sig(lex(body))
        be = match_close(st2, 0)
        loops = loop_headers(st2, 1, be)
        edits = []
        loop_specs = dict(sp.loops)
        # R7-enumerate: the counter of a normalised `enumerate()` loop equals the position of the ghost iterator
        for n0, (li, bi0) in enumerate(loops, start=1):
            hdr = body[st2[li].start:st2[bi0].start]
            me = re.search(r"/\*@enum:(\w+)@\*/", hdr)
            mk = re.search(r"\bit(\d+):", hdr)
            if me and mk:
                base = loop_specs.get(n0)
                ls = LoopSpec(invariants=list(base.invariants) if base else [], decreases=list(base.decreases) if base else [],
                              ensures=list(base.ensures) if base else [], raw_kw=base.raw_kw if base else "invariant")
                ls.invariants.append(Clause("", f"__enum_{me.group(1)} == it{mk.group(1)}.index@"))
                loop_specs[n0] = ls
        for n, lspec in loop_specs.items():
            if n > len(loops):
                raise X.Undecided(f"lost anchor: loop {n} of {fnkey} not found ({len(loops)} loops in source)")
            _, bi = loops[n - 1]
            edits.append((st2[bi].start, lspec, n))
        edits.sort(key=lambda e: e[0])
        pos = 0
        body_line = first_line + text[:st[bo].start].count("\n")
        for off, lspec, n in edits:
            chunk = body[pos:off]
            g.emit_src(chunk.rstrip(" "), relfile, body_line, fnkey)
            # the last emitted line is the loop header without '{'
            body_line += chunk.count("\n")
            for kw, cls in ((lspec.raw_kw, lspec.invariants), ("ensures", lspec.ensures), ("decreases", lspec.decreases)):
                if cls:
                    g.emit("        " + kw, kind="gen")
                    for c in cls:
                        line_no = len(g.lines) + 1
                        t = c.text if c.text.rstrip().endswith(",") else c.text + ","
                        for tl in t.split("\n"):
                            g.lines.append("            " + tl)
                            g.origin.append(dict(kind="clause", label=c.label, fn=fnkey, clause=f"loop{n}.{kw}", text=c.text))
                        if c.label and not smoke:
                            nlab += 1
                            self.labels[c.label] = dict(fn=fnkey, kind=f"loop{n}.{kw}", line=line_no, text=c.text)
            pos = off
        g.emit_src(body[pos:].rstrip("\n"), relfile, body_line, fnkey)
        if owner:
            g.emit("}", kind="gen")
        g.emit("", kind="gen")
        end_line = len(g.lines)
        self.fn_ranges.append([start_line, end_line, fnkey, "smoke" if smoke else "extracted", sp.implicit, "exec"])
        if smoke:
            return
        self.functions.append(dict(fn=fnkey, crate=crate, file=relfile, line=first_line, sha256_16=sha,
                                   labelled_clauses=nlab, implicit_label=sp.implicit,
                                   loops_with_invariants=sorted(sp.loops.keys())))

    def _slice(self, text, sp, fnkey):
        """R11: wrap the statement range [slice_from, slice_to) of the function body as a synthesized fn."""
        w = 0
        if sp.slice_within:
            w = text.find(sp.slice_within)
            if w < 0:
                raise X.Undecided(f"lost anchor: slice-within {sp.slice_within!r} not found in {fnkey}")
        a = text.find(sp.slice_from, w)
        if a < 0:
            raise X.Undecided(f"lost anchor: slice-from {sp.slice_from!r} not found in {fnkey}")
        a = self._stmt_start(text, a)
        if sp.slice_to:
            b = text.find(sp.slice_to, a)
            if b < 0:
                raise X.Undecided(f"lost anchor: slice-to {sp.slice_to!r} not found in {fnkey}")
            b = self._stmt_start(text, b)
        else:
            st = sig(lex(text))
            _, _, bo = _find_body_open(st)
            b = st[match_close(st, bo)].start
        self._log("R11-slice-fn", fnkey, 1, f"kept statements between {sp.slice_from!r} and {sp.slice_to!r}")
        # a slice-to anchor that lies beyond the block holding slice-from (e.g. the next match arm): the slice ends where
        # that block ends, i.e. before the first closing delimiter that has no opener inside the slice
        depth = 0
        for t in sig(lex(text[a:b])):
            if t.kind == "punct" and t.text in ("{", "(", "["):
                depth += 1
            elif t.kind == "punct" and t.text in ("}", ")", "]"):
                depth -= 1
                if depth < 0:
                    b = a + t.start
                    break
        # the marker comment gives proof hints a stable anchor at the end of the kept statements, before the tail value
        # (`at "/*@slice-tail@*/" before`): a slice usually ends in a loop or a block, not in a text of its own
        return sp.slice_sig + " {\n" + text[a:b] + "\n/*@slice-tail@*/ " + (sp.slice_tail or "") + "\n}"

    @staticmethod
    def _stmt_start(text, pos):
        """start of the statement containing text[pos]: just after the previous `;`, `{` or `}` that ends a line."""
        cands = [text.rfind(x, 0, pos) for x in (";\n", "{\n", "}\n")]
        c = max(cands)
        return c + 2 if c >= 0 else 0

    def fn_of_line(self, line):
        best = None
        rs = sorted(self.fn_ranges, key=lambda r: r[0])
        for k, r in enumerate(rs):
            end = r[1]
            if end is None:
                end = rs[k + 1][0] - 1 if k + 1 < len(rs) else 10 ** 9
            if r[0] <= line <= end:
                best = r
        return best
