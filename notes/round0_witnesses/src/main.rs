use bytes::Bytes;
use iggy::compression::compression_algorithm::CompressionAlgorithm;
use iggy::error::IggyError;
use iggy::identifier::Identifier;
use iggy::messages::send_messages::{Message, Partitioning};
use iggy::utils::byte_size::IggyByteSize;
use iggy::utils::expiry::IggyExpiry;
use iggy::utils::sizeable::Sizeable;
use iggy::utils::timestamp::IggyTimestamp;
use iggy::utils::topic_size::MaxTopicSize;
use server::configs::system::{CacheConfig, PartitionConfig, SegmentConfig, SystemConfig, TopicConfig};
use server::state::system::PartitionState;
use server::streaming::batching::appendable_batch_info::AppendableBatchInfo;
use server::streaming::clients::client_manager::{ClientManager, Transport};
use server::streaming::models::messages::RetainedMessage;
use server::streaming::partitions::partition::Partition;
use server::streaming::persistence::persister::{FileWithSyncPersister, PersisterKind};
use server::streaming::polling_consumer::PollingConsumer;
use server::streaming::storage::SystemStorage;
use server::streaming::streams::stream::Stream;
use server::streaming::topics::topic::Topic;
use std::sync::atomic::{AtomicU32, AtomicU64};
use std::sync::Arc;

fn msgs(from: u128, n: u128) -> Vec<Message> {
    (from..from + n)
        .map(|i| Message::new(Some(i + 1), Bytes::from(format!("payload-{i:04}")), None))
        .collect()
}

fn storage(config: &Arc<SystemConfig>) -> Arc<SystemStorage> {
    Arc::new(SystemStorage::new(
        config.clone(),
        Arc::new(PersisterKind::FileWithSync(FileWithSyncPersister {})),
    ))
}

async fn mk(config: Arc<SystemConfig>, with_segment: bool) -> Partition {
    let st = storage(&config);
    Partition::create(
        1, 1, 1, with_segment, config, st, IggyExpiry::NeverExpire,
        Arc::new(AtomicU64::new(0)), Arc::new(AtomicU64::new(0)), Arc::new(AtomicU64::new(0)),
        Arc::new(AtomicU64::new(0)), Arc::new(AtomicU32::new(0)), IggyTimestamp::now(),
    )
    .await
}

async fn send(p: &mut Partition, from: u128, n: u128) {
    let m = msgs(from, n);
    let size = m.iter().map(|m| m.get_size_bytes()).sum::<IggyByteSize>();
    p.append_messages(AppendableBatchInfo::new(size, 1), m, None).await.unwrap();
}

fn offs(v: &[Arc<RetainedMessage>]) -> Vec<u64> {
    v.iter().map(|m| m.offset).collect()
}

fn cfg(dir: &tempfile::TempDir, required: u32, seg_size: u64) -> Arc<SystemConfig> {
    Arc::new(SystemConfig {
        path: dir.path().to_str().unwrap().to_string(),
        cache: CacheConfig { enabled: false, ..Default::default() },
        partition: PartitionConfig { messages_required_to_save: required, ..Default::default() },
        segment: SegmentConfig { size: IggyByteSize::from(seg_size), ..Default::default() },
        ..Default::default()
    })
}

async fn f1_f2() {
    let dir = tempfile::TempDir::new().unwrap();
    let config = cfg(&dir, 10, 1_000_000_000);
    let mut p = mk(config.clone(), true).await;
    p.persist().await.unwrap();
    send(&mut p, 0, 10).await; // persisted
    send(&mut p, 10, 5).await; // buffered
    let r = p.get_messages_by_offset(5, 10).await.unwrap();
    println!("F1 poll(5,10) expected 5..=14, got {:?}", offs(&r));
    let r = p.get_messages_by_offset(0, 15).await.unwrap();
    println!("F1 poll(0,15) expected 0..=14, got {:?}", offs(&r));

    p.flush_unsaved_buffer(false).await.unwrap();
    println!("F2 before restart current_offset={}", p.current_offset);
    drop(p);
    let mut p = mk(config.clone(), false).await;
    p.load(PartitionState { id: 1, created_at: IggyTimestamp::now() }).await.unwrap();
    println!("F2 after restart current_offset={} should_increment={}", p.current_offset, p.should_increment_offset);
    let r = p.get_messages_by_offset(14, 1).await.unwrap();
    println!("F2 after restart poll(14,1) expected [14], got {:?}", offs(&r));
    send(&mut p, 15, 3).await; // buffered after reload
    let r = p.get_messages_by_offset(14, 3).await.unwrap();
    println!("F2 after restart+append poll(14,3) expected [14,15,16], got {:?}", offs(&r));
    let r = p.get_messages_by_offset(0, 18).await.unwrap();
    println!("F2 after restart+append poll(0,18) expected 0..=17, got {:?}", offs(&r));
}

async fn f3() {
    // everything expired/deleted, replacement segment, restart, append
    let dir = tempfile::TempDir::new().unwrap();
    let config = cfg(&dir, 10, 100); // tiny segment: closes after first persist
    let mut p = mk(config.clone(), true).await;
    p.persist().await.unwrap();
    send(&mut p, 0, 10).await;
    let segs: Vec<(u64, u64, bool)> = p.get_segments().iter().map(|s| (s.start_offset, s.end_offset, s.is_closed)).collect();
    println!("F3 segments after first send: {:?}, current_offset={}", segs, p.current_offset);
    // what delete_segments() in maintain_messages.rs does for an expired only-segment:
    let deleted = p.delete_segment(0).await.unwrap();
    if p.get_segments().is_empty() {
        p.add_persisted_segment(deleted.end_offset + 1).await.unwrap();
    }
    println!("F3 after retention current_offset={} segs={:?}", p.current_offset,
        p.get_segments().iter().map(|s| s.start_offset).collect::<Vec<_>>());
    drop(p);
    let mut p = mk(config.clone(), false).await;
    p.load(PartitionState { id: 1, created_at: IggyTimestamp::now() }).await.unwrap();
    println!("F3 after restart current_offset={} should_increment={}", p.current_offset, p.should_increment_offset);
    send(&mut p, 10, 1).await;
    println!("F3 after restart+send: expected new message offset 10, partition current_offset={}", p.current_offset);
}

async fn f3b() {
    // last segment empty (freshly rolled) but earlier one has data, restart, append
    let dir = tempfile::TempDir::new().unwrap();
    let config = cfg(&dir, 10, 100);
    let mut p = mk(config.clone(), true).await;
    p.persist().await.unwrap();
    send(&mut p, 0, 10).await; // seg 0 closed, end 9
    p.add_persisted_segment(10).await.unwrap(); // what append would create next; crash/shutdown before any append
    drop(p);
    let mut p = mk(config.clone(), false).await;
    p.load(PartitionState { id: 1, created_at: IggyTimestamp::now() }).await.unwrap();
    println!("F3b after restart current_offset={} (expected 9) should_increment={}", p.current_offset, p.should_increment_offset);
    send(&mut p, 10, 1).await;
    println!("F3b after restart+send current_offset={} (expected 10)", p.current_offset);
}

async fn f4() {
    let dir = tempfile::TempDir::new().unwrap();
    let config = cfg(&dir, 10, 2000);
    let mut p = mk(config.clone(), true).await;
    p.persist().await.unwrap();
    for b in 0..7u128 {
        send(&mut p, b * 10, 10).await;
    }
    let segs: Vec<(u64, u64, bool)> = p.get_segments().iter().map(|s| (s.start_offset, s.current_offset, s.is_closed)).collect();
    println!("F4 segments (start,current,closed): {:?}", segs);
    let second_start = p.get_segments()[1].start_offset;
    let r = p.get_messages_by_offset(second_start + 5, 20).await.unwrap();
    println!("F4 poll({},20) inside 2nd segment expected {}..={}, got {:?}", second_start + 5, second_start + 5, second_start + 24, offs(&r));
}

async fn f10() {
    let dir = tempfile::TempDir::new().unwrap();
    let config = cfg(&dir, 10, 1_000_000_000);
    let mut p = mk(config.clone(), true).await;
    p.persist().await.unwrap();
    send(&mut p, 0, 10).await;
    p.store_consumer_offset(PollingConsumer::ConsumerGroup(7, 1), 3).await.unwrap();
    let g = p.get_consumer_offset(PollingConsumer::ConsumerGroup(7, 1)).await.unwrap();
    println!("F10 group 7 stored 3, get -> {:?} (expected Some(3))", g);
    p.store_consumer_offset(PollingConsumer::Consumer(7, 1), 5).await.unwrap();
    let g = p.get_consumer_offset(PollingConsumer::ConsumerGroup(7, 1)).await.unwrap();
    println!("F10 after consumer 7 stored 5, group 7 get -> {:?} (expected Some(3))", g);
}

async fn f18() {
    let dir = tempfile::TempDir::new().unwrap();
    let config = Arc::new(SystemConfig {
        path: dir.path().to_str().unwrap().to_string(),
        cache: CacheConfig { enabled: false, ..Default::default() },
        partition: PartitionConfig { messages_required_to_save: 10, ..Default::default() },
        segment: SegmentConfig { size: IggyByteSize::from(2000u64), ..Default::default() },
        topic: TopicConfig { delete_oldest_segments: false, ..Default::default() },
        ..Default::default()
    });
    let st = storage(&config);
    let topic = Topic::create(
        1, 1, "t", 1, config.clone(), st,
        Arc::new(AtomicU64::new(0)), Arc::new(AtomicU64::new(0)), Arc::new(AtomicU32::new(0)),
        IggyExpiry::NeverExpire, CompressionAlgorithm::None,
        MaxTopicSize::Custom(IggyByteSize::from(2000u64)), 1,
    ).await.unwrap();
    topic.persist().await.unwrap();
    let mut last: Result<(), IggyError> = Ok(());
    for b in 0..8u128 {
        let m = msgs(b * 10, 10);
        let size = m.iter().map(|m| m.get_size_bytes()).sum::<IggyByteSize>();
        last = topic.append_messages(size, Partitioning::partition_id(1), m, None).await;
        println!("F18 batch {b}: size_bytes={} is_full={} -> {:?}", topic.get_size_bytes(), topic.is_full(), last.as_ref().map(|_| ()).map_err(|e| e.to_string()));
    }
    let _ = last;
}

async fn f9() {
    let mut cm = ClientManager::default();
    let addr = "127.0.0.1:5000".parse().unwrap();
    let session = cm.add_client(&addr, Transport::Tcp);
    let cid = session.client_id;
    cm.join_consumer_group(cid, 1, 1, 1).await.unwrap();
    cm.join_consumer_group(cid, 2, 1, 1).await.unwrap();
    cm.join_consumer_group(cid, 1, 1, 2).await.unwrap();
    cm.delete_consumer_groups_for_stream(1).await;
    let c = cm.try_get_client(cid).unwrap();
    let c = iggy::locking::IggySharedMutFn::read(&c).await;
    println!("F9 memberships after deleting stream 1 (expected only (2,1,1)): {:?}",
        c.consumer_groups.iter().map(|g| (g.stream_id, g.topic_id, g.group_id)).collect::<Vec<_>>());
}

async fn f9b() {
    let mut cm = ClientManager::default();
    let addr = "127.0.0.1:5001".parse().unwrap();
    let session = cm.add_client(&addr, Transport::Tcp);
    let cid = session.client_id;
    cm.join_consumer_group(cid, 1, 1, 1).await.unwrap();
    cm.join_consumer_group(cid, 1, 1, 2).await.unwrap();
    cm.delete_consumer_groups_for_stream(1).await; // expected: empty, no panic
    println!("F9b no panic");
}

async fn f8() {
    let dir = tempfile::TempDir::new().unwrap();
    let config = cfg(&dir, 10, 1_000_000_000);
    let st = storage(&config);
    let mut stream = Stream::create(1, "s", config.clone(), st);
    stream.persist().await.unwrap();
    stream.create_topic(Some(1), "a", 1, IggyExpiry::NeverExpire, CompressionAlgorithm::None, MaxTopicSize::ServerDefault, 1).await.unwrap();
    let r = stream.update_topic(&Identifier::named("a").unwrap(), "b", IggyExpiry::NeverExpire, CompressionAlgorithm::None, MaxTopicSize::ServerDefault, 1).await;
    println!("F8 update_topic(by name a -> b) -> {:?} (expected Ok)", r.as_ref().map_err(|e| e.to_string()));
    println!("F8 lookup by name a: {:?}, by name b: {:?}, by id 1 name: {:?}",
        stream.get_topic(&Identifier::named("a").unwrap()).map(|t| t.name.clone()).map_err(|e| e.to_string()),
        stream.get_topic(&Identifier::named("b").unwrap()).map(|t| t.name.clone()).map_err(|e| e.to_string()),
        stream.get_topic(&Identifier::numeric(1).unwrap()).map(|t| t.name.clone()).map_err(|e| e.to_string()));
}


async fn f11a() {
    use ahash::AHashMap;
    use iggy::models::permissions::{GlobalPermissions, Permissions, StreamPermissions};
    use server::streaming::users::permissioner::Permissioner;
    let mut perm = Permissioner::default();
    let mut streams = AHashMap::new();
    streams.insert(1u32, StreamPermissions { topics: None, ..Default::default() });
    perm.init_permissions_for_user(2, Some(Permissions { global: GlobalPermissions::default(), streams: Some(streams) }));
    let r = perm.get_topic(2, 1, 1);
    println!("F11a get_topic with stream record without topic table -> {:?} (expected Err(Unauthorized), no panic)", r.map_err(|e| e.to_string()));
}

async fn f11b() {
    use ahash::AHashMap;
    use iggy::models::permissions::{GlobalPermissions, Permissions, StreamPermissions, TopicPermissions};
    use server::streaming::users::permissioner::Permissioner;
    let mut perm = Permissioner::default();
    let mut topics = AHashMap::new();
    topics.insert(3u32, TopicPermissions { read_topic: true, ..Default::default() });
    let mut streams = AHashMap::new();
    streams.insert(3u32, StreamPermissions { topics: Some(topics), ..Default::default() });
    perm.init_permissions_for_user(2, Some(Permissions { global: GlobalPermissions::default(), streams: Some(streams) }));
    println!("F11b get_topics(stream 3) with only topic-3 read_topic -> {:?}", perm.get_topics(2, 3).map_err(|e| e.to_string()));
    let mut perm = Permissioner::default();
    let mut topics = AHashMap::new();
    topics.insert(4u32, TopicPermissions { read_topic: true, ..Default::default() });
    let mut streams = AHashMap::new();
    streams.insert(3u32, StreamPermissions { topics: Some(topics), ..Default::default() });
    perm.init_permissions_for_user(2, Some(Permissions { global: GlobalPermissions::default(), streams: Some(streams) }));
    println!("F11b get_topics(stream 3) with only topic-4 read_topic -> {:?}", perm.get_topics(2, 3).map_err(|e| e.to_string()));
}

async fn f15() {
    use iggy::streams::create_stream::CreateStream;
    use server::state::command::EntryCommand;
    use server::state::file::FileState;
    use server::state::State;
    use server::versioning::SemanticVersion;
    use iggy::bytes_serializable::BytesSerializable;
    let dir = tempfile::TempDir::new().unwrap();
    let path = dir.path().join("log");
    let path = path.to_str().unwrap().to_string();
    let persister = Arc::new(PersisterKind::FileWithSync(FileWithSyncPersister {}));
    let st = FileState::new(&path, &SemanticVersion::current().unwrap(), persister.clone(), None);
    st.init().await.unwrap();
    for i in 1..=3u32 {
        st.apply(1, EntryCommand::CreateStream(CreateStream { stream_id: Some(i), name: format!("s{i}") })).await.unwrap();
    }
    let entries = st.load_entries().await.unwrap();
    println!("F15 original journal indices: {:?}", entries.iter().map(|e| e.index).collect::<Vec<_>>());
    let first_len = entries[0].to_bytes().len();
    let bytes = std::fs::read(&path).unwrap();
    std::fs::write(&path, &bytes[first_len..]).unwrap();
    let st2 = FileState::new(&path, &SemanticVersion::current().unwrap(), persister, None);
    let r = st2.load_entries().await;
    println!("F15 journal with first entry removed -> {:?} (expected Err)", r.map(|es| es.iter().map(|e| e.index).collect::<Vec<_>>()).map_err(|e| e.to_string()));
}

#[tokio::main]
async fn main() {
    macro_rules! run { ($name:expr, $f:expr) => {
        match tokio::spawn($f).await { Ok(_) => {}, Err(e) => println!("{} PANICKED: {}", $name, e) }
    } }
    run!("F1/F2", f1_f2());
    run!("F3", f3());
    run!("F3b", f3b());
    run!("F4", f4());
    run!("F10", f10());
    run!("F18", f18());
    run!("F9", f9());
    run!("F9b", f9b());
    run!("F8", f8());
    run!("F11a", f11a());
    run!("F11b", f11b());
    run!("F15", f15());
}
