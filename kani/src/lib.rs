//! Kani harnesses on the COMPILED real sdk crate (no extraction): loop-free code tables over the full u8 domain.
//! Every harness here is a complete proof (no loops, full-domain symbolic input), not a bounded stand-in.
#![allow(unused_imports)]

#[cfg(kani)]
mod tables {
    use iggy::compression::compression_algorithm::CompressionAlgorithm;
    use iggy::consumer::ConsumerKind;
    use iggy::identifier::IdKind;
    use iggy::messages::poll_messages::PollingKind;
    use iggy::messages::send_messages::PartitioningKind;
    use iggy::models::header::HeaderKind;
    use iggy::models::messages::MessageState;
    use iggy::models::user_status::UserStatus;

    // from_code(c) is Ok(k)  ==>  k.as_code() == c   (the decoder never maps a code to a variant that encodes differently),
    // and two codes never decode to the same variant (follows).  Checked for ALL 256 codes.
    macro_rules! table {
        ($name:ident, $ty:ty) => {
            #[kani::proof]
            fn $name() {
                let c: u8 = kani::any();
                if let Ok(k) = <$ty>::from_code(c) {
                    assert!(k.as_code() == c);
                    // and the variant round-trips
                    match <$ty>::from_code(k.as_code()) {
                        Ok(k2) => assert!(k2.as_code() == k.as_code()),
                        Err(_) => assert!(false),
                    }
                }
            }
        };
    }
    table!(id_kind_codes, IdKind);
    table!(consumer_kind_codes, ConsumerKind);
    table!(polling_kind_codes, PollingKind);
    table!(partitioning_kind_codes, PartitioningKind);
    table!(header_kind_codes, HeaderKind);
    table!(message_state_codes, MessageState);
    table!(user_status_codes, UserStatus);
    table!(compression_algorithm_codes, CompressionAlgorithm);
}
