// Witness for F60 (request side, found while reading the poll-response path): `SendMessages::validate()` accepts a batch in which ONE
// message has an empty payload (it only rejects a TOTAL payload size of 0), the SDK encodes it, and the server-side decoder
// `SendMessages::from_bytes` rejects the whole frame with EmptyMessagePayload: an SDK-validated, SDK-built frame the server rejects.
// Run like F70_F75_witness_test.rs (scratch copy of /verif/replay, this file in tests/). The test asserts the CORRECT behaviour
// (whatever validate() accepts, the decoder accepts): FAILS on unrepaired /repo, passes with F60.diff (validate() refuses the batch).
// SendMessages itself is not under contract in codec_requests2 (only Message::{to_bytes, from_bytes}); [C13.req.Message] carries the
// restriction `payload non-empty` in `valid`.
use bytes::Bytes;
use iggy::bytes_serializable::BytesSerializable;
use iggy::identifier::Identifier;
use iggy::messages::send_messages::{Message, Partitioning, SendMessages};
use iggy::validatable::Validatable;

#[test]
fn f60_send_messages_one_empty_payload() {
    let c = SendMessages {
        stream_id: Identifier::numeric(1).unwrap(),
        topic_id: Identifier::numeric(1).unwrap(),
        partitioning: Partitioning::balanced(),
        messages: vec![Message::new(Some(1), Bytes::from_static(b"abc"), None), Message::new(Some(2), Bytes::new(), None)],
    };
    let v = c.validate();
    let r = SendMessages::from_bytes(c.to_bytes());
    println!("validate() -> {:?}; SendMessages::from_bytes -> {:?}", v, r.as_ref().map(|x| x.messages.len()));
    assert!(v.is_err() || r.is_ok(), "validate() accepted a batch the server-side decoder rejects");
}
