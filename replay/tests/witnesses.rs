//! One test per candidate defect of DESIGN.md section 8 that needs no hook in /repo.
//!
//! Every test drives the REAL `server` / `iggy` crates through the witness history and
//! asserts the CORRECT behaviour (the contract clause named in the doc comment). On the
//! pinned, unrepaired tree each test is therefore expected to FAIL; once the defect is
//! repaired the test passes and stays as a regression test. Each test owns its temp dir.

use ahash::AHashMap;
use iggy::compression::compression_algorithm::CompressionAlgorithm;
use iggy::error::IggyError;
use iggy::identifier::Identifier;
use iggy::locking::IggySharedMutFn;
use iggy::messages::send_messages::Partitioning;
use iggy::models::permissions::{
    GlobalPermissions, Permissions, StreamPermissions, TopicPermissions,
};
use iggy::streams::create_stream::CreateStream;
use iggy::utils::byte_size::IggyByteSize;
use iggy::utils::expiry::IggyExpiry;
use iggy::utils::sizeable::Sizeable;
use iggy::utils::topic_size::MaxTopicSize;
use replay::*;
use server::configs::system::{
    CacheConfig, PartitionConfig, SegmentConfig, SystemConfig, TopicConfig,
};
use server::state::command::EntryCommand;
use server::state::file::FileState;
use server::state::State;
use server::streaming::clients::client_manager::{ClientManager, Transport};
use server::streaming::polling_consumer::PollingConsumer;
use server::streaming::streams::stream::Stream;
use server::streaming::topics::topic::Topic;
use server::streaming::users::permissioner::Permissioner;
use server::versioning::SemanticVersion;
use std::sync::atomic::{AtomicU32, AtomicU64};
use std::sync::Arc;
use tempfile::TempDir;

const HUGE_SEGMENT: u64 = 1_000_000_000;

/// F1 — C02 `[C02.tier]`, C01 `[C01.acc]`.
/// `messages_required_to_save = 10`, cache off: send 10 (saved to disk), send 5 (buffered).
/// A poll that starts on disk and ends in the buffer must return the whole slice.
#[tokio::test]
async fn f1_accumulator_base_after_save() {
    let dir = TempDir::new().unwrap();
    let config = config(&dir, 10, HUGE_SEGMENT);
    let mut p = new_partition(config, true).await;
    p.persist().await.unwrap();
    send(&mut p, 0, 10).await; // reaches the threshold: persisted
    send(&mut p, 10, 5).await; // stays in the unsaved buffer
    assert_eq!(p.current_offset, 14, "precondition: 15 messages appended");

    let polled = p.get_messages_by_offset(5, 10).await.unwrap();
    assert_eq!(
        offsets(&polled),
        range(5, 14),
        "F1: poll(offset 5, count 10) spans disk (5..=9) and buffer (10..=14)"
    );
    let polled = p.get_messages_by_offset(0, 15).await.unwrap();
    assert_eq!(
        offsets(&polled),
        range(0, 14),
        "F1: poll(offset 0, count 15) must return everything appended"
    );
}

/// F2 — C03 `[C03.acc]`, C02.
/// Send 15 in ONE save (so F1 is not involved), restart, send 3 (buffered): polls that
/// start at the last stored offset must still see it.
#[tokio::test]
async fn f2_accumulator_base_after_restart() {
    let dir = TempDir::new().unwrap();
    let config = config(&dir, 100, HUGE_SEGMENT);
    let mut p = new_partition(config.clone(), true).await;
    p.persist().await.unwrap();
    send(&mut p, 0, 15).await; // below the threshold: buffered
    p.flush_unsaved_buffer(false).await.unwrap(); // the only save of this segment
    assert_eq!(p.current_offset, 14);
    drop(p);

    let mut p = reload_partition(config).await;
    assert_eq!(p.current_offset, 14, "precondition: restart finds offsets 0..=14");
    let polled = p.get_messages_by_offset(14, 1).await.unwrap();
    assert_eq!(offsets(&polled), vec![14], "precondition: offset 14 readable after restart");

    send(&mut p, 15, 3).await; // buffered on top of the reloaded segment
    assert_eq!(p.current_offset, 17);
    let polled = p.get_messages_by_offset(14, 3).await.unwrap();
    assert_eq!(
        offsets(&polled),
        vec![14, 15, 16],
        "F2: poll(14,3) after restart+append starts on disk (14) and continues in the buffer"
    );
    let polled = p.get_messages_by_offset(0, 18).await.unwrap();
    assert_eq!(
        offsets(&polled),
        range(0, 17),
        "F2: poll(0,18) after restart+append must not lose the last stored offset"
    );
}

/// F3a — C01/C14 `[C03.next]`, `[C14.restart]`.
/// Retention removed the only segment (offsets 0..=9) and created the empty replacement
/// at start offset 10. After a restart the next message must get offset 10, not 0.
#[tokio::test]
async fn f3a_empty_replacement_segment_restart_rewinds() {
    let dir = TempDir::new().unwrap();
    let config = config(&dir, 10, 100); // tiny segment: full (closed) after the first save
    let mut p = new_partition(config.clone(), true).await;
    p.persist().await.unwrap();
    send(&mut p, 0, 10).await;
    assert_eq!(p.current_offset, 9);
    // exactly what maintain_messages::delete_segments does for an expired only-segment
    let deleted = p.delete_segment(0).await.unwrap();
    assert!(p.get_segments().is_empty());
    p.add_persisted_segment(deleted.end_offset + 1).await.unwrap();
    assert_eq!(
        p.get_segments().iter().map(|s| s.start_offset).collect::<Vec<_>>(),
        vec![10],
        "precondition: replacement segment starts at 10"
    );
    drop(p);

    let mut p = reload_partition(config).await;
    send(&mut p, 10, 1).await;
    assert_eq!(
        p.current_offset, 10,
        "F3a: first message after retention+restart must get offset 10 (offsets never rewind)"
    );
}

/// F3b — C01 `[C03.next]`.
/// Closed segment 0..=9 followed by a freshly rolled, still empty segment at 10 (roll-over
/// then shutdown/crash before the next append). After a restart the next message must get
/// offset 10; offset 10 must not be skipped.
#[tokio::test]
async fn f3b_empty_trailing_segment_restart_gap() {
    let dir = TempDir::new().unwrap();
    let config = config(&dir, 10, 100);
    let mut p = new_partition(config.clone(), true).await;
    p.persist().await.unwrap();
    send(&mut p, 0, 10).await; // segment 0 saved and closed, end offset 9
    assert_eq!(p.current_offset, 9);
    p.add_persisted_segment(10).await.unwrap(); // what the next append's roll-over creates
    drop(p);

    let mut p = reload_partition(config).await;
    send(&mut p, 10, 1).await;
    assert_eq!(
        p.current_offset, 10,
        "F3b: first message after roll-over+restart must get offset 10 (no gap)"
    );
}

/// F4 — C02 `[C02.range]`.
/// Small segments, 7 saves of 10 messages: the second segment has start offset > 0 and
/// several stored batches. A range inside it that spans more than one stored batch must
/// be returned completely.
#[tokio::test]
async fn f4_log_reader_stops_after_first_batch() {
    let dir = TempDir::new().unwrap();
    let config = config(&dir, 10, 2000);
    let mut p = new_partition(config, true).await;
    p.persist().await.unwrap();
    for b in 0..7u128 {
        send(&mut p, b * 10, 10).await; // each send reaches the threshold: one stored batch
    }
    assert_eq!(p.current_offset, 69);
    let segments: Vec<(u64, u64)> = p
        .get_segments()
        .iter()
        .map(|s| (s.start_offset, s.current_offset))
        .collect();
    assert!(segments.len() >= 2, "precondition: at least two segments, got {segments:?}");
    let (start, current) = segments[1];
    assert!(
        start > 0 && current >= start + 29,
        "precondition: 2nd segment holds >= 3 stored batches, got {segments:?}"
    );

    let polled = p.get_messages_by_offset(start + 5, 20).await.unwrap();
    assert_eq!(
        offsets(&polled),
        range(start + 5, start + 24),
        "F4: poll({}, 20) inside the segment starting at {start} spans three stored batches",
        start + 5
    );
}

/// F8 — C06 `[C06.fail]`, `[C06.bij]`.
/// `update_topic` addressed BY NAME must succeed and leave the topic reachable under the
/// new name only, with its `name` field updated.
#[tokio::test]
async fn f8_update_topic_by_name() {
    let dir = TempDir::new().unwrap();
    let config = config(&dir, 10, HUGE_SEGMENT);
    let storage = storage(&config);
    let mut stream = Stream::create(1, "s", config.clone(), storage);
    stream.persist().await.unwrap();
    stream
        .create_topic(
            Some(1),
            "a",
            1,
            IggyExpiry::NeverExpire,
            CompressionAlgorithm::None,
            MaxTopicSize::ServerDefault,
            1,
        )
        .await
        .unwrap();
    let by_name = |n: &str| Identifier::named(n).unwrap();

    let result = stream
        .update_topic(
            &by_name("a"),
            "b",
            IggyExpiry::NeverExpire,
            CompressionAlgorithm::None,
            MaxTopicSize::ServerDefault,
            1,
        )
        .await;
    let old = stream.get_topic(&by_name("a")).map(|t| t.name.clone());
    let new = stream.get_topic(&by_name("b")).map(|t| t.name.clone());
    let by_id = stream
        .get_topic(&Identifier::numeric(1).unwrap())
        .map(|t| t.name.clone());
    let seen = format!(
        "update_topic -> {:?}; lookup 'a' -> {:?}; lookup 'b' -> {:?}; lookup id 1 -> {:?}",
        result.as_ref().map_err(|e| e.to_string()),
        old.as_ref().map_err(|e| e.to_string()),
        new.as_ref().map_err(|e| e.to_string()),
        by_id.as_ref().map_err(|e| e.to_string()),
    );

    assert!(result.is_ok(), "F8: update_topic(named 'a' -> 'b') must succeed; {seen}");
    assert!(old.is_err(), "F8: old name must no longer resolve; {seen}");
    assert_eq!(new.ok().as_deref(), Some("b"), "F8: new name must resolve to the renamed topic; {seen}");
    assert_eq!(by_id.ok().as_deref(), Some("b"), "F8: topic.name must be updated; {seen}");
}

/// F9 — C06 `[C06.cascade]`, `[C06.nopanic]`.
/// A client with memberships (1,1,1), (2,1,1), (1,1,2): deleting the groups of stream 1
/// must not panic, must remove both memberships of stream 1 and keep the one of stream 2.
#[tokio::test]
async fn f9_delete_consumer_groups_for_stream() {
    let mut clients = ClientManager::default();
    let address = "127.0.0.1:5000".parse().unwrap();
    let client_id = clients.add_client(&address, Transport::Tcp).client_id;
    clients.join_consumer_group(client_id, 1, 1, 1).await.unwrap();
    clients.join_consumer_group(client_id, 2, 1, 1).await.unwrap();
    clients.join_consumer_group(client_id, 1, 1, 2).await.unwrap();

    // a panic here (index out of bounds in Vec::remove) fails the test: [C06.nopanic]
    clients.delete_consumer_groups_for_stream(1).await;

    let client = clients.try_get_client(client_id).expect("client still registered");
    let client = client.read().await;
    let memberships: Vec<(u32, u32, u32)> = client
        .consumer_groups
        .iter()
        .map(|g| (g.stream_id, g.topic_id, g.group_id))
        .collect();
    assert_eq!(
        memberships,
        vec![(2, 1, 1)],
        "F9: only the membership of stream 2 may remain after deleting stream 1's groups"
    );
}

/// F10 — C07 `[C07.get]`, `c07_isolation`.
/// An offset stored as consumer GROUP 7 must be returned to group 7, and an offset stored
/// by the individual CONSUMER 7 must not be visible as group 7's.
#[tokio::test]
async fn f10_group_offset_read() {
    let dir = TempDir::new().unwrap();
    let config = config(&dir, 10, HUGE_SEGMENT);
    let mut p = new_partition(config, true).await;
    p.persist().await.unwrap();
    send(&mut p, 0, 10).await;
    let group = || PollingConsumer::ConsumerGroup(7, 1);

    p.store_consumer_offset(group(), 3).await.unwrap();
    let after_group_store = p.get_consumer_offset(group()).await.unwrap();
    p.store_consumer_offset(PollingConsumer::Consumer(7, 1), 5).await.unwrap();
    let after_consumer_store = p.get_consumer_offset(group()).await.unwrap();

    assert_eq!(
        (after_group_store, after_consumer_store),
        (Some(3), Some(3)),
        "F10: group 7's offset (read after storing 3 as group 7, read again after storing 5 as consumer 7)"
    );
}

/// F11a — C09 `[C09.total]`.
/// A user whose stream-1 permission record has no topic table (`topics: None`) and no
/// granting flag: `get_topic` must answer `Err(Unauthorized)`; it must not panic.
#[test]
fn f11a_permission_topics_none_panics() {
    let mut permissioner = Permissioner::default();
    let mut streams = AHashMap::new();
    streams.insert(
        1u32,
        StreamPermissions {
            topics: None,
            ..Default::default()
        },
    );
    permissioner.init_permissions_for_user(
        2,
        Some(Permissions {
            global: GlobalPermissions::default(),
            streams: Some(streams),
        }),
    );

    let outcome = std::panic::catch_unwind(std::panic::AssertUnwindSafe(|| {
        permissioner.get_topic(2, 1, 1)
    }));
    let result = match outcome {
        Ok(result) => result,
        Err(payload) => {
            let text = payload
                .downcast_ref::<&str>()
                .map(|s| s.to_string())
                .or_else(|| payload.downcast_ref::<String>().cloned())
                .unwrap_or_else(|| "<non-string panic payload>".into());
            panic!("F11a: get_topic panicked instead of returning Err(Unauthorized): {text}");
        }
    };
    assert!(
        matches!(result, Err(IggyError::Unauthorized)),
        "F11a: no flag grants, so get_topic must be Err(Unauthorized), got {:?}",
        result.map_err(|e| e.to_string())
    );
}

/// F11b — C09 `[C09.rule.get_topics]`.
/// The only permission is `read_topic` on topic 3 of stream 3. That grants reading one
/// topic, not listing the topics of stream 3 (it must not matter that 3 == stream id).
#[test]
fn f11b_get_topics_keyed_by_stream_id() {
    let permissioner_with_topic = |topic_id: u32| {
        let mut topics = AHashMap::new();
        topics.insert(
            topic_id,
            TopicPermissions {
                read_topic: true,
                ..Default::default()
            },
        );
        let mut streams = AHashMap::new();
        streams.insert(
            3u32,
            StreamPermissions {
                topics: Some(topics),
                ..Default::default()
            },
        );
        let mut permissioner = Permissioner::default();
        permissioner.init_permissions_for_user(
            2,
            Some(Permissions {
                global: GlobalPermissions::default(),
                streams: Some(streams),
            }),
        );
        permissioner
    };

    // control: the same permission on topic 4 does not open the listing (holds today)
    let control = permissioner_with_topic(4).get_topics(2, 3);
    assert!(
        matches!(control, Err(IggyError::Unauthorized)),
        "control: topic-4 read_topic must not allow get_topics(stream 3), got {:?}",
        control.map_err(|e| e.to_string())
    );
    let result = permissioner_with_topic(3).get_topics(2, 3);
    assert!(
        matches!(result, Err(IggyError::Unauthorized)),
        "F11b: topic-3 read_topic must not allow get_topics(stream 3), got {:?}",
        result.map_err(|e| e.to_string())
    );
}

/// F15 — C11 `[C11.load]`.
/// A 3-entry journal (indices 0,1,2) whose FIRST entry has been cut off must be rejected
/// on load; it must not be accepted as a different, 2-entry history.
#[tokio::test]
async fn f15_journal_first_index_unchecked() {
    use iggy::bytes_serializable::BytesSerializable;
    let dir = TempDir::new().unwrap();
    let path = dir.path().join("log").to_str().unwrap().to_string();
    let version = SemanticVersion::current().unwrap();

    let state = FileState::new(&path, &version, persister(), None);
    state.init().await.unwrap();
    for i in 1..=3u32 {
        let command = EntryCommand::CreateStream(CreateStream {
            stream_id: Some(i),
            name: format!("s{i}"),
        });
        state.apply(1, command).await.unwrap();
    }
    let entries = state.load_entries().await.unwrap();
    assert_eq!(
        entries.iter().map(|e| e.index).collect::<Vec<_>>(),
        vec![0, 1, 2],
        "precondition: intact journal"
    );
    drop(state);

    let first_len = entries[0].to_bytes().len();
    let bytes = std::fs::read(&path).unwrap();
    assert!(first_len > 0 && first_len < bytes.len());
    std::fs::write(&path, &bytes[first_len..]).unwrap();

    let restarted = FileState::new(&path, &version, persister(), None);
    let loaded = restarted.init().await;
    assert!(
        loaded.is_err(),
        "F15: journal without its first entry must be rejected, but init() loaded indices {:?}",
        loaded.map(|es| es.iter().map(|e| e.index).collect::<Vec<_>>()).unwrap()
    );
}

/// F18 — C15 `[C15.gate]`.
/// Custom max topic size, `delete_oldest_segments = false`: once the topic is full the
/// next `append_messages` must be refused with `TopicFull` (nothing will ever free space).
#[tokio::test]
async fn f18_topic_full_gate_inverted() {
    let dir = TempDir::new().unwrap();
    let config = Arc::new(SystemConfig {
        path: dir.path().to_str().unwrap().to_string(),
        cache: CacheConfig {
            enabled: false,
            ..Default::default()
        },
        partition: PartitionConfig {
            messages_required_to_save: 10,
            ..Default::default()
        },
        segment: SegmentConfig {
            size: IggyByteSize::from(2000u64),
            ..Default::default()
        },
        topic: TopicConfig {
            delete_oldest_segments: false,
            ..Default::default()
        },
        ..Default::default()
    });
    let storage = storage(&config);
    let topic = Topic::create(
        1,
        1,
        "t",
        1,
        config.clone(),
        storage,
        Arc::new(AtomicU64::new(0)),
        Arc::new(AtomicU64::new(0)),
        Arc::new(AtomicU32::new(0)),
        IggyExpiry::NeverExpire,
        CompressionAlgorithm::None,
        MaxTopicSize::Custom(IggyByteSize::from(2000u64)),
        1,
    )
    .await
    .unwrap();
    topic.persist().await.unwrap();

    let mut sent = 0u128;
    while !topic.is_full() {
        assert!(sent < 100, "precondition: topic never became full");
        let batch = messages(sent * 10, 10);
        let size = batch_size(&batch);
        topic
            .append_messages(size, Partitioning::partition_id(1), batch, None)
            .await
            .expect("append below the limit");
        sent += 1;
    }
    let size_when_full = topic.get_size_bytes();

    let batch = messages(sent * 10, 10);
    let size = batch_size(&batch);
    let result = topic
        .append_messages(size, Partitioning::partition_id(1), batch, None)
        .await;
    assert!(
        matches!(result, Err(IggyError::TopicFull(1, 1))),
        "F18: topic full ({size_when_full} >= 2000 B) and delete_oldest_segments=false: append must be Err(TopicFull), got {:?}; size afterwards {}",
        result.map_err(|e| e.to_string()),
        topic.get_size_bytes()
    );
}

/// F5 — C04 `[C04.noreuse]`.
/// Crash image "log append completed, index append did not": two saves of 10 messages, then the
/// last 16-byte index record is cut off (what a crash between `save_batches` and `save_index`
/// leaves). After the restart the partition must not hand out an offset that a message still
/// physically present in the log already carries, and a poll must not return two different
/// messages under one offset.
#[tokio::test]
async fn f5_crash_between_log_and_index_append_reuses_offsets() {
    let dir = TempDir::new().unwrap();
    let config = config(&dir, 10, 1_000_000_000);
    let mut p = new_partition(config.clone(), true).await;
    p.persist().await.unwrap();
    send(&mut p, 0, 10).await; // stored batch 0..9, indexed
    send(&mut p, 10, 10).await; // stored batch 10..19, indexed
    assert_eq!(p.current_offset, 19);
    let index_path = p.get_segments()[0].index_path.clone();
    drop(p);
    let len = std::fs::metadata(&index_path).unwrap().len();
    assert_eq!(len, 32, "two index records expected");
    let f = std::fs::OpenOptions::new().write(true).open(&index_path).unwrap();
    f.set_len(len - 16).unwrap(); // the crash: second batch is in the log, its index record is not
    drop(f);

    let mut p = reload_partition(config).await;
    // messages 10..19 are physically in the log; whatever recovery decides, offsets 10..19 must not be
    // given to different messages while the old ones are still served
    send(&mut p, 100, 5).await;
    let first_new = p.current_offset - 4;
    p.flush_unsaved_buffer(false).await.unwrap(); // the new batch goes to disk behind the orphaned one
    let polled = p.get_messages_by_offset(0, 100).await.unwrap();
    let offs = offsets(&polled);
    let mut dedup = offs.clone();
    dedup.dedup();
    assert_eq!(offs, dedup, "F5: a poll returned the same offset twice: {offs:?}");
    assert!(
        first_new >= 20 || !offs.contains(&10) || polled.iter().filter(|m| m.offset >= 10 && m.offset < 20).all(|m| m.id >= 101),
        "F5: offsets {first_new}.. were assigned again although the log still holds the old messages 10..19 (polled offsets {offs:?})"
    );
}

/// F13 — C04 `[C04.publish]`, C02 (what is polled is what was stored), C16 (sizes equal what is stored).
/// One save whose batch is larger than tokio's per-write buffer (2 MiB): `write_vectored` copies at most
/// 2 MiB and reports how much it took; the writer ignores the count, so the log file is shorter than the
/// size that is published to readers and recorded in the index. 3 messages of 1 MiB each, saved at once.
#[tokio::test]
async fn f13_batch_larger_than_one_write_is_truncated_on_disk() {
    f13(iggy::confirmation::Confirmation::Wait).await;
}

/// F13, the background persister (`server_confirmation = no_wait`) has the same single `write_vectored`.
#[tokio::test]
async fn f13_batch_larger_than_one_write_is_truncated_on_disk_no_wait() {
    f13(iggy::confirmation::Confirmation::NoWait).await;
}

async fn f13(confirmation: iggy::confirmation::Confirmation) {
    let dir = TempDir::new().unwrap();
    let config = Arc::new(SystemConfig {
        path: dir.path().to_str().unwrap().to_string(),
        cache: CacheConfig {
            enabled: false,
            ..Default::default()
        },
        partition: PartitionConfig {
            messages_required_to_save: 3,
            ..Default::default()
        },
        segment: SegmentConfig {
            size: IggyByteSize::from(HUGE_SEGMENT),
            server_confirmation: confirmation,
            ..Default::default()
        },
        ..Default::default()
    });
    let mut p = new_partition(config.clone(), true).await;
    p.persist().await.unwrap();
    let big: Vec<iggy::messages::send_messages::Message> = (0..3u128)
        .map(|i| {
            iggy::messages::send_messages::Message::new(
                Some(i + 1),
                bytes::Bytes::from(vec![b'a' + i as u8; 1024 * 1024]),
                None,
            )
        })
        .collect();
    let size = batch_size(&big);
    p.append_messages(
        server::streaming::batching::appendable_batch_info::AppendableBatchInfo::new(size, 1),
        big,
        None,
    )
    .await
    .expect("append_messages"); // 3 >= messages_required_to_save: saved to disk in one batch
    let log_path = p.get_segments()[0].log_path.clone();
    let published = p.get_segments()[0].size_bytes.as_bytes_u64();
    p.flush_unsaved_buffer(true).await.unwrap();
    tokio::time::sleep(std::time::Duration::from_millis(500)).await;
    let on_disk = std::fs::metadata(&log_path).unwrap().len();
    assert!(
        on_disk >= 3 * 1024 * 1024,
        "F13: the segment reports {published} bytes but its log file holds {on_disk}: the batch was cut at tokio's 2 MiB write buffer"
    );
    let polled = p.get_messages_by_offset(0, 3).await.unwrap();
    assert_eq!(offsets(&polled), range(0, 2), "F13: stored messages must be readable back");
    for (i, m) in polled.iter().enumerate() {
        assert_eq!(m.payload.len(), 1024 * 1024, "F13: payload {i} length");
        assert!(m.payload.iter().all(|b| *b == b'a' + i as u8), "F13: payload {i} content");
    }
}

/// F132 — C02 (a poll returns the messages stored in the requested range), C04 `[C04.publish.bound]`.
/// A send under wait-confirmation followed at once by a poll from disk (cache off). tokio's `File::write*`
/// returns when the data is in the file's buffer; the copy to the file runs on a blocking thread and is only
/// complete after a flush. The published log size (and, with `cache_indexes = false`, the published index
/// size) must not run ahead of what a reader can see.
#[tokio::test(flavor = "multi_thread", worker_threads = 4)]
async fn f132_poll_right_after_acknowledged_save_cached_indexes() {
    f132(true).await;
}

#[tokio::test(flavor = "multi_thread", worker_threads = 4)]
async fn f132_poll_right_after_acknowledged_save_indexes_on_disk() {
    f132(false).await;
}

async fn f132(cache_indexes: bool) {
    let mut short = 0;
    for round in 0..200u128 {
        let dir = TempDir::new().unwrap();
        let config = Arc::new(SystemConfig {
            path: dir.path().to_str().unwrap().to_string(),
            cache: CacheConfig {
                enabled: false,
                ..Default::default()
            },
            partition: PartitionConfig {
                messages_required_to_save: 1,
                ..Default::default()
            },
            segment: SegmentConfig {
                size: IggyByteSize::from(HUGE_SEGMENT),
                cache_indexes,
                ..Default::default()
            },
            ..Default::default()
        });
        let mut p = new_partition(config.clone(), true).await;
        p.persist().await.unwrap();
        for k in 0..1u128 {
            let big = vec![iggy::messages::send_messages::Message::new(
                Some(round * 2 + k + 1),
                bytes::Bytes::from(vec![b'x'; 512 * 1024]),
                None,
            )];
            let size = batch_size(&big);
            p.append_messages(
                server::streaming::batching::appendable_batch_info::AppendableBatchInfo::new(size, 1),
                big,
                None,
            )
            .await
            .expect("append_messages");
        }
        let polled = p.get_messages_by_offset(0, 1).await;
        match polled {
            Ok(v) if v.len() == 1 && v[0].offset == 0 && v[0].payload.len() == 512 * 1024 => {}
            other => {
                short += 1;
                if short < 4 {
                    eprintln!(
                        "round {round}: poll right after the acknowledged save returned {:?}",
                        other.map(|v| v.iter().map(|m| m.offset).collect::<Vec<_>>())
                    );
                }
            }
        }
    }
    assert_eq!(short, 0, "F132: {short}/200 polls issued right after an acknowledged (wait) save did not return the saved message");
}

/// F230 — C14 `[C14.earliest]`, C02 `[C02.first-retained]`. "a poll that reaches below the earliest retained offset starts from the earliest message still available".
#[tokio::test]
async fn f230_poll_wholly_below_the_earliest_retained_offset() {
    let dir = TempDir::new().unwrap();
    // small segments: every save of 10 messages closes the segment
    let config = config(&dir, 10, 300);
    let mut p = new_partition(config.clone(), true).await;
    p.persist().await.unwrap();
    for k in 0..3u128 {
        send(&mut p, k * 10, 10).await;
    }
    let starts: Vec<u64> = p.get_segments().iter().map(|s| s.start_offset).collect();
    eprintln!("segments start at {starts:?}, current offset {}", p.current_offset);
    assert!(starts.len() >= 3);
    p.delete_segment(starts[0]).await.unwrap();
    let first_retained = p.get_segments()[0].start_offset;
    let a = offsets(&p.get_first_messages(5).await.unwrap());
    let b = offsets(&p.get_messages_by_offset(0, 5).await.unwrap());
    let c = offsets(&p.get_messages_by_offset(0, (first_retained + 3) as u32).await.unwrap());
    eprintln!("first retained {first_retained}; first(5) = {a:?}; poll(0,5) = {b:?}; poll(0,{}) = {c:?}", first_retained + 3);
    assert_eq!(a.first().copied(), Some(first_retained), "first(5) must start from the earliest message still available");
    assert_eq!(b.first().copied(), Some(first_retained), "poll(0,5) must start from the earliest message still available");
}
