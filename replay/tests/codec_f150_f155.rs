// Numbering: the unit author numbered these F70..F75/F60; in /verif/known_findings.json and DESIGN.md they are F150..F155 (F70->F150, F71->F151,
// F72->F152, F73->F153, F74->F154, F75->F155) and F156 (F60), because F60..F81 were already taken.
// Witness tests for F70..F75 (+ observations O1..O4) on the REAL crates: a cargo test crate with `iggy = { path = "/repo/sdk" }`,
// `server = { path = "/repo/server" }`, bytes, ahash (copy /verif/replay to a scratch dir, put this file into tests/, copy /repo/Cargo.lock,
// run with CARGO_TARGET_DIR=/verif/build/replay-target cargo test --offline). Every f7x test asserts the CORRECT behaviour: on unrepaired
// /repo 10 tests FAIL (f70..f75d), with proposed_fixes/F70..F75.diff applied all 14 PASS. The o* tests only print (representational limits).

use iggy::bytes_serializable::BytesSerializable;
use iggy::identifier::Identifier;
use iggy::streams::purge_stream::PurgeStream;
use iggy::topics::delete_topic::DeleteTopic;
use iggy::topics::purge_topic::PurgeTopic;

// F70: PurgeStream of a stream addressed by a 1- or 2-character name (3 / 4 byte frame) is rejected by `len < 5`
#[test]
fn f70_purge_stream_short_name() {
    let c = PurgeStream { stream_id: Identifier::named("s").unwrap() };
    let b = c.to_bytes();
    println!("PurgeStream frame length = {}", b.len());
    let r = PurgeStream::from_bytes(b);
    println!("PurgeStream::from_bytes -> {:?}", r);
    assert_eq!(r.unwrap(), c);
}
// F71: DeleteTopic with a short stream/topic name (frame < 10 bytes) is rejected by `len < 10`
#[test]
fn f71_delete_topic_short_names() {
    let c = DeleteTopic { stream_id: Identifier::named("s").unwrap(), topic_id: Identifier::numeric(1).unwrap() };
    let b = c.to_bytes();
    println!("DeleteTopic frame length = {}", b.len());
    let r = DeleteTopic::from_bytes(b);
    println!("DeleteTopic::from_bytes -> {:?}", r);
    assert_eq!(r.unwrap(), c);
}
// F72: PurgeTopic, same guard
#[test]
fn f72_purge_topic_short_names() {
    let c = PurgeTopic { stream_id: Identifier::named("s").unwrap(), topic_id: Identifier::named("t").unwrap() };
    let b = c.to_bytes();
    println!("PurgeTopic frame length = {}", b.len());
    let r = PurgeTopic::from_bytes(b);
    println!("PurgeTopic::from_bytes -> {:?}", r);
    assert_eq!(r.unwrap(), c);
}

// F73: DeleteConsumerOffset with one-character consumer/stream/topic names (14 byte frame) is rejected by `len < 15`
#[test]
fn f73_delete_consumer_offset_one_char_names() {
    use iggy::consumer::Consumer;
    use iggy::consumer_offsets::delete_consumer_offset::DeleteConsumerOffset;
    let c = DeleteConsumerOffset {
        consumer: Consumer::group(Identifier::named("g").unwrap()),
        stream_id: Identifier::named("s").unwrap(),
        topic_id: Identifier::named("t").unwrap(),
        partition_id: Some(1),
    };
    let b = c.to_bytes();
    println!("DeleteConsumerOffset frame length = {}", b.len());
    let r = DeleteConsumerOffset::from_bytes(b);
    println!("DeleteConsumerOffset::from_bytes -> {:?}", r);
    assert_eq!(r.unwrap(), c);
}

// F74: LoginWithPersonalAccessToken with a 1- or 2-character token (valid for `validate()`: non-empty, <= 100) is rejected by `len < 4`
#[test]
fn f74_login_with_pat_short_token() {
    use iggy::personal_access_tokens::login_with_personal_access_token::LoginWithPersonalAccessToken;
    use iggy::validatable::Validatable;
    let c = LoginWithPersonalAccessToken { token: "ab".to_string() };
    println!("validate() -> {:?}", c.validate());
    assert!(c.validate().is_ok());
    let b = c.to_bytes();
    println!("LoginWithPersonalAccessToken frame length = {}", b.len());
    let r = LoginWithPersonalAccessToken::from_bytes(b);
    println!("LoginWithPersonalAccessToken::from_bytes -> {:?}", r);
    assert_eq!(r.unwrap(), c);
}

// F75: Permissions with an EMPTY streams/topics map (Some({})): the encoder announces entries (flag 1) but writes none; the decoder
// then reads the following bytes as an entry: buffer underrun (panic) or, when more streams follow, a DIFFERENT permission set.
mod f75 {
    use ahash::AHashMap;
    use iggy::bytes_serializable::BytesSerializable;
    use iggy::models::permissions::{GlobalPermissions, Permissions, StreamPermissions};
    use iggy::models::user_status::UserStatus;
    use iggy::users::create_user::CreateUser;
    use iggy::validatable::Validatable;

    fn decode(p: &Permissions) -> Result<Permissions, String> {
        let bytes = p.to_bytes();
        println!("frame = {:?}", bytes.to_vec());
        match std::panic::catch_unwind(|| Permissions::from_bytes(bytes)) {
            Ok(r) => r.map_err(|e| format!("Err({e:?})")),
            Err(_) => Err("PANIC in Permissions::from_bytes".to_string()),
        }
    }
    #[test]
    fn f75a_empty_streams_map() {
        let p = Permissions { global: GlobalPermissions::default(), streams: Some(AHashMap::new()) };
        let r = decode(&p);
        println!("Permissions::from_bytes -> {:?}", r);
        let q = r.expect("decoder must accept the SDK-built frame");
        assert!(q.streams.map(|m| m.len()).unwrap_or(0) == 0 && q.global == p.global);
    }
    #[test]
    fn f75b_empty_topics_map_followed_by_another_stream() {
        // both streams are built alike, so the result does not depend on the hash map's iteration order
        let sp = || StreamPermissions { manage_stream: true, read_stream: true, manage_topics: false, read_topics: false,
                                        poll_messages: false, send_messages: true, topics: Some(AHashMap::new()) };
        let p = Permissions { global: GlobalPermissions::default(), streams: Some(AHashMap::from([(1, sp()), (2, sp())])) };
        let r = decode(&p);
        println!("Permissions::from_bytes -> {:?}", r);
        let q = r.expect("decoder must accept the SDK-built frame");
        let qs = q.streams.expect("two streams went in");
        assert_eq!(qs.len(), 2, "two streams went in, decoded: {:?}", qs);
        for (_, s) in qs { assert!(s.topics.map(|t| t.len()).unwrap_or(0) == 0, "no topic permission went in"); }
    }
    #[test]
    fn f75c_create_user_command_with_empty_streams_map() {
        // the request that carries it (also what the server writes to its state log for a user created with `"streams": {}`)
        let c = CreateUser { username: "user".to_string(), password: "secret".to_string(), status: UserStatus::Active,
                             permissions: Some(Permissions { global: GlobalPermissions::default(), streams: Some(AHashMap::new()) }) };
        println!("validate() -> {:?}", c.validate());
        assert!(c.validate().is_ok());
        let bytes = c.to_bytes();
        let r = std::panic::catch_unwind(|| CreateUser::from_bytes(bytes));
        println!("CreateUser::from_bytes -> {:?}", r.as_ref().map(|x| x.as_ref().map(|_| "Ok(..)")).map_err(|_| "PANIC"));
        assert!(matches!(r, Ok(Ok(_))));
    }
}

// ---- observations (representational limits of the wire format; the clauses exclude these values from `valid`) -------------------
mod observations {
    use bytes::Bytes;
    use iggy::bytes_serializable::BytesSerializable;
    use iggy::identifier::Identifier;
    use iggy::messages::send_messages::{Message, Partitioning, SendMessages};
    use iggy::topics::create_topic::CreateTopic;
    use iggy::users::login_user::LoginUser;
    use iggy::utils::byte_size::IggyByteSize;
    use iggy::utils::duration::IggyDuration;
    use iggy::utils::expiry::IggyExpiry;
    use iggy::utils::topic_size::MaxTopicSize;
    use iggy::validatable::Validatable;
    use std::str::FromStr;
    use std::time::Duration;

    fn topic(e: IggyExpiry, s: MaxTopicSize) -> CreateTopic {
        CreateTopic { stream_id: Identifier::numeric(1).unwrap(), topic_id: Some(1), partitions_count: 1, compression_algorithm: Default::default(),
                      message_expiry: e, max_topic_size: s, replication_factor: None, name: "t".to_string() }
    }
    #[test]
    fn o1_expiry_sentinels_and_truncation() {
        let parsed = IggyExpiry::from_str("0s").unwrap();
        println!("IggyExpiry::from_str(\"0s\") = {:?}", parsed);
        for e in [parsed, IggyExpiry::ExpireDuration(IggyDuration::from(u64::MAX)), IggyExpiry::ExpireDuration(IggyDuration::new(Duration::from_nanos(1_500)))] {
            let c = topic(e, MaxTopicSize::ServerDefault);
            assert!(c.validate().is_ok());
            let d = CreateTopic::from_bytes(c.to_bytes()).unwrap();
            println!("sent {:?} -> decoded {:?}", c.message_expiry, d.message_expiry);
        }
    }
    #[test]
    fn o2_max_topic_size_sentinels() {
        for s in [MaxTopicSize::Custom(IggyByteSize::from(0)), MaxTopicSize::Custom(IggyByteSize::from(u64::MAX))] {
            let c = topic(IggyExpiry::NeverExpire, s);
            let d = CreateTopic::from_bytes(c.to_bytes()).unwrap();
            println!("sent {:?} -> decoded {:?}", c.max_topic_size, d.max_topic_size);
        }
    }
    #[test]
    fn o3_login_user_empty_version() {
        let c = LoginUser { username: "user".into(), password: "secret".into(), version: Some(String::new()), context: Some("ctx".into()) };
        let d = LoginUser::from_bytes(c.to_bytes()).unwrap();
        println!("sent version {:?} -> decoded {:?}", c.version, d.version);
    }
}

// F75 consequence on the server: the state journal stores a CreateUser/UpdatePermissions command with the SAME codec. A user created
// (e.g. over HTTP/JSON: `"streams": {}`) with an empty streams map is journalled; replaying the journal entry panics.
#[test]
fn f75d_state_journal_entry_with_empty_streams_map() {
    use ahash::AHashMap;
    use iggy::models::permissions::{GlobalPermissions, Permissions};
    use iggy::models::user_status::UserStatus;
    use iggy::users::create_user::CreateUser;
    use server::state::command::EntryCommand;
    let entry = EntryCommand::CreateUser(CreateUser { username: "user".to_string(), password: "hash".to_string(), status: UserStatus::Active,
        permissions: Some(Permissions { global: GlobalPermissions::default(), streams: Some(AHashMap::new()) }) });
    let bytes = entry.to_bytes();
    let r = std::panic::catch_unwind(|| EntryCommand::from_bytes(bytes).map(|_| ()));
    println!("EntryCommand::from_bytes -> {:?}", r.as_ref().map_err(|_| "PANIC"));
    assert!(matches!(r, Ok(Ok(()))));
}

// F70/F71/F72 consequence on the server: the HTTP handlers journal these commands with the SAME codec (state::command::EntryCommand);
// an entry for a stream/topic addressed by a short name is written but cannot be read back, so the journal no longer loads.
#[test]
fn f70_f71_f72_state_journal_entries_with_short_names() {
    use server::state::command::EntryCommand;
    let entries = vec![
        ("PurgeStream", EntryCommand::PurgeStream(PurgeStream { stream_id: Identifier::named("s").unwrap() })),
        ("DeleteTopic", EntryCommand::DeleteTopic(DeleteTopic { stream_id: Identifier::named("s").unwrap(), topic_id: Identifier::numeric(1).unwrap() })),
        ("PurgeTopic", EntryCommand::PurgeTopic(PurgeTopic { stream_id: Identifier::named("s").unwrap(), topic_id: Identifier::named("t").unwrap() })),
    ];
    let mut bad = 0;
    for (name, e) in entries {
        let r = EntryCommand::from_bytes(e.to_bytes());
        println!("EntryCommand::{} journal entry reads back as {:?}", name, r.as_ref().map(|_| "Ok").map_err(|e| format!("{e:?}")));
        if r.is_err() { bad += 1; }
    }
    assert_eq!(bad, 0);
}
